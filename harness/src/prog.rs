//! Program engine for BFV/BGV: a pool of ciphertexts with shadow plaintexts in
//! Z_t[X]/(X^N+1), typed random operations executed through the real Evaluator in any of
//! the three API forms, worst-case noise bookkeeping, and per-step observation by the
//! oracle decryptor. Used by C02 (homomorphism), C06 (validity / variants) and C07 (budget).

use crate::big::{centered, BigI, BigU};
use crate::he::*;
use crate::refm;
use crate::rt::*;
use heathcliff::*;

#[derive(Clone, Copy, PartialEq, Eq, Debug)]
pub enum Form { Inplace, Dest, New }
pub const FORMS: [Form; 3] = [Form::Inplace, Form::Dest, Form::New];

#[derive(Clone, Debug)]
pub enum Op {
    Negate(usize),
    Add(usize, usize),
    Sub(usize, usize),
    AddMany(Vec<usize>),
    Multiply(usize, usize),
    Square(usize),
    AddPlain(usize, Vec<u64>),
    SubPlain(usize, Vec<u64>),
    /// multiply by plaintext; bool = hand the plaintext over in NTT form
    MultiplyPlain(usize, Vec<u64>, bool),
    ToNtt(usize),
    FromNtt(usize),
    Relinearize(usize),
    ModSwitchNext(usize),
}

impl Op {
    pub fn name(&self) -> &'static str {
        match self {
            Op::Negate(_) => "negate", Op::Add(..) => "add", Op::Sub(..) => "sub", Op::AddMany(_) => "add_many",
            Op::Multiply(..) => "multiply", Op::Square(_) => "square", Op::AddPlain(..) => "add_plain", Op::SubPlain(..) => "sub_plain",
            Op::MultiplyPlain(_, _, false) => "multiply_plain", Op::MultiplyPlain(_, _, true) => "multiply_plain_ntt",
            Op::ToNtt(_) => "transform_to_ntt", Op::FromNtt(_) => "transform_from_ntt", Op::Relinearize(_) => "relinearize", Op::ModSwitchNext(_) => "mod_switch_to_next",
        }
    }
}

#[derive(Clone)]
pub struct Elem {
    pub ct: Ciphertext,
    /// shadow message polynomial mod t (length N)
    pub m: Vec<u64>,
    /// pure analytic worst-case bound (recursion from fresh bounds): BFV |eps|, BGV |phase|; +inf when lost
    pub e_an: f64,
    /// bound derived in one step from the operands' *measured* noise (sound, tighter); None without oracle
    pub e_step: Option<f64>,
    /// measured noise of this element relative to its shadow (BFV |eps|, BGV |phase|)
    pub e_meas: Option<f64>,
    pub level: usize,
    pub origin: String,
}

/// dirty destination: holds an unrelated ciphertext of different size/level
/// A destination argument is an output buffer: whatever it held before must not matter. So it holds something different on
/// every call of a case — any level (including the one the result will live on), size 2..5 (smaller, equal, larger than the
/// result), either representation flag, a stale BGV correction factor, a stale scale, non-zero data.
pub fn dirty(kit: &Kit) -> Ciphertext {
    let k = crate::rt::case_tick();
    let nl = kit.levels.len() as u64;
    let mut c = Ciphertext::new();
    c.resize(&kit.ctx, kit.levels[(k % nl) as usize].parms_id(), 2 + ((k / nl) % 4) as usize);
    for (i, x) in c.data_mut().iter_mut().enumerate() { *x = ((i as u64) ^ k) & 1; }
    c.set_is_ntt_form((k >> 2) & 1 == 1);
    match kit.spec.scheme {
        SchemeType::BGV => { let t = kit.t(); if t > 3 { c.set_correction_factor(2 + k % (t - 2)); } }
        SchemeType::CKKS => c.set_scale(1.5 * (1u64 << (k % 7)) as f64),
        _ => {}
    }
    c
}

pub fn poly_l1(p: &[u64]) -> f64 { p.iter().map(|&x| x as f64).sum() }

pub struct Machine<'a> {
    pub kit: &'a Kit,
    pub oracle: Option<Oracle>,
    pub rlk: Option<RelinKeys>,
    pub pool: Vec<Elem>,
    pub bfv: bool,
}

fn h_bound(n: usize, size: usize) -> f64 { let mut s = 0.0; let mut p = 1.0; for _ in 0..size { s += p; p *= n as f64; } 1.02 * s + 1.0 }
fn geo(n: usize, terms: usize) -> f64 { let mut s = 0.0; let mut p = 1.0; for _ in 0..terms { s += p; p *= n as f64; } s }

impl<'a> Machine<'a> {
    pub fn new(kit: &'a Kit, with_oracle: bool) -> Machine<'a> {
        let oracle = if with_oracle { Oracle::new(&kit.ctx, &kit.sk).ok() } else { None };
        let rlk = if kit.has_keyswitching() { lib(|| kit.keygen.create_relin_keys(false)).ok() } else { None };
        Machine { kit, oracle, rlk, pool: vec![], bfv: kit.spec.scheme == SchemeType::BFV }
    }
    pub fn n(&self) -> usize { self.kit.n() }
    pub fn t(&self) -> u64 { self.kit.t() }
    pub fn q_f64(&self, level: usize) -> f64 { self.kit.level_qs(level).iter().map(|&q| q as f64).product() }
    pub fn log2q(&self, level: usize) -> f64 { self.kit.level_qs(level).iter().map(|&q| (q as f64).log2()).sum() }

    /// threshold: largest noise bound under which decryption is guaranteed (with margin 4)
    pub fn within(&self, e: f64, level: usize) -> bool {
        if !e.is_finite() || e <= 0.0 { return e == 0.0; }
        if self.bfv { e.log2() + (self.t() as f64).log2() + 2.0 < self.log2q(level) } else { e.log2() + 2.0 < self.log2q(level) }
    }

    pub fn fresh_bound(&self, pk: bool) -> f64 {
        let n = self.n();
        let switched = pk && self.kit.levels[0].prev_context_data().is_some();
        // a public-key encryption under a special prime p is made one level up and switched down: its error is divided by p
        // (then below 1 for every p the generators produce that exceeds the bound) and the rounding of the switch is added
        let b = if switched { let p = *self.kit.key_qs().last().unwrap() as f64; (fresh_noise_bound(n, pk) / p).ceil() + modswitch_bound(n) + 1.0 } else { fresh_noise_bound(n, pk) };
        if self.bfv { b + 1.0 } else { self.t() as f64 * (b + 2.0) }
    }

    /// encrypt a plaintext polynomial (coefficients < t) and add it to the pool
    pub fn fresh(&mut self, coeffs: &[u64], pk: bool) -> Result<usize, Panicked> {
        let p = self.kit.plain_from_coeffs(coeffs);
        // the encryptor entry point varies from call to call (value-returning / destination / caller-supplied u sampler / seeded)
        let k = crate::rt::case_tick();
        let blake = || { use rand::SeedableRng; let mut seed = [0u8; 64]; for i in 0..8 { let w = k.wrapping_mul(0x9e37_79b9_7f4a_7c15).wrapping_add(i as u64 * 0x1234_5678_9abc_def1) | 1; seed[i * 8..i * 8 + 8].copy_from_slice(&w.to_le_bytes()); } heathcliff::util::BlakeRNG::from_seed(heathcliff::util::PRNGSeed(seed)) };
        let kit = self.kit;
        let ct = lib(|| if pk { match k % 4 {
                0 => kit.enc.encrypt_new(&p),
                1 => { let mut d = dirty(kit); kit.enc.encrypt(&p, &mut d); d }
                2 => { let mut g = blake(); kit.enc.encrypt_new_with_u_prng(&p, &mut g) }
                _ => { let mut g = blake(); let mut d = Ciphertext::new(); kit.enc.encrypt_with_u_prng(&p, &mut g, &mut d); d }
            } } else { match k % 3 {
                0 => { let mut c = Ciphertext::new(); kit.enc.encrypt_symmetric(&p, &mut c); c }
                1 => { let mut g = blake(); let mut d = dirty(kit); kit.enc.encrypt_symmetric_with_u_prng(&p, &mut g, &mut d); d }
                _ => { let c = kit.enc.encrypt_symmetric_new(&p); if c.contains_seed() { c.expand_seed(&kit.ctx) } else { c } }
            } })?;
        let mut m = coeffs.to_vec(); m.resize(self.n(), 0);
        let e = self.fresh_bound(pk);
        let mut el = Elem { ct, m, e_an: e, e_step: Some(e), e_meas: None, level: 0, origin: format!("fresh_{}", if pk { "pk" } else { "sk" }) };
        self.measure(&mut el);
        self.pool.push(el);
        Ok(self.pool.len() - 1)
    }

    /// measured noise relative to the shadow. BFV: |eps| with t*eps = centered_{tq}(t*x - q*m). BGV: |x| (centered phase).
    pub fn measure(&self, el: &mut Elem) {
        let Some(o) = &self.oracle else { return };
        let (ph, q) = o.phase(&self.kit.ctx, &el.ct);
        let t = self.t();
        if self.bfv {
            let tq = q.mul_u64(t);
            let mut worst = BigU::zero();
            for (j, x) in ph.iter().enumerate() {
                let v = x.mul_u64(t).sub(&BigI::from_u(q.mul_u64(el.m[j])));
                let c = centered(&v.modp(&tq), &tq).abs();
                if c > worst { worst = c; }
            }
            el.e_meas = Some(worst.to_f64() / t as f64);
        } else {
            let worst = ph.iter().map(|x| x.abs()).max().unwrap_or_default();
            el.e_meas = Some(worst.to_f64());
        }
    }

    /// Is `op` well typed on the current pool?  (None = fine, Some(reason) = not applicable)
    pub fn applicable(&self, op: &Op) -> Option<&'static str> {
        let default_ntt = !self.bfv;
        let same = |a: usize, b: usize| -> Option<&'static str> {
            let (x, y) = (&self.pool[a], &self.pool[b]);
            if x.level != y.level { return Some("levels differ"); }
            if x.ct.is_ntt_form() != y.ct.is_ntt_form() { return Some("forms differ"); }
            None
        };
        match op {
            Op::Negate(_) => None,
            Op::Add(a, b) | Op::Sub(a, b) => same(*a, *b),
            Op::AddMany(v) => { for w in v.windows(2) { if let Some(r) = same(w[0], w[1]) { return Some(r); } } None }
            Op::Multiply(a, b) => {
                if let Some(r) = same(*a, *b) { return Some(r); }
                if self.pool[*a].ct.is_ntt_form() != default_ntt { return Some("multiply needs the default form"); }
                if self.pool[*a].ct.size() + self.pool[*b].ct.size() - 1 > 16 { return Some("size limit"); }
                None
            }
            Op::Square(a) => {
                if self.pool[*a].ct.is_ntt_form() != default_ntt { return Some("square needs the default form"); }
                if 2 * self.pool[*a].ct.size() - 1 > 16 { return Some("size limit"); }
                None
            }
            Op::AddPlain(a, _) | Op::SubPlain(a, _) => if self.pool[*a].ct.is_ntt_form() != default_ntt { Some("add_plain needs the default form") } else { None },
            Op::MultiplyPlain(..) => None,
            Op::ToNtt(a) => if self.pool[*a].ct.is_ntt_form() { Some("already ntt") } else { None },
            Op::FromNtt(a) => if !self.pool[*a].ct.is_ntt_form() { Some("already coefficient form") } else { None },
            Op::Relinearize(a) => {
                if self.rlk.is_none() { return Some("no key switching"); }
                if self.pool[*a].ct.size() != 3 { return Some("relinearize needs size 3 with the public key set"); }
                if self.pool[*a].ct.is_ntt_form() != default_ntt { return Some("relinearize needs the default form"); }
                None
            }
            Op::ModSwitchNext(a) => {
                if self.pool[*a].level + 1 >= self.kit.levels.len() { return Some("last level"); }
                if self.pool[*a].ct.is_ntt_form() != default_ntt { return Some("mod switch needs the default form"); }
                None
            }
        }
    }

    fn plain_for(&self, coeffs: &[u64], ntt: bool, ct: &Ciphertext) -> Plaintext {
        let p = self.kit.plain_from_coeffs(coeffs);
        if ntt { self.kit.eval.transform_plain_to_ntt_new(&p, ct.parms_id()) } else { p }
    }

    /// Execute `op` through the library in the given API form. Panics are returned.
    pub fn execute(&self, op: &Op, form: Form) -> Result<Ciphertext, Panicked> {
        let ev = &self.kit.eval;
        let kit = self.kit;
        let c = |i: &usize| &self.pool[*i].ct;
        lib(|| {
            macro_rules! un { ($a:expr, $inpl:ident, $dest:ident, $new:ident $(, $extra:expr)*) => {
                match form {
                    Form::Inplace => { let mut x = c($a).clone(); ev.$inpl(&mut x $(, $extra)*); x }
                    Form::Dest => { let mut d = dirty(kit); ev.$dest(c($a) $(, $extra)*, &mut d); d }
                    Form::New => ev.$new(c($a) $(, $extra)*),
                } } }
            macro_rules! bin { ($a:expr, $b:expr, $inpl:ident, $dest:ident, $new:ident) => {
                match form {
                    Form::Inplace => { let mut x = c($a).clone(); ev.$inpl(&mut x, c($b)); x }
                    Form::Dest => { let mut d = dirty(kit); ev.$dest(c($a), c($b), &mut d); d }
                    Form::New => ev.$new(c($a), c($b)),
                } } }
            match op {
                Op::Negate(a) => un!(a, negate_inplace, negate, negate_new),
                Op::Add(a, b) => bin!(a, b, add_inplace, add, add_new),
                Op::Sub(a, b) => bin!(a, b, sub_inplace, sub, sub_new),
                Op::AddMany(v) => {
                    let ops: Vec<Ciphertext> = v.iter().map(|i| self.pool[*i].ct.clone()).collect();
                    match form { Form::New => ev.add_many_new(&ops), _ => { let mut d = dirty(kit); ev.add_many(&ops, &mut d); d } }
                }
                Op::Multiply(a, b) => bin!(a, b, multiply_inplace, multiply, multiply_new),
                Op::Square(a) => un!(a, square_inplace, square, square_new),
                Op::AddPlain(a, p) => { let pl = self.plain_for(p, false, c(a)); match form {
                    Form::Inplace => { let mut x = c(a).clone(); ev.add_plain_inplace(&mut x, &pl); x }
                    Form::Dest => { let mut d = dirty(kit); ev.add_plain(c(a), &pl, &mut d); d }
                    Form::New => ev.add_plain_new(c(a), &pl) } }
                Op::SubPlain(a, p) => { let pl = self.plain_for(p, false, c(a)); match form {
                    Form::Inplace => { let mut x = c(a).clone(); ev.sub_plain_inplace(&mut x, &pl); x }
                    Form::Dest => { let mut d = dirty(kit); ev.sub_plain(c(a), &pl, &mut d); d }
                    Form::New => ev.sub_plain_new(c(a), &pl) } }
                Op::MultiplyPlain(a, p, ntt) => { let pl = self.plain_for(p, *ntt, c(a)); match form {
                    Form::Inplace => { let mut x = c(a).clone(); ev.multiply_plain_inplace(&mut x, &pl); x }
                    Form::Dest => { let mut d = dirty(kit); ev.multiply_plain(c(a), &pl, &mut d); d }
                    Form::New => ev.multiply_plain_new(c(a), &pl) } }
                Op::ToNtt(a) => un!(a, transform_to_ntt_inplace, transform_to_ntt, transform_to_ntt_new),
                Op::FromNtt(a) => un!(a, transform_from_ntt_inplace, transform_from_ntt, transform_from_ntt_new),
                Op::Relinearize(a) => { let rk = self.rlk.as_ref().expect("rlk"); match form {
                    Form::Inplace => { let mut x = c(a).clone(); ev.relinearize_inplace(&mut x, rk); x }
                    Form::Dest => { let mut d = dirty(kit); ev.relinearize(c(a), rk, &mut d); d }
                    Form::New => ev.relinearize_new(c(a), rk) } }
                Op::ModSwitchNext(a) => un!(a, mod_switch_to_next_inplace, mod_switch_to_next, mod_switch_to_next_new),
            }
        })
    }

    /// indices of the ciphertext operands of op
    pub fn operands(op: &Op) -> Vec<usize> {
        match op {
            Op::Negate(a) | Op::Square(a) | Op::ToNtt(a) | Op::FromNtt(a) | Op::Relinearize(a) | Op::ModSwitchNext(a) => vec![*a],
            Op::AddPlain(a, _) | Op::SubPlain(a, _) | Op::MultiplyPlain(a, _, _) => vec![*a],
            Op::Add(a, b) | Op::Sub(a, b) | Op::Multiply(a, b) => vec![*a, *b],
            Op::AddMany(v) => v.clone(),
        }
    }

    /// key-switch additive noise (in units of the error polynomial, before the BGV factor t)
    fn ks_noise(&self, level: usize) -> f64 {
        let n = self.n() as f64;
        let key_qs = self.kit.key_qs();
        let p = *key_qs.last().unwrap() as f64;
        let sumq: f64 = self.kit.level_qs(level).iter().map(|&q| q as f64).sum();
        ERR_MAX * n * sumq / p + (n + 1.0) + 2.0
    }

    /// one-step worst-case noise bound from operand bounds `e` (same order as `operands(op)`)
    fn step_bound(&self, op: &Op, e: &[f64], sizes: &[usize], level: usize, result: &Ciphertext) -> f64 {
        let n = self.n(); let nf = n as f64; let t = self.t() as f64;
        let k = self.kit.level_qs(level).len() as f64;
        let q = self.q_f64(level);
        match op {
            Op::Negate(_) | Op::ToNtt(_) | Op::FromNtt(_) => e[0],
            Op::Add(a, b) | Op::Sub(a, b) => {
                if self.bfv { e[0] + e[1] } else {
                    let (f1, f2, f) = (self.pool[*a].ct.correction_factor(), self.pool[*b].ct.correction_factor(), result.correction_factor());
                    if f1 == f2 { e[0] + e[1] } else {
                        let tt = self.t();
                        let e1 = refm::invmod(f1 % tt, tt).map(|i| refm::mulmod(i, f % tt, tt)).unwrap_or(tt) as f64;
                        let e2 = refm::invmod(f2 % tt, tt).map(|i| refm::mulmod(i, f % tt, tt)).unwrap_or(tt) as f64;
                        e1 * e[0] + e2 * e[1]
                    }
                }
            }
            Op::AddMany(v) => {
                if self.bfv || v.iter().all(|i| self.pool[*i].ct.correction_factor() == self.pool[v[0]].ct.correction_factor()) { e.iter().sum() } else { f64::INFINITY }
            }
            Op::Multiply(..) | Op::Square(_) => {
                let (e1, e2, s1, s2) = if let Op::Square(_) = op { (e[0], e[0], sizes[0], sizes[0]) } else { (e[0], e[1], sizes[0], sizes[1]) };
                if self.bfv {
                    nf * t * (e2 * (1.0 + h_bound(n, s1)) + e1 * (1.0 + h_bound(n, s2))) + nf * t * e1 * e2 / q + (k + 3.0) * geo(n, s1 + s2 - 1)
                } else { nf * e1 * e2 }
            }
            Op::AddPlain(..) | Op::SubPlain(..) => if self.bfv { e[0] + 1.0 } else { e[0] + t },
            Op::MultiplyPlain(_, p, _) => e[0] * poly_l1(p).max(1.0),
            Op::Relinearize(_) => if self.bfv { e[0] + self.ks_noise(level) } else { e[0] + t * self.ks_noise(level) + t },
            Op::ModSwitchNext(_) => {
                let ql = *self.kit.level_qs(level).last().unwrap() as f64;
                if self.bfv { e[0] / ql + geo(n, sizes[0]) / 2.0 + 1.0 } else { e[0] / ql + t * geo(n, sizes[0]) / 2.0 + t + 1.0 }
            }
        }
    }

    /// shadow of the result
    fn shadow(&self, op: &Op) -> Vec<u64> {
        let t = self.t();
        let m = |i: &usize| &self.pool[*i].m;
        let lift = |p: &Vec<u64>| { let mut v = p.clone(); v.resize(self.n(), 0); v };
        match op {
            Op::Negate(a) => refm::poly_neg(m(a), t),
            Op::Add(a, b) => refm::poly_add(m(a), m(b), t),
            Op::Sub(a, b) => refm::poly_sub(m(a), m(b), t),
            Op::AddMany(v) => { let mut acc = m(&v[0]).clone(); for i in &v[1..] { acc = refm::poly_add(&acc, m(i), t); } acc }
            Op::Multiply(a, b) => refm::negacyclic_mul(m(a), m(b), t),
            Op::Square(a) => refm::negacyclic_mul(m(a), m(a), t),
            Op::AddPlain(a, p) => refm::poly_add(m(a), &lift(p), t),
            Op::SubPlain(a, p) => refm::poly_sub(m(a), &lift(p), t),
            Op::MultiplyPlain(a, p, _) => refm::negacyclic_mul(m(a), &lift(p), t),
            Op::ToNtt(a) | Op::FromNtt(a) | Op::Relinearize(a) | Op::ModSwitchNext(a) => m(a).clone(),
        }
    }

    /// Build the pool element for the result `ct` of `op` (shadow, bounds, measurement). Does not push.
    pub fn result_elem(&self, op: &Op, ct: Ciphertext) -> Elem {
        let ops = Self::operands(op);
        let level0 = self.pool[ops[0]].level;
        let sizes: Vec<usize> = ops.iter().map(|i| self.pool[*i].ct.size()).collect();
        let e_an_in: Vec<f64> = ops.iter().map(|i| self.pool[*i].e_an).collect();
        let e_an = self.step_bound(op, &e_an_in, &sizes, level0, &ct);
        let e_step = if ops.iter().all(|i| self.pool[*i].e_meas.is_some()) {
            let e_in: Vec<f64> = ops.iter().map(|i| self.pool[*i].e_meas.unwrap().max(0.5)).collect();
            Some(self.step_bound(op, &e_in, &sizes, level0, &ct))
        } else { None };
        let level = if let Op::ModSwitchNext(_) = op { level0 + 1 } else { level0 };
        let mut el = Elem { ct, m: self.shadow(op), e_an, e_step, e_meas: None, level, origin: op.name().to_string() };
        self.measure(&mut el);
        el
    }

    /// expected metadata of the result: (size, level, ntt form)
    pub fn expected_meta(&self, op: &Op) -> (usize, usize, bool) {
        let ops = Self::operands(op);
        let a = &self.pool[ops[0]];
        match op {
            Op::Negate(_) | Op::AddPlain(..) | Op::SubPlain(..) | Op::MultiplyPlain(..) => (a.ct.size(), a.level, a.ct.is_ntt_form()),
            Op::Add(_, b) | Op::Sub(_, b) => (a.ct.size().max(self.pool[*b].ct.size()), a.level, a.ct.is_ntt_form()),
            Op::AddMany(v) => (v.iter().map(|i| self.pool[*i].ct.size()).max().unwrap(), a.level, a.ct.is_ntt_form()),
            Op::Multiply(_, b) => (a.ct.size() + self.pool[*b].ct.size() - 1, a.level, a.ct.is_ntt_form()),
            Op::Square(_) => (2 * a.ct.size() - 1, a.level, a.ct.is_ntt_form()),
            Op::ToNtt(_) => (a.ct.size(), a.level, true),
            Op::FromNtt(_) => (a.ct.size(), a.level, false),
            Op::Relinearize(_) => (2, a.level, a.ct.is_ntt_form()),
            Op::ModSwitchNext(_) => (a.ct.size(), a.level + 1, a.ct.is_ntt_form()),
        }
    }

    /// library decryption brought to a full-length coefficient vector (handles the required default form)
    pub fn lib_decrypt(&self, ct: &Ciphertext) -> Result<Vec<u64>, Panicked> {
        let default_ntt = !self.bfv;
        lib(|| {
            let tmp;
            let c = if ct.is_ntt_form() != default_ntt {
                tmp = if default_ntt { self.kit.eval.transform_to_ntt_new(ct) } else { self.kit.eval.transform_from_ntt_new(ct) };
                &tmp
            } else { ct };
            plain_coeffs(&self.kit.dec.decrypt_new(c), self.n())
        })
    }

    /// oracle message + budget (library's definition) of a ciphertext
    pub fn oracle_decrypt(&self, ct: &Ciphertext) -> Option<(Vec<u64>, usize)> {
        let o = self.oracle.as_ref()?;
        let (m, b, _) = if self.bfv { o.bfv(&self.kit.ctx, ct, self.t()) } else { o.bgv(&self.kit.ctx, ct, self.t()) };
        Some((m, b))
    }

    /// random applicable operation (None if nothing found in a few tries)
    pub fn random_op(&self, rng: &mut Rng) -> Option<Op> {
        let n = self.n(); let t = self.t();
        for _ in 0..40 {
            let a = rng.usize_below(self.pool.len());
            let b = rng.usize_below(self.pool.len());
            let plain = |rng: &mut Rng| -> Vec<u64> { crate::props::c01::gen_plain(rng, n, t).1 };
            let op = match rng.below(16) {
                0 => Op::Negate(a),
                1 | 2 => Op::Add(a, b),
                3 => Op::Sub(a, b),
                4 => { let cnt = rng.range(2, 5) as usize; Op::AddMany((0..cnt).map(|_| rng.usize_below(self.pool.len())).collect()) }
                5 | 6 | 7 => Op::Multiply(a, b),
                8 => Op::Square(a),
                9 => Op::AddPlain(a, plain(rng)),
                10 => Op::SubPlain(a, plain(rng)),
                11 => Op::MultiplyPlain(a, plain(rng), rng.bool()),
                12 => if self.pool[a].ct.is_ntt_form() { Op::FromNtt(a) } else { Op::ToNtt(a) },
                13 | 14 => Op::Relinearize(a),
                _ => Op::ModSwitchNext(a),
            };
            if self.applicable(&op).is_none() { return Some(op); }
        }
        None
    }
}
