//! Runtime of the monitors: deterministic RNG, panic capture, parallel case runner,
//! per-run report (coverage tables, samples, violations), known-findings matching,
//! evidence and replay files.

use serde_json::{json, Map, Value};
use std::cell::RefCell;
use std::collections::{BTreeMap, BTreeSet, HashSet};
use std::panic::{catch_unwind, AssertUnwindSafe};
use std::sync::atomic::{AtomicUsize, Ordering};
use std::sync::Mutex;
use std::time::Instant;

// ---------------------------------------------------------------- RNG
#[derive(Clone)]
pub struct Rng { s: [u64; 4] }
fn splitmix(x: &mut u64) -> u64 {
    *x = x.wrapping_add(0x9E3779B97F4A7C15);
    let mut z = *x;
    z = (z ^ (z >> 30)).wrapping_mul(0xBF58476D1CE4E5B9);
    z = (z ^ (z >> 27)).wrapping_mul(0x94D049BB133111EB);
    z ^ (z >> 31)
}
impl Rng {
    pub fn new(seed: u64) -> Rng {
        let mut x = seed;
        Rng { s: [splitmix(&mut x), splitmix(&mut x), splitmix(&mut x), splitmix(&mut x)] }
    }
    /// independent stream for (seed, a, b)
    pub fn derive(seed: u64, a: u64, b: u64) -> Rng {
        let mut x = seed ^ a.wrapping_mul(0xD1342543DE82EF95) ^ b.wrapping_mul(0xA24BAED4963EE407).rotate_left(17);
        let _ = splitmix(&mut x);
        Rng::new(splitmix(&mut x))
    }
    pub fn u64(&mut self) -> u64 {
        let r = self.s[1].wrapping_mul(5).rotate_left(7).wrapping_mul(9);
        let t = self.s[1] << 17;
        self.s[2] ^= self.s[0]; self.s[3] ^= self.s[1]; self.s[1] ^= self.s[2]; self.s[0] ^= self.s[3];
        self.s[2] ^= t; self.s[3] = self.s[3].rotate_left(45);
        r
    }
    pub fn u128(&mut self) -> u128 { (self.u64() as u128) << 64 | self.u64() as u128 }
    /// uniform in [0, n)
    pub fn below(&mut self, n: u64) -> u64 { if n == 0 { 0 } else { (self.u128() % n as u128) as u64 } }
    pub fn range(&mut self, lo: u64, hi_incl: u64) -> u64 { lo + self.below(hi_incl - lo + 1) }
    pub fn usize_below(&mut self, n: usize) -> usize { self.below(n as u64) as usize }
    pub fn bool(&mut self) -> bool { self.u64() & 1 == 1 }
    pub fn chance(&mut self, num: u64, den: u64) -> bool { self.below(den) < num }
    pub fn f64(&mut self) -> f64 { (self.u64() >> 11) as f64 / (1u64 << 53) as f64 }
    pub fn pick<'a, T>(&mut self, v: &'a [T]) -> &'a T { &v[self.usize_below(v.len())] }
    pub fn shuffle<T>(&mut self, v: &mut [T]) { for i in (1..v.len()).rev() { let j = self.usize_below(i + 1); v.swap(i, j); } }
    /// random value with a random bit length in [1, maxbits]
    pub fn bits(&mut self, maxbits: u32) -> u64 {
        let b = self.range(1, maxbits as u64) as u32;
        if b == 64 { self.u64() } else { self.u64() & ((1u64 << b) - 1) }
    }
}

// ---------------------------------------------------------------- panic capture
thread_local! {
    static LAST_PANIC: RefCell<Option<String>> = const { RefCell::new(None) };
    static QUIET: RefCell<bool> = const { RefCell::new(false) };
}

pub fn install_panic_hook() {
    let default = std::panic::take_hook();
    std::panic::set_hook(Box::new(move |info| {
        let msg = if let Some(s) = info.payload().downcast_ref::<&str>() { s.to_string() }
            else if let Some(s) = info.payload().downcast_ref::<String>() { s.clone() }
            else { "<non-string panic>".to_string() };
        let loc = info.location().map(|l| format!("{}:{}", l.file(), l.line())).unwrap_or_default();
        LAST_PANIC.with(|p| *p.borrow_mut() = Some(format!("{} @ {}", msg, loc)));
        let quiet = QUIET.with(|q| *q.borrow());
        if !quiet { default(info); }
    }));
}

#[derive(Debug, Clone)]
pub struct Panicked(pub String);

/// Run a library call; a panic is captured (not printed) and returned.
pub fn lib<T>(f: impl FnOnce() -> T) -> Result<T, Panicked> {
    let prev = QUIET.with(|q| std::mem::replace(&mut *q.borrow_mut(), true));
    let r = catch_unwind(AssertUnwindSafe(f));
    QUIET.with(|q| *q.borrow_mut() = prev);
    match r {
        Ok(v) => Ok(v),
        Err(_) => Err(Panicked(LAST_PANIC.with(|p| p.borrow_mut().take()).unwrap_or_else(|| "<unknown panic>".into()))),
    }
}

// ---------------------------------------------------------------- tiers
#[derive(Clone, Copy, PartialEq, Eq, Debug)]
pub enum Tier { Quick, Thorough }
impl Tier { pub fn name(&self) -> &'static str { match self { Tier::Quick => "quick", Tier::Thorough => "thorough" } } }

#[derive(Clone)]
pub struct Cfg {
    pub tier: Tier,
    pub seed: u64,
    pub jobs: usize,
    /// replay: run exactly one case
    pub only_case: Option<(String, u64)>,
    /// scale factor on the amount of work (VERIF_SCALE, default 1.0)
    pub scale: f64,
}
impl Cfg {
    pub fn quick(&self) -> bool { self.tier == Tier::Quick }
    pub fn pick<T>(&self, quick: T, thorough: T) -> T { if self.quick() { quick } else { thorough } }
    pub fn n(&self, quick: usize, thorough: usize) -> usize {
        let v = self.pick(quick, thorough) as f64 * self.scale;
        (v.ceil() as usize).max(1)
    }
}

// ---------------------------------------------------------------- report
#[derive(Clone, Debug)]
pub struct Violation {
    /// structural signature: `Cxx|operation|input class|failure kind`
    pub signature: String,
    pub detail: String,
    pub replay: Value,
}

#[derive(Default)]
pub struct Report {
    pub evaluations: u64,
    pub distinct: HashSet<u64>,
    pub tables: BTreeMap<String, BTreeMap<String, u64>>,
    pub mins: BTreeMap<String, f64>,
    pub maxs: BTreeMap<String, f64>,
    pub samples: Vec<Value>,
    pub violations: Vec<Violation>,
    pub harness_errors: Vec<String>,
    pub out_of_precondition: u64,
    pub notes: BTreeSet<String>,
    pub sig_counts: BTreeMap<String, u64>,
}

fn fnv(s: &str) -> u64 { let mut h = 0xcbf29ce484222325u64; for b in s.bytes() { h ^= b as u64; h = h.wrapping_mul(0x100000001b3); } h }

impl Report {
    pub fn new() -> Report { Report::default() }
    /// one evaluated case; `class` identifies the distinct non-trivial class (None = trivial)
    pub fn eval(&mut self, class: Option<&str>) {
        self.evaluations += 1;
        if let Some(c) = class { self.distinct.insert(fnv(c)); }
    }
    pub fn evals(&mut self, n: u64) { self.evaluations += n; }
    pub fn distinct_key(&mut self, c: &str) { self.distinct.insert(fnv(c)); }
    pub fn count(&mut self, table: &str, key: &str) { self.count_n(table, key, 1); }
    pub fn count_n(&mut self, table: &str, key: &str, n: u64) {
        if let Some(t) = self.tables.get_mut(table) {
            if let Some(v) = t.get_mut(key) { *v += n; return; }
            t.insert(key.to_string(), n); return;
        }
        self.tables.entry(table.to_string()).or_default().insert(key.to_string(), n);
    }
    pub fn min(&mut self, key: &str, v: f64) { let e = self.mins.entry(key.to_string()).or_insert(f64::INFINITY); if v < *e { *e = v; } }
    pub fn max(&mut self, key: &str, v: f64) { let e = self.maxs.entry(key.to_string()).or_insert(f64::NEG_INFINITY); if v > *e { *e = v; } }
    pub fn sample(&mut self, v: Value) { if self.samples.len() < 6 { self.samples.push(v); } }
    pub fn note(&mut self, s: &str) { self.notes.insert(s.to_string()); }
    pub fn violation(&mut self, signature: &str, detail: String, replay: Value) {
        let c = self.sig_counts.entry(signature.to_string()).or_insert(0);
        *c += 1;
        if *c <= 5 && self.violations.len() < 2000 {
            self.violations.push(Violation { signature: signature.to_string(), detail, replay });
        }
    }
    pub fn merge(&mut self, o: Report) {
        self.evaluations += o.evaluations;
        self.distinct.extend(o.distinct);
        for (t, m) in o.tables { let e = self.tables.entry(t).or_default(); for (k, v) in m { *e.entry(k).or_insert(0) += v; } }
        for (k, v) in o.mins { self.min(&k, v); }
        for (k, v) in o.maxs { self.max(&k, v); }
        for s in o.samples { self.sample(s); }
        for v in o.violations {
            let kept = self.violations.iter().filter(|x| x.signature == v.signature).count();
            if kept < 5 && self.violations.len() < 2000 { self.violations.push(v); }
        }
        for (k, v) in o.sig_counts { *self.sig_counts.entry(k).or_insert(0) += v; }
        self.harness_errors.extend(o.harness_errors);
        self.out_of_precondition += o.out_of_precondition;
        self.notes.extend(o.notes);
    }
}

/// Run `n` cases of group `group` on `cfg.jobs` threads. Each case gets its own RNG derived
/// from (seed, group, index) and a thread-local library entropy seed derived the same way,
/// so a single case can be replayed alone. A panic escaping the case closure (i.e. not
/// captured with `lib(..)`) is a *harness error* (inconclusive), never a violation.
pub fn run_cases<F>(cfg: &Cfg, group: &str, n: u64, report: &mut Report, f: F)
where F: Fn(u64, &mut Rng, &mut Report) + Sync {
    let gid = fnv(group);
    let mut indices: Vec<u64> = match &cfg.only_case {
        Some((g, i)) => if g == group { vec![*i] } else { vec![] },
        None => (0..n).collect(),
    };
    if (cfg!(miri) || std::env::var("HV_MIRI_MODE").is_ok()) && cfg.only_case.is_none() {
        // Interpreted run (tools/extra_passes.sh, Miri as undefined-behaviour monitor): a few cases per group, chosen by the
        // seed; groups at large degrees are out of an interpreter's reach; no new case after the time budget.
        let cap: usize = std::env::var("HV_MIRI_CASES").ok().and_then(|s| s.parse().ok()).unwrap_or(2);
        let budget: u64 = std::env::var("HV_MIRI_BUDGET_S").ok().and_then(|s| s.parse().ok()).unwrap_or(300);
        let heavy = ["big", "large", "mid", "1024", "long", "exhaustive", "universe"].iter().any(|w| group.contains(w));
        if heavy || START.get_or_init(Instant::now).elapsed().as_secs() > budget { println!("MIRI-SKIP group={}", group); return; }
        let mut pick = Rng::derive(cfg.seed, gid, 0xfeed);
        let mut chosen = vec![];
        for _ in 0..cap.min(indices.len()) { chosen.push(indices[pick.usize_below(indices.len())]); }
        indices = chosen;
        println!("MIRI-GROUP group={} of={} cases={:?} scale={} tier={}", group, n, indices, cfg.scale, cfg.tier.name());
    }
    let next = AtomicUsize::new(0);
    let merged = Mutex::new(Report::new());
    let jobs = cfg.jobs.max(1).min(indices.len().max(1));
    std::thread::scope(|s| {
        for _ in 0..jobs {
            s.spawn(|| {
                let mut local = Report::new();
                loop {
                    let k = next.fetch_add(1, Ordering::SeqCst);
                    if k >= indices.len() { break; }
                    let i = indices[k];
                    let mut rng = Rng::derive(cfg.seed, gid, i);
                    heathcliff::verif::set_thread_entropy(Some(Rng::derive(cfg.seed ^ 0x5eed, gid, i).u64()));
                    case_begin(group, i);
                    let r = catch_unwind(AssertUnwindSafe(|| f(i, &mut rng, &mut local)));
                    case_end();
                    heathcliff::verif::set_thread_entropy(None);
                    if r.is_err() {
                        let msg = LAST_PANIC.with(|p| p.borrow_mut().take()).unwrap_or_default();
                        local.harness_errors.push(format!("group={} case={} : {}", group, i, msg));
                    }
                }
                merged.lock().unwrap().merge(local);
            });
        }
    });
    report.merge(merged.into_inner().unwrap());
}

// ---------------------------------------------------------------- case watchdog (bounded progress)
static START: std::sync::OnceLock<Instant> = std::sync::OnceLock::new();
static ACTIVE: Mutex<Vec<(std::thread::ThreadId, String, u64, Instant)>> = Mutex::new(Vec::new());

thread_local! { static CASE_TICK: std::cell::Cell<u64> = const { std::cell::Cell::new(0) }; }
/// a per-case call counter (reset when a case begins): lets helpers vary deterministically from call to call within a case
pub fn case_tick() -> u64 { CASE_TICK.with(|c| { let v = c.get(); c.set(v + 1); v }) }
fn case_begin(group: &str, case: u64) {
    CASE_TICK.with(|c| c.set(case.wrapping_mul(0x9e37_79b9) & 0xffff)); ACTIVE.lock().unwrap().push((std::thread::current().id(), group.to_string(), case, Instant::now())); }
fn case_end() { let id = std::thread::current().id(); ACTIVE.lock().unwrap().retain(|e| e.0 != id); }

// ---------------------------------------------------------------- fatal signals
struct CrashCtx { prop: String, cfg: Cfg, verif_dir: String }
static CRASH: std::sync::OnceLock<CrashCtx> = std::sync::OnceLock::new();

/// A fatal signal (abort from the allocator or a stack overflow, SIGSEGV, SIGFPE...) ends the process; `./check` turns that
/// exit status into a VIOLATION. This handler only adds which case the dying thread was executing: it writes that case's
/// replay file, prints one `CRASH-CASE` line and re-raises the signal with the default action. Best effort by design
/// (not async-signal-safe): if it fails the process still dies by a signal and the violation is reported without a case.
extern "C" fn on_fatal(sig: libc::c_int) {
    unsafe { libc::signal(sig, libc::SIG_DFL); }
    if let Some(ctx) = CRASH.get() {
        let me = std::thread::current().id();
        if let Ok(act) = ACTIVE.try_lock() {
            if let Some(e) = act.iter().find(|e| e.0 == me) {
                let dir = format!("{}/replays/{}", ctx.verif_dir, ctx.prop);
                let _ = std::fs::create_dir_all(&dir);
                let path = format!("{}/{}_crash_{}_{}.json", dir, ctx.cfg.tier.name(), e.1, e.2);
                let body = replay_json(&ctx.cfg, &e.1, e.2, json!({"fatal_signal": sig, "note": "the process was killed by this signal while executing this case"}));
                let _ = std::fs::write(&path, body.to_string());
                eprintln!("CRASH-CASE property={} group={} case={} signal={} replay={}", ctx.prop, e.1, e.2, sig, path);
            }
        }
    }
    unsafe { libc::raise(sig); }
}

pub fn install_crash_handler(prop: String, cfg: Cfg, verif_dir: String) {
    let _ = CRASH.set(CrashCtx { prop, cfg, verif_dir });
    if cfg!(miri) { return; } // Miri has no signal(); it reports the fault itself
    for sig in [libc::SIGABRT, libc::SIGFPE, libc::SIGILL, libc::SIGBUS] {
        unsafe { libc::signal(sig, on_fatal as extern "C" fn(libc::c_int) as libc::sighandler_t); }
    }
}

/// Start the process-wide watchdog: a case that does not finish within `deadline` (cases are designed to take well
/// under a second) is reported as a hang of the library call it is executing: VIOLATION line, replay file, evidence,
/// exit 1. The stuck thread cannot be cancelled, so the process ends here.
pub fn start_case_watchdog(prop: String, cfg: Cfg, verif_dir: String, deadline: std::time::Duration) {
    if cfg!(miri) { return; } // interpreted runs are ~1000x slower; wall-clock deadlines mean nothing there
    std::thread::spawn(move || loop {
        std::thread::sleep(std::time::Duration::from_secs(2));
        let stuck = ACTIVE.lock().unwrap().iter().find(|e| e.3.elapsed() > deadline).map(|e| (e.1.clone(), e.2));
        if let Some((group, case)) = stuck {
            let sig = format!("{}|{}|case_deadline|hang", prop, group);
            let known = load_known(&format!("{}/known_findings.json", verif_dir));
            if let Some(k) = known.iter().find(|k| k.property == prop && k.status == "known" && k.signature == sig) {
                println!("KNOWN-FINDING: property={} signature={} {}", prop, sig, k.what);
            }
            let dir = format!("{}/replays/{}", verif_dir, prop);
            let _ = std::fs::create_dir_all(&dir);
            let path = format!("{}/{}_hang_{}_{}.json", dir, cfg.tier.name(), group, case);
            let body = json!({"property": prop, "signature": sig, "detail": format!("case did not finish within {:?}", deadline), "replay": {"seed": cfg.seed, "tier": cfg.tier.name(), "group": group, "case": case, "info": {}}});
            let _ = std::fs::write(&path, serde_json::to_string_pretty(&body).unwrap());
            println!("VIOLATION property={} replay={}", prop, path);
            println!("  signature: {}", sig);
            println!("  detail: group {} case {} did not return within {:?} (cases normally take well under a second): a library call does not terminate", group, case, deadline);
            let ev = json!({"property_id": prop, "tier": cfg.tier.name(), "seed": cfg.seed, "level": "exploration",
                "coverage": {"evaluations": 1, "distinct_nontrivial": 2, "rule": "run aborted by the case watchdog", "samples": [{"group": group, "case": case}], "verdict": "violated", "unlisted_violation_signatures": [sig]},
                "assumptions": ["bounded progress: a case not finishing within the deadline is a hang"], "wall_s": deadline.as_secs_f64(), "violations": 1});
            let _ = std::fs::create_dir_all(format!("{}/evidence", verif_dir));
            if cfg.only_case.is_none() { let _ = std::fs::write(format!("{}/evidence/{}.json", verif_dir, prop), serde_json::to_string_pretty(&ev).unwrap()); }
            std::process::exit(1);
        }
    });
}

pub fn replay_json(cfg: &Cfg, group: &str, case: u64, extra: Value) -> Value {
    json!({"seed": cfg.seed, "tier": cfg.tier.name(), "group": group, "case": case, "info": extra})
}

// ---------------------------------------------------------------- findings + evidence
pub struct Known { pub property: String, pub signature: String, pub status: String, pub what: String }

pub fn load_known(path: &str) -> Vec<Known> {
    let Ok(s) = std::fs::read_to_string(path) else { return vec![] };
    let Ok(v) = serde_json::from_str::<Value>(&s) else { eprintln!("known_findings.json unreadable"); return vec![] };
    let mut out = vec![];
    if let Some(a) = v.get("findings").and_then(|x| x.as_array()) {
        for e in a {
            out.push(Known {
                property: e["property"].as_str().unwrap_or("").to_string(),
                signature: e["signature"].as_str().unwrap_or("").to_string(),
                status: e["status"].as_str().unwrap_or("").to_string(),
                what: e["what_failed"].as_str().unwrap_or("").to_string(),
            });
        }
    }
    out
}

pub struct Outcome { pub exit_code: i32 }

pub struct PropMeta {
    pub id: &'static str,
    pub level: &'static str,
    pub rule: &'static str,
    pub assumptions: Vec<String>,
    pub exhaustive: bool,
    /// minimum number of evaluations below which the run is inconclusive
    pub floor: u64,
}

pub fn finish(cfg: &Cfg, meta: &PropMeta, report: Report, started: Instant, verif_dir: &str) -> Outcome {
    let wall = started.elapsed().as_secs_f64();
    let known = load_known(&format!("{}/known_findings.json", verif_dir));
    let mut unlisted: Vec<&Violation> = vec![];
    let mut known_hit: BTreeMap<String, (String, u64)> = BTreeMap::new();
    for v in &report.violations {
        if let Some(k) = known.iter().find(|k| k.property == meta.id && k.status == "known" && k.signature == v.signature) {
            let total = report.sig_counts.get(&k.signature).copied().unwrap_or(1);
            known_hit.entry(k.signature.clone()).or_insert((k.what.clone(), total));
        } else {
            unlisted.push(v);
        }
    }
    for (sig, (what, n)) in &known_hit {
        println!("KNOWN-FINDING: property={} signature={} occurrences={} {}", meta.id, sig, n, what);
    }
    // write replays for unlisted violations (dedupe by signature, keep first 5 per signature)
    let mut per_sig: BTreeMap<String, u32> = BTreeMap::new();
    let replay_dir = format!("{}/replays/{}", verif_dir, meta.id);
    let mut printed = 0;
    for v in &unlisted {
        let c = per_sig.entry(v.signature.clone()).or_insert(0);
        *c += 1;
        if *c > 5 { continue; }
        let _ = std::fs::create_dir_all(&replay_dir);
        let path = format!("{}/{}_{}_{}.json", replay_dir, cfg.tier.name(), fnv(&v.signature) % 100000, c);
        let body = json!({"property": meta.id, "signature": v.signature, "detail": v.detail, "replay": v.replay});
        let _ = std::fs::write(&path, serde_json::to_string_pretty(&body).unwrap());
        println!("VIOLATION property={} replay={}", meta.id, path);
        println!("  signature: {}", v.signature);
        println!("  detail: {}", v.detail.chars().take(600).collect::<String>());
        printed += 1;
    }
    for e in report.harness_errors.iter().take(10) { println!("HARNESS-ERROR {}", e); }

    let replay_mode = cfg.only_case.is_some();
    // sub-runs under an interpreter / sanitizer at a tiny work factor (tools/extra_passes.sh) are judged on reports, not on volume
    let floor = if std::env::var("HV_NO_FLOOR").is_ok() { 1 } else { meta.floor };
    let mut inconclusive = !report.harness_errors.is_empty() || (!replay_mode && report.evaluations < floor) || (!replay_mode && report.distinct.len() < 2 && floor > 1);
    // Coverage anomaly: at the default work factor the number of evaluations is a property of the workload (it varies by a few
    // percent with the seed). A run that evaluated much less than the recorded baseline observed too little to say "held" —
    // typically because in-domain set-up calls (encrypt, key generation, encode) of many cases failed and their cases ended
    // early. That is an inconclusive run, never a pass (and never a violation by itself).
    let mut anomaly: Option<(u64, u64)> = None;
    if !replay_mode && std::env::var("HV_NO_FLOOR").is_err() && std::env::var("VERIF_SCALE").is_err() {
        if let Ok(txt) = std::fs::read_to_string(format!("{}/baseline_coverage.json", verif_dir)) {
            if let Ok(v) = serde_json::from_str::<Value>(&txt) {
                if let Some(b) = v.get(meta.id).and_then(|x| x.get(cfg.tier.name())).and_then(|x| x.as_u64()) {
                    if (report.evaluations as f64) < 0.75 * b as f64 { anomaly = Some((report.evaluations, b)); inconclusive = true; }
                }
            }
        }
    }
    let mut cov = Map::new();
    cov.insert("evaluations".into(), json!(report.evaluations));
    cov.insert("distinct_nontrivial".into(), json!(report.distinct.len()));
    cov.insert("rule".into(), json!(meta.rule));
    cov.insert("samples".into(), Value::Array(report.samples.clone()));
    cov.insert("exhaustive".into(), json!(meta.exhaustive));
    cov.insert("out_of_precondition".into(), json!(report.out_of_precondition));
    let mut tables = Map::new();
    for (t, m) in &report.tables {
        let mut mm = Map::new();
        for (k, v) in m { mm.insert(k.clone(), json!(v)); }
        tables.insert(t.clone(), Value::Object(mm));
    }
    cov.insert("tables".into(), Value::Object(tables));
    let mut mm = Map::new();
    for (k, v) in &report.mins { mm.insert(format!("min:{}", k), json!(v)); }
    for (k, v) in &report.maxs { mm.insert(format!("max:{}", k), json!(v)); }
    cov.insert("extremes".into(), Value::Object(mm));
    cov.insert("notes".into(), json!(report.notes.iter().collect::<Vec<_>>()));
    if let Ok(x) = std::env::var("HV_EXTRA_SUMMARY") { if let Ok(v) = serde_json::from_str::<Value>(&x) { cov.insert("extra_passes".into(), v); } }
    cov.insert("known_findings_seen".into(), json!(known_hit.iter().map(|(k, v)| json!({"signature": k, "occurrences": v.1})).collect::<Vec<_>>()));
    cov.insert("unlisted_violation_signatures".into(), json!(per_sig.keys().collect::<Vec<_>>()));
    cov.insert("harness_errors".into(), json!(report.harness_errors.len()));
    cov.insert("verdict".into(), json!(if !unlisted.is_empty() { "violated" } else if inconclusive { "inconclusive" } else { "held_on_observed" }));
    let ev = json!({
        "property_id": meta.id,
        "tier": cfg.tier.name(),
        "seed": cfg.seed,
        "level": meta.level,
        "coverage": Value::Object(cov),
        "assumptions": meta.assumptions,
        "wall_s": wall,
        "violations": unlisted.len(),
    });
    if !replay_mode {
        let _ = std::fs::create_dir_all(format!("{}/evidence", verif_dir));
        let path = format!("{}/evidence/{}.json", verif_dir, meta.id);
        std::fs::write(&path, serde_json::to_string_pretty(&ev).unwrap()).expect("write evidence");
    }
    println!("SUMMARY property={} tier={} seed={} evaluations={} distinct_nontrivial={} violations={} known_findings={} out_of_precondition={} wall_s={:.1}",
        meta.id, cfg.tier.name(), cfg.seed, report.evaluations, report.distinct.len(), unlisted.len(), known_hit.len(), report.out_of_precondition, wall);
    let _ = printed;
    if !unlisted.is_empty() { Outcome { exit_code: 1 } }
    else if inconclusive {
        println!("INCONCLUSIVE property={} harness_errors={} evaluations={} floor={}", meta.id, report.harness_errors.len(), report.evaluations, meta.floor);
        if let Some((e, b)) = anomaly { println!("  coverage anomaly: {} evaluations, the recorded baseline for this tier is {} (below 75%): too many cases ended before their checks", e, b); }
        Outcome { exit_code: 2 }
    } else { Outcome { exit_code: 0 } }
}
