//! C20 — homomorphic matrix products and convolutions equal the plaintext ones, for every shape
//! the helpers accept; output re-encoding is the inverse of output decoding; the RNS-plaintext
//! wrapper computes modulo the product of its plain moduli.
//!
//! Oracles (independent of the library): u128 matrix product / valid cross-correlation mod t,
//! f64 references for CKKS with a derived worst-case tolerance, `BigU` arithmetic mod prod t_i
//! (slot-wise and negacyclic-polynomial) for rns_plain.
//!
//! Findings at the time of writing (reported, not special-cased): Conv2dHelper::encode_weights_* sizes its buffer with
//! image_height instead of image_height_block (panic when the image is split along the height), and
//! MatmulHelper/Conv2dHelper::decrypt_outputs_bfv index the decrypted plaintext although BFV decryption trims
//! trailing zero coefficients (panic whenever the highest output coefficients are zero).
//!
//! "accepted" = the helper constructor returned. After that every panic and every mismatch is a
//! violation (all operand values are inside the noise precondition stated in `PropMeta`).

use crate::big::BigU;
use crate::he::*;
use crate::rt::*;
use heathcliff::app::conv2d::Conv2dHelper;
use heathcliff::app::matmul::bolt_cc_cr::MatmulBoltCcCr;
use heathcliff::app::matmul::bolt_cc_dc::MatmulBoltCcDc;
use heathcliff::app::matmul::bolt_cp::MatmulBoltCp;
use heathcliff::app::matmul::cheetah::MatmulHelper;
use heathcliff::app::matmul::{Cipher2d, MatmulHelperObjective, Plain2d};
use heathcliff::app::rns_plain::{
    RnspBatchEncoder, RnspCiphertext, RnspDecryptor, RnspEncryptionParameters, RnspEncryptor, RnspEvaluator,
    RnspExpandSeed, RnspHeContext, RnspKeyGenerator, RnspPlaintext,
};
use heathcliff::*;
use serde_json::{json, Value};

const P: &str = "C20";
/// CKKS encoding scale (inputs and weights); products carry DELTA^2 and are rescaled once.
const DELTA_LOG: i32 = 45;
/// bound on |x|, |w|, |bias| for CKKS operands
const CK_B: f64 = 4.0;

// ------------------------------------------------------------------ reporting context
struct Cx<'a> {
    cfg: &'a Cfg,
    rep: &'a mut Report,
    grp: &'static str,
    case: u64,
    /// structural class used in signatures
    class: String,
    info: Value,
    failed: bool,
}
impl<'a> Cx<'a> {
    fn viol(&mut self, op: &str, kind: &str, detail: String) {
        self.failed = true;
        let sig = format!("{}|{}|{}|{}", P, op, self.class, kind);
        let info = self.info.clone();
        self.rep.violation(&sig, format!("{}: {} ; case {}", op, detail, info), replay_json(self.cfg, self.grp, self.case, info.clone()));
    }
}

/// run a library step; a panic is a violation of the current config and ends it
macro_rules! step {
    ($cx:expr, $op:expr, $body:expr) => {
        match lib(|| $body) {
            Ok(v) => v,
            Err(p) => { let op: String = $op.to_string(); $cx.viol(&op, "panic", format!("panicked: {}", p.0)); return; }
        }
    };
}

fn ceil_div(a: usize, b: usize) -> usize { (a + b - 1) / b }
fn pow2f(e: i32) -> f64 { 2f64.powi(e) }

// ------------------------------------------------------------------ references
fn matmul_mod(x: &[u64], w: &[u64], m: usize, r: usize, n: usize, t: u64) -> Vec<u64> {
    let mut y = vec![0u64; m * n];
    for i in 0..m { for j in 0..n {
        let mut acc: u128 = 0;
        for k in 0..r { acc = (acc + (x[i * r + k] as u128 * w[k * n + j] as u128) % t as u128) % t as u128; }
        y[i * n + j] = acc as u64;
    } }
    y
}
fn matmul_f64(x: &[f64], w: &[f64], m: usize, r: usize, n: usize) -> Vec<f64> {
    let mut y = vec![0f64; m * n];
    for i in 0..m { for j in 0..n { let mut acc = 0.0; for k in 0..r { acc += x[i * r + k] * w[k * n + j]; } y[i * n + j] = acc; } }
    y
}
#[derive(Clone, Copy, Debug)]
struct ConvShape { b: usize, ci: usize, co: usize, h: usize, w: usize, kh: usize, kw: usize }
impl ConvShape {
    fn oh(&self) -> usize { self.h - self.kh + 1 }
    fn ow(&self) -> usize { self.w - self.kw + 1 }
    fn lx(&self) -> usize { self.b * self.ci * self.h * self.w }
    fn lw(&self) -> usize { self.co * self.ci * self.kh * self.kw }
    fn ly(&self) -> usize { self.b * self.co * self.oh() * self.ow() }
}
/// valid cross-correlation y[b,oc,i,j] = sum_{ic,a,c} x[b,ic,i+a,j+c] * w[oc,ic,a,c]
fn conv_mod(x: &[u64], w: &[u64], s: &ConvShape, t: u64) -> Vec<u64> {
    let (oh, ow) = (s.oh(), s.ow());
    let mut y = vec![0u64; s.ly()];
    for b in 0..s.b { for oc in 0..s.co { for i in 0..oh { for j in 0..ow {
        let mut acc: u128 = 0;
        for ic in 0..s.ci { for a in 0..s.kh { for c in 0..s.kw {
            let xi = ((b * s.ci + ic) * s.h + i + a) * s.w + j + c;
            let wi = ((oc * s.ci + ic) * s.kh + a) * s.kw + c;
            acc = (acc + (x[xi] as u128 * w[wi] as u128) % t as u128) % t as u128;
        } } }
        y[((b * s.co + oc) * oh + i) * ow + j] = acc as u64;
    } } } }
    y
}
fn conv_f64(x: &[f64], w: &[f64], s: &ConvShape) -> Vec<f64> {
    let (oh, ow) = (s.oh(), s.ow());
    let mut y = vec![0f64; s.ly()];
    for b in 0..s.b { for oc in 0..s.co { for i in 0..oh { for j in 0..ow {
        let mut acc = 0.0;
        for ic in 0..s.ci { for a in 0..s.kh { for c in 0..s.kw {
            acc += x[((b * s.ci + ic) * s.h + i + a) * s.w + j + c] * w[((oc * s.ci + ic) * s.kh + a) * s.kw + c];
        } } }
        y[((b * s.co + oc) * oh + i) * ow + j] = acc;
    } } } }
    y
}
fn addv_mod(a: &[u64], b: &[u64], t: u64) -> Vec<u64> { a.iter().zip(b).map(|(&x, &y)| ((x as u128 + y as u128) % t as u128) as u64).collect() }
fn addv_f64(a: &[f64], b: &[f64]) -> Vec<f64> { a.iter().zip(b).map(|(x, y)| x + y).collect() }

// ------------------------------------------------------------------ parameter sets
/// two 60-bit data primes + one 60-bit special prime (key level)
fn make_spec(rng: &mut Rng, scheme: SchemeType, n: usize, t: u64, family: &str, data_primes: usize) -> Option<Spec> {
    let qs = coeff_primes(n, &vec![60u32; data_primes + 1], rng)?;
    if qs.contains(&t) { return None; }
    Some(Spec { scheme, n, qs, t, special_flag: false, expand: true, family: family.to_string() })
}
/// batching prime t = 1 mod 2n with `bits` bits (scanning downward, skipping `skip`)
fn batching_prime(n: usize, bits: u32, skip: usize) -> Option<u64> { ntt_primes(n, bits.max((2 * n).trailing_zeros() + 2), 1, skip).into_iter().next() }

/// Worst-case BFV phase error after `adds` accumulated plaintext products (plus an optional packing),
/// against the decryption bound q/(2t), with a factor-8 margin. q >= 2^118 (two 60-bit primes).
/// per product: |e*p| <= N*(t/2)*(B_fresh+1) and the Delta*m*p wrap term <= N*t^2/2.
fn bfv_plainmul_in_budget(n: usize, t: u64, adds: usize, bf: f64) -> bool {
    let nf = n as f64; let tf = t as f64;
    let per = nf * (tf / 2.0) * (bf + 1.0) + nf * tf * tf / 2.0;
    let total = adds as f64 * per * 2.0 + pow2f(16) * nf * nf;
    total.log2() + 3.0 < 118.0 - (tf.log2() + 1.0)
}

// ------------------------------------------------------------------ operand generators
/// value classes for exact schemes; returns (name, nontrivial)
const U_CLASSES: [&str; 8] = ["random", "random", "random", "all_max", "sparse_small", "zero_w", "w_last_out_zero", "x_last_zero"];
fn gen_u(rng: &mut Rng, len: usize, t: u64, class: &str) -> Vec<u64> {
    match class {
        "all_max" => vec![t - 1; len],
        "sparse_small" => (0..len).map(|_| if rng.chance(3, 4) { 0 } else { 1 + rng.below((t - 1).min(3)) }).collect(),
        _ => (0..len).map(|_| rng.below(t)).collect(),
    }
}
fn gen_f(rng: &mut Rng, len: usize, class: &str) -> Vec<f64> {
    match class {
        "all_max" => vec![-CK_B; len],
        "sparse_small" => (0..len).map(|_| if rng.chance(3, 4) { 0.0 } else { 1.0 + rng.below(3) as f64 }).collect(),
        _ => (0..len).map(|_| (rng.f64() * 2.0 - 1.0) * CK_B).collect(),
    }
}

// ------------------------------------------------------------------ coefficient-packing helpers (Cheetah matmul, conv2d)
trait CoeffHelper {
    fn name(&self) -> &'static str;
    fn fwd_name(&self) -> &'static str;
    fn rev_name(&self) -> &'static str;
    fn enc_in_u(&self, e: &BatchEncoder, v: &[u64]) -> Plain2d;
    fn enc_w_u(&self, e: &BatchEncoder, v: &[u64]) -> Plain2d;
    fn enc_out_u(&self, e: &BatchEncoder, v: &[u64]) -> Plain2d;
    fn dec_out_u(&self, e: &BatchEncoder, d: &Decryptor, c: &Cipher2d) -> Vec<u64>;
    fn enc_in_f(&self, e: &CKKSEncoder, v: &[f64], p: Option<ParmsID>, s: f64) -> Plain2d;
    fn enc_w_f(&self, e: &CKKSEncoder, v: &[f64], p: Option<ParmsID>, s: f64) -> Plain2d;
    fn enc_out_f(&self, e: &CKKSEncoder, v: &[f64], p: Option<ParmsID>, s: f64) -> Plain2d;
    fn dec_out_f(&self, e: &CKKSEncoder, d: &Decryptor, c: &Cipher2d) -> Vec<f64>;
    fn fwd(&self, ev: &Evaluator, x: &Cipher2d, w: &Plain2d) -> Cipher2d;
    fn rev(&self, ev: &Evaluator, x: &Plain2d, w: &Cipher2d) -> Cipher2d;
    fn terms(&self) -> Vec<usize>;
    /// number of plaintext products accumulated into one output ciphertext, as seen in the encoded operands
    fn accumulations(&self, px: &Plain2d, pw: &Plain2d) -> usize;
    fn pack(&self, _ev: &Evaluator, _gk: &GaloisKeys, _c: &Cipher2d) -> Cipher2d { unreachable!() }
}
impl CoeffHelper for MatmulHelper {
    fn name(&self) -> &'static str { "MatmulHelper" }
    fn fwd_name(&self) -> &'static str { "matmul" }
    fn rev_name(&self) -> &'static str { "matmul_reverse" }
    fn enc_in_u(&self, e: &BatchEncoder, v: &[u64]) -> Plain2d { self.encode_inputs_bfv(e, v) }
    fn enc_w_u(&self, e: &BatchEncoder, v: &[u64]) -> Plain2d { self.encode_weights_bfv(e, v) }
    fn enc_out_u(&self, e: &BatchEncoder, v: &[u64]) -> Plain2d { self.encode_outputs_bfv(e, v) }
    fn dec_out_u(&self, e: &BatchEncoder, d: &Decryptor, c: &Cipher2d) -> Vec<u64> { self.decrypt_outputs_bfv(e, d, c) }
    fn enc_in_f(&self, e: &CKKSEncoder, v: &[f64], p: Option<ParmsID>, s: f64) -> Plain2d { self.encode_inputs_ckks(e, v, p, s) }
    fn enc_w_f(&self, e: &CKKSEncoder, v: &[f64], p: Option<ParmsID>, s: f64) -> Plain2d { self.encode_weights_ckks(e, v, p, s) }
    fn enc_out_f(&self, e: &CKKSEncoder, v: &[f64], p: Option<ParmsID>, s: f64) -> Plain2d { self.encode_outputs_ckks(e, v, p, s) }
    fn dec_out_f(&self, e: &CKKSEncoder, d: &Decryptor, c: &Cipher2d) -> Vec<f64> { self.decrypt_outputs_ckks(e, d, c) }
    fn fwd(&self, ev: &Evaluator, x: &Cipher2d, w: &Plain2d) -> Cipher2d { self.matmul(ev, x, w) }
    fn rev(&self, ev: &Evaluator, x: &Plain2d, w: &Cipher2d) -> Cipher2d { self.matmul_reverse(ev, x, w) }
    fn terms(&self) -> Vec<usize> { self.output_terms() }
    fn accumulations(&self, _px: &Plain2d, pw: &Plain2d) -> usize { pw.data.len() }
    fn pack(&self, ev: &Evaluator, gk: &GaloisKeys, c: &Cipher2d) -> Cipher2d { self.pack_outputs(ev, gk, c) }
}
impl CoeffHelper for Conv2dHelper {
    fn name(&self) -> &'static str { "Conv2dHelper" }
    fn fwd_name(&self) -> &'static str { "conv2d" }
    fn rev_name(&self) -> &'static str { "conv2d_reverse" }
    fn enc_in_u(&self, e: &BatchEncoder, v: &[u64]) -> Plain2d { self.encode_inputs_bfv(e, v) }
    fn enc_w_u(&self, e: &BatchEncoder, v: &[u64]) -> Plain2d { self.encode_weights_bfv(e, v) }
    fn enc_out_u(&self, e: &BatchEncoder, v: &[u64]) -> Plain2d { self.encode_outputs_bfv(e, v) }
    fn dec_out_u(&self, e: &BatchEncoder, d: &Decryptor, c: &Cipher2d) -> Vec<u64> { self.decrypt_outputs_bfv(e, d, c) }
    fn enc_in_f(&self, e: &CKKSEncoder, v: &[f64], p: Option<ParmsID>, s: f64) -> Plain2d { self.encode_inputs_ckks(e, v, p, s) }
    fn enc_w_f(&self, e: &CKKSEncoder, v: &[f64], p: Option<ParmsID>, s: f64) -> Plain2d { self.encode_weights_ckks(e, v, p, s) }
    fn enc_out_f(&self, e: &CKKSEncoder, v: &[f64], p: Option<ParmsID>, s: f64) -> Plain2d { self.encode_outputs_ckks(e, v, p, s) }
    fn dec_out_f(&self, e: &CKKSEncoder, d: &Decryptor, c: &Cipher2d) -> Vec<f64> { self.decrypt_outputs_ckks(e, d, c) }
    fn fwd(&self, ev: &Evaluator, x: &Cipher2d, w: &Plain2d) -> Cipher2d { self.conv2d(ev, x, w) }
    fn rev(&self, ev: &Evaluator, x: &Plain2d, w: &Cipher2d) -> Cipher2d { self.conv2d_reverse(ev, x, w) }
    fn terms(&self) -> Vec<usize> { self.output_terms() }
    fn accumulations(&self, px: &Plain2d, _pw: &Plain2d) -> usize { px.data.get(0).map(|r| r.data.len()).unwrap_or(1) }
}

#[derive(Clone, Copy, PartialEq, Debug)]
enum Dir { Fwd, Rev, Sum }
#[derive(Clone, Copy, PartialEq, Debug)]
enum Transport { Terms, Full, Direct }
impl Transport { fn name(&self) -> &'static str { match self { Transport::Terms => "serialize_terms", Transport::Full => "serialize", Transport::Direct => "none" } } }

enum Ops {
    U { t: u64, x: Vec<u64>, w: Vec<u64>, x2: Vec<u64>, w2: Vec<u64>, bias: Vec<u64>, expect: Vec<u64> },
    F { x: Vec<f64>, w: Vec<f64>, x2: Vec<f64>, w2: Vec<f64>, bias: Vec<f64>, expect: Vec<f64> },
}

fn roundtrip_full(ctx: &HeContext, c: &Cipher2d) -> Cipher2d {
    let mut buf = vec![];
    c.serialize(ctx, &mut buf).expect("serialize to Vec");
    Cipher2d::deserialize(ctx, &mut buf.as_slice()).expect("deserialize what was just serialized")
}
fn roundtrip_terms(ctx: &HeContext, c: &Cipher2d, terms: &[usize]) -> Cipher2d {
    let mut buf = vec![];
    c.serialize_terms(ctx, terms, &mut buf).expect("serialize_terms to Vec");
    Cipher2d::deserialize_terms(ctx, terms, &mut buf.as_slice()).expect("deserialize_terms of what was just serialized")
}
fn do_transport(ctx: &HeContext, c: &Cipher2d, tr: Transport, terms: &[usize]) -> Cipher2d {
    match tr { Transport::Terms => roundtrip_terms(ctx, c, terms), Transport::Full => roundtrip_full(ctx, c), Transport::Direct => c.clone() }
}
fn encrypt2d(kit: &Kit, p: &Plain2d, sym: bool, wire: bool) -> Cipher2d {
    let c = if sym { p.encrypt_symmetric(&kit.enc).expand_seed(&kit.ctx) } else { p.encrypt(&kit.enc) };
    if wire { roundtrip_full(&kit.ctx, &c) } else { c }
}
fn first_mismatch_u(got: &[u64], want: &[u64]) -> Option<String> {
    if got.len() != want.len() { return Some(format!("length {} expected {}", got.len(), want.len())); }
    let bad: Vec<usize> = (0..got.len()).filter(|&i| got[i] != want[i]).collect();
    if bad.is_empty() { None } else { let i = bad[0]; Some(format!("{} of {} outputs differ; first at index {}: got {} expected {}", bad.len(), got.len(), i, got[i], want[i])) }
}
fn first_mismatch_f(got: &[f64], want: &[f64], tol: f64) -> (f64, Option<String>) {
    if got.len() != want.len() { return (f64::INFINITY, Some(format!("length {} expected {}", got.len(), want.len()))); }
    let mut worst = 0f64; let mut first = None; let mut bad = 0;
    for i in 0..got.len() {
        let e = (got[i] - want[i]).abs();
        if !(e <= tol) { bad += 1; if first.is_none() { first = Some(i); } }
        if e > worst || e.is_nan() { worst = if e.is_nan() { f64::INFINITY } else { e }; }
    }
    (worst, first.map(|i| format!("{} of {} outputs outside tolerance {:e}; first at index {}: got {} expected {} (max error {:e})", bad, got.len(), tol, i, got[i], want[i], worst)))
}

/// derived worst-case error of a decoded CKKS output (value units), see PropMeta.assumptions
fn ckks_tol(n: usize, bf: f64, adds: usize, dirs: f64, scale_out: f64, vmax_out: f64) -> f64 {
    let delta = pow2f(DELTA_LOG);
    let t_prod = dirs * adds as f64 * n as f64 * (CK_B + 1.0) * (bf + 2.0) / delta; // encoding rounding + fresh noise through the plaintext products
    let t_pack = pow2f(16) * (n * n) as f64 / (delta * delta);                                     // key-switching noise of the field trace, at scale DELTA^2
    let t_rescale = (n as f64 + 2.0) / 2.0 / scale_out;                             // rounding of c0 + c1 s
    let t_bias = 1.0 / scale_out;                                                   // bias encoding rounding
    let t_fp = pow2f(13) / scale_out;                                               // decode: u64 -> f64 conversions of word differences
    let t_ref = (vmax_out + 1.0) * pow2f(-45);                                      // the f64 reference itself
    2.0 * (t_prod + t_pack + t_rescale + t_bias + t_fp + t_ref)
}

/// decrypt_outputs_bfv with a narrow class when BFV decryption returned a plaintext shorter than N
/// (the decryptor trims trailing zero coefficients)
fn dec_u<H: CoeffHelper>(cx: &mut Cx, kit: &Kit, be: &BatchEncoder, h: &H, c: &Cipher2d) -> Option<Vec<u64>> {
    let n = kit.n();
    let short = lib(|| c.data.iter().any(|row| row.data.iter().any(|ct| kit.dec.decrypt_new(ct).data().len() < n))).unwrap_or(false);
    if short { cx.rep.count("bfv_outputs_with_trimmed_plaintext", h.name()); }
    match lib(|| h.dec_out_u(be, &kit.dec, c)) {
        Ok(v) => Some(v),
        Err(p) => {
            let saved = cx.class.clone();
            if short { cx.class = "decrypted_plaintext_shorter_than_N".into(); }
            cx.viol(&format!("{}::decrypt_outputs", h.name()), "panic", format!("panicked: {}", p.0));
            cx.class = saved;
            None
        }
    }
}

/// One configuration of a coefficient-packing helper: product (either/both operands encrypted),
/// optional packing, transport, decryption, bias, re-encoding.
fn coeff_flow<H: CoeffHelper>(cx: &mut Cx, rng: &mut Rng, kit: &Kit, benc: Option<&BatchEncoder>, h: &H, ops: &Ops, adds: usize, dir: Dir, pack: Option<&GaloisKeys>, force_sym: bool, force_tr: Option<Transport>) {
    let hn = h.name();
    let n = kit.n();
    let sym = rng.bool() || force_sym;
    // worst-case fresh noise of the encrypted operand(s): secret-key encryption 21, public-key 21(2N+1)
    let all_sym = sym && (dir != Dir::Sum || force_sym);
    let bf = fresh_noise_bound(n, !all_sym);
    let wire = rng.bool();
    let tr = if pack.is_some() { if rng.chance(4, 5) { Transport::Full } else { Transport::Direct } }
        else { match rng.below(10) { 0..=5 => Transport::Terms, 6..=7 => Transport::Full, _ => Transport::Direct } };
    let tr = force_tr.unwrap_or(tr);
    cx.info["transport"] = json!(tr.name()); cx.info["symmetric_inputs"] = json!(sym); cx.info["inputs_through_serialization"] = json!(wire);
    cx.rep.count("transport", &format!("{}|{}", hn, tr.name()));
    let op_mul = match dir { Dir::Fwd => format!("{}::{}", hn, h.fwd_name()), Dir::Rev => format!("{}::{}", hn, h.rev_name()), Dir::Sum => format!("{}::{}+{}", hn, h.fwd_name(), h.rev_name()) };
    let op_mul = if pack.is_some() { format!("{}+pack_outputs", op_mul) } else { op_mul };
    let terms = step!(cx, format!("{}::output_terms", hn), h.terms());
    if terms.iter().any(|&i| i >= n) { cx.viol(&format!("{}::output_terms", hn), "value", format!("term index out of range: {:?}", terms.iter().max())); return; }
    match ops {
        Ops::U { t, x, w, x2, w2, bias, expect } => {
            let t = *t; let be = benc.expect("batch encoder");
            let px = step!(cx, format!("{}::encode_inputs", hn), h.enc_in_u(be, x));
            let pw = step!(cx, format!("{}::encode_weights", hn), h.enc_w_u(be, w));
            let adds = adds.min(h.accumulations(&px, &pw).max(1));
            if !bfv_plainmul_in_budget(n, t, adds * if dir == Dir::Sum { 2 } else { 1 }, bf) { cx.rep.out_of_precondition += 1; return; }
            let mut y = match dir {
                Dir::Fwd => { let xc = step!(cx, "Plain2d::encrypt", encrypt2d(kit, &px, sym, wire)); step!(cx, op_mul, h.fwd(&kit.eval, &xc, &pw)) }
                Dir::Rev => { let wc = step!(cx, "Plain2d::encrypt", encrypt2d(kit, &pw, sym, wire)); step!(cx, op_mul, h.rev(&kit.eval, &px, &wc)) }
                Dir::Sum => {
                    let xc = step!(cx, "Plain2d::encrypt", encrypt2d(kit, &px, sym, wire));
                    let mut a = step!(cx, op_mul, h.fwd(&kit.eval, &xc, &pw));
                    let px2 = step!(cx, format!("{}::encode_inputs", hn), h.enc_in_u(be, x2));
                    let pw2 = step!(cx, format!("{}::encode_weights", hn), h.enc_w_u(be, w2));
                    let wc2 = step!(cx, "Plain2d::encrypt", encrypt2d(kit, &pw2, !sym || force_sym, wire));
                    let b = step!(cx, op_mul, h.rev(&kit.eval, &px2, &wc2));
                    step!(cx, "Cipher2d::add_inplace", a.add_inplace(&kit.eval, &b));
                    a
                }
            };
            if let Some(gk) = pack { y = step!(cx, op_mul, h.pack(&kit.eval, gk, &y)); }
            if let Ok(b) = lib(|| kit.dec.invariant_noise_budget(&y.data[0].data[0])) { cx.rep.min(&format!("noise_budget_bits_after_product.{}", hn), b as f64); }
            // in a third of the runs the outputs are switched down one level before they travel (in BGV they then carry a correction
            // factor other than 1): transport and output decoding must not depend on the level
            if kit.levels.len() >= 2 && (t as f64) * (n as f64) * 4.0 < pow2f(56) && rng.chance(1, 3) {
                step!(cx, "Evaluator::mod_switch_to_next(outputs)", { for row in y.data.iter_mut() { for c in row.data.iter_mut() { kit.eval.mod_switch_to_next_inplace(c); } } });
                cx.info["outputs_mod_switched"] = json!(true); cx.rep.count("outputs_level", &format!("{}|switched_down_before_transport", hn));
            } else { cx.rep.count("outputs_level", &format!("{}|first_level", hn)); }
            let mut yt = step!(cx, format!("Cipher2d::{}", tr.name()), do_transport(&kit.ctx, &y, tr, &terms));
            let Some(got) = dec_u(cx, kit, be, h, &yt) else { return; };
            if let Some(d) = first_mismatch_u(&got, expect) { cx.viol(&op_mul, "value", d); return; }
            cx.info["observed_outputs_head"] = json!(got.iter().take(6).collect::<Vec<_>>());
            // bias: adding the encoded bias adds exactly the bias
            let pb = step!(cx, format!("{}::encode_outputs", hn), h.enc_out_u(be, bias));
            step!(cx, "Cipher2d::add_plain_inplace", yt.add_plain_inplace(&kit.eval, &pb));
            let Some(got_b) = dec_u(cx, kit, be, h, &yt) else { return; };
            if let Some(d) = first_mismatch_u(&got_b, &addv_mod(expect, bias, t)) { cx.viol(&format!("{}::encode_outputs+add_plain", hn), "value", d); return; }
            // re-encoding is the inverse of decoding
            let pe = step!(cx, format!("{}::encode_outputs", hn), h.enc_out_u(be, expect));
            let ce = step!(cx, "Plain2d::encrypt", encrypt2d(kit, &pe, sym, false));
            let ce = step!(cx, format!("Cipher2d::{}", tr.name()), do_transport(&kit.ctx, &ce, tr, &terms));
            let Some(back) = dec_u(cx, kit, be, h, &ce) else { return; };
            if let Some(d) = first_mismatch_u(&back, expect) { cx.viol(&format!("{}::encode_outputs->decrypt_outputs", hn), "value", d); return; }
        }
        Ops::F { x, w, x2, w2, bias, expect } => {
            let ce = kit.ckks.as_ref().expect("ckks encoder");
            let delta = pow2f(DELTA_LOG);
            let px = step!(cx, format!("{}::encode_inputs", hn), h.enc_in_f(ce, x, None, delta));
            let pw = step!(cx, format!("{}::encode_weights", hn), h.enc_w_f(ce, w, None, delta));
            let adds = adds.min(h.accumulations(&px, &pw).max(1));
            let mut y = match dir {
                Dir::Fwd => { let xc = step!(cx, "Plain2d::encrypt", encrypt2d(kit, &px, sym, wire)); step!(cx, op_mul, h.fwd(&kit.eval, &xc, &pw)) }
                Dir::Rev => { let wc = step!(cx, "Plain2d::encrypt", encrypt2d(kit, &pw, sym, wire)); step!(cx, op_mul, h.rev(&kit.eval, &px, &wc)) }
                Dir::Sum => {
                    let xc = step!(cx, "Plain2d::encrypt", encrypt2d(kit, &px, sym, wire));
                    let mut a = step!(cx, op_mul, h.fwd(&kit.eval, &xc, &pw));
                    let px2 = step!(cx, format!("{}::encode_inputs", hn), h.enc_in_f(ce, x2, None, delta));
                    let pw2 = step!(cx, format!("{}::encode_weights", hn), h.enc_w_f(ce, w2, None, delta));
                    let wc2 = step!(cx, "Plain2d::encrypt", encrypt2d(kit, &pw2, !sym || force_sym, wire));
                    let b = step!(cx, op_mul, h.rev(&kit.eval, &px2, &wc2));
                    step!(cx, "Cipher2d::add_inplace", a.add_inplace(&kit.eval, &b));
                    a
                }
            };
            if let Some(gk) = pack { y = step!(cx, op_mul, h.pack(&kit.eval, gk, &y)); }
            step!(cx, "Cipher2d::rescale_to_next_inplace", y.rescale_to_next_inplace(&kit.eval));
            let scale_out = y.data[0].data[0].scale();
            let pid = *y.data[0].data[0].parms_id();
            let q_last = kit.level_qs(0)[1] as f64;
            if !((scale_out * q_last / (delta * delta) - 1.0).abs() < 1e-9) { cx.viol(&op_mul, "scale", format!("scale after rescale {:e}, expected DELTA^2/q1 = {:e}", scale_out, delta * delta / q_last)); return; }
            let vmax = expect.iter().fold(0f64, |a, v| a.max(v.abs())) + CK_B;
            let tol = ckks_tol(n, bf, adds, if dir == Dir::Sum { 2.0 } else { 1.0 }, scale_out, vmax);
            if !(tol <= pow2f(-10)) { cx.rep.out_of_precondition += 1; return; }
            cx.rep.max("ckks_tolerance_used", tol);
            let mut yt = step!(cx, format!("Cipher2d::{}", tr.name()), do_transport(&kit.ctx, &y, tr, &terms));
            let got = step!(cx, format!("{}::decrypt_outputs", hn), h.dec_out_f(ce, &kit.dec, &yt));
            let (worst, bad) = first_mismatch_f(&got, expect, tol);
            if let Some(d) = bad { cx.viol(&op_mul, "value", d); return; }
            cx.rep.max(&format!("ckks_abs_error_observed.{}", hn), worst);
            cx.info["observed_outputs_head"] = json!(got.iter().take(4).collect::<Vec<_>>());
            let pb = step!(cx, format!("{}::encode_outputs", hn), h.enc_out_f(ce, bias, Some(pid), scale_out));
            step!(cx, "Cipher2d::add_plain_inplace", yt.add_plain_inplace(&kit.eval, &pb));
            let got_b = step!(cx, format!("{}::decrypt_outputs", hn), h.dec_out_f(ce, &kit.dec, &yt));
            let (_, bad) = first_mismatch_f(&got_b, &addv_f64(expect, bias), tol);
            if let Some(d) = bad { cx.viol(&format!("{}::encode_outputs+add_plain", hn), "value", d); return; }
            // re-encoding at the first level: rounding 1/2, fresh noise, decode conversions
            let tol_re = 2.0 * (bf + 1.0 + pow2f(13)) / delta + (vmax + 1.0) * pow2f(-45);
            let pe = step!(cx, format!("{}::encode_outputs", hn), h.enc_out_f(ce, expect, None, delta));
            let cc = step!(cx, "Plain2d::encrypt", encrypt2d(kit, &pe, sym, false));
            let cc = step!(cx, format!("Cipher2d::{}", tr.name()), do_transport(&kit.ctx, &cc, tr, &terms));
            let back = step!(cx, format!("{}::decrypt_outputs", hn), h.dec_out_f(ce, &kit.dec, &cc));
            let (_, bad) = first_mismatch_f(&back, expect, tol_re);
            if let Some(d) = bad { cx.viol(&format!("{}::encode_outputs->decrypt_outputs", hn), "value", d); return; }
        }
    }
}

// ------------------------------------------------------------------ group: Cheetah MatmulHelper
const OBJS: [MatmulHelperObjective; 3] = [MatmulHelperObjective::CipherPlain, MatmulHelperObjective::PlainCipher, MatmulHelperObjective::CpAddPc];
fn obj_name(o: MatmulHelperObjective) -> &'static str { match o { MatmulHelperObjective::CipherPlain => "CipherPlain", MatmulHelperObjective::PlainCipher => "PlainCipher", MatmulHelperObjective::CpAddPc => "CpAddPc" } }

/// every shape of [1,boxmax]^3 plus boundary shapes with dimensions from {N-1, N, N+1, 2N+1, 3N}
fn cheetah_shapes(n: usize, boxmax: usize) -> Vec<(usize, usize, usize)> {
    let mut v = vec![];
    for m in 1..=boxmax { for r in 1..=boxmax { for k in 1..=boxmax { v.push((m, r, k)); } } }
    let big = [n - 1, n, n + 1, 2 * n + 1, 3 * n];
    for &d in &big {
        v.push((d, 2, 3)); v.push((2, d, 3)); v.push((2, 3, d));
        v.push((d, 1, 1)); v.push((1, d, 1)); v.push((1, 1, d));
        v.push((d, d, 1)); v.push((1, d, d)); v.push((d, 1, d));
    }
    v.push((n + 1, n + 1, n + 1)); v.push((n - 1, n, n + 1)); v.push((2 * n + 1, n - 1, n + 1)); v.push((n + 1, 2 * n + 1, n - 1)); v.push((n, n, n));
    let mut seen = std::collections::BTreeSet::new();
    v.retain(|s| seen.insert(*s));
    v
}

fn cheetah_case(cfg: &Cfg, grp: &'static str, case: u64, rng: &mut Rng, rep: &mut Report, n: usize, ckks: bool, shape: (usize, usize, usize), large: bool) {
    let (m, r, k) = shape;
    let t = if ckks { 0 } else if large { 1u64 << *rng.pick(&[13u32, 20]) } else { 1u64 << *rng.pick(&[1u32, 4, 13, 20, 32]) };
    // every fourth exact case runs under BGV (same plaintext space and helper entry points as BFV; ciphertexts carry a correction factor)
    let scheme = if ckks { SchemeType::CKKS } else if case % 4 == 3 { SchemeType::BGV } else { SchemeType::BFV };
    let Some(spec) = make_spec(rng, scheme, n, t, "cheetah", 2) else { rep.harness_errors.push("C20 cheetah: no primes".into()); return; };
    let kit = match Kit::new(&spec) { Ok(k) => k, Err(e) => { rep.harness_errors.push(format!("C20 cheetah kit: {}", e)); return; } };
    let benc = if ckks { None } else { match lib(|| BatchEncoder::new(kit.ctx.clone())) { Ok(b) => Some(b), Err(p) => { rep.harness_errors.push(format!("C20 BatchEncoder::new: {}", p.0)); return; } } };
    // history: in every other case the same key generator / context has already produced the default rotation key set (an
    // overlapping but different set of Galois elements), as an application that uses both matrix-product methods does
    if case % 2 == 1 { let r = lib(|| kit.keygen.create_galois_keys(false)); rep.count("history_prelude", if r.is_ok() { "rotation keys before automorphism keys" } else { "rotation keys refused" }); }
    let auto = match lib(|| kit.keygen.create_automorphism_keys(false)) { Ok(a) => a, Err(p) => { rep.harness_errors.push(format!("C20 create_automorphism_keys: {}", p.0)); return; } };
    let sname = if ckks { "CKKS" } else if scheme == SchemeType::BGV { "BGV" } else { "BFV" };
    for obj in OBJS { for pack in [false, true] {
        let dirs: &[Dir] = if matches!(obj, MatmulHelperObjective::CpAddPc) { &[Dir::Fwd, Dir::Rev, Dir::Sum] } else { &[Dir::Fwd, Dir::Rev] };
        let helper = match lib(|| MatmulHelper::new(m, r, k, n, obj, pack)) {
            Ok(h) => h,
            Err(_) => { rep.count("constructor_refused", &format!("MatmulHelper|N={}|pack={}", n, pack as u8)); continue; }
        };
        // observed blocking (number of blocks along each dimension), from the encoders' output structure
        let split = {
            let probe = lib(|| if ckks {
                let e = kit.ckks.as_ref().unwrap();
                (helper.encode_inputs_ckks(e, &vec![0.0; m * r], None, 2.0), helper.encode_weights_ckks(e, &vec![0.0; r * k], None, 2.0))
            } else {
                let e = benc.as_ref().unwrap();
                (helper.encode_inputs_bfv(e, &vec![0; m * r]), helper.encode_weights_bfv(e, &vec![0; r * k]))
            });
            match probe {
                Ok((pi, pw)) => {
                    let (cm, cr, cn) = (pi.data.len(), pw.data.len(), pw.data.get(0).map(|x| x.data.len()).unwrap_or(0));
                    let mut s = String::new();
                    if cm > 1 { s.push('m'); } if cr > 1 { s.push('r'); } if cn > 1 { s.push('n'); }
                    if s.is_empty() { s.push('-'); }
                    // block sizes as the helper reports them (Debug); a partial last block exists when a split dimension is not a multiple
                    let dbg = format!("{:?}", helper);
                    let field = |name: &str| -> Option<usize> { let i = dbg.find(name)? + name.len(); dbg[i..].trim_start_matches(|c: char| c == ':' || c == ' ').split(|c: char| !c.is_ascii_digit()).next()?.parse().ok() };
                    let partial = match (field("batch_block"), field("input_block"), field("output_block")) {
                        (Some(bb), Some(ib), Some(ob)) if bb > 0 && ib > 0 && ob > 0 => (cm > 1 && m % bb != 0) || (cr > 1 && r % ib != 0) || (cn > 1 && k % ob != 0),
                        _ => false,
                    };
                    format!("{}{}", s, if partial { "+partial_last" } else { "" })
                }
                Err(_) => "?".to_string(),
            }
        };
        for &dir in dirs {
            let sampled = !large && ((case == 234 && !pack) || (case == 777 && pack)) && matches!(dir, Dir::Fwd) && matches!(obj, MatmulHelperObjective::CipherPlain);
            let vclass = if sampled { "random" } else { *rng.pick(&U_CLASSES) };
            let info = json!({"helper": "MatmulHelper", "N": n, "scheme": sname, "t": t, "shape_m_r_n": [m, r, k], "objective": obj_name(obj), "pack_lwe": pack,
                "direction": format!("{:?}", dir), "values": vclass, "blocks_split": split, "qs": spec.qs});
            let mut cx = Cx { cfg, rep: &mut *rep, grp, case, class: format!("pack_lwe={}", pack as u8), info, failed: false };
            let shape_class = if m.max(r).max(k) >= n - 1 { "boundary" } else { "box" };
            cx.rep.count("cheetah_config", &format!("N={}|{}|{}|pack={}|{:?}", n, sname, obj_name(obj), pack as u8, dir));
            cx.rep.count("cheetah_split", &format!("N={}|pack={}|split={}|{}", n, pack as u8, split, shape_class));
            let ops = if ckks {
                let mut x = gen_f(rng, m * r, vclass); let mut w = gen_f(rng, r * k, vclass);
                shape_values_f(vclass, &mut x, &mut w, m, r, k);
                let x2 = gen_f(rng, m * r, "random"); let w2 = gen_f(rng, r * k, "random");
                let bias = gen_f(rng, m * k, "random");
                let mut expect = matmul_f64(&x, &w, m, r, k);
                if dir == Dir::Sum { expect = addv_f64(&expect, &matmul_f64(&x2, &w2, m, r, k)); }
                Ops::F { x, w, x2, w2, bias, expect }
            } else {
                let mut x = gen_u(rng, m * r, t, vclass); let mut w = gen_u(rng, r * k, t, vclass);
                shape_values_u(vclass, &mut x, &mut w, m, r, k);
                let x2 = gen_u(rng, m * r, t, "random"); let w2 = gen_u(rng, r * k, t, "random");
                let bias = gen_u(rng, m * k, t, if vclass == "zero_w" { "sparse_small" } else { "random" });
                let mut expect = matmul_mod(&x, &w, m, r, k, t);
                if dir == Dir::Sum { expect = addv_mod(&expect, &matmul_mod(&x2, &w2, m, r, k, t), t); }
                Ops::U { t, x, w, x2, w2, bias, expect }
            };
            coeff_flow(&mut cx, rng, &kit, benc.as_ref(), &helper, &ops, r, dir, if pack { Some(&auto) } else { None }, large, None);
            let failed = cx.failed; let info = cx.info.clone();
            let trivial = vclass == "zero_w";
            let cls = format!("cheetah|{}|{}|{}|{}|{:?}|{},{},{}", n, sname, obj_name(obj), pack as u8, dir, m, r, k);
            rep.eval(if trivial { None } else { Some(&cls) });
            if !failed && sampled { rep.sample(info); }
        }
    } }
}

/// matrix-structured value classes (x is m x r row-major, w is r x n row-major)
fn shape_values_u(class: &str, x: &mut [u64], w: &mut [u64], m: usize, r: usize, n: usize) {
    match class {
        "zero_w" => w.iter_mut().for_each(|v| *v = 0),
        "w_last_out_zero" => for i in 0..r { w[i * n + n - 1] = 0; },
        "x_last_zero" => for j in 0..r { x[(m - 1) * r + j] = 0; },
        _ => {}
    }
}
fn shape_values_f(class: &str, x: &mut [f64], w: &mut [f64], m: usize, r: usize, n: usize) {
    match class {
        "zero_w" => w.iter_mut().for_each(|v| *v = 0.0),
        "w_last_out_zero" => for i in 0..r { w[i * n + n - 1] = 0.0; },
        "x_last_zero" => for j in 0..r { x[(m - 1) * r + j] = 0.0; },
        _ => {}
    }
}

// ------------------------------------------------------------------ group: Conv2dHelper
fn conv_case(cfg: &Cfg, grp: &'static str, case: u64, rng: &mut Rng, rep: &mut Report, n: usize, s: ConvShape, ckks: bool, obj: MatmulHelperObjective, dir: Dir) {
    let t = if ckks { 0 } else if n > 128 { 1u64 << *rng.pick(&[13u32, 20]) } else { 1u64 << *rng.pick(&[1u32, 4, 13, 20, 32]) };
    let scheme = if ckks { SchemeType::CKKS } else { SchemeType::BFV };
    let sname = if ckks { "CKKS" } else { "BFV" };
    let Some(spec) = make_spec(rng, scheme, n, t, "conv2d", 2) else { rep.harness_errors.push("C20 conv: no primes".into()); return; };
    let kit = match Kit::new(&spec) { Ok(k) => k, Err(e) => { rep.harness_errors.push(format!("C20 conv kit: {}", e)); return; } };
    let benc = if ckks { None } else { match lib(|| BatchEncoder::new(kit.ctx.clone())) { Ok(b) => Some(b), Err(p) => { rep.harness_errors.push(format!("C20 BatchEncoder::new: {}", p.0)); return; } } };
    let helper = match lib(|| Conv2dHelper::new(s.b, s.ci, s.co, s.h, s.w, s.kh, s.kw, n, obj)) {
        Ok(h) => h,
        Err(_) => { rep.count("constructor_refused", &format!("Conv2dHelper|N={}", n)); return; }
    };
    // observed blocking: indicator probes through the public encoder (rows / columns of image 0, channel 0 that land in the first polynomial)
    let count_first = |probe_u: Vec<u64>| -> Option<(usize, usize, usize)> {
        lib(|| {
            if ckks {
                let e = kit.ckks.as_ref().unwrap();
                let pf: Vec<f64> = probe_u.iter().map(|&v| v as f64).collect();
                let p = helper.encode_inputs_ckks(e, &pf, None, 1024.0);
                let c = e.decode_polynomial_new(&p.data[0].data[0]).iter().filter(|v| v.abs() > 0.5).count();
                (c, p.data.len(), p.data[0].data.len())
            } else {
                let p = helper.encode_inputs_bfv(benc.as_ref().unwrap(), &probe_u);
                let c = p.data[0].data[0].data().iter().filter(|&&v| v != 0).count();
                (c, p.data.len(), p.data[0].data.len())
            }
        }).ok()
    };
    let mut ph = vec![0u64; s.lx()]; for r in 0..s.h { ph[r * s.w] = 1; }
    let mut pw_ = vec![0u64; s.lx()]; for c in 0..s.w { pw_[c] = 1; }
    let (mut split, mut hsplit) = (String::from("?"), false);
    if let (Some((hb, total, cci)), Some((wb, _, _))) = (count_first(ph), count_first(pw_)) {
        if hb >= s.kh && wb >= s.kw {
            let sh = ceil_div(s.oh(), hb - s.kh + 1); let sw = ceil_div(s.ow(), wb - s.kw + 1);
            let cb = if sh * sw > 0 && total % (sh * sw) == 0 { total / (sh * sw) } else { 0 };
            hsplit = sh > 1;
            let mut v = vec![];
            if cb > 1 { v.push("batch"); } if sh > 1 { v.push("height"); } if sw > 1 { v.push("width"); } if cci > 1 { v.push("cin"); }
            let cco = lib(|| if ckks { helper.encode_weights_ckks(kit.ckks.as_ref().unwrap(), &vec![0.0; s.lw()], None, 2.0).data.len() } else { helper.encode_weights_bfv(benc.as_ref().unwrap(), &vec![0; s.lw()]).data.len() });
            match cco { Ok(c) => if c > 1 { v.push("cout"); }, Err(_) => v.push("cout?") }
            split = if v.is_empty() { "-".into() } else { v.join("+") };
            if cb == 0 { split.push_str("+batch?"); }
        }
    }
    let sampled = (grp == "conv" && case == 7) || (grp == "conv_large" && case == 25);
    let vclass = if sampled { "random" } else { *rng.pick(&U_CLASSES) };
    let info = json!({"helper": "Conv2dHelper", "N": n, "scheme": sname, "t": t, "batch": s.b, "channels_in": s.ci, "channels_out": s.co, "image_h_w": [s.h, s.w], "kernel_h_w": [s.kh, s.kw],
        "objective": obj_name(obj), "direction": format!("{:?}", dir), "values": vclass, "blocks_split": split, "qs": spec.qs});
    rep.count("conv_config", &format!("N={}|{}|{}|{:?}", n, sname, obj_name(obj), dir));
    rep.count("conv_split", &format!("N={}|split={}", n, split));
    rep.count("conv_kernel", &format!("{}x{}", s.kh, s.kw));
    let ops = if ckks {
        let x = gen_f(rng, s.lx(), vclass); let mut w = gen_f(rng, s.lw(), vclass);
        if vclass == "zero_w" { w.iter_mut().for_each(|v| *v = 0.0); }
        if vclass == "w_last_out_zero" { let per = s.ci * s.kh * s.kw; for v in w[(s.co - 1) * per..].iter_mut() { *v = 0.0; } }
        let bias = gen_f(rng, s.ly(), "random");
        let expect = conv_f64(&x, &w, &s);
        Ops::F { x, w, x2: vec![], w2: vec![], bias, expect }
    } else {
        let mut x = gen_u(rng, s.lx(), t, vclass); let mut w = gen_u(rng, s.lw(), t, vclass);
        if vclass == "zero_w" { w.iter_mut().for_each(|v| *v = 0); }
        if vclass == "w_last_out_zero" { let per = s.ci * s.kh * s.kw; for v in w[(s.co - 1) * per..].iter_mut() { *v = 0; } }
        if vclass == "x_last_zero" { let per = s.ci * s.h * s.w; for v in x[(s.b - 1) * per..].iter_mut() { *v = 0; } }
        let bias = gen_u(rng, s.ly(), t, if vclass == "zero_w" { "sparse_small" } else { "random" });
        let expect = conv_mod(&x, &w, &s, t);
        Ops::U { t, x, w, x2: vec![], w2: vec![], bias, expect }
    };
    let mut cx = Cx { cfg, rep: &mut *rep, grp, case, class: (if hsplit { "height_split" } else { "height_unsplit" }).to_string(), info, failed: false };
    coeff_flow(&mut cx, rng, &kit, benc.as_ref(), &helper, &ops, s.ci, dir, None, n > 128, None);
    let failed = cx.failed; let info = cx.info.clone();
    if failed && hsplit { rep.min("conv_failing_min_image_area", (s.h * s.w) as f64); }
    let trivial = vclass == "zero_w";
    let cls = format!("conv|{}|{}|{}|{:?}|{:?}", n, sname, obj_name(obj), dir, s);
    rep.eval(if trivial { None } else { Some(&cls) });
    if !failed && sampled { rep.sample(info); }
}

// ------------------------------------------------------------------ group: BOLT slot-packing helpers
enum Bolt { Cp(MatmulBoltCp), Cr(MatmulBoltCcCr), Dc(MatmulBoltCcDc) }
const BOLT_KINDS: [&str; 3] = ["MatmulBoltCp", "MatmulBoltCcCr", "MatmulBoltCcDc"];
impl Bolt {
    fn new(kind: usize, m: usize, r: usize, n: usize, deg: usize) -> Bolt {
        match kind { 0 => Bolt::Cp(MatmulBoltCp::new(m, r, n, deg)), 1 => Bolt::Cr(MatmulBoltCcCr::new(m, r, n, deg)), _ => Bolt::Dc(MatmulBoltCcDc::new(m, r, n, deg)) }
    }
    fn weights_encrypted(&self) -> bool { !matches!(self, Bolt::Cp(_)) }
    fn enc_in(&self, e: &BatchEncoder, x: &[u64]) -> Plain2d { match self { Bolt::Cp(h) => h.encode_inputs(e, x), Bolt::Cr(h) => h.encode_inputs(e, x), Bolt::Dc(h) => h.encode_inputs(e, x) } }
    fn enc_w(&self, e: &BatchEncoder, w: &[u64]) -> Plain2d { match self { Bolt::Cp(h) => h.encode_weights(e, w), Bolt::Cr(h) => h.encode_weights(e, w), Bolt::Dc(h) => h.encode_weights(e, w) } }
    fn enc_out(&self, e: &BatchEncoder, y: &[u64]) -> Plain2d { match self { Bolt::Cp(h) => h.encode_outputs(e, y), Bolt::Cr(h) => h.encode_outputs(e, y), Bolt::Dc(h) => h.encode_outputs(e, y) } }
    fn dec_out(&self, e: &BatchEncoder, y: &Plain2d) -> Vec<u64> { match self { Bolt::Cp(h) => h.decode_outputs(e, y), Bolt::Cr(h) => h.decode_outputs(e, y), Bolt::Dc(h) => h.decode_outputs(e, y) } }
    fn mul(&self, e: &BatchEncoder, ev: &Evaluator, gk: &GaloisKeys, rk: &RelinKeys, xc: &Cipher2d, pw: &Plain2d, wc: Option<&Cipher2d>) -> Cipher2d {
        match self {
            Bolt::Cp(h) => h.multiply(ev, gk, xc, pw),
            Bolt::Cr(h) => h.multiply(e, ev, gk, rk, xc, wc.unwrap()),
            Bolt::Dc(h) => h.multiply(e, ev, gk, rk, xc, wc.unwrap()),
        }
    }
}
fn ceil_two_power(n: usize) -> usize { let mut x = 1; while x < n { x <<= 1; } x }
fn count2d_c(c: &Cipher2d) -> usize { c.data.iter().map(|r| r.data.len()).sum() }
fn count2d_p(c: &Plain2d) -> usize { c.data.iter().map(|r| r.data.len()).sum() }

fn bolt_case(cfg: &Cfg, grp: &'static str, case: u64, rng: &mut Rng, rep: &mut Report, kind: usize, n: usize, shape: (usize, usize, usize), tbits: u32, data_primes: usize) {
    let (m, r, k) = shape;
    let hn = BOLT_KINDS[kind];
    let Some(t) = batching_prime(n, tbits, rng.usize_below(2)).or_else(|| batching_prime(n, 20, 0)) else { rep.harness_errors.push("C20 bolt: no batching prime".into()); return; };
    let Some(spec) = make_spec(rng, SchemeType::BFV, n, t, "bolt", data_primes) else { rep.harness_errors.push("C20 bolt: no primes".into()); return; };
    let kit = match Kit::new(&spec) { Ok(k) => k, Err(e) => { rep.harness_errors.push(format!("C20 bolt kit: {}", e)); return; } };
    let Some(be) = kit.batch.as_ref() else { rep.harness_errors.push(format!("C20 bolt: batching not enabled for t={} N={}", t, n)); return; };
    if case % 2 == 1 { let r = lib(|| kit.keygen.create_automorphism_keys(false)); rep.count("history_prelude", if r.is_ok() { "automorphism keys before rotation keys" } else { "automorphism keys refused" }); }
    let keys = lib(|| (kit.keygen.create_galois_keys(false), kit.keygen.create_relin_keys(false)));
    let (gk, rk) = match keys { Ok(k) => k, Err(p) => { rep.harness_errors.push(format!("C20 bolt keys: {}", p.0)); return; } };
    let helper = match lib(|| Bolt::new(kind, m, r, k, n)) {
        Ok(h) => h,
        Err(_) => { rep.count("constructor_refused", &format!("{}|N={}", hn, n)); return; }
    };
    // documented blocking: g = ceil_two_power(M), s = N / g with M the per-ciphertext row count
    let mm = match kind { 0 => m, 1 => m.max(k), _ => m.max(r) }.min(n / 2);
    let s = n / ceil_two_power(mm);
    let partial = match kind { 0 => r % s != 0 || k % s != 0, 1 => r % s != 0 || mm % s != 0, _ => k % s != 0 || mm % s != 0 };
    let over_half = match kind { 0 => m > n / 2, 1 => m.max(k) > n / 2, _ => m.max(r) > n / 2 };
    let sampled = (grp == "bolt" && case == 156) || (grp == "bolt_large" && case == 1);
    let vclass = if sampled { "random" } else { *rng.pick(&U_CLASSES) };
    let mut x = gen_u(rng, m * r, t, vclass); let mut w = gen_u(rng, r * k, t, vclass);
    shape_values_u(vclass, &mut x, &mut w, m, r, k);
    let bias = gen_u(rng, m * k, t, "random");
    let expect = matmul_mod(&x, &w, m, r, k, t);
    let info = json!({"helper": hn, "N": n, "scheme": "BFV", "t": t, "shape_m_r_n": [m, r, k], "values": vclass, "slots_per_column_block_s": s, "partial_last_block": partial, "rows_over_half_degree": over_half, "qs": spec.qs});
    let mut cx = Cx { cfg, rep: &mut *rep, grp, case, class: String::new(), info, failed: false };
    bolt_flow(&mut cx, rng, &kit, be, &helper, hn, &gk, &rk, &x, &w, &bias, &expect, t, n, partial, over_half);
    let failed = cx.failed; let info = cx.info.clone();
    let trivial = vclass == "zero_w";
    let cls = format!("bolt|{}|{}|{},{},{}", hn, n, m, r, k);
    rep.eval(if trivial { None } else { Some(&cls) });
    if !failed && sampled { rep.sample(info); }
}

fn bolt_flow(cx: &mut Cx, rng: &mut Rng, kit: &Kit, be: &BatchEncoder, h: &Bolt, hn: &str, gk: &GaloisKeys, rk: &RelinKeys,
    x: &[u64], w: &[u64], bias: &[u64], expect: &[u64], t: u64, n: usize, partial: bool, over_half: bool) {
    let sym = rng.bool(); let wire = rng.bool(); let out_wire = rng.chance(2, 3);
    cx.info["symmetric_inputs"] = json!(sym); cx.info["inputs_through_serialization"] = json!(wire); cx.info["outputs_through_serialization"] = json!(out_wire);
    cx.class = "encode".into();
    let px = step!(cx, format!("{}::encode_inputs", hn), h.enc_in(be, x));
    let pw = step!(cx, format!("{}::encode_weights", hn), h.enc_w(be, w));
    let multi = count2d_p(&px) > 1 || (h.weights_encrypted() && count2d_p(&pw) > 1);
    let xc = step!(cx, "Plain2d::encrypt", encrypt2d(kit, &px, sym, wire));
    let wc = if h.weights_encrypted() { Some(step!(cx, "Plain2d::encrypt", encrypt2d(kit, &pw, !sym, wire))) } else { None };
    cx.class = format!("ciphertexts={}", if multi { "several" } else { "one" });
    let y = step!(cx, format!("{}::multiply", hn), h.mul(be, &kit.eval, gk, rk, &xc, &pw, wc.as_ref()));
    let outs = count2d_c(&y);
    let blocks = format!("in={}{}|out={}|partial_last={}|rows>N/2={}", if count2d_p(&px) > 1 { "several" } else { "one" }, if h.weights_encrypted() { if count2d_p(&pw) > 1 { ",w=several" } else { ",w=one" } } else { "" },
        if outs > 1 { "several" } else { "one" }, partial as u8, over_half as u8);
    cx.rep.count("bolt_blocks", &format!("{}|N={}|{}", hn, n, blocks));
    cx.info["blocks"] = json!(blocks);
    if let Some(c) = y.data.get(0).and_then(|r| r.data.get(0)) { if let Ok(b) = lib(|| kit.dec.invariant_noise_budget(c)) { cx.rep.min(&format!("noise_budget_bits_after_product.{}", hn), b as f64); } }
    let mut y = if out_wire { step!(cx, "Cipher2d::serialize", roundtrip_full(&kit.ctx, &y)) } else { y };
    let pd = step!(cx, "Cipher2d::decrypt", y.decrypt(&kit.dec));
    let got = step!(cx, format!("{}::decode_outputs", hn), h.dec_out(be, &pd));
    if let Some(d) = first_mismatch_u(&got, expect) { cx.viol(&format!("{}::multiply", hn), "value", d); return; }
    cx.info["observed_outputs_head"] = json!(got.iter().take(6).collect::<Vec<_>>());
    // bias
    let pb = step!(cx, format!("{}::encode_outputs", hn), h.enc_out(be, bias));
    step!(cx, "Cipher2d::add_plain_inplace", y.add_plain_inplace(&kit.eval, &pb));
    let pd = step!(cx, "Cipher2d::decrypt", y.decrypt(&kit.dec));
    let got_b = step!(cx, format!("{}::decode_outputs", hn), h.dec_out(be, &pd));
    if let Some(d) = first_mismatch_u(&got_b, &addv_mod(expect, bias, t)) { cx.viol(&format!("{}::encode_outputs+add_plain", hn), "value", d); return; }
    // re-encoding: plain round trip and through encryption
    let pe = step!(cx, format!("{}::encode_outputs", hn), h.enc_out(be, expect));
    let back = step!(cx, format!("{}::decode_outputs", hn), h.dec_out(be, &pe));
    if let Some(d) = first_mismatch_u(&back, expect) { cx.viol(&format!("{}::encode_outputs->decode_outputs", hn), "value", d); return; }
    let ce = step!(cx, "Plain2d::encrypt", encrypt2d(kit, &pe, sym, out_wire));
    let pd = step!(cx, "Cipher2d::decrypt", ce.decrypt(&kit.dec));
    let back = step!(cx, format!("{}::decode_outputs", hn), h.dec_out(be, &pd));
    if let Some(d) = first_mismatch_u(&back, expect) { cx.viol(&format!("{}::encode_outputs->encrypt->decode_outputs", hn), "value", d); return; }
}

/// partial-last-block shapes at larger degrees (thorough): (kind, N, (m, r, n))
fn bolt_large_shapes() -> Vec<(usize, usize, (usize, usize, usize))> {
    let mut v = vec![];
    for &n in &[64usize, 256, 1024, 4096] {
        // Cp: s = 4 (m just below N/4), s = 8, and m beyond N/2 (two row groups)
        v.push((0, n, (n / 4 - 1, 5, 7))); v.push((0, n, (n / 8, 9, 17))); v.push((0, n, (n / 2 + 1, 3, 5)));
        if n <= 1024 { v.push((0, n, (3, n / 4 + 1, n / 4 - 1))); }
        // CcCr: M = max(m, n) small, inner dimension one past a full ciphertext
        let s3 = n / 4;
        if n <= 1024 { v.push((1, n, (3, s3 + 1, 2))); v.push((1, n, (2, s3 - 1, 3))); v.push((2, n, (3, 2, s3 + 1))); v.push((2, n, (2, 3, s3 - 1))); }
        else { v.push((1, n, (2, n / 2 + 1, 2))); v.push((2, n, (2, 2, n / 2 + 1))); }
    }
    v
}

// ------------------------------------------------------------------ group: rns_plain wrapper
fn big_mod_sub(a: &BigU, b: &BigU, t: &BigU) -> BigU { a.add(t).sub(&b.rem(t)).rem(t) }
fn negacyclic_big(a: &[BigU], b: &[BigU], t: &BigU) -> Vec<BigU> {
    let n = a.len();
    let mut pos = vec![BigU::zero(); n]; let mut neg = vec![BigU::zero(); n];
    for i in 0..n { if a[i].is_zero() { continue; } for j in 0..n {
        if b[j].is_zero() { continue; }
        let p = a[i].mul(&b[j]);
        if i + j < n { pos[i + j] = pos[i + j].add(&p); } else { neg[i + j - n] = neg[i + j - n].add(&p); }
    } }
    (0..n).map(|k| big_mod_sub(&pos[k].rem(t), &neg[k], t)).collect()
}
fn rns_values(rng: &mut Rng, count: usize, k: usize, big_t: &BigU) -> (Vec<u64>, Vec<BigU>, &'static str) {
    let class = *rng.pick(&["random", "random", "t_minus_1", "small", "above_T"]);
    let mut limbs = vec![0u64; count * k]; let mut vals = vec![];
    for i in 0..count {
        let raw: BigU = match class {
            "t_minus_1" => big_t.sub(&BigU::one()),
            "small" => BigU::from_u64(rng.below(3)),
            "above_T" => BigU::from_limbs(&(0..k).map(|_| rng.u64()).collect::<Vec<_>>()),
            _ => BigU::from_limbs(&(0..k).map(|_| rng.u64()).collect::<Vec<_>>()).rem(big_t),
        };
        limbs[i * k..(i + 1) * k].copy_from_slice(&raw.to_limbs(k));
        vals.push(raw.rem(big_t));
    }
    (limbs, vals, class)
}
fn empty_rnsp(k: usize) -> RnspCiphertext { RnspCiphertext::from_raw_parts(vec![Ciphertext::new(); k]) }

fn rns_case(cfg: &Cfg, case: u64, rng: &mut Rng, rep: &mut Report) {
    let grp = "rns_plain";
    let n = *rng.pick(&[8usize, 16, 32]);
    let k = rng.range(2, 4) as usize;
    let poly_mode = rng.bool();
    let minb = (2 * n).trailing_zeros() + 2;
    let mut ts: Vec<u64> = vec![];
    for _ in 0..k {
        let mut found = None;
        for attempt in 0..8 { let bits = rng.range(minb as u64, 22) as u32; if let Some(p) = ntt_primes(n, bits, 1, attempt % 3).into_iter().next() { if !ts.contains(&p) { found = Some(p); break; } } }
        match found { Some(p) => ts.push(p), None => { rep.harness_errors.push("C20 rns: no plain prime".into()); return; } }
    }
    let Some(qs) = coeff_primes(n, &[60, 60, 60], rng) else { rep.harness_errors.push("C20 rns: no primes".into()); return; };
    let big_t = ts.iter().fold(BigU::one(), |a, &t| a.mul_u64(t));
    let info = json!({"helper": "rns_plain", "N": n, "plain_moduli": ts, "qs": qs, "mode": if poly_mode { "polynomial" } else { "slots" }});
    let mut cx = Cx { cfg, rep: &mut *rep, grp, case, class: format!("moduli={}|{}", k, if poly_mode { "polynomial" } else { "slots" }), info, failed: false };
    rns_flow(&mut cx, rng, n, k, poly_mode, &ts, &qs, &big_t);
    let failed = cx.failed; let info = cx.info.clone();
    let cls = format!("rns|{}|{}|{}|{}", n, k, poly_mode, info["program"]);
    rep.eval(Some(&cls));
    if !failed && case == 11 { rep.sample(info); }
}

fn rns_flow(cx: &mut Cx, rng: &mut Rng, n: usize, k: usize, poly_mode: bool, ts: &[u64], qs: &[u64], big_t: &BigU) {
    let setup = lib(|| {
        let parms = RnspEncryptionParameters::new(SchemeType::BFV).set_poly_modulus_degree(n)
            .set_plain_modulus(ts.iter().map(|&t| Modulus::new(t)).collect()).set_coeff_modulus(qs.iter().map(|&q| Modulus::new(q)).collect());
        let ctx = RnspHeContext::new(parms, true, SecurityLevel::None);
        if !ctx.parameters_set() { return None; }
        let enc = RnspBatchEncoder::new(&ctx);
        let kg = RnspKeyGenerator::new(&ctx);
        let sk = kg.get_secret_key();
        let pk = kg.create_public_key(false);
        let rlk = kg.create_relin_keys(false);
        let encryptor = RnspEncryptor::new(&ctx).set_public_key(pk).set_secret_key(sk.clone());
        let decryptor = RnspDecryptor::new(&ctx, sk);
        let ev = RnspEvaluator::new(&ctx);
        Some((ctx, enc, rlk, encryptor, decryptor, ev))
    });
    let (ctx, enc, rlk, encryptor, decryptor, ev) = match setup {
        Ok(Some(s)) => s,
        Ok(None) => { cx.rep.harness_errors.push(format!("C20 rns: parameters rejected {}", cx.info)); return; }
        Err(p) => { cx.viol("rns_plain::setup", "panic", format!("panicked: {}", p.0)); return; }
    };
    let count = if rng.chance(1, 4) { rng.range(1, n as u64) as usize } else { n };
    let (la, mut va, ca) = rns_values(rng, count, k, big_t);
    let (lb, mut vb, cb) = rns_values(rng, count, k, big_t);
    let (lc, mut vc, cc) = rns_values(rng, count, k, big_t);
    for v in [&mut va, &mut vb, &mut vc] { v.resize(n, BigU::zero()); }
    cx.info["value_classes"] = json!([ca, cb, cc]); cx.info["values_given"] = json!(count);
    let encode = |l: &[u64]| -> RnspPlaintext { if poly_mode { enc.encode_polynomial_new(l) } else { enc.encode_new(l) } };
    let pa = step!(cx, "RnspBatchEncoder::encode", encode(&la));
    let pb = step!(cx, "RnspBatchEncoder::encode", encode(&lb));
    let pc = step!(cx, "RnspBatchEncoder::encode", encode(&lc));
    let sym = rng.bool();
    let encrypt = |p: &RnspPlaintext| -> RnspCiphertext { if sym { encryptor.encrypt_symmetric_new(p).expand_seed(&ctx) } else { encryptor.encrypt_new(p) } };
    let mut ra = step!(cx, "RnspEncryptor::encrypt", encrypt(&pa));
    let rb = step!(cx, "RnspEncryptor::encrypt", encrypt(&pb));
    // program: up to 3 steps on (ra, va); at most one ciphertext product and one plaintext product (noise precondition)
    let mul_ref = |x: &[BigU], y: &[BigU]| -> Vec<BigU> { if poly_mode { negacyclic_big(x, y, big_t) } else { x.iter().zip(y).map(|(a, b)| a.mul(b).rem(big_t)).collect() } };
    let steps = rng.range(1, 3);
    let (mut used_ct_mul, mut used_pt_mul) = (false, false);
    let mut program: Vec<String> = vec![];
    for _ in 0..steps {
        let mut op = *rng.pick(&["add", "sub", "multiply", "square", "multiply_plain", "add_plain", "sub_plain", "negate"]);
        if (op == "multiply" || op == "square") && used_ct_mul { op = "add"; }
        if op == "multiply_plain" && used_pt_mul { op = "sub_plain"; }
        let form = rng.below(3);
        program.push(format!("{}/{}", op, ["new", "inplace", "dest"][form as usize]));
        cx.rep.count("rns_ops", &format!("{}|{}", op, if poly_mode { "polynomial" } else { "slots" }));
        let opn = format!("RnspEvaluator::{}", op);
        match op {
            "add" => { ra = step!(cx, opn, match form { 0 => ev.add_new(&ra, &rb), 1 => { let mut d = ra.clone(); ev.add_inplace(&mut d, &rb); d } _ => { let mut d = empty_rnsp(k); ev.add(&ra, &rb, &mut d); d } });
                va = va.iter().zip(&vb).map(|(a, b)| a.add(b).rem(big_t)).collect(); }
            "sub" => { ra = step!(cx, opn, match form { 0 => ev.sub_new(&ra, &rb), 1 => { let mut d = ra.clone(); ev.sub_inplace(&mut d, &rb); d } _ => { let mut d = empty_rnsp(k); ev.sub(&ra, &rb, &mut d); d } });
                va = va.iter().zip(&vb).map(|(a, b)| big_mod_sub(a, b, big_t)).collect(); }
            "multiply" => { used_ct_mul = true;
                ra = step!(cx, opn, { let mut d = match form { 0 => ev.multiply_new(&ra, &rb), 1 => { let mut d = ra.clone(); ev.multiply_inplace(&mut d, &rb); d } _ => { let mut d = empty_rnsp(k); ev.multiply(&ra, &rb, &mut d); d } }; if form == 1 { ev.relinearize_inplace(&mut d, &rlk); d } else { let mut o = empty_rnsp(k); ev.relinearize(&d, &rlk, &mut o); o } });
                va = mul_ref(&va, &vb); }
            "square" => { used_ct_mul = true;
                ra = step!(cx, opn, { let d = match form { 0 => ev.square_new(&ra), 1 => { let mut d = ra.clone(); ev.square_inplace(&mut d); d } _ => { let mut d = empty_rnsp(k); ev.square(&ra, &mut d); d } }; ev.relinearize_new(&d, &rlk) });
                va = mul_ref(&va, &va); }
            "multiply_plain" => { used_pt_mul = true;
                ra = step!(cx, opn, match form { 0 => ev.multiply_plain_new(&ra, &pc), 1 => { let mut d = ra.clone(); ev.multiply_plain_inplace(&mut d, &pc); d } _ => { let mut d = empty_rnsp(k); ev.multiply_plain(&ra, &pc, &mut d); d } });
                va = mul_ref(&va, &vc); }
            "add_plain" => { ra = step!(cx, opn, match form { 0 => ev.add_plain_new(&ra, &pc), 1 => { let mut d = ra.clone(); ev.add_plain_inplace(&mut d, &pc); d } _ => { let mut d = empty_rnsp(k); ev.add_plain(&ra, &pc, &mut d); d } });
                va = va.iter().zip(&vc).map(|(a, b)| a.add(b).rem(big_t)).collect(); }
            "sub_plain" => { ra = step!(cx, opn, match form { 0 => ev.sub_plain_new(&ra, &pc), 1 => { let mut d = ra.clone(); ev.sub_plain_inplace(&mut d, &pc); d } _ => { let mut d = empty_rnsp(k); ev.sub_plain(&ra, &pc, &mut d); d } });
                va = va.iter().zip(&vc).map(|(a, b)| big_mod_sub(a, b, big_t)).collect(); }
            _ => { ra = step!(cx, opn, if form == 0 { ev.negate_new(&ra) } else { let mut d = ra.clone(); ev.negate_inplace(&mut d); d });
                va = va.iter().map(|a| big_mod_sub(&BigU::zero(), a, big_t)).collect(); }
        }
    }
    // one level down after a linear program (no product: the noise precondition of the group is unaffected), any of the three forms
    if !used_ct_mul && !used_pt_mul && qs.len() >= 3 && rng.chance(1, 2) {
        let form = rng.below(3);
        program.push(format!("mod_switch_to_next/{}", ["new", "inplace", "dest"][form as usize]));
        cx.rep.count("rns_ops", &format!("mod_switch_to_next|{}", if poly_mode { "polynomial" } else { "slots" }));
        ra = step!(cx, "RnspEvaluator::mod_switch_to_next".to_string(), match form { 0 => ev.mod_switch_to_next_new(&ra), 1 => { let mut d = ra.clone(); ev.mod_switch_to_next_inplace(&mut d); d } _ => { let mut d = empty_rnsp(k); ev.mod_switch_to_next(&ra, &mut d); d } });
    }
    cx.info["program"] = json!(program);
    let pd = step!(cx, "RnspDecryptor::decrypt", decryptor.decrypt_new(&ra));
    let got = step!(cx, "RnspBatchEncoder::decode", if poly_mode { enc.decode_polynomial_new(&pd) } else { enc.decode_new(&pd) });
    let opn = "rns_plain::program".to_string();
    cx.class = format!("{}|{}", cx.class, if used_ct_mul { "ciphertext_product" } else if used_pt_mul { "plaintext_product" } else { "linear" });
    if got.len() != n * k { cx.viol("RnspBatchEncoder::decode", "value", format!("decoded length {} expected {}", got.len(), n * k)); return; }
    for i in 0..n {
        let want = va[i].to_limbs(k);
        if got[i * k..(i + 1) * k] != want[..] {
            cx.viol(&opn, "value", format!("value {}: got limbs {:?}, expected {:?} (= {} mod prod t_i)", i, &got[i * k..(i + 1) * k], want, va[i].to_dec()));
            return;
        }
    }
    cx.info["observed_first_value_limbs"] = json!(got[..k].to_vec());
}

// ------------------------------------------------------------------ group: deterministic minimal inputs for the two trimmed-plaintext paths
/// N = 8, t = 16, outputs whose trailing coefficients are zero, no transport: BFV decryption returns a
/// plaintext shorter than N and decrypt_outputs_bfv must still return the outputs.
fn minimal_case(cfg: &Cfg, case: u64, rng: &mut Rng, rep: &mut Report) {
    let (n, t) = (8usize, 16u64);
    let Some(spec) = make_spec(rng, SchemeType::BFV, n, t, "minimal", 2) else { rep.harness_errors.push("C20 minimal: no primes".into()); return; };
    let kit = match Kit::new(&spec) { Ok(k) => k, Err(e) => { rep.harness_errors.push(format!("C20 minimal kit: {}", e)); return; } };
    let benc = match lib(|| BatchEncoder::new(kit.ctx.clone())) { Ok(b) => b, Err(p) => { rep.harness_errors.push(format!("C20 BatchEncoder::new: {}", p.0)); return; } };
    let obj = MatmulHelperObjective::CipherPlain;
    if case == 0 {
        let Ok(h) = lib(|| MatmulHelper::new(1, 1, 2, n, obj, false)) else { rep.count("constructor_refused", "MatmulHelper|minimal"); return; };
        let ops = Ops::U { t, x: vec![1], w: vec![1, 0], x2: vec![], w2: vec![], bias: vec![3, 5], expect: vec![1, 0] };
        let info = json!({"helper": "MatmulHelper", "N": n, "scheme": "BFV", "t": t, "shape_m_r_n": [1, 1, 2], "x": [1], "w": [1, 0], "pack_lwe": false, "qs": spec.qs});
        let mut cx = Cx { cfg, rep: &mut *rep, grp: "minimal", case, class: "pack_lwe=0".into(), info, failed: false };
        coeff_flow(&mut cx, rng, &kit, Some(&benc), &h, &ops, 1, Dir::Fwd, None, false, Some(Transport::Direct));
        rep.eval(Some("minimal|MatmulHelper|1,1,2"));
    } else {
        let s = ConvShape { b: 1, ci: 1, co: 2, h: 2, w: 2, kh: 1, kw: 1 };
        let Ok(h) = lib(|| Conv2dHelper::new(s.b, s.ci, s.co, s.h, s.w, s.kh, s.kw, n, obj)) else { rep.count("constructor_refused", "Conv2dHelper|minimal"); return; };
        let (x, w) = (vec![1u64, 2, 3, 4], vec![1u64, 0]);
        let expect = conv_mod(&x, &w, &s, t);
        let info = json!({"helper": "Conv2dHelper", "N": n, "scheme": "BFV", "t": t, "batch": 1, "channels_in": 1, "channels_out": 2, "image_h_w": [2, 2], "kernel_h_w": [1, 1], "x": x, "w": w, "qs": spec.qs});
        let ops = Ops::U { t, x, w, x2: vec![], w2: vec![], bias: vec![1, 2, 3, 4, 5, 6, 7, 8], expect };
        let mut cx = Cx { cfg, rep: &mut *rep, grp: "minimal", case, class: "height_unsplit".into(), info, failed: false };
        coeff_flow(&mut cx, rng, &kit, Some(&benc), &h, &ops, 1, Dir::Fwd, None, false, Some(Transport::Direct));
        rep.eval(Some("minimal|Conv2dHelper|1,1,2,2x2,1x1"));
    }
}

// ------------------------------------------------------------------ driver
fn timed(rep: &mut Report, group: &str, f: impl FnOnce(&mut Report)) {
    let t0 = std::time::Instant::now();
    f(rep);
    rep.max(&format!("group_wall_s.{}", group), t0.elapsed().as_secs_f64());
}
pub fn run(cfg: &Cfg, rep: &mut Report) -> PropMeta {
    // ---- deterministic minimal inputs (trailing zero outputs, no transport)
    run_cases(cfg, "minimal", 2, rep, |i, rng, rep| minimal_case(cfg, i, rng, rep));

    // ---- Cheetah: every shape of the box x N x scheme (objectives, packing, directions inside the case)
    let boxmax = 10usize;
    let mut cheetah: Vec<(usize, bool, (usize, usize, usize))> = vec![];
    for &n in &[8usize, 16, 32] { for ckks in [false, true] { for s in cheetah_shapes(n, boxmax) { cheetah.push((n, ckks, s)); } } }
    timed(rep, "cheetah", |rep| run_cases(cfg, "cheetah", cheetah.len() as u64, rep, |i, rng, rep| { let (n, ckks, s) = cheetah[i as usize]; cheetah_case(cfg, "cheetah", i, rng, rep, n, ckks, s, false) }));
    {
        // weight matrices with more than 2^16 entries (index types narrower than usize only differ up there)
        let mut wide: Vec<(usize, bool, (usize, usize, usize))> = vec![(4096, false, (2, 257, 256)), (1024, true, (2, 256, 257))];
        if !cfg.quick() { for &n in &[1024usize, 4096] { for ckks in [false, true] { for s in [(3, 300, 290), (1, 70000, 1), (2, 1, 66000)] { wide.push((n, ckks, s)); } } } }
        timed(rep, "cheetah_wide", |rep| run_cases(cfg, "cheetah_wide", wide.len() as u64, rep, |i, rng, rep| { let (n, ckks, s) = wide[i as usize]; cheetah_case(cfg, "cheetah_wide", i, rng, rep, n, ckks, s, true) }));
    }
    if !cfg.quick() {
        // degrees and shapes of the library's own examples/tests, plus one inner dimension just past N
        let mut large: Vec<(usize, bool, (usize, usize, usize))> = vec![];
        for &n in &[1024usize, 4096, 8192] { for ckks in [false, true] { for s in [(4, 5, 6), (17, 80, 100), (16, 512, 10), (2, n + 1, 3)] { large.push((n, ckks, s)); } } }
        timed(rep, "cheetah_large", |rep| run_cases(cfg, "cheetah_large", large.len() as u64, rep, |i, rng, rep| { let (n, ckks, s) = large[i as usize]; cheetah_case(cfg, "cheetah_large", i, rng, rep, n, ckks, s, true) }));
    }

    // ---- BOLT: every shape of the box at N = 16, 32 for the three helpers, plus shapes beyond N/2 rows
    let bbox = 8usize;
    let mut bolt: Vec<(usize, usize, (usize, usize, usize))> = vec![];
    for kind in 0..3 { for &n in &[16usize, 32] {
        for m in 1..=bbox { for r in 1..=bbox { for k in 1..=bbox { bolt.push((kind, n, (m, r, k))); } } }
        for s in [(n / 2, 2, 3), (n / 2 + 1, 3, 2), (n + 1, 2, 2), (2, n / 2 + 1, 3), (3, 2, n / 2 + 1), (2, n + 1, 2), (2, 2, n + 1), (n / 2 + 1, n / 2 + 1, n / 2 + 1), (7, 9, 11)] { bolt.push((kind, n, s)); }
    } }
    timed(rep, "bolt", |rep| run_cases(cfg, "bolt", bolt.len() as u64, rep, |i, rng, rep| { let (kind, n, s) = bolt[i as usize]; let minb = (2 * n).trailing_zeros() + 2; bolt_case(cfg, "bolt", i, rng, rep, kind, n, s, [minb, 13, 17][i as usize % 3], 2) }));
    if !cfg.quick() {
        let large = bolt_large_shapes();
        timed(rep, "bolt_large", |rep| run_cases(cfg, "bolt_large", large.len() as u64, rep, |i, rng, rep| { let (kind, n, s) = large[i as usize]; bolt_case(cfg, "bolt_large", i, rng, rep, kind, n, s, 17, 3) }));
    }

    // ---- conv2d: designated shapes (incl. the 20x8 image of DESIGN section 0) and the sampled box
    let fixed: Vec<(usize, ConvShape)> = vec![
        (8, ConvShape { b: 1, ci: 1, co: 1, h: 3, w: 3, kh: 1, kw: 3 }),   // smallest height split found: blocks 2x3, weight buffer 3*3 = 9 > N
        (64, ConvShape { b: 1, ci: 1, co: 1, h: 20, w: 8, kh: 3, kw: 3 }),
        (32, ConvShape { b: 1, ci: 1, co: 1, h: 11, w: 3, kh: 1, kw: 3 }),
        (32, ConvShape { b: 1, ci: 1, co: 1, h: 9, w: 4, kh: 2, kw: 2 }),
        (32, ConvShape { b: 1, ci: 1, co: 1, h: 4, w: 12, kh: 2, kw: 2 }),
        (32, ConvShape { b: 3, ci: 3, co: 3, h: 4, w: 4, kh: 3, kw: 3 }),
        (128, ConvShape { b: 2, ci: 3, co: 2, h: 12, w: 12, kh: 4, kw: 1 }),
        (64, ConvShape { b: 3, ci: 1, co: 3, h: 6, w: 5, kh: 1, kw: 4 }),
        (128, ConvShape { b: 1, ci: 2, co: 2, h: 8, w: 8, kh: 3, kw: 3 }),
    ];
    timed(rep, "conv_fixed", |rep| run_cases(cfg, "conv_fixed", (fixed.len() * 12) as u64, rep, |i, rng, rep| {
        let (n, s) = fixed[i as usize / 12]; let v = i as usize % 12;
        conv_case(cfg, "conv_fixed", i, rng, rep, n, s, v % 2 == 1, OBJS[(v / 2) % 3], if v / 6 == 0 { Dir::Fwd } else { Dir::Rev })
    }));
    timed(rep, "conv", |rep| run_cases(cfg, "conv", cfg.n(8000, 120000) as u64, rep, |i, rng, rep| {
        let iu = i as usize;
        let n = [32usize, 64, 128][iu % 3];
        let kh = rng.range(1, 4) as usize; let kw = rng.range(1, 4) as usize;
        let big = rng.chance(1, 3);
        let h = if big { rng.range(10, 12) as usize } else { rng.range(kh as u64, 12) as usize };
        let w = if big && rng.bool() { rng.range(10, 12) as usize } else { rng.range(kw as u64, 12) as usize };
        let s = ConvShape { b: rng.range(1, 3) as usize, ci: rng.range(1, 3) as usize, co: rng.range(1, 3) as usize, h, w, kh, kw };
        conv_case(cfg, "conv", i, rng, rep, n, s, (iu / 3) % 2 == 1, OBJS[(iu / 6) % 3], if (iu / 18) % 2 == 0 { Dir::Fwd } else { Dir::Rev })
    }));

    if !cfg.quick() {
        // shapes of the library's own tests at N = 4096 and an image that must be split along both axes there
        let large: Vec<(usize, ConvShape)> = vec![
            (4096, ConvShape { b: 1, ci: 3, co: 5, h: 16, w: 17, kh: 3, kw: 5 }),
            (4096, ConvShape { b: 4, ci: 3, co: 16, h: 32, w: 32, kh: 5, kw: 5 }),
            (4096, ConvShape { b: 2, ci: 2, co: 2, h: 70, w: 70, kh: 3, kw: 3 }),
            (1024, ConvShape { b: 1, ci: 1, co: 2, h: 40, w: 30, kh: 2, kw: 4 }),
        ];
        timed(rep, "conv_large", |rep| run_cases(cfg, "conv_large", (large.len() * 12) as u64, rep, |i, rng, rep| {
            let (n, s) = large[i as usize / 12]; let v = i as usize % 12;
            conv_case(cfg, "conv_large", i, rng, rep, n, s, v % 2 == 1, OBJS[(v / 2) % 3], if v / 6 == 0 { Dir::Fwd } else { Dir::Rev })
        }));
    }

    // ---- rns_plain
    timed(rep, "rns_plain", |rep| run_cases(cfg, "rns_plain", cfg.n(2000, 20000) as u64, rep, |i, rng, rep| rns_case(cfg, i, rng, rep)));

    let rule_quick = "Cheetah MatmulHelper: every shape (m,r,n) in [1,10]^3 plus the boundary shapes with dimensions from {N-1,N,N+1,2N+1,3N} (one, two or three large dimensions), at N in {8,16,32} x {BFV t=2^k, CKKS} x 3 objectives x pack_lwe on/off x {matmul, matmul_reverse, and their sum for CpAddPc}: this finite configuration space is enumerated completely (operand value class, t, transport {serialize_terms, serialize, none} and encryption mode are sampled per configuration). BOLT Cp/CcCr/CcDc: every shape in [1,8]^3 plus 9 shapes beyond N/2 rows at N in {16,32}. Conv2dHelper: 9 designated shapes x 12 variants plus 8000 sampled (batch, cin, cout in [1,3], kernel 1..4 x 1..4, image up to 12x12, N in {32,64,128}, 3 objectives, both directions, BFV/CKKS). rns_plain: 2000 programs (2-4 plain moduli, slot and polynomial mode). distinct = distinct (helper, N, scheme, objective, packing, direction, shape) with a non-zero weight operand. rns_plain programs draw the API form per step (incl. the destination form of relinearize) and end, when linear, with mod_switch_to_next in one of its three forms";
    let rule_thorough = "Cheetah MatmulHelper: every shape (m,r,n) in [1,10]^3 plus the boundary shapes with dimensions from {N-1,N,N+1,2N+1,3N} (one, two or three large dimensions), at N in {8,16,32} x {BFV t=2^k, CKKS} x 3 objectives x pack_lwe on/off x {matmul, matmul_reverse, and their sum for CpAddPc}: this finite configuration space is enumerated completely (operand value class, t, transport {serialize_terms, serialize, none} and encryption mode are sampled per configuration); plus 4 example shapes at N in {1024,4096,8192}. BOLT Cp/CcCr/CcDc: every shape in [1,8]^3 plus 9 shapes beyond N/2 rows at N in {16,32}, plus partial-last-block shapes at N in {64,256,1024,4096}. Conv2dHelper: 9 designated shapes x 12 variants, 120000 sampled (batch, cin, cout in [1,3], kernel 1..4 x 1..4, image up to 12x12, N in {32,64,128}, 3 objectives, both directions, BFV/CKKS) and 4 large shapes at N in {1024,4096}. rns_plain: 20000 programs (2-4 plain moduli, slot and polynomial mode). distinct = distinct (helper, N, scheme, objective, packing, direction, shape) with a non-zero weight operand. rns_plain programs draw the API form per step (incl. the destination form of relinearize) and end, when linear, with mod_switch_to_next in one of its three forms";
    PropMeta {
        id: P, level: "exploration",
        rule: cfg.pick(rule_quick, rule_thorough),
        assumptions: vec![
            "parameters: two 60-bit data primes and one 60-bit special prime found by the harness (three data primes for the large-degree BOLT cases); 'accepted' = the helper constructor returned".into(),
            "BFV coefficient packing (t = 2^k, k in {1,4,13,20,32}; {13,20} for N >= 1024): worst-case phase error adds*(N*(t/2)*(B+1) + N*t^2/2)*2 + 2^16*N^2 (packing key switches), B = 21(2N+1) for public-key and 21 for secret-key encryption of the encrypted operand, adds = number of accumulated plaintext products, is required to be 8x below q/(2t) with q >= 2^118; all generated cases satisfy it (otherwise counted out_of_precondition)".into(),
            "BOLT (batching prime t <= 2^17, N <= 32: t*N bounded so that one ciphertext product (2tN^2 E + 2t^2N^4), one mask product (N t/2) and log(s) rotation sums stay below q/(2t) in the worst case); the smallest observed noise budget is recorded under extremes".into(),
            "CKKS: operands bounded by 4 in absolute value, encoding scale 2^45, one rescale; tolerance = 2*(dirs*adds*N*5*(B+2)/2^45 + 2^16*N^2/2^90 + (N+2)/2/scale' + 1/scale' + 2^13/scale' + (|y|+1)*2^-45) with scale' = 2^90/q1 as reported by the ciphertext; a case whose tolerance would exceed 2^-10 is counted out_of_precondition; N >= 1024 cases use secret-key encryption only (B = 21)".into(),
            "rns_plain: BFV, N <= 32, batching plain primes below 2^22, programs with at most one ciphertext product and one plaintext product".into(),
            "operand values are sampled (classes: random, all maximal, sparse, zero weights, zero last output column/channel, zero last input row/image); the enumeration is over shapes and configurations, not values".into(),
        ],
        exhaustive: true,
        floor: cfg.pick(80000, 180000),
    }
}
