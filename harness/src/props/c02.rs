//! C02 — BFV/BGV evaluation is an exact ring homomorphism for every operation program.
//! Shadow: plaintext polynomial in Z_t[X]/(X^N+1) maintained with reference arithmetic.
//! Oracles: library decryption AND oracle decryption must equal the shadow whenever the
//! worst-case noise is below the threshold (P1: pure analytic recursion = the property's
//! precondition; P2: one-step worst case from the operands' exactly measured noise — sound and
//! tighter, counted separately).

use crate::he::*;
use crate::prog::*;
use crate::props::c01::gen_plain;
use crate::refm;
use crate::rt::*;
use heathcliff::*;
use serde_json::json;

const P: &str = "C02";

pub fn program_spec(rng: &mut Rng, n_choices: &[usize], scheme: Option<SchemeType>) -> Option<Spec> {
    let scheme = scheme.unwrap_or(if rng.bool() { SchemeType::BFV } else { SchemeType::BGV });
    let n = *rng.pick(n_choices);
    let logm = (2 * n).trailing_zeros();
    let k = rng.range(2, 6) as usize;
    let mut bits: Vec<u32> = (0..k).map(|_| rng.range(45, 60) as u32).collect();
    let small_first = rng.chance(1, 4);
    // option combinations: a small prime that is NOT the first one (so that whether a prime is below t — the "fast plain lift"
    // qualifier — differs from level to level), together with a plain modulus above it
    let small_at = if k >= 3 && rng.chance(1, 6) { let i = 1 + rng.usize_below(k - 1); bits[i] = rng.range(26, 32) as u32; Some(i) } else { None };
    // (the first prime stays large then: every level contains it, and t must stay below every level's modulus)
    if small_first && small_at.is_none() { bits[0] = rng.range(25, 44) as u32; }
    let qs = coeff_primes(n, &bits, rng)?;
    let (t, tf) = match if small_at.is_some() && rng.chance(2, 3) { 7 } else { rng.below(7) } {
        7 => { let lo = qs[small_at.unwrap()] + 1; let mut c = lo + rng.below(1 << 20); while qs.iter().any(|&q| refm::gcd(q, c) != 1) { c += 1; } (c, "above_a_later_prime") }
        0 => (2u64, "2"),
        1 => (1u64 << rng.range(2, 10), "2^k"),
        2 => { let tb = rng.range((logm + 1) as u64, 18) as u32; (ntt_primes(n, tb, 3, 0).into_iter().find(|c| !qs.contains(c))?, "batching") }
        3 => (65537, "65537"),
        4 => (*rng.pick(&[3u64, 5, 7, 11, 13, 127, 251]), "small_prime"),
        5 => (*rng.pick(&[6u64, 10, 12, 15, 100, 255]), "composite"),
        _ => (rng.range(2, 1 << 12), "random"),
    };
    if qs.iter().any(|&q| refm::gcd(q, t) != 1) { return None; }
    // the special-prime-for-encryption flag (first data level = key level) in one case out of six
    let special_flag = rng.chance(1, 6);
    Some(Spec { scheme, n, qs, t, special_flag, expand: true, family: format!("prog-k{}-t:{}{}", k, tf, if special_flag { "-special_flag" } else { "" }) })
}

pub struct Obs<'a> { pub cfg: &'a Cfg, pub grp: &'a str, pub case: u64, pub prop: &'static str }

fn viol(o: &Obs, rep: &mut Report, op: &str, class: &str, kind: &str, detail: String, m: &Machine, trace: &[String]) {
    rep.violation(&format!("{}|{}|{}|{}", o.prop, op, class, kind), format!("{} ; program: {:?} ; params {}", detail, trace, m.kit.spec.describe()),
        replay_json(o.cfg, o.grp, o.case, json!({"params": m.kit.spec.describe(), "program": trace})));
}

fn size_class(op: &Op, m: &Machine) -> String {
    let ops = Machine::operands(op);
    let s: Vec<usize> = ops.iter().map(|i| m.pool[*i].ct.size()).collect();
    match op {
        Op::Add(..) | Op::Sub(..) | Op::Multiply(..) => if s[0] == s[1] { "size_pair=equal".into() } else { "size_pair=unequal".into() },
        _ => if s[0] == 2 { "size=2".into() } else { "size>2".into() },
    }
}

/// Execute one step, check it as C02 demands, push the result. Returns false if the step failed.
pub fn step_c02(o: &Obs, rep: &mut Report, m: &mut Machine, op: &Op, form: Form, trace: &mut Vec<String>, push_always: bool) -> bool {
    let scheme = m.kit.spec.scheme_name();
    let cls = size_class(op, m);
    let ops = Machine::operands(op);
    let sizes: Vec<usize> = ops.iter().map(|i| m.pool[*i].ct.size()).collect();
    let lvl = m.pool[ops[0]].level;
    let ntt = m.pool[ops[0]].ct.is_ntt_form();
    trace.push(format!("{:?}/{:?} sizes={:?} L{} ntt={}", op_brief(op), form, sizes, lvl, ntt));
    let ct = match m.execute(op, form) {
        Ok(c) => c,
        Err(p) => { viol(o, rep, op.name(), &format!("{}|{}", scheme, cls), "panic", format!("well-typed operation panicked: {}", p.0), m, trace); return false; }
    };
    let (esz, elv, entt) = m.expected_meta(op);
    let meta_ok = ct.size() == esz && m.kit.level_of(ct.parms_id()) == Some(elv) && ct.is_ntt_form() == entt && ct.scale() == 1.0
        && (m.bfv && ct.correction_factor() == 1 || !m.bfv && ct.correction_factor() >= 1 && ct.correction_factor() < m.t());
    if !meta_ok {
        viol(o, rep, op.name(), &format!("{}|{}", scheme, cls), "metadata", format!("result metadata: size {} (want {}), level {:?} (want {}), ntt {} (want {}), scale {}, cf {}",
            ct.size(), esz, m.kit.level_of(ct.parms_id()), elv, ct.is_ntt_form(), entt, ct.scale(), ct.correction_factor()), m, trace);
        return false;
    }
    let el = m.result_elem(op, ct);
    let p1 = m.within(el.e_an, el.level);
    let p2 = el.e_step.map(|e| m.within(e, el.level)).unwrap_or(false);
    let cell = format!("{}|{}|{}|L{}|{}", scheme, op.name(), sizes.iter().map(|s| s.to_string()).collect::<Vec<_>>().join("x"), lvl, if ntt { "ntt" } else { "coef" });
    let mut bad = false;
    if p1 || p2 {
        rep.count("asserted_precondition", if p1 { "P1_analytic" } else { "P2_measured_operands" });
        rep.count("op_cells", &cell);
        match m.lib_decrypt(&el.ct) {
            Err(p) => { bad = true; viol(o, rep, op.name(), &format!("{}|{}|decrypt", scheme, cls), "panic", format!("decrypting the result panicked: {}", p.0), m, trace) }
            Ok(got) => if got != el.m {
                bad = true;
                viol(o, rep, op.name(), &format!("{}|{}", scheme, cls), "value", format!("library decryption != program value: got {:?} want {:?} (cf {}, measured noise {:?}, bound {:?}/{:e})",
                    &got[..got.len().min(8)], &el.m[..el.m.len().min(8)], el.ct.correction_factor(), el.e_meas, el.e_step, el.e_an), m, trace);
            }
        }
        if let Some((om, budget)) = m.oracle_decrypt(&el.ct) {
            rep.min(&format!("budget_bits_at_assertion_{}", scheme), budget as f64);
            if om != el.m {
                bad = true;
                viol(o, rep, op.name(), &format!("{}|{}|oracle", scheme, cls), "value", format!("oracle decryption != program value: got {:?} want {:?}", &om[..om.len().min(8)], &el.m[..el.m.len().min(8)]), m, trace);
            }
            if let (Some(meas), Some(st)) = (el.e_meas, el.e_step) { if st > 0.0 { rep.max("measured_over_stepbound", meas / st); } }
        }
        let nontrivial = el.m.iter().any(|&x| x != 0);
        rep.eval(if nontrivial { Some(cell.as_str()) } else { None });
    } else {
        rep.out_of_precondition += 1;
        rep.count("out_of_precondition_ops", op.name());
        rep.eval(None);
    }
    // a wrong element would only produce follow-up alarms: stop using it
    let keep = !bad && (p1 || p2 || push_always);
    if keep { m.pool.push(el); }
    keep
}

pub fn op_brief(op: &Op) -> String {
    match op {
        Op::AddPlain(a, p) => format!("add_plain({}, len{})", a, p.len()),
        Op::SubPlain(a, p) => format!("sub_plain({}, len{})", a, p.len()),
        Op::MultiplyPlain(a, p, n) => format!("multiply_plain({}, len{}, nz{}, ntt={})", a, p.len(), p.iter().filter(|&&x| x != 0).count(), n),
        o => format!("{:?}", o),
    }
}

fn init_pool(o: &Obs, rep: &mut Report, m: &mut Machine, rng: &mut Rng, count: usize, trace: &mut Vec<String>) -> bool {
    for _ in 0..count {
        let (cls, coeffs) = gen_plain(rng, m.n(), m.t());
        let pk = rng.bool();
        trace.push(format!("fresh({}, {})", cls, if pk { "pk" } else { "sk" }));
        if let Err(p) = m.fresh(&coeffs, pk) { viol(o, rep, "encrypt", m.kit.spec.scheme_name(), "panic", format!("encryption panicked: {}", p.0), m, trace); return false; }
    }
    true
}

fn programs(cfg: &Cfg, grp: &str, case: u64, rng: &mut Rng, rep: &mut Report, ns: &[usize], max_steps: usize) {
    let Some(spec) = program_spec(rng, ns, None) else { rep.count("generator", "no_spec"); return; };
    let Ok(kit) = Kit::new(&spec) else { rep.count("generator", "context_rejected"); return; };
    rep.count("generator", "ok");
    rep.count("params", &format!("{}|n={}|k={}|t:{}", spec.scheme_name(), spec.n, spec.qs.len(), spec.family));
    let o = Obs { cfg, grp, case, prop: P };
    let mut m = Machine::new(&kit, spec.n <= 256);
    let mut trace = vec![];
    if !init_pool(&o, rep, &mut m, rng, 4, &mut trace) { return; }
    let steps = rng.range(4, max_steps as u64) as usize;
    for _ in 0..steps {
        let Some(op) = m.random_op(rng) else { break };
        let form = *rng.pick(&FORMS);
        step_c02(&o, rep, &mut m, &op, form, &mut trace, false);
        if m.pool.len() > 24 { break; }
    }
    if case < 2 { rep.sample(json!({"group": grp, "case": case, "params": spec.describe(), "program": trace,
        "final_pool": m.pool.iter().map(|e| json!({"origin": e.origin, "size": e.ct.size(), "level": e.level, "ntt": e.ct.is_ntt_form(), "cf": e.ct.correction_factor(), "shadow_head": e.m[..e.m.len().min(4)], "measured_noise": e.e_meas})).collect::<Vec<_>>()})); }
}

/// all ordered size pairs for add / sub / multiply
fn sizepairs(cfg: &Cfg, grp: &str, case: u64, rng: &mut Rng, rep: &mut Report) {
    let scheme = if case % 2 == 0 { SchemeType::BFV } else { SchemeType::BGV };
    let n = if (case / 2) % 2 == 0 { 2 } else { 4 };
    // 6 large primes, tiny plain modulus: maximal head-room
    let Some(qs) = coeff_primes(n, &[60, 60, 60, 60, 60, 59], rng) else { return };
    let t = *rng.pick(&[2u64, 3, 4, 5]);
    let spec = Spec { scheme, n, qs, t, special_flag: false, expand: rng.bool(), family: "sizepairs".into() };
    let Ok(kit) = Kit::new(&spec) else { rep.count("generator", "context_rejected"); return; };
    let o = Obs { cfg, grp, case, prop: P };
    let mut m = Machine::new(&kit, true);
    let mut trace = vec![];
    // chain[s] = index of a size-s ciphertext, s = 2..16
    let mut chain = vec![usize::MAX; 17];
    let (_, c0) = gen_plain(rng, n, t);
    if m.fresh(&c0, true).is_err() { return; }
    chain[2] = 0;
    for s in 3..=16usize {
        let (_, c) = gen_plain(rng, n, t);
        let Ok(f) = m.fresh(&c, rng.bool()) else { return };
        let op = if rng.bool() { Op::Multiply(chain[s - 1], f) } else { Op::Multiply(f, chain[s - 1]) };
        if !step_c02(&o, rep, &mut m, &op, *rng.pick(&FORMS), &mut trace, true) { return; }
        chain[s] = m.pool.len() - 1;
    }
    for a in 2..=16usize { for b in 2..=16usize {
        for which in 0..3 {
            let op = match which { 0 => Op::Add(chain[a], chain[b]), 1 => Op::Sub(chain[a], chain[b]), _ => Op::Multiply(chain[a], chain[b]) };
            if m.applicable(&op).is_some() { continue; }
            let before = m.pool.len();
            step_c02(&o, rep, &mut m, &op, *rng.pick(&FORMS), &mut trace, true);
            rep.count("size_pairs", &format!("{}|{}|{}x{}", spec.scheme_name(), op.name(), a, b));
            m.pool.truncate(before.max(chain[16] + 1));
            trace.truncate(20);
        }
    } }
}

/// BGV: operands with unequal correction factors at one level
fn bgv_factors(cfg: &Cfg, grp: &str, case: u64, rng: &mut Rng, rep: &mut Report) {
    let Some(spec) = program_spec(rng, &[4, 8, 16], Some(SchemeType::BGV)) else { return };
    if spec.qs.len() < 3 { return; }
    let Ok(kit) = Kit::new(&spec) else { return };
    let o = Obs { cfg, grp, case, prop: P };
    let mut m = Machine::new(&kit, true);
    let mut trace = vec![];
    if !init_pool(&o, rep, &mut m, rng, 3, &mut trace) { return; }
    // a' = modswitch(a) has factor q^-1; c = a'*a' has factor q^-2; then c +/- a', c +/- modswitch(b)*plain ...
    if !step_c02(&o, rep, &mut m, &Op::ModSwitchNext(0), *rng.pick(&FORMS), &mut trace, false) { return; }
    let a1 = m.pool.len() - 1;
    if !step_c02(&o, rep, &mut m, &Op::ModSwitchNext(1), *rng.pick(&FORMS), &mut trace, false) { return; }
    let b1 = m.pool.len() - 1;
    if !step_c02(&o, rep, &mut m, &Op::Multiply(a1, b1), *rng.pick(&FORMS), &mut trace, false) { return; }
    let c = m.pool.len() - 1;
    let pairs = [(c, a1), (a1, c), (c, b1)];
    for (x, y) in pairs {
        let (f1, f2) = (m.pool[x].ct.correction_factor(), m.pool[y].ct.correction_factor());
        rep.count("bgv_factor_pairs", if f1 == f2 { "equal" } else { "unequal" });
        for op in [Op::Add(x, y), Op::Sub(x, y)] {
            step_c02(&o, rep, &mut m, &op, *rng.pick(&FORMS), &mut trace, false);
        }
    }
    // keep going randomly from here
    for _ in 0..4 { if let Some(op) = m.random_op(rng) { step_c02(&o, rep, &mut m, &op, *rng.pick(&FORMS), &mut trace, false); } }
}

/// `Evaluator::multiply_many` (a tournament of multiply + relinearize over k operands) against the same tournament written
/// out step by step through the machine: whenever the written-out result is inside its noise precondition with a margin of
/// 6 bits, the one-call form must decrypt to the same product
fn multiply_many(cfg: &Cfg, grp: &str, case: u64, rng: &mut Rng, rep: &mut Report) {
    let Some(spec) = program_spec(rng, &[4, 8, 16, 32], None) else { return };
    let Ok(kit) = Kit::new(&spec) else { return };
    let o = Obs { cfg, grp, case, prop: P };
    let mut m = Machine::new(&kit, true);
    if m.rlk.is_none() { rep.out_of_precondition += 1; return; }
    let k = 1 + (case % 5) as usize;
    let mut trace = vec![];
    if !init_pool(&o, rep, &mut m, rng, k, &mut trace) { return; }
    // the written-out tournament
    let mut layer: Vec<usize> = (0..k).collect();
    while layer.len() > 1 {
        let mut next = vec![];
        for pair in layer.chunks(2) {
            if pair.len() == 2 {
                if !step_c02(&o, rep, &mut m, &Op::Multiply(pair[0], pair[1]), *rng.pick(&FORMS), &mut trace, false) { return; }
                let prod = m.pool.len() - 1;
                if !step_c02(&o, rep, &mut m, &Op::Relinearize(prod), *rng.pick(&FORMS), &mut trace, false) { return; }
                next.push(m.pool.len() - 1);
            } else { next.push(pair[0]); }
        }
        layer = next;
    }
    let want = &m.pool[layer[0]];
    if !m.within(want.e_an * 64.0, want.level) && !want.e_step.map(|e| m.within(e * 64.0, want.level)).unwrap_or(false) { rep.out_of_precondition += 1; rep.count("out_of_precondition_ops", "multiply_many"); return; }
    let operands: Vec<Ciphertext> = (0..k).map(|i| m.pool[i].ct.clone()).collect();
    let cls = format!("{}|k={}", spec.scheme_name(), k);
    trace.push(format!("multiply_many(0..{})", k));
    let got = lib(|| { let mut d = dirty(&kit); kit.eval.multiply_many(&operands, m.rlk.as_ref().unwrap(), &mut d); d });
    rep.count("multiply_many_operands", &format!("k={}", k));
    rep.eval(Some(&format!("{}|multiply_many|k={}|n={}", spec.scheme_name(), k, spec.n)));
    let ct = match got { Ok(c) => c, Err(p) => { viol(&o, rep, "multiply_many", &cls, "panic", format!("well-typed multiply_many of {} operands panicked: {}", k, p.0), &m, &trace); return; } };
    if ct.size() != 2 || ct.parms_id() != want.ct.parms_id() || ct.is_ntt_form() != want.ct.is_ntt_form() { viol(&o, rep, "multiply_many", &cls, "metadata", format!("size {} ntt {}", ct.size(), ct.is_ntt_form()), &m, &trace); return; }
    match m.lib_decrypt(&ct) {
        Err(p) => viol(&o, rep, "multiply_many", &format!("{}|decrypt", cls), "panic", p.0, &m, &trace),
        Ok(g) => if g != want.m { viol(&o, rep, "multiply_many", &cls, "value", format!("multiply_many of {} operands decrypts to {:?}, the product is {:?}", k, &g[..g.len().min(8)], &want.m[..want.m.len().min(8)]), &m, &trace); }
    }
}

pub fn run(cfg: &Cfg, rep: &mut Report) -> PropMeta {
    let deep = cfg.pick(12usize, 30usize);
    run_cases(cfg, "programs", cfg.n(18000, 300000) as u64, rep, |i, rng, rep| programs(cfg, "programs", i, rng, rep, &[2, 4, 8, 16, 32], deep));
    run_cases(cfg, "programs_mid", cfg.n(120, 2000) as u64, rep, |i, rng, rep| programs(cfg, "programs_mid", i, rng, rep, &[64, 128, 256], deep));
    run_cases(cfg, "programs_big", cfg.n(12, 120) as u64, rep, |i, rng, rep| programs(cfg, "programs_big", i, rng, rep, &[1024, 4096], 6));
    run_cases(cfg, "sizepairs", cfg.n(16, 160) as u64, rep, |i, rng, rep| sizepairs(cfg, "sizepairs", i, rng, rep));
    run_cases(cfg, "multiply_many", cfg.n(600, 10000) as u64, rep, |i, rng, rep| multiply_many(cfg, "multiply_many", i, rng, rep));
    run_cases(cfg, "bgv_factors", cfg.n(2000, 30000) as u64, rep, |i, rng, rep| bgv_factors(cfg, "bgv_factors", i, rng, rep));
    PropMeta {
        id: "C02", level: "exploration",
        rule: "typed random operation programs (negate, add, sub, add_many, multiply, square, add/sub/multiply_plain incl. NTT-form and monomial plaintexts, transform_to/from_ntt, relinearize, mod_switch_to_next; random API form per step) over pools of fresh BFV/BGV ciphertexts at N=2..32 (mid: 64..256, big: 1024/4096), 2..6 primes, several plain-modulus families; all ordered operand-size pairs (a,b), a+b-1<=16, for add/sub/multiply at N=2,4; BGV unequal correction-factor pairs. distinct = distinct (scheme, op, operand sizes, level, representation) cells asserted with a non-zero shadow. Plus multiply_many of k=1..5 operands against the same tournament written out as multiply + relinearize steps (asserted when the written-out result is inside its noise precondition with a 6-bit margin). Fresh encryptions go through a per-call varying Encryptor entry point (value-returning, destination, caller-supplied u sampler, seeded+expanded)",
        assumptions: vec!["equality asserted only when the worst-case noise bound is below q/(4t) (BFV) or q/4 (BGV): P1 analytic recursion, or P2 one-step worst case from exactly measured operand noise".into(),
            "noise growth rules: see harness/src/prog.rs step_bound (BEHZ lifts assumed within 0.51q; key-switch noise 21*N*sum(q_i)/P + N + 3)".into(),
            "oracle decryptor for N<=256; library decryptor only above".into()],
        exhaustive: false, floor: 2000,
    }
}
