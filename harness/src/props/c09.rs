//! C09 — the NTT is the documented evaluation map, invertible, convolution-preserving.
//!
//! Oracle (independent of heathcliff::util): the *definition* out[i] = p(psi^(2*bitrev(i)+1))
//! with psi = tables.root(), after psi itself has been checked to be the minimal primitive
//! 2N-th root of unity by brute force (`refm::min_primitive_2n_root`). Unit vectors use the
//! column formula (column j of the transform matrix is psi^((2*bitrev(i)+1)*j)), so all N
//! of them cost O(N^2) table look-ups. Dense vectors use the O(N^2) definition sum
//! (`fwd_def`, cross-checked in-run against `refm::ntt_ref` for N <= 64). Products use the
//! schoolbook negacyclic product, shifts the definition X^s * X^i = X^(i+s), X^N = -1.
//!
//! Documented ranges of the lazy forms (sources in the library):
//!   forward lazy: inputs in [0,4q) -> outputs in [0,4q)   (src/util/rns.rs:725,732 ; src/util/ntt.rs:161-162)
//!   inverse lazy: inputs in [0,2q) -> outputs in [0,2q)   (butterfly invariant of transform_from_rev with
//!       ModArithLazy, src/util/dwthandler.rs:111-114 ; the caller Evaluator::switch_key_inplace in src/evaluator.rs
//!       uses qi_lazy = 2q after intt_lazy and 4q after ntt_lazy)
//! Inverse-lazy inputs in [2q,4q) are executed as out-of-precondition probes only.

use crate::refm;
use crate::rt::*;
use heathcliff::util as hu;
use heathcliff::util::NTTTables;
use heathcliff::verif::polysmallmod as pm;
use heathcliff::Modulus;
use serde_json::{json, Value};
use std::collections::BTreeSet;

const P: &str = "C09";
const G_PAIR: &str = "pair";
const G_XPROC: &str = "xproc";
const CHILD_ENV: &str = "HV_C09_TABLE_CHILD";

const E_FWD: &str = "NTTTables::ntt_negacyclic_harvey";
const E_FWD_LAZY: &str = "NTTTables::ntt_negacyclic_harvey_lazy";
const E_INV: &str = "NTTTables::inverse_ntt_negacyclic_harvey";
const E_INV_LAZY: &str = "NTTTables::inverse_ntt_negacyclic_harvey_lazy";
const E_PM_FWD: &str = "polysmallmod::ntt";
const E_PM_FWD_LAZY: &str = "polysmallmod::ntt_lazy";
const E_PM_INV: &str = "polysmallmod::intt";
const E_PM_INV_LAZY: &str = "polysmallmod::intt_lazy";
const E_PM_FWD_P: &str = "polysmallmod::ntt_p";
const E_PM_INV_P: &str = "polysmallmod::intt_p";
const E_DYADIC: &str = "polysmallmod::dyadic_product";
const E_DYADIC_INPLACE: &str = "polysmallmod::dyadic_product_inplace";
const E_DYADIC_P: &str = "polysmallmod::dyadic_product_p";
const E_SHIFT: &str = "polysmallmod::negacyclic_shift";
const E_NEW: &str = "NTTTables::new";
const E_ROOT: &str = "NTTTables::root";

#[derive(Clone, Copy)]
struct Pair { logn: usize, q: u64, src: &'static str, sample: bool }
#[derive(Clone, Copy)]
struct Work { pair: usize, part: usize, parts: usize }

/// per-case context: everything a violation needs
struct Cx<'a> { cfg: &'a Cfg, grp: &'static str, case: u64, n: usize, q: u64, bits: usize, src: &'static str }
impl<'a> Cx<'a> {
    fn ncls(&self) -> &'static str { match self.n { 2 => "2", 4 => "4", _ => ">=8" } }
    fn qcls(&self) -> &'static str { if self.bits == 61 { "61" } else if self.bits >= 32 { "32..60" } else { "3..31" } }
    fn sig(&self, entry: &str, vec: &str, kind: &str) -> String { format!("{}|{}|vec={};n={};qbits={}|{}", P, entry, vec, self.ncls(), self.qcls(), kind) }
    fn replay(&self, extra: Value) -> Value { replay_json(self.cfg, self.grp, self.case, json!({"n": self.n, "q": self.q, "modulus_source": self.src, "what": extra})) }
    fn class(&self, kind: &str) -> String { format!("n{}-b{}-{}", self.n, self.bits, kind) }
}

/// library call that must not panic on in-domain input
fn call<T>(cx: &Cx, rep: &mut Report, entry: &str, vec: &str, f: impl FnOnce() -> T) -> Option<T> {
    rep.count("entry_point", entry);
    match lib(f) {
        Ok(v) => Some(v),
        Err(p) => {
            rep.violation(&cx.sig(entry, vec, "panic"), format!("{} panicked on in-domain input (N={}, q={}, vector={}): {}", entry, cx.n, cx.q, vec, p.0),
                cx.replay(json!({"entry": entry, "vector": vec})));
            None
        }
    }
}

// ------------------------------------------------------------------ reference side
struct RefT {
    n: usize, q: u64, psi: u64,
    /// psi^k, k in 0..2N
    pw: Vec<u64>,
    /// N^-1 * psi^-k, k in 0..2N
    ipws: Vec<u64>,
    /// 2*bitrev(i)+1
    exps: Vec<usize>,
}

fn build_ref(n: usize, logn: usize, q: u64, psi: u64) -> RefT {
    let mut pw = vec![1u64 % q; 2 * n];
    for k in 1..2 * n { pw[k] = refm::mulmod(pw[k - 1], psi, q); }
    let ipsi = refm::invmod(psi, q).expect("psi invertible (checked primitive before)");
    let ninv = refm::invmod(n as u64 % q, q).expect("N invertible modulo a prime > N");
    let mut ipws = vec![ninv; 2 * n];
    for k in 1..2 * n { ipws[k] = refm::mulmod(ipws[k - 1], ipsi, q); }
    let exps = (0..n).map(|i| 2 * refm::bitrev(i, logn) + 1).collect();
    RefT { n, q, psi, pw, ipws, exps }
}

/// The definition of the forward transform on a reduced vector: out[i] = sum_j a[j] psi^((2 bitrev(i)+1) j).
/// (Same sum as refm::ntt_ref, with one 128-bit reduction per 32 terms: 32 * 2^122 + 2^61 < 2^128.)
fn fwd_def(r: &RefT, a: &[u64]) -> Vec<u64> {
    let n = r.n; let mask = 2 * n - 1; let q = r.q as u128;
    let mut out = vec![0u64; n];
    for i in 0..n {
        let e = r.exps[i];
        let mut idx = 0usize; let mut acc = 0u128;
        for j in 0..n {
            acc += a[j] as u128 * r.pw[idx] as u128;
            idx = (idx + e) & mask;
            if j & 31 == 31 { acc %= q; }
        }
        out[i] = (acc % q) as u64;
    }
    out
}

/// X^s * p mod (X^N + 1, q) for reduced p, s in [0,2N): X^i -> X^(i+s), X^N = -1.
fn shift_def(p: &[u64], s: usize, q: u64) -> Vec<u64> {
    let n = p.len(); let mask = 2 * n - 1;
    let mut r = vec![0u64; n];
    for i in 0..n {
        let k = (i + s) & mask;
        if k < n { r[k] = p[i]; } else { r[k - n] = if p[i] == 0 { 0 } else { q - p[i] }; }
    }
    r
}

fn reduce_vec(v: &[u64], q: u64) -> Vec<u64> { v.iter().map(|&x| x % q).collect() }

fn gen_vec(rng: &mut Rng, n: usize, q: u64, mult: u64, kind: &str) -> Vec<u64> {
    let bound = mult * q;
    match kind {
        "random" => (0..n).map(|_| rng.below(bound)).collect(),
        "max" => vec![bound - 1; n],
        _ => { // boundary mix
            let mut cand = vec![0u64, 1 % bound, q - 1];
            if mult >= 2 { cand.extend_from_slice(&[q, q + 1, 2 * q - 1]); }
            if mult >= 4 { cand.extend_from_slice(&[2 * q, 2 * q + 1, 3 * q, 4 * q - 1]); }
            (0..n).map(|_| if rng.chance(1, 5) { rng.below(bound) } else { *rng.pick(&cand) }).collect()
        }
    }
}

fn small(v: &[u64]) -> Value { if v.len() <= 16 { json!(v) } else { json!({"len": v.len(), "first8": &v[..8], "last": v[v.len() - 1]}) } }

/// exact comparison; returns true if equal
fn cmp_exact(cx: &Cx, rep: &mut Report, entry: &str, vec: &str, input: &[u64], got: &[u64], want: &[u64]) -> bool {
    if got == want { return true; }
    let bad: Vec<usize> = (0..want.len().min(got.len())).filter(|&i| got[i] != want[i]).collect();
    let i0 = bad.first().copied().unwrap_or(0);
    rep.violation(&cx.sig(entry, vec, "value"),
        format!("{}: N={} q={} vector={}: {} of {} outputs differ from the definition; first at index {}: got {}, expected {}; input {} got {} expected {}",
            entry, cx.n, cx.q, vec, bad.len(), want.len(), i0, got.get(i0).copied().unwrap_or(0), want.get(i0).copied().unwrap_or(0), small(input), small(got), small(want)),
        cx.replay(json!({"entry": entry, "vector": vec, "input": small(input)})));
    false
}

/// lazy form: every output below mult*q and congruent to `want`
fn cmp_lazy(cx: &Cx, rep: &mut Report, entry: &str, vec: &str, input: &[u64], got: &[u64], want: &[u64], mult: u64, extreme: &str) -> bool {
    let q = cx.q; let bound = mult * q;
    let mut mx = 0u64; let mut ok = true;
    for i in 0..want.len() {
        if got[i] > mx { mx = got[i]; }
        if got[i] >= bound && ok {
            ok = false;
            rep.violation(&cx.sig(entry, vec, "range"),
                format!("{}: N={} q={} vector={}: output[{}] = {} is not below {}q = {} although every input is below its documented bound; input {}", entry, cx.n, q, vec, i, got[i], mult, bound, small(input)),
                cx.replay(json!({"entry": entry, "vector": vec, "input": small(input)})));
        }
    }
    let red = reduce_vec(got, q);
    if red != want {
        let i0 = (0..want.len()).find(|&i| red[i] != want[i]).unwrap_or(0);
        ok = false;
        rep.violation(&cx.sig(entry, vec, "value"),
            format!("{}: N={} q={} vector={}: output[{}] = {} (mod q: {}) is not congruent to {}; input {} got {}", entry, cx.n, q, vec, i0, got[i0], red[i0], want[i0], small(input), small(got)),
            cx.replay(json!({"entry": entry, "vector": vec, "input": small(input)})));
    }
    rep.max(extreme, mx as f64 / q as f64);
    if mx < bound { rep.min(&format!("{}:slack_below_bound(words)", extreme), (bound - 1 - mx) as f64); }
    ok
}

fn new_tables(logn: usize, m: &Modulus) -> Result<NTTTables, String> { NTTTables::new(logn, m).map_err(|e| e.to_string()) }

fn fnv_words(h: &mut u64, w: u64) { for b in w.to_le_bytes() { *h ^= b as u64; *h = h.wrapping_mul(0x100000001b3); } }
fn table_digest(t: &NTTTables) -> u64 {
    let mut h = 0xcbf29ce484222325u64;
    fnv_words(&mut h, t.root()); fnv_words(&mut h, t.coeff_count() as u64); fnv_words(&mut h, t.coeff_count_power() as u64);
    let d = t.inv_degree_modulo(); fnv_words(&mut h, d.operand); fnv_words(&mut h, d.quotient);
    for x in t.get_root_powers() { fnv_words(&mut h, x.operand); fnv_words(&mut h, x.quotient); }
    for x in t.get_inv_root_powers() { fnv_words(&mut h, x.operand); fnv_words(&mut h, x.quotient); }
    h
}
/// first difference between two tables, if any
fn table_diff(a: &NTTTables, b: &NTTTables) -> Option<String> {
    if a.root() != b.root() { return Some(format!("root {} vs {}", a.root(), b.root())); }
    if a.coeff_count() != b.coeff_count() || a.coeff_count_power() != b.coeff_count_power() { return Some("coeff_count".into()); }
    let (da, db) = (a.inv_degree_modulo(), b.inv_degree_modulo());
    if da.operand != db.operand || da.quotient != db.quotient { return Some(format!("inv_degree_modulo {:?} vs {:?}", da, db)); }
    let (ra, rb) = (a.get_root_powers(), b.get_root_powers());
    if ra.len() != rb.len() { return Some("root_powers length".into()); }
    for i in 0..ra.len() { if ra[i].operand != rb[i].operand || ra[i].quotient != rb[i].quotient { return Some(format!("root_powers[{}] {:?} vs {:?}", i, ra[i], rb[i])); } }
    let (ra, rb) = (a.get_inv_root_powers(), b.get_inv_root_powers());
    if ra.len() != rb.len() { return Some("inv_root_powers length".into()); }
    for i in 0..ra.len() { if ra[i].operand != rb[i].operand || ra[i].quotient != rb[i].quotient { return Some(format!("inv_root_powers[{}] {:?} vs {:?}", i, ra[i], rb[i])); } }
    None
}

// ------------------------------------------------------------------ workload: (N, q) pairs
fn ref_top_primes(m: u64, bits: usize, k: usize) -> Vec<u64> {
    let top = (1u64 << bits) - 1;
    if top < m { return vec![]; }
    let mut v = top / m * m + 1;
    let lower = 1u64 << (bits - 1);
    let mut out = vec![];
    while out.len() < k && v > lower {
        if refm::is_prime(v) { out.push(v); }
        v -= m;
    }
    out
}

fn enumerate_pairs(cfg: &Cfg, rep: &mut Report) -> Vec<Pair> {
    let maxlog = cfg.pick(11usize, 13usize);
    let mut rng = Rng::derive(cfg.seed, 0xC09, 0x9a125);
    let mut pairs = vec![];
    let mut sample61 = false;
    for logn in 1..=maxlog {
        let n = 1usize << logn; let m = 2 * n as u64;
        let mut seen: BTreeSet<u64> = BTreeSet::new();
        // (a) every prime = 1 mod 2N below 2^12
        let mut q = m + 1;
        while q < 4096 {
            if refm::is_prime(q) && seen.insert(q) {
                pairs.push(Pair { logn, q, src: "all_primes_below_2^12", sample: (n == 2 && q == 5) || (n == 4 && q == 17) || (n == 16 && q == 97) });
            }
            q += m;
        }
        // (b) what get_primes yields for every bit size 2..61 (count = as many as exist, capped)
        for bits in 2..=61usize {
            let k = if bits == 61 { cfg.pick(6, 8) } else { cfg.pick(3, 5) };
            let expected = ref_top_primes(m, bits, k);
            if expected.is_empty() { rep.count("bit_sizes_without_friendly_prime", &format!("N={:05}", n)); }
            else {
                match lib(|| hu::get_primes(m, bits, expected.len())) {
                    Ok(v) => {
                        let got: Vec<u64> = v.iter().map(|x| x.value()).collect();
                        if got != expected {
                            rep.count("get_primes_vs_reference", "differs");
                            rep.note(&format!("get_primes({}, {}, {}) = {:?} but the reference enumeration gives {:?} (not a C09 matter; both lists are explored)", m, bits, expected.len(), got, expected));
                        } else { rep.count("get_primes_vs_reference", "agrees"); }
                        for q in got { if seen.insert(q) {
                            let s = bits == 61 && logn == 3 && !sample61; if s { sample61 = true; }
                            pairs.push(Pair { logn, q, src: "get_primes", sample: s });
                        } }
                    }
                    Err(p) => {
                        rep.count("get_primes_vs_reference", "panicked");
                        rep.note(&format!("get_primes({}, {}, {}) panicked although {} such primes exist: {}", m, bits, expected.len(), expected.len(), p.0));
                    }
                }
                for q in expected { if seen.insert(q) { pairs.push(Pair { logn, q, src: "reference_enumeration", sample: false }); } }
            }
            // (c) seed-dependent primes of the same size, away from the top of the range
            let tlo = (((1u64 << (bits - 1)) - 1 + m - 1) / m).max(1);
            let thi = ((1u64 << bits) - 2) / m;
            if thi >= tlo {
                let cnt = thi - tlo + 1;
                for _ in 0..2 {
                    let start = rng.below(cnt);
                    for d in 0..cnt.min(4000) {
                        let t = tlo + (start + d) % cnt;
                        let q = t * m + 1;
                        if refm::bit_len(q) == bits && refm::is_prime(q) { if seen.insert(q) { pairs.push(Pair { logn, q, src: "random_prime", sample: false }); } break; }
                    }
                }
            }
        }
    }
    pairs
}

fn parts_for(logn: usize) -> usize {
    let n = 1u64 << logn;
    (((n * n * logn as u64) + (1 << 25) - 1) >> 25).max(1) as usize
}

// ------------------------------------------------------------------ one (pair, part) case
fn pair_case(cfg: &Cfg, case: u64, rng: &mut Rng, rep: &mut Report, p: &Pair, w: &Work) {
    let logn = p.logn; let n = 1usize << logn; let q = p.q; let bits = refm::bit_len(q);
    let cx = Cx { cfg, grp: G_PAIR, case, n, q, bits, src: p.src };
    // precondition of the property: q prime, q = 1 mod 2N, at most 61 bits
    if !(refm::is_prime(q) && (q - 1) % (2 * n as u64) == 0 && bits <= 61) {
        rep.out_of_precondition += 1;
        rep.note(&format!("modulus {} from {} is not an NTT-friendly prime for N={}; skipped", q, p.src, n));
        return;
    }
    let Some(m) = call(&cx, rep, "Modulus::new", "-", || Modulus::new(q)) else { return };
    let t1 = match call(&cx, rep, E_NEW, "-", || new_tables(logn, &m)) {
        Some(Ok(t)) => t,
        Some(Err(e)) => {
            rep.violation(&cx.sig(E_NEW, "-", "refused"), format!("NTTTables::new({}, {}) refused an NTT-friendly prime (q = 1 mod 2N): {}", logn, q, e), cx.replay(json!({"entry": E_NEW})));
            return;
        }
        None => return,
    };
    let psi = t1.root();
    let primitive = psi > 0 && psi < q && refm::is_primitive_2n_root(psi, n, q);
    if w.part == 0 {
        rep.count("pairs_by_degree", &format!("N={:05}", n));
        rep.count("pairs_by_modulus_bits", &format!("bits={:02}", bits));
        rep.count("pairs_by_degree_x_bits", &format!("N={:05},bits={:02}", n, bits));
        rep.count("pairs_by_modulus_source", p.src);
        rep.count("pairs_by_degree_x_source", &format!("N={:05},{}", n, p.src));
        rep.min("modulus", q as f64); rep.max("modulus", q as f64);
        if !primitive {
            rep.violation(&cx.sig(E_ROOT, "-", "not_primitive"), format!("N={} q={}: root() = {} but root^N mod q = {} (expected q-1)", n, q, psi, if psi < q { refm::powmod(psi, n as u64, q) } else { 0 }), cx.replay(json!({"entry": E_ROOT})));
        } else {
            let want = refm::min_primitive_2n_root(n, q);
            if want != Some(psi) {
                rep.violation(&cx.sig(E_ROOT, "-", "not_minimal"), format!("N={} q={}: root() = {} but the smallest primitive 2N-th root of unity is {:?}", n, q, psi, want), cx.replay(json!({"entry": E_ROOT})));
            }
        }
        if t1.coeff_count() != n || t1.coeff_count_power() != logn {
            rep.violation(&cx.sig(E_NEW, "-", "value"), format!("coeff_count {} / power {} for N={}", t1.coeff_count(), t1.coeff_count_power(), n), cx.replay(json!({"entry": E_NEW})));
        }
        // independently constructed tables: a second one on this thread, a third on a fresh thread
        // (the library's root search starts from thread-local OS randomness)
        if let Some(Ok(t2)) = call(&cx, rep, E_NEW, "-", || new_tables(logn, &m)) {
            if let Some(d) = table_diff(&t1, &t2) {
                rep.violation(&cx.sig(E_NEW, "independent_tables", "value"), format!("N={} q={}: two tables constructed one after the other differ: {}", n, q, d), cx.replay(json!({"entry": E_NEW})));
            }
        }
        let t3 = std::thread::scope(|s| s.spawn(|| lib(|| new_tables(logn, &m))).join());
        match t3 {
            Ok(Ok(Ok(t3))) => {
                rep.count("entry_point", E_NEW);
                if let Some(d) = table_diff(&t1, &t3) {
                    rep.violation(&cx.sig(E_NEW, "independent_tables_other_thread", "value"), format!("N={} q={}: a table constructed on another thread differs: {}", n, q, d), cx.replay(json!({"entry": E_NEW})));
                }
            }
            other => {
                let msg = match other { Ok(Ok(Err(e))) => e, Ok(Err(p)) => p.0, _ => "thread join failed".into() };
                rep.violation(&cx.sig(E_NEW, "independent_tables_other_thread", "panic"), format!("N={} q={}: constructing the table on another thread failed: {}", n, q, msg), cx.replay(json!({"entry": E_NEW})));
            }
        }
        rep.eval(Some(&cx.class("root_and_tables")));
    }
    if !primitive { return; } // the definition needs a primitive root; already reported
    let r = build_ref(n, logn, q, psi);
    if r.pw[n] != q - 1 { panic!("harness: reference power table inconsistent"); }
    let mask = 2 * n - 1;

    // ---------------------------------------------------------------- all unit vectors of this part
    let lo = w.part * n / w.parts; let hi = (w.part + 1) * n / w.parts;
    let mut buf = vec![0u64; n];
    let mut alive = [true; 4];
    let mut ec = [0u64; 8]; // per entry point: fwd, pm fwd, fwd lazy, pm fwd lazy, inv, pm inv, inv lazy, pm inv lazy
    for j in lo..hi {
        // (1) forward strict on e_j : out[i] = psi^(e_i j)
        if alive[0] {
            buf.fill(0); buf[j] = 1;
            let entry = if j & 1 == 0 { E_FWD } else { E_PM_FWD };
            let res = if j & 1 == 0 { lib(|| t1.ntt_negacyclic_harvey(&mut buf)) } else { lib(|| pm::ntt(&mut buf, &t1)) };
            ec[j & 1] += 1;
            match res {
                Err(pn) => { alive[0] = false; rep.violation(&cx.sig(entry, "unit", "panic"), format!("{} panicked on unit vector e_{} (N={}, q={}): {}", entry, j, n, q, pn.0), cx.replay(json!({"entry": entry, "unit": j}))); }
                Ok(()) => for i in 0..n {
                    let want = r.pw[(r.exps[i] * j) & mask];
                    if buf[i] != want {
                        alive[0] = false;
                        rep.violation(&cx.sig(entry, "unit", "value"), format!("{}: N={} q={} psi={}: transform of the unit vector e_{} has output[{}] = {}, the definition psi^((2*bitrev({})+1)*{}) = {}; output {}", entry, n, q, psi, j, i, buf[i], i, j, want, small(&buf)), cx.replay(json!({"entry": entry, "unit": j})));
                        break;
                    }
                },
            }
        }
        // (2) forward lazy on c e_j, c = psi^d + k q in [0,4q) incl. 1, q-1, 4q-1 : out[i] = psi^(d + e_i j) mod q, out < 4q
        if alive[1] {
            let (d, k) = match j & 3 { 0 => (0usize, 0u64), 1 => (n, 3), 2 => (rng.usize_below(2 * n), rng.below(4)), _ => (n, 0) };
            let c = r.pw[d] + k * q;
            buf.fill(0); buf[j] = c;
            let entry = if j & 4 == 0 { E_FWD_LAZY } else { E_PM_FWD_LAZY };
            let res = if j & 4 == 0 { lib(|| t1.ntt_negacyclic_harvey_lazy(&mut buf)) } else { lib(|| pm::ntt_lazy(&mut buf, &t1)) };
            ec[2 + ((j >> 2) & 1)] += 1;
            match res {
                Err(pn) => { alive[1] = false; rep.violation(&cx.sig(entry, "scaled_unit", "panic"), format!("{} panicked on {}*e_{} (N={}, q={}): {}", entry, c, j, n, q, pn.0), cx.replay(json!({"entry": entry, "unit": j, "coefficient": c}))); }
                Ok(()) => for i in 0..n {
                    let want = r.pw[(d + r.exps[i] * j) & mask];
                    let g = buf[i];
                    if g >= 4 * q {
                        alive[1] = false;
                        rep.violation(&cx.sig(entry, "scaled_unit", "range"), format!("{}: N={} q={}: input {}*e_{} (< 4q): output[{}] = {} >= 4q = {}", entry, n, q, c, j, i, g, 4 * q), cx.replay(json!({"entry": entry, "unit": j, "coefficient": c})));
                        break;
                    }
                    let mut gr = g; if gr >= 2 * q { gr -= 2 * q; } if gr >= q { gr -= q; }
                    if gr != want {
                        alive[1] = false;
                        rep.violation(&cx.sig(entry, "scaled_unit", "value"), format!("{}: N={} q={} psi={}: input {}*e_{}: output[{}] = {} = {} mod q, the definition gives {}", entry, n, q, psi, c, j, i, g, g % q, want), cx.replay(json!({"entry": entry, "unit": j, "coefficient": c})));
                        break;
                    }
                },
            }
        }
        // (3) inverse strict on e_j (j is now an index of the transformed side): out[t] = N^-1 psi^(-e_j t)
        if alive[2] {
            buf.fill(0); buf[j] = 1;
            let entry = if j & 1 == 0 { E_INV } else { E_PM_INV };
            let res = if j & 1 == 0 { lib(|| t1.inverse_ntt_negacyclic_harvey(&mut buf)) } else { lib(|| pm::intt(&mut buf, &t1)) };
            ec[4 + (j & 1)] += 1;
            let e = r.exps[j];
            match res {
                Err(pn) => { alive[2] = false; rep.violation(&cx.sig(entry, "unit", "panic"), format!("{} panicked on unit vector e_{} (N={}, q={}): {}", entry, j, n, q, pn.0), cx.replay(json!({"entry": entry, "unit": j}))); }
                Ok(()) => for t in 0..n {
                    let want = r.ipws[(e * t) & mask];
                    if buf[t] != want {
                        alive[2] = false;
                        rep.violation(&cx.sig(entry, "unit", "value"), format!("{}: N={} q={} psi={}: inverse transform of e_{} has output[{}] = {}, the inverse of the definition gives N^-1 psi^(-(2*bitrev({})+1)*{}) = {}; output {}", entry, n, q, psi, j, t, buf[t], j, t, want, small(&buf)), cx.replay(json!({"entry": entry, "unit": j})));
                        break;
                    }
                },
            }
        }
        // (4) inverse lazy on c e_j, c = psi^d + k q in [0,2q) incl. 1, q-1, 2q-1
        if alive[3] {
            let (d, k) = match j & 3 { 0 => (0usize, 0u64), 1 => (n, 1), 2 => (rng.usize_below(2 * n), rng.below(2)), _ => (n, 0) };
            let c = r.pw[d] + k * q;
            buf.fill(0); buf[j] = c;
            let entry = if j & 4 == 0 { E_INV_LAZY } else { E_PM_INV_LAZY };
            let res = if j & 4 == 0 { lib(|| t1.inverse_ntt_negacyclic_harvey_lazy(&mut buf)) } else { lib(|| pm::intt_lazy(&mut buf, &t1)) };
            ec[6 + ((j >> 2) & 1)] += 1;
            let e = r.exps[j];
            match res {
                Err(pn) => { alive[3] = false; rep.violation(&cx.sig(entry, "scaled_unit", "panic"), format!("{} panicked on {}*e_{} (N={}, q={}): {}", entry, c, j, n, q, pn.0), cx.replay(json!({"entry": entry, "unit": j, "coefficient": c}))); }
                Ok(()) => for t in 0..n {
                    let want = r.ipws[(e * t + 2 * n - d) & mask];
                    let g = buf[t];
                    if g >= 2 * q {
                        alive[3] = false;
                        rep.violation(&cx.sig(entry, "scaled_unit", "range"), format!("{}: N={} q={}: input {}*e_{} (< 2q): output[{}] = {} >= 2q = {}", entry, n, q, c, j, t, g, 2 * q), cx.replay(json!({"entry": entry, "unit": j, "coefficient": c})));
                        break;
                    }
                    let gr = if g >= q { g - q } else { g };
                    if gr != want {
                        alive[3] = false;
                        rep.violation(&cx.sig(entry, "scaled_unit", "value"), format!("{}: N={} q={} psi={}: input {}*e_{}: output[{}] = {} = {} mod q, expected {}", entry, n, q, psi, c, j, t, g, g % q, want), cx.replay(json!({"entry": entry, "unit": j, "coefficient": c})));
                        break;
                    }
                },
            }
        }
    }
    let (c0, c1, c2, c3) = (ec[0] + ec[1], ec[2] + ec[3], ec[4] + ec[5], ec[6] + ec[7]);
    rep.evals(c0 + c1 + c2 + c3);
    rep.distinct_key(&cx.class("unit"));
    rep.count_n("vector_kind", "unit (forward strict)", c0);
    rep.count_n("vector_kind", "scaled unit incl. 4q-1 (forward lazy)", c1);
    rep.count_n("vector_kind", "unit (inverse strict)", c2);
    rep.count_n("vector_kind", "scaled unit incl. 2q-1 (inverse lazy)", c3);
    for (k, e) in [E_FWD, E_PM_FWD, E_FWD_LAZY, E_PM_FWD_LAZY, E_INV, E_PM_INV, E_INV_LAZY, E_PM_INV_LAZY].iter().enumerate() {
        if ec[k] > 0 { rep.count_n("entry_point", e, ec[k]); rep.count_n("degree_x_entry_class", &format!("N={:05} {} (unit sweep)", n, e), ec[k]); }
    }

    // ---------------------------------------------------------------- dense vectors, products (spread over the parts)
    const JOBS: usize = 14;
    for job in 0..JOBS {
        if job % w.parts != w.part { continue; }
        dense_job(&cx, rep, rng, &t1, &r, &m, logn, job);
    }

    // ---------------------------------------------------------------- every shift s in 0..2N-1 (spread over the parts)
    {
        let pvec: Vec<u64> = (0..n).map(|i| match rng.below(6) { 0 => 0, 1 => q - 1, _ => if i == 0 && n > 2 { 0 } else { rng.below(q) } }).collect();
        let mut res = vec![0u64; n];
        let mut cnt = 0u64; let mut ok = true;
        for s in 0..2 * n {
            if s % w.parts != w.part || !ok { continue; }
            res.fill(0x7777_7777_7777_7777);
            cnt += 1;
            match lib(|| pm::negacyclic_shift(&pvec, s, &m, &mut res)) {
                Err(pn) => { ok = false; rep.violation(&cx.sig(E_SHIFT, &format!("shift={}", shift_cls(s, n)), "panic"), format!("negacyclic_shift panicked: N={} q={} shift={}: {}", n, q, s, pn.0), cx.replay(json!({"entry": E_SHIFT, "shift": s, "poly": small(&pvec)}))); }
                Ok(()) => {
                    let want = shift_def(&pvec, s, q);
                    if n <= 64 && want != refm::monomial_shift(&pvec, s, q) { panic!("harness: shift_def disagrees with refm::monomial_shift"); }
                    if res != want {
                        ok = false;
                        let i0 = (0..n).find(|&i| res[i] != want[i]).unwrap_or(0);
                        rep.violation(&cx.sig(E_SHIFT, &format!("shift={}", shift_cls(s, n)), "value"),
                            format!("negacyclic_shift(p, {}) != X^{} * p mod (X^{}+1, {}): first difference at coefficient {}: got {}, expected {}; p = {} got {} expected {}", s, s, n, q, i0, res[i0], want[i0], small(&pvec), small(&res), small(&want)),
                            cx.replay(json!({"entry": E_SHIFT, "shift": s, "poly": small(&pvec)})));
                    }
                }
            }
        }
        rep.evals(cnt);
        rep.distinct_key(&cx.class("shift"));
        rep.count_n("entry_point", E_SHIFT, cnt);
        rep.count_n("vector_kind", "every shift 0..2N-1 of a random polynomial with zeros and q-1", cnt);
        rep.count_n("degree_x_entry_class", &format!("N={:05} negacyclic_shift", n), cnt);
    }

    if p.sample && w.part == 0 { sample_case(&cx, rep, &t1, &r, &m); }
}

fn shift_cls(s: usize, n: usize) -> &'static str { if s == 0 { "0" } else if s < n { "1..N-1" } else if s == n { "N" } else { "N+1..2N-1" } }

fn dense_job(cx: &Cx, rep: &mut Report, rng: &mut Rng, t1: &NTTTables, r: &RefT, m: &Modulus, logn: usize, job: usize) {
    let n = cx.n; let q = cx.q; let psi = r.psi;
    let conv_limit = cx.cfg.pick(512usize, 2048usize);
    let note_dense = |rep: &mut Report, kind: &str, entries: &[&str]| {
        rep.eval(Some(&cx.class(kind)));
        rep.count("vector_kind", kind);
        for e in entries { rep.count("degree_x_entry_class", &format!("N={:05} {}", n, e)); }
    };
    match job {
        // ---- forward strict: == definition; inverse(forward(x)) == x
        0 | 1 => {
            let (kind, vname, via_pm) = if job == 0 { ("random", "random<q", false) } else { ("max", "all(q-1)", true) };
            let x = gen_vec(rng, n, q, 1, kind);
            let (ef, ei) = if via_pm { (E_PM_FWD, E_PM_INV) } else { (E_FWD, E_INV) };
            let mut y = x.clone();
            if call(cx, rep, ef, vname, || if via_pm { pm::ntt(&mut y, t1) } else { t1.ntt_negacyclic_harvey(&mut y) }).is_none() { return; }
            let want = fwd_def(r, &x);
            if n <= 64 && want != refm::ntt_ref(&x, psi, q) { panic!("harness: fwd_def disagrees with refm::ntt_ref"); }
            cmp_exact(cx, rep, ef, vname, &x, &y, &want);
            let mut z = y.clone();
            if call(cx, rep, ei, &format!("forward({})", vname), || if via_pm { pm::intt(&mut z, t1) } else { t1.inverse_ntt_negacyclic_harvey(&mut z) }).is_some() {
                cmp_exact(cx, rep, ei, &format!("forward({})", vname), &y, &z, &x);
            }
            note_dense(rep, &format!("{} (forward strict + round trip)", vname), &[ef, ei]);
        }
        // ---- forward lazy: inputs < 4q -> outputs < 4q, congruent to the definition on the reduced input
        2 | 3 | 4 => {
            let (kind, vname, via_pm) = match job { 2 => ("random", "random<4q", false), 3 => ("max", "all(4q-1)", true), _ => ("mix", "boundary_mix<4q", false) };
            let x = gen_vec(rng, n, q, 4, kind);
            let ef = if via_pm { E_PM_FWD_LAZY } else { E_FWD_LAZY };
            let mut y = x.clone();
            if call(cx, rep, ef, vname, || if via_pm { pm::ntt_lazy(&mut y, t1) } else { t1.ntt_negacyclic_harvey_lazy(&mut y) }).is_none() { return; }
            let xr = reduce_vec(&x, q);
            let want = fwd_def(r, &xr);
            cmp_lazy(cx, rep, ef, vname, &x, &y, &want, 4, "forward_lazy_output_over_q");
            // the strict form on the reduced input gives exactly the residues
            let mut ys = xr.clone();
            if call(cx, rep, E_FWD, &format!("reduced({})", vname), || t1.ntt_negacyclic_harvey(&mut ys)).is_some() {
                cmp_exact(cx, rep, E_FWD, &format!("reduced({})", vname), &xr, &ys, &want);
            }
            note_dense(rep, &format!("{} (forward lazy)", vname), &[ef, E_FWD]);
        }
        // ---- inverse strict: forward_definition(inverse(z)) == z, library forward(inverse(z)) == z
        5 | 6 => {
            let (kind, vname, via_pm) = if job == 5 { ("random", "random<q", false) } else { ("max", "all(q-1)", true) };
            let z = gen_vec(rng, n, q, 1, kind);
            let (ef, ei) = if via_pm { (E_PM_FWD, E_PM_INV) } else { (E_FWD, E_INV) };
            let mut wv = z.clone();
            if call(cx, rep, ei, vname, || if via_pm { pm::intt(&mut wv, t1) } else { t1.inverse_ntt_negacyclic_harvey(&mut wv) }).is_none() { return; }
            if let Some(i) = (0..n).find(|&i| wv[i] >= q) {
                rep.violation(&cx.sig(ei, vname, "range"), format!("{}: N={} q={}: output[{}] = {} is not reduced; input {}", ei, n, q, i, wv[i], small(&z)), cx.replay(json!({"entry": ei, "vector": vname, "input": small(&z)})));
            } else {
                // w is the inverse image iff the definition maps it back to z
                let back = fwd_def(r, &wv);
                if back != z {
                    let i0 = (0..n).find(|&i| back[i] != z[i]).unwrap_or(0);
                    rep.violation(&cx.sig(ei, vname, "value"), format!("{}: N={} q={} psi={}: the definition applied to the inverse transform does not give the input back (index {}: {} vs {}); input {} inverse {}", ei, n, q, psi, i0, back[i0], z[i0], small(&z), small(&wv)), cx.replay(json!({"entry": ei, "vector": vname, "input": small(&z)})));
                }
                if n <= 256 {
                    let want = refm::intt_ref(&z, psi, q);
                    cmp_exact(cx, rep, ei, &format!("{};inverse_formula", vname), &z, &wv, &want);
                }
            }
            let mut f = wv.clone();
            if wv.iter().all(|&x| x < q) && call(cx, rep, ef, &format!("inverse({})", vname), || if via_pm { pm::ntt(&mut f, t1) } else { t1.ntt_negacyclic_harvey(&mut f) }).is_some() {
                cmp_exact(cx, rep, ef, &format!("inverse({})", vname), &wv, &f, &z);
            }
            note_dense(rep, &format!("{} (inverse strict + round trip)", vname), &[ei, ef]);
        }
        // ---- inverse lazy: inputs < 2q -> outputs < 2q, congruent to the inverse image
        7 | 8 | 9 => {
            let (kind, vname, via_pm) = match job { 7 => ("random", "random<2q", false), 8 => ("max", "all(2q-1)", true), _ => ("mix", "boundary_mix<2q", false) };
            let z = gen_vec(rng, n, q, 2, kind);
            let ei = if via_pm { E_PM_INV_LAZY } else { E_INV_LAZY };
            let mut wv = z.clone();
            if call(cx, rep, ei, vname, || if via_pm { pm::intt_lazy(&mut wv, t1) } else { t1.inverse_ntt_negacyclic_harvey_lazy(&mut wv) }).is_none() { return; }
            let zr = reduce_vec(&z, q);
            let wr = reduce_vec(&wv, q);
            let back = fwd_def(r, &wr);
            // congruence: the residues of the output are the inverse image of the residues of the input
            let mut ok = true;
            if back != zr {
                ok = false;
                let i0 = (0..n).find(|&i| back[i] != zr[i]).unwrap_or(0);
                rep.violation(&cx.sig(ei, vname, "value"), format!("{}: N={} q={} psi={}: the definition applied to the (reduced) lazy inverse does not give the reduced input back (index {}: {} vs {}); input {} output {}", ei, n, q, psi, i0, back[i0], zr[i0], small(&z), small(&wv)), cx.replay(json!({"entry": ei, "vector": vname, "input": small(&z)})));
            }
            if let Some(i) = (0..n).find(|&i| wv[i] >= 2 * q) {
                ok = false;
                rep.violation(&cx.sig(ei, vname, "range"), format!("{}: N={} q={}: output[{}] = {} is not below 2q = {} although every input is below 2q; input {}", ei, n, q, i, wv[i], 2 * q, small(&z)), cx.replay(json!({"entry": ei, "vector": vname, "input": small(&z)})));
            }
            let mx = *wv.iter().max().unwrap();
            rep.max("inverse_lazy_output_over_q", mx as f64 / q as f64);
            if mx < 2 * q { rep.min("inverse_lazy_output_over_q:slack_below_bound(words)", (2 * q - 1 - mx) as f64); }
            // strict inverse of the reduced input gives exactly the residues
            let mut ws = zr.clone();
            if ok && call(cx, rep, E_INV, &format!("reduced({})", vname), || t1.inverse_ntt_negacyclic_harvey(&mut ws)).is_some() {
                cmp_exact(cx, rep, E_INV, &format!("reduced({})", vname), &zr, &ws, &wr);
            }
            note_dense(rep, &format!("{} (inverse lazy)", vname), &[ei, E_INV]);
        }
        // ---- dyadic product of transforms == negacyclic product
        10 | 11 => {
            let dense = n <= conv_limit;
            let (a, b, want, vname): (Vec<u64>, Vec<u64>, Vec<u64>, &str) = if job == 11 {
                // a = b = all (q-1) = -(1+X+..+X^(N-1)); coefficient k of the square is (k+1) - (N-1-k)
                let a = vec![q - 1; n];
                let want: Vec<u64> = (0..n).map(|k| (2 * k as i128 + 2 - n as i128).rem_euclid(q as i128) as u64).collect();
                if dense && want != refm::negacyclic_mul(&a, &a, q) { panic!("harness: closed form of (sum X^i)^2 wrong"); }
                (a.clone(), a, want, "all(q-1)*all(q-1)")
            } else if dense {
                let mut a = gen_vec(rng, n, q, 1, "random"); let mut b = gen_vec(rng, n, q, 1, "random");
                a[rng.usize_below(n)] = q - 1; b[rng.usize_below(n)] = 0; a[n - 1] = q - 1; b[n - 1] = q - 1;
                let want = refm::negacyclic_mul(&a, &b, q);
                (a, b, want, "dense*dense")
            } else {
                // sparse (three monomials incl. the top one) times dense: sum of c_k X^(s_k) b by the shift definition
                let b = gen_vec(rng, n, q, 1, "random");
                let mut a = vec![0u64; n];
                let mut want = vec![0u64; n];
                let terms = [(n - 1, q - 1), (rng.usize_below(n - 1), rng.range(1, q - 1)), (0usize, 1u64)];
                for &(s, c) in &terms {
                    if a[s] != 0 { continue; }
                    a[s] = c;
                    want = refm::poly_add(&want, &refm::poly_scale(&refm::monomial_shift(&b, s, q), c, q), q);
                }
                (a, b, want, "sparse3*dense")
            };
            let (mut fa, mut fb) = (a.clone(), b.clone());
            if call(cx, rep, E_FWD, vname, || t1.ntt_negacyclic_harvey(&mut fa)).is_none() { return; }
            if call(cx, rep, E_PM_FWD, vname, || pm::ntt(&mut fb, t1)).is_none() { return; }
            let mut fc = vec![0x5555u64; n];
            if call(cx, rep, E_DYADIC, vname, || pm::dyadic_product(&fa, &fb, m, &mut fc)).is_none() { return; }
            let pointwise: Vec<u64> = (0..n).map(|i| refm::mulmod(fa[i] % q, fb[i] % q, q)).collect();
            cmp_exact(cx, rep, E_DYADIC, &format!("transforms({});pointwise", vname), &fa, &fc, &pointwise);
            let mut fd = fa.clone();
            if call(cx, rep, E_DYADIC_INPLACE, vname, || pm::dyadic_product_inplace(&mut fd, &fb, m)).is_some() {
                cmp_exact(cx, rep, E_DYADIC_INPLACE, &format!("transforms({});pointwise", vname), &fa, &fd, &pointwise);
            }
            let mut c = fc.clone();
            let via_pm = job == 11;
            let ei = if via_pm { E_PM_INV } else { E_INV };
            if call(cx, rep, ei, vname, || if via_pm { pm::intt(&mut c, t1) } else { t1.inverse_ntt_negacyclic_harvey(&mut c) }).is_some() {
                // signature on the product pipeline, not on one entry point
                if c != want {
                    let i0 = (0..n).find(|&i| c[i] != want[i]).unwrap_or(0);
                    rep.violation(&cx.sig("intt(dyadic_product(ntt(a),ntt(b)))", vname, "value"),
                        format!("N={} q={}: inverse transform of the dyadic product of the transforms differs from a*b mod (X^N+1, q) at coefficient {}: got {}, expected {}; a = {} b = {} got {} expected {}", n, q, i0, c[i0], want[i0], small(&a), small(&b), small(&c), small(&want)),
                        cx.replay(json!({"entry": "convolution", "vector": vname, "a": small(&a), "b": small(&b)})));
                }
            }
            rep.count("convolution_reference", if job == 11 { "closed form (and schoolbook when N <= limit)" } else if dense { "schoolbook N^2" } else { "sparse (3 monomials) by shifts" });
            note_dense(rep, &format!("{} (convolution)", vname), &[E_DYADIC, E_DYADIC_INPLACE, E_FWD, E_PM_FWD, ei]);
        }
        // ---- three independently constructed tables transform identically (ntt_p / dyadic_product_p / intt_p over [t1,t2,t3])
        12 => {
            let vname = "random<q;three_tables";
            let Some(Ok(t2)) = call(cx, rep, E_NEW, "-", || new_tables(logn, m)) else { return };
            let t3 = match std::thread::scope(|s| s.spawn(|| lib(|| new_tables(logn, m))).join()) { Ok(Ok(Ok(t))) => t, _ => return /* reported by part 0 */ };
            let tabs = vec![t1.clone(), t2, t3];
            let x = gen_vec(rng, n, q, 1, "random");
            let mut data: Vec<u64> = [x.clone(), x.clone(), x.clone()].concat();
            if call(cx, rep, E_PM_FWD_P, vname, || pm::ntt_p(&mut data, n, &tabs)).is_none() { return; }
            let want = fwd_def(r, &x);
            for k in 0..3 { cmp_exact(cx, rep, E_PM_FWD_P, &format!("{};table{}", vname, k + 1), &x, &data[k * n..(k + 1) * n], &want); }
            let mods = vec![*m, *m, *m];
            let mut sq = vec![0u64; 3 * n];
            if call(cx, rep, E_DYADIC_P, vname, || pm::dyadic_product_p(&data, &data, n, &mods, &mut sq)).is_none() { return; }
            let pw2: Vec<u64> = want.iter().map(|&v| refm::mulmod(v, v, q)).collect();
            for k in 0..3 { cmp_exact(cx, rep, E_DYADIC_P, &format!("{};component{}", vname, k + 1), &want, &sq[k * n..(k + 1) * n], &pw2); }
            if call(cx, rep, E_PM_INV_P, vname, || pm::intt_p(&mut sq, n, &tabs)).is_none() { return; }
            if n <= conv_limit {
                let xx = refm::negacyclic_mul(&x, &x, q);
                for k in 0..3 { cmp_exact(cx, rep, E_PM_INV_P, &format!("{};square;table{}", vname, k + 1), &x, &sq[k * n..(k + 1) * n], &xx); }
            } else {
                let first = sq[..n].to_vec();
                let back = fwd_def(r, &first);
                cmp_exact(cx, rep, E_PM_INV_P, &format!("{};definition(inverse)==pointwise_square", vname), &pw2, &back, &pw2);
                for k in 1..3 { cmp_exact(cx, rep, E_PM_INV_P, &format!("{};table{}_vs_table1", vname, k + 1), &pw2, &sq[k * n..(k + 1) * n], &first); }
            }
            note_dense(rep, "random<q through three independent tables (ntt_p, dyadic_product_p, intt_p)", &[E_PM_FWD_P, E_DYADIC_P, E_PM_INV_P]);
        }
        // ---- outside the documented range of the inverse lazy form: executed, never reported
        _ => {
            let z = vec![4 * q - 1; n];
            let mut wv = z.clone();
            rep.out_of_precondition += 1;
            let outcome = match lib(|| t1.inverse_ntt_negacyclic_harvey_lazy(&mut wv)) {
                Err(_) => "panic",
                Ok(()) => {
                    let wr = reduce_vec(&wv, q);
                    let congruent = fwd_def(r, &wr) == reduce_vec(&z, q);
                    let in_range = wv.iter().all(|&v| v < 2 * q);
                    match (congruent, in_range) { (true, true) => "congruent, < 2q", (true, false) => "congruent, >= 2q", (false, _) => "not congruent" }
                }
            };
            rep.count("out_of_precondition: inverse lazy on all(4q-1)", &format!("bits={} -> {}", if cx.bits == 61 { "61" } else if cx.bits == 60 { "60" } else { "<60" }, outcome));
        }
    }
}

fn sample_case(cx: &Cx, rep: &mut Report, t1: &NTTTables, r: &RefT, m: &Modulus) {
    let n = cx.n; let q = cx.q;
    let x: Vec<u64> = (0..n).map(|i| (i as u64 + 1) % q).collect();
    let mut f = x.clone(); if lib(|| t1.ntt_negacyclic_harvey(&mut f)).is_err() { return; }
    let xl: Vec<u64> = x.iter().map(|&v| v + 3 * q).collect();
    let mut fl = xl.clone(); if lib(|| t1.ntt_negacyclic_harvey_lazy(&mut fl)).is_err() { return; }
    let mut back = f.clone(); if lib(|| t1.inverse_ntt_negacyclic_harvey(&mut back)).is_err() { return; }
    let il_in: Vec<u64> = f.iter().map(|&v| v + q).collect();
    let mut il = il_in.clone(); if lib(|| t1.inverse_ntt_negacyclic_harvey_lazy(&mut il)).is_err() { return; }
    let mut sq = vec![0u64; n]; if lib(|| pm::dyadic_product(&f, &f, m, &mut sq)).is_err() { return; }
    let mut xx = sq.clone(); if lib(|| pm::intt(&mut xx, t1)).is_err() { return; }
    let mut sh = vec![0u64; n]; if lib(|| pm::negacyclic_shift(&x, n + 1, m, &mut sh)).is_err() { return; }
    rep.sample(json!({
        "N": n, "q": q, "modulus_source": cx.src, "root_psi": r.psi, "reference_minimal_root": refm::min_primitive_2n_root(n, q),
        "input": x, "forward": f, "definition": fwd_def(r, &x),
        "forward_lazy_input(x+3q)": xl, "forward_lazy_output": fl, "four_q": 4 * q,
        "inverse(forward)": back,
        "inverse_lazy_input(forward+q)": il_in, "inverse_lazy_output": il, "two_q": 2 * q,
        "dyadic_square": sq, "intt(dyadic_square)": xx, "schoolbook_square": refm::negacyclic_mul(&x, &x, q),
        "negacyclic_shift(x, N+1)": sh, "X^(N+1)*x": shift_def(&x, n + 1, q),
    }));
}

// ------------------------------------------------------------------ second process
fn child(spec: &str) {
    for item in spec.split(';') {
        let mut it = item.split(':');
        let (Some(a), Some(b)) = (it.next(), it.next()) else { continue };
        let (Ok(logn), Ok(q)) = (a.parse::<usize>(), b.parse::<u64>()) else { continue };
        match lib(|| { let m = Modulus::new(q); new_tables(logn, &m) }) {
            Ok(Ok(t)) => println!("{} {} {} {:016x}", logn, q, t.root(), table_digest(&t)),
            Ok(Err(e)) => println!("{} {} ERR {}", logn, q, e.replace(' ', "_")),
            Err(p) => println!("{} {} ERR panic:{}", logn, q, p.0.replace(' ', "_")),
        }
    }
}

fn xproc_case(cfg: &Cfg, slice: u64, rep: &mut Report, pairs: &[Pair], nslices: u64) {
    let mine: Vec<&Pair> = pairs.iter().enumerate().filter(|(i, _)| *i as u64 % nslices == slice).map(|(_, p)| p).collect();
    if mine.is_empty() { return; }
    let spec: Vec<String> = mine.iter().map(|p| format!("{}:{}", p.logn, p.q)).collect();
    let exe = match std::env::current_exe() { Ok(e) => e, Err(e) => { rep.note(&format!("xproc: current_exe unavailable ({}); second-process comparison not run", e)); return; } };
    let out = match std::process::Command::new(exe).arg("C09").env(CHILD_ENV, spec.join(";")).output() {
        Ok(o) => o,
        Err(e) => { rep.note(&format!("xproc: could not spawn a second process ({}); second-process comparison not run", e)); return; }
    };
    let text = String::from_utf8_lossy(&out.stdout);
    let lines: Vec<&str> = text.lines().filter(|l| !l.trim().is_empty()).collect();
    if !out.status.success() || lines.len() != mine.len() {
        rep.harness_errors.push(format!("xproc slice {}: child exit {:?}, {} lines for {} pairs; stderr {}", slice, out.status.code(), lines.len(), mine.len(), String::from_utf8_lossy(&out.stderr).chars().take(300).collect::<String>()));
        return;
    }
    for (p, line) in mine.iter().zip(lines) {
        let n = 1usize << p.logn; let bits = refm::bit_len(p.q);
        let cx = Cx { cfg, grp: G_XPROC, case: slice, n, q: p.q, bits, src: p.src };
        let f: Vec<&str> = line.split_whitespace().collect();
        if f.len() < 4 || f[0] != p.logn.to_string() || f[1] != p.q.to_string() { rep.harness_errors.push(format!("xproc: unexpected child line {:?}", line)); continue; }
        let m = Modulus::new(p.q);
        let here = lib(|| new_tables(p.logn, &m));
        rep.count("entry_point", E_NEW);
        match here {
            Ok(Ok(t)) => {
                if f[2] == "ERR" {
                    rep.violation(&cx.sig(E_NEW, "second_process", "refused"), format!("N={} q={}: table construction failed in a second process ({}) but not here", n, p.q, f[3]), cx.replay(json!({"entry": E_NEW})));
                } else if f[2] != t.root().to_string() || f[3] != format!("{:016x}", table_digest(&t)) {
                    rep.violation(&cx.sig(E_NEW, "second_process", "value"), format!("N={} q={}: a second process constructed root {} / table digest {}, this process root {} / digest {:016x}", n, p.q, f[2], f[3], t.root(), table_digest(&t)), cx.replay(json!({"entry": E_NEW})));
                }
                rep.eval(Some(&cx.class("second_process_tables")));
                rep.count("second_process_tables_by_degree", &format!("N={:05}", n));
            }
            _ => { /* construction failure here is reported by the pair group */ }
        }
    }
}

// ------------------------------------------------------------------ the transforms as the evaluator applies them to ciphertexts
/// `Evaluator::transform_to_ntt` / `transform_from_ntt` in their three forms on ciphertexts of sizes 2..4 at every level: each RNS
/// component of each polynomial must equal the forward transform of that component by an independently constructed table for
/// that prime (itself checked against the definition above), the inverse must restore the input, the three forms must agree,
/// and the destination form must not depend on what the destination held (buffers of colliding and non-colliding shapes).
fn evaluator_case(cfg: &Cfg, grp: &'static str, case: u64, rng: &mut Rng, rep: &mut Report) {
    use crate::he::*; use heathcliff::*;
    let Some(spec) = crate::props::c02::program_spec(rng, &[4, 8, 16, 64], Some(SchemeType::BFV)) else { return };
    let Ok(kit) = Kit::new(&spec) else { return };
    let n = kit.n(); let logn = n.trailing_zeros() as usize;
    let cx = Cx { cfg, grp, case, n, q: spec.qs[0], bits: refm::bit_len(spec.qs[0]), src: "evaluator" };
    let (_, c) = crate::props::c01::gen_plain(rng, n, kit.t());
    let Ok(mut ct) = lib(|| kit.enc.encrypt_new(&kit.plain_from_coeffs(&c))) else { return };
    let size = 2 + rng.usize_below(3);
    for _ in 2..size { let Ok(f) = lib(|| kit.enc.encrypt_new(&kit.plain_from_coeffs(&c))) else { return }; match lib(|| kit.eval.multiply_new(&ct, &f)) { Ok(x) => ct = x, Err(_) => return } }
    for level in 0..kit.levels.len() {
        let id = *kit.levels[level].parms_id();
        let Ok(src) = lib(|| if level == 0 { ct.clone() } else { kit.eval.mod_switch_to_new(&ct, &id) }) else { continue };
        let qs = kit.level_qs(level);
        let forms: Vec<Result<Ciphertext, Panicked>> = vec![
            lib(|| { let mut x = src.clone(); kit.eval.transform_to_ntt_inplace(&mut x); x }),
            lib(|| { let mut d = crate::prog::dirty(&kit); kit.eval.transform_to_ntt(&src, &mut d); d }),
            lib(|| kit.eval.transform_to_ntt_new(&src))];
        rep.count("entry_point", "Evaluator::transform_to_ntt (3 forms)"); rep.eval(Some(&format!("evaluator|n{}|k{}|size{}|L{}", n, qs.len(), size, level)));
        let vcls = format!("ciphertext size {}", if size == 2 { "2" } else { ">2" });
        if let Some(e) = forms.iter().find_map(|f| f.as_ref().err()) { rep.violation(&cx.sig("Evaluator::transform_to_ntt", &vcls, "panic"), format!("a coefficient-form ciphertext (size {}, level {}, N={}) was refused: {}", size, level, n, e.0), cx.replay(json!({"level": level, "size": size}))); continue; }
        let f: Vec<&Ciphertext> = forms.iter().map(|x| x.as_ref().unwrap()).collect();
        for (k, name) in [(1usize, "destination"), (2, "value-returning")] {
            if f[k].data() != f[0].data() || f[k].parms_id() != f[0].parms_id() || f[k].size() != f[0].size() || f[k].is_ntt_form() != f[0].is_ntt_form() {
                rep.violation(&cx.sig("Evaluator::transform_to_ntt", &vcls, "forms_differ"), format!("the {} form differs from the in-place form (size {}, level {}, N={}): sizes {} / {}, same level {}", name, size, level, n, f[k].size(), f[0].size(), f[k].parms_id() == f[0].parms_id()), cx.replay(json!({"level": level, "size": size, "form": name})));
            }
        }
        // every component against an independently built table
        let mut ok = f[0].is_ntt_form() && f[0].size() == size && f[0].parms_id() == &id;
        if ok { 'outer: for p in 0..size { for (j, &q) in qs.iter().enumerate() {
            let Ok(tab) = NTTTables::new(logn, &Modulus::new(q)) else { ok = true; break 'outer };
            let mut want = src.poly_component(p, j).to_vec(); tab.ntt_negacyclic_harvey(&mut want);
            if f[0].poly_component(p, j) != &want[..] { ok = false; rep.violation(&cx.sig("Evaluator::transform_to_ntt", &vcls, "value"), format!("polynomial {} component {} (q={}) is not the forward transform of the input component (size {}, level {}, N={})", p, j, q, size, level, n), cx.replay(json!({"level": level, "size": size}))); break 'outer; }
        } } } else { rep.violation(&cx.sig("Evaluator::transform_to_ntt", &vcls, "metadata"), format!("result flags/size/level wrong (size {} vs {}, level {})", f[0].size(), size, level), cx.replay(json!({"level": level, "size": size}))); }
        if !ok { continue; }
        // inverse, three forms, restores the input
        let inv: Vec<Result<Ciphertext, Panicked>> = vec![
            lib(|| { let mut x = f[0].clone(); kit.eval.transform_from_ntt_inplace(&mut x); x }),
            lib(|| { let mut d = crate::prog::dirty(&kit); kit.eval.transform_from_ntt(f[0], &mut d); d }),
            lib(|| kit.eval.transform_from_ntt_new(f[0]))];
        rep.count("entry_point", "Evaluator::transform_from_ntt (3 forms)");
        for (k, r) in inv.iter().enumerate() { match r {
            Err(e) => rep.violation(&cx.sig("Evaluator::transform_from_ntt", &vcls, "panic"), format!("form {} refused an NTT-form ciphertext: {}", k, e.0), cx.replay(json!({"level": level, "size": size}))),
            Ok(x) => if x.data() != src.data() || x.size() != src.size() || x.parms_id() != src.parms_id() || x.is_ntt_form() { rep.violation(&cx.sig("Evaluator::transform_from_ntt", &vcls, "value"), format!("form {} does not restore the input of transform_to_ntt (size {} -> {}, level {}, N={})", k, size, x.size(), level, n), cx.replay(json!({"level": level, "size": size, "form": k}))); },
        } }
    }
}

pub fn run(cfg: &Cfg, rep: &mut Report) -> PropMeta {
    if let Ok(spec) = std::env::var(CHILD_ENV) { child(&spec); std::process::exit(0); }

    let pairs = enumerate_pairs(cfg, rep);
    let mut work: Vec<Work> = vec![];
    for (i, p) in pairs.iter().enumerate() {
        let parts = parts_for(p.logn).min(1 << p.logn);
        for part in 0..parts { work.push(Work { pair: i, part, parts }); }
    }
    // Large degrees, sampled instead of swept: for N above the swept range up to the library's maximum 2^17, a few moduli
    // per degree; part 0 (root and table checks, one dense vector against the O(N^2) definition with its round trip) plus
    // randomly chosen parts of 16 unit vectors each (every output of every transform of those columns is compared) and
    // the shifts that fall into those parts. Blocked / tiled transform code only differs from the plain one up there.
    let mut pairs = pairs;
    let swept = pairs.len();
    {
        let mut lrng = Rng::derive(cfg.seed, 0xC09, 0x1a46e);
        let (lo, hi) = (cfg.pick(12usize, 14usize), cfg.pick(15usize, 17usize));
        for logn in lo..=hi {
            let m = 2u64 << logn;
            let bit_choices: Vec<usize> = if cfg.quick() { vec![*lrng.pick(&[30usize, 40, 50]), *lrng.pick(&[60usize, 61])] } else { vec![25, 40, 50, 60, 61] };
            for bits in bit_choices {
                // a random friendly prime of this size (reference enumeration from a random start)
                let tlo = (((1u64 << (bits - 1)) - 1 + m - 1) / m).max(1); let thi = ((1u64 << bits) - 2) / m;
                if thi < tlo { continue; }
                let cnt = thi - tlo + 1; let start = lrng.below(cnt);
                for d in 0..cnt.min(20000) {
                    let q = (tlo + (start + d) % cnt) * m + 1;
                    if refm::bit_len(q) == bits && refm::is_prime(q) { pairs.push(Pair { logn, q, src: "large_degree_random_prime", sample: false }); break; }
                }
            }
        }
        let extra_parts = cfg.pick(3usize, 12usize);
        for i in swept..pairs.len() {
            let n = 1usize << pairs[i].logn; let parts = n / 16;
            work.push(Work { pair: i, part: 0, parts });
            let dense_part = 1 + lrng.usize_below(13); // one of the other dense jobs (lazy forms, inverse, products)
            work.push(Work { pair: i, part: dense_part, parts });
            for _ in 0..extra_parts { work.push(Work { pair: i, part: 14 + lrng.usize_below(parts - 14), parts }); }
        }
    }
    // heaviest first (stable, deterministic): keeps the tail of the parallel run short
    work.sort_by_key(|w| std::cmp::Reverse(pairs[w.pair].logn));
    rep.note(&format!("{} (N,q) pairs swept completely (degrees 2..{}), {} pairs at degrees {}..{} sampled; {} cases", swept, 1u64 << cfg.pick(11, 13), pairs.len() - swept, 1u64 << cfg.pick(12, 14), 1u64 << cfg.pick(15, 17), work.len()));
    rep.note("no prime = 1 mod 2N has 2 bits for any N >= 2 (smallest is q = 5 for N = 2), so modulus bit sizes start at 3");

    run_cases(cfg, G_PAIR, work.len() as u64, rep, |i, rng, rep| {
        let w = work[i as usize];
        pair_case(cfg, i, rng, rep, &pairs[w.pair], &w);
    });

    run_cases(cfg, "evaluator_transforms", cfg.n(400, 4000) as u64, rep, |i, rng, rep| evaluator_case(cfg, "evaluator_transforms", i, rng, rep));
    let nslices = cfg.pick(16u64, 32u64);
    run_cases(cfg, G_XPROC, nslices, rep, |i, _rng, rep| xproc_case(cfg, i, rep, &pairs, nslices));

    PropMeta {
        id: "C09", level: "exploration",
        rule: "degrees N = 2..2^11 (quick) / 2..2^13 (thorough) x moduli {every prime = 1 mod 2N below 2^12; the primes get_primes(2N, bits, k) yields for every bit size 2..61 where any exist (k = 3 quick / 5 thorough, 61 bits: 6 / 8); 2 seed-dependent random friendly primes per bit size}. Per (N,q): root checks (psi^N = -1, psi = brute-force minimal primitive 2N-th root, three independently constructed tables - one on another thread - word-identical, one more in a second process); ALL N unit vectors through forward strict, forward lazy (scaled by 1, q-1, 4q-1, random psi^d + kq < 4q), inverse strict, inverse lazy (scaled by 1, q-1, 2q-1, random < 2q) against the column formula; dense vectors (random, all(q-1), lazy maxima all(4q-1) / all(2q-1), boundary mixes) against the O(N^2) definition, both round trips; dyadic product of transforms vs schoolbook negacyclic product (N <= 512 quick / 2048 thorough; sparse x dense and the closed form of (sum X^i)^2 above); negacyclic_shift for EVERY s in 0..2N-1. For every N the sub-space {all primes q < 4096 with q = 1 mod 2N (they exist for N <= 128)} x all unit vectors x all shifts is enumerated completely. evaluations = vectors/shifts checked; distinct = (N, modulus bits, vector kind) classes Evaluator level: transform_to_ntt / transform_from_ntt in three forms on BFV ciphertexts of sizes 2..4 at every level (N = 4..64), every component against an independently constructed table, inverse restores the input, destination buffers of varying shape",
        assumptions: vec![
            "u128 arithmetic of rustc; refm (Miller-Rabin with the 12 fixed bases is deterministic below 2^64)".into(),
            "documented lazy ranges: forward [0,4q) -> [0,4q) (rns.rs:725-732, ntt.rs:161-162); inverse [0,2q) -> [0,2q) (butterfly invariant of transform_from_rev, switch_key_inplace in evaluator.rs uses qi_lazy = 2q after intt_lazy, 4q after ntt_lazy). Inverse-lazy inputs in [2q,4q) are probed but counted out of precondition".into(),
            "strict transforms, dyadic_product and negacyclic_shift take reduced inputs (< q); shifts are in [0,2N)".into(),
            "transforms are linear maps, so the N unit vectors determine them up to value-dependent reduction errors, which the dense and extreme vectors target".into(),
            "table agreement compares root, inv_degree_modulo, root_powers and inv_root_powers word for word (operand and quotient); the second process is this binary re-executed".into(),
        ],
        exhaustive: false, floor: 10_000,
    }
}
