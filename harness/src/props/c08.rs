//! C08 — modular and multi-word integer primitives are exact on their whole (documented) domain.
//! Oracle: u128 arithmetic for single-word modular functions, `BigU` for multi-word helpers.

use crate::big::BigU;
use crate::refm;
use crate::rt::*;
use heathcliff::util as hu;
use heathcliff::Modulus;
use serde_json::json;

const P: &str = "C08";

macro_rules! chk {
    ($rep:expr, $cfg:expr, $grp:expr, $case:expr, $prim:expr, $class:expr, $got:expr, $want:expr, $inputs:expr) => {{
        $rep.count("per_primitive", $prim);
        // the expression usually contains the library call itself: a panic on an in-domain input is a violation, not a harness error
        match lib(|| $got) {
            Ok(got) => { let want = $want; if got != want {
                $rep.violation(&format!("{}|{}|{}|value", P, $prim, $class),
                    format!("{}: got {:?}, expected {:?}, inputs {}", $prim, got, want, $inputs),
                    replay_json($cfg, $grp, $case, json!({"primitive": $prim, "inputs": $inputs})));
            } }
            Err(p) => $rep.violation(&format!("{}|{}|{}|panic", P, $prim, $class),
                format!("{}: panicked: {} ; inputs {}", $prim, p.0, $inputs),
                replay_json($cfg, $grp, $case, json!({"primitive": $prim, "inputs": $inputs}))),
        }
    }};
}

/// run a library call that must not panic on in-domain input
macro_rules! call {
    ($rep:expr, $cfg:expr, $grp:expr, $case:expr, $prim:expr, $class:expr, $inputs:expr, $body:expr) => {{
        match lib(|| $body) {
            Ok(v) => Some(v),
            Err(p) => {
                $rep.count("per_primitive", $prim);
                $rep.violation(&format!("{}|{}|{}|panic", P, $prim, $class),
                    format!("{}: panicked: {} ; inputs {}", $prim, p.0, $inputs),
                    replay_json($cfg, $grp, $case, json!({"primitive": $prim, "inputs": $inputs})));
                None
            }
        }
    }};
}

fn single_word(cfg: &Cfg, grp: &str, case: u64, rep: &mut Report, m: &Modulus, a_any: u64, b_any: u64, c_any: u64) {
    let q = m.value();
    let a = a_any % q; let b = b_any % q;
    let inp = format!("q={} a_any={} b_any={} c_any={}", q, a_any, b_any, c_any);
    let cls = "any";
    // reductions of arbitrary 64/128-bit values
    chk!(rep, cfg, grp, case, "barrett_reduce_u64", cls, hu::barrett_reduce_u64(a_any, m), a_any % q, inp);
    chk!(rep, cfg, grp, case, "Modulus::reduce", cls, m.reduce(b_any), b_any % q, inp);
    let w = ((a_any as u128) << 64) | b_any as u128;
    chk!(rep, cfg, grp, case, "barrett_reduce_u128", cls, hu::barrett_reduce_u128(&[b_any, a_any], m), (w % q as u128) as u64, inp);
    chk!(rep, cfg, grp, case, "Modulus::reduce_u128", cls, m.reduce_u128(w), (w % q as u128) as u64, inp);
    // add/sub/negate/inc/dec on reduced operands
    chk!(rep, cfg, grp, case, "add_u64_mod", cls, hu::add_u64_mod(a, b, m), refm::addmod(a, b, q), inp);
    chk!(rep, cfg, grp, case, "sub_u64_mod", cls, hu::sub_u64_mod(a, b, m), refm::submod(a, b, q), inp);
    chk!(rep, cfg, grp, case, "negate_u64_mod", cls, hu::negate_u64_mod(a, m), refm::negmod(a, q), inp);
    chk!(rep, cfg, grp, case, "negate_u64_mod(q)", cls, hu::negate_u64_mod(q, m), 0u64, inp);
    let two_q_range = a_any % (2 * q - 1); // operand <= 2q-2
    chk!(rep, cfg, grp, case, "increment_u64_mod", cls, hu::increment_u64_mod(two_q_range, m), (two_q_range + 1) % q, inp);
    chk!(rep, cfg, grp, case, "decrement_u64_mod", cls, hu::decrement_u64_mod(a, m), refm::submod(a, 1 % q, q), inp);
    if q % 2 == 1 {
        let r = hu::div2_u64_mod(a, m);
        rep.count("per_primitive", "div2_u64_mod");
        if !(r < q && refm::addmod(r, r, q) == a) {
            rep.violation(&format!("{}|div2_u64_mod|odd_q|value", P), format!("div2_u64_mod({},{}) = {}", a, q, r), replay_json(cfg, grp, case, json!({"inputs": inp})));
        }
    }
    // multiplication
    chk!(rep, cfg, grp, case, "multiply_u64_mod", cls, hu::multiply_u64_mod(a_any, b_any, m), refm::mulmod(a_any, b_any, q), inp);
    chk!(rep, cfg, grp, case, "multiply_add_u64_mod", cls, hu::multiply_add_u64_mod(a_any, b_any, c_any, m),
        ((a_any as u128 * b_any as u128 % q as u128 + c_any as u128 % q as u128) % q as u128) as u64, inp);
    let op = hu::MultiplyU64ModOperand::new(b, m);
    chk!(rep, cfg, grp, case, "MultiplyU64ModOperand::new.quotient", cls, op.quotient, (((b as u128) << 64) / q as u128) as u64, inp);
    chk!(rep, cfg, grp, case, "MultiplyU64ModOperand::new.operand", cls, op.operand, b, inp);
    chk!(rep, cfg, grp, case, "multiply_u64operand_mod", cls, hu::multiply_u64operand_mod(a_any, &op, m), refm::mulmod(a_any, b, q), inp);
    let lz = hu::multiply_u64operand_mod_lazy(a_any, &op, m);
    rep.count("per_primitive", "multiply_u64operand_mod_lazy");
    if !(lz < 2 * q && lz % q == refm::mulmod(a_any, b, q)) {
        rep.violation(&format!("{}|multiply_u64operand_mod_lazy|any|value", P), format!("lazy({},{} mod {}) = {}", a_any, b, q, lz), replay_json(cfg, grp, case, json!({"inputs": inp})));
    }
    chk!(rep, cfg, grp, case, "multiply_u64operand_add_u64_mod", cls, hu::multiply_u64operand_add_u64_mod(a_any, &op, c_any, m),
        refm::addmod(refm::mulmod(a_any, b, q), c_any % q, q), inp);
    // exponentiation (operand reduced), exponent arbitrary
    let e = c_any >> (c_any % 64);
    chk!(rep, cfg, grp, case, "exponentiate_u64_mod", cls, hu::exponentiate_u64_mod(a, e, m), if e == 0 { 1 } else { refm::powmod(a, e, q) }, inp);
    // inversion
    let mut inv = 0u64;
    let ok = hu::try_invert_u64_mod(a, m, &mut inv);
    rep.count("per_primitive", "try_invert_u64_mod");
    let want = if a == 0 { None } else { refm::invmod(a, q) };
    match (ok, want) {
        (true, Some(w)) if inv == w => {}
        (false, None) => {}
        _ => rep.violation(&format!("{}|try_invert_u64_mod|reduced|value", P), format!("try_invert({},{}) -> ({},{}) expected {:?}", a, q, ok, inv, want), replay_json(cfg, grp, case, json!({"inputs": inp}))),
    }
    // the raw-u64-modulus form of the inversion (values below 2^62: its extended gcd works on signed words)
    {
        let (v, md) = (a_any >> 2, (b_any >> 2).max(2));
        let mut inv2 = 0u64;
        if let Some(ok2) = call!(rep, cfg, grp, case, "try_invert_u64_mod_u64", cls, inp, hu::try_invert_u64_mod_u64(v, md, &mut inv2)) {
            rep.count("per_primitive", "try_invert_u64_mod_u64");
            let want2 = if v == 0 { None } else { refm::invmod(v % md, md) };
            match (ok2, want2) {
                (true, Some(w)) if inv2 == w => {}
                (false, None) => {}
                _ => rep.violation(&format!("{}|try_invert_u64_mod_u64|any|value", P), format!("try_invert_u64_mod_u64({},{}) -> ({},{}) expected {:?}", v, md, ok2, inv2, want2), replay_json(cfg, grp, case, json!({"inputs": inp}))),
            }
        }
    }
    // gcd / xgcd / coprime on values below 2^62
    let x = a_any >> 2; let y = b_any >> 2;
    chk!(rep, cfg, grp, case, "gcd", cls, hu::gcd(x, y), refm::gcd(x, y), inp);
    chk!(rep, cfg, grp, case, "are_coprime", cls, hu::are_coprime(x.max(1), y.max(1)), refm::gcd(x.max(1), y.max(1)) == 1, inp);
    if x > 0 && y > 0 {
        let (g, s, t) = hu::xgcd(x, y);
        rep.count("per_primitive", "xgcd");
        let bez = x as i128 * s as i128 + y as i128 * t as i128;
        if g != refm::gcd(x, y) || bez != g as i128 {
            rep.violation(&format!("{}|xgcd|<2^62|value", P), format!("xgcd({},{}) = ({},{},{})", x, y, g, s, t), replay_json(cfg, grp, case, json!({"inputs": inp})));
        }
    }
}

fn modulus_constants(cfg: &Cfg, grp: &str, case: u64, rep: &mut Report, q: u64) -> Option<Modulus> {
    let inp = format!("q={}", q);
    let m = call!(rep, cfg, grp, case, "Modulus::new", "2..61bit", inp, Modulus::new(q))?;
    chk!(rep, cfg, grp, case, "Modulus::value", "any", m.value(), q, inp);
    chk!(rep, cfg, grp, case, "Modulus::bit_count", "any", m.bit_count(), refm::bit_len(q), inp);
    // floor(2^128 / q) and 2^128 mod q
    let two128 = BigU::pow2(128);
    let (quo, rem) = two128.divrem(&BigU::from_u64(q));
    let ql = quo.to_limbs(3);
    let cr = m.const_ratio();
    chk!(rep, cfg, grp, case, "Modulus::const_ratio", "any", [cr[0], cr[1], cr[2]], [ql[0], ql[1], rem.low_u64()], inp);
    chk!(rep, cfg, grp, case, "Modulus::is_prime", "any", m.is_prime(), refm::is_prime(q), inp);
    Some(m)
}

// ------------------------------------------------------------------ multi-word helpers
fn word(rng: &mut Rng) -> u64 {
    match rng.below(8) { 0 => 0, 1 => 1, 2 => 1 << 63, 3 => u64::MAX, 4 => u64::MAX - 1, 5 => rng.bits(64), _ => rng.u64() }
}
fn words(rng: &mut Rng, n: usize) -> Vec<u64> {
    let mode = rng.below(6);
    let eq = word(rng);
    let mut v: Vec<u64> = (0..n).map(|_| match mode { 0 => eq, 1 => u64::MAX, 2 => 0, _ => word(rng) }).collect();
    // sometimes leading zero words
    if n > 1 && rng.chance(1, 4) { let z = rng.usize_below(n); for i in (n - z)..n { v[i] = 0; } }
    v
}
fn bu(v: &[u64]) -> BigU { BigU::from_limbs(v) }
fn modpow2(x: &BigU, words: usize) -> Vec<u64> { x.to_limbs(words) } // truncation to `words` limbs

fn multi_word(cfg: &Cfg, grp: &str, case: u64, rep: &mut Report, rng: &mut Rng) {
    let n = rng.range(1, 8) as usize;
    let a = words(rng, n); let b = words(rng, n);
    let s = word(rng);
    let inp = format!("n={} a={:?} b={:?} s={}", n, a, b, s);
    let cls = &format!("len={}", if n == 1 { "1" } else { ">=2" });
    let (ba, bb) = (bu(&a), bu(&b));
    let full = BigU::pow2(64 * n);
    // ---- add
    {
        let sum = ba.add(&bb);
        let want = modpow2(&sum, n); let wc = (sum >= full) as u8;
        let mut r = vec![7u64; n];
        if let Some(c) = call!(rep, cfg, grp, case, "add_uint", cls, inp, hu::add_uint(&a, &b, &mut r)) { chk!(rep, cfg, grp, case, "add_uint", cls, (r.clone(), c), (want.clone(), wc), inp); }
        let mut r = a.clone();
        if let Some(c) = call!(rep, cfg, grp, case, "add_uint_inplace", cls, inp, hu::add_uint_inplace(&mut r, &b)) { chk!(rep, cfg, grp, case, "add_uint_inplace", cls, (r.clone(), c), (want.clone(), wc), inp); }
        // the fixed two-word forms of the same addition
        if n == 2 {
            let mut r = vec![7u64; 2];
            if let Some(c) = call!(rep, cfg, grp, case, "add_u128", cls, inp, hu::add_u128(&a, &b, &mut r)) { chk!(rep, cfg, grp, case, "add_u128", cls, (r.clone(), c), (want.clone(), wc), inp); }
            let mut r = a.clone();
            if let Some(c) = call!(rep, cfg, grp, case, "add_u128_inplace", cls, inp, hu::add_u128_inplace(&mut r, &b)) { chk!(rep, cfg, grp, case, "add_u128_inplace", cls, (r.clone(), c), (want.clone(), wc), inp); }
        }
        for cin in 0..2u8 {
            let sum = ba.add(&bb).add_u64(cin as u64);
            let want = modpow2(&sum, n); let wc = (sum >= full) as u8;
            let mut r = vec![7u64; n];
            if let Some(c) = call!(rep, cfg, grp, case, "add_uint_carry", cls, inp, hu::add_uint_carry(&a, &b, cin, &mut r)) { chk!(rep, cfg, grp, case, "add_uint_carry", cls, (r.clone(), c), (want.clone(), wc), inp); }
            let mut r = a.clone();
            if let Some(c) = call!(rep, cfg, grp, case, "add_uint_carry_inplace", cls, inp, hu::add_uint_carry_inplace(&mut r, &b, cin)) { chk!(rep, cfg, grp, case, "add_uint_carry_inplace", cls, (r.clone(), c), (want.clone(), wc), inp); }
            // word-level
            let mut w = 0u64;
            let c = hu::add_u64_carry(a[0], b[0], cin, &mut w);
            let t = a[0] as u128 + b[0] as u128 + cin as u128;
            chk!(rep, cfg, grp, case, "add_u64_carry", "any", (w, c), (t as u64, (t >> 64) as u8), inp);
            let mut w = 0u64;
            let c = hu::sub_u64_borrow(a[0], b[0], cin, &mut w);
            let t = (a[0] as i128) - (b[0] as i128) - cin as i128;
            chk!(rep, cfg, grp, case, "sub_u64_borrow", "any", (w, c), (t as u64, (t < 0) as u8), inp);
        }
        let sum = ba.add_u64(s);
        let want = modpow2(&sum, n); let wc = (sum >= full) as u8;
        let mut r = vec![7u64; n];
        if let Some(c) = call!(rep, cfg, grp, case, "add_uint_u64", cls, inp, hu::add_uint_u64(&a, s, &mut r)) { chk!(rep, cfg, grp, case, "add_uint_u64", cls, (r.clone(), c), (want.clone(), wc), inp); }
        let mut r = a.clone();
        if let Some(c) = call!(rep, cfg, grp, case, "add_uint_u64_inplace", cls, inp, hu::add_uint_u64_inplace(&mut r, s)) { chk!(rep, cfg, grp, case, "add_uint_u64_inplace", cls, (r.clone(), c), (want.clone(), wc), inp); }
        let sum = ba.add_u64(1);
        let want = modpow2(&sum, n); let wc = (sum >= full) as u8;
        let mut r = vec![7u64; n];
        if let Some(c) = call!(rep, cfg, grp, case, "increment_uint", cls, inp, hu::increment_uint(&a, &mut r)) { chk!(rep, cfg, grp, case, "increment_uint", cls, (r.clone(), c), (want.clone(), wc), inp); }
        let mut r = a.clone();
        if let Some(c) = call!(rep, cfg, grp, case, "increment_uint_inplace", cls, inp, hu::increment_uint_inplace(&mut r)) { chk!(rep, cfg, grp, case, "increment_uint_inplace", cls, (r.clone(), c), (want.clone(), wc), inp); }
        let mut w = 0u64; let c = hu::add_u64(a[0], b[0], &mut w);
        let t = a[0] as u128 + b[0] as u128;
        chk!(rep, cfg, grp, case, "add_u64", "any", (w, c), (t as u64, (t >> 64) as u8), inp);
        let mut w = 0u64; let c = hu::sub_u64(a[0], b[0], &mut w);
        chk!(rep, cfg, grp, case, "sub_u64", "any", (w, c), (a[0].wrapping_sub(b[0]), (b[0] > a[0]) as u8), inp);
    }
    // ---- sub (wrap-around = + 2^(64n))
    {
        let sub = |x: &BigU, y: &BigU| -> (Vec<u64>, u8) { if x >= y { (modpow2(&x.sub(y), n), 0) } else { (modpow2(&full.add(x).sub(y), n), 1) } };
        let (want, wb) = sub(&ba, &bb);
        let mut r = vec![7u64; n];
        if let Some(c) = call!(rep, cfg, grp, case, "sub_uint", cls, inp, hu::sub_uint(&a, &b, &mut r)) { chk!(rep, cfg, grp, case, "sub_uint", cls, (r.clone(), c), (want.clone(), wb), inp); }
        let mut r = a.clone();
        if let Some(c) = call!(rep, cfg, grp, case, "sub_uint_inplace", cls, inp, hu::sub_uint_inplace(&mut r, &b)) { chk!(rep, cfg, grp, case, "sub_uint_inplace", cls, (r.clone(), c), (want.clone(), wb), inp); }
        for bin in 0..2u8 {
            let (want, wb) = sub(&ba, &bb.add_u64(bin as u64));
            let mut r = vec![7u64; n];
            if let Some(c) = call!(rep, cfg, grp, case, "sub_uint_borrow", cls, inp, hu::sub_uint_borrow(&a, &b, bin, &mut r)) { chk!(rep, cfg, grp, case, "sub_uint_borrow", cls, (r.clone(), c), (want.clone(), wb), inp); }
            let mut r = a.clone();
            if let Some(c) = call!(rep, cfg, grp, case, "sub_uint_borrow_inplace", cls, inp, hu::sub_uint_borrow_inplace(&mut r, &b, bin)) { chk!(rep, cfg, grp, case, "sub_uint_borrow_inplace", cls, (r.clone(), c), (want.clone(), wb), inp); }
        }
        let (want, wb) = sub(&ba, &BigU::from_u64(s));
        let mut r = vec![7u64; n];
        if let Some(c) = call!(rep, cfg, grp, case, "sub_uint_u64", cls, inp, hu::sub_uint_u64(&a, s, &mut r)) { chk!(rep, cfg, grp, case, "sub_uint_u64", cls, (r.clone(), c), (want.clone(), wb), inp); }
        let mut r = a.clone();
        if let Some(c) = call!(rep, cfg, grp, case, "sub_uint_u64_inplace", cls, inp, hu::sub_uint_u64_inplace(&mut r, s)) { chk!(rep, cfg, grp, case, "sub_uint_u64_inplace", cls, (r.clone(), c), (want.clone(), wb), inp); }
        let (want, wb) = sub(&ba, &BigU::one());
        let mut r = vec![7u64; n];
        if let Some(c) = call!(rep, cfg, grp, case, "decrement_uint", cls, inp, hu::decrement_uint(&a, &mut r)) { chk!(rep, cfg, grp, case, "decrement_uint", cls, (r.clone(), c), (want.clone(), wb), inp); }
        let mut r = a.clone();
        if let Some(c) = call!(rep, cfg, grp, case, "decrement_uint_inplace", cls, inp, hu::decrement_uint_inplace(&mut r)) { chk!(rep, cfg, grp, case, "decrement_uint_inplace", cls, (r.clone(), c), (want.clone(), wb), inp); }
        let (want, _) = sub(&BigU::zero(), &ba);
        let mut r = vec![7u64; n];
        if call!(rep, cfg, grp, case, "negate_uint", cls, inp, hu::negate_uint(&a, &mut r)).is_some() { chk!(rep, cfg, grp, case, "negate_uint", cls, r.clone(), want.clone(), inp); }
        let mut r = a.clone();
        if call!(rep, cfg, grp, case, "negate_uint_inplace", cls, inp, hu::negate_uint_inplace(&mut r)).is_some() { chk!(rep, cfg, grp, case, "negate_uint_inplace", cls, r.clone(), want.clone(), inp); }
    }
    // ---- shifts: all amounts 0..64n-1 sampled (one per case plus boundaries)
    {
        let total = 64 * n;
        let mut amounts = vec![0usize, total - 1, rng.usize_below(total)];
        if n > 1 { amounts.push(64); amounts.push(63); amounts.push(65.min(total - 1)); amounts.push(64 * (n - 1)); }
        for &sh in &amounts {
            let sinp = format!("{} shift={}", inp, sh);
            let want_l = modpow2(&ba.shl(sh), n);
            let want_r = modpow2(&ba.shr(sh), n);
            let mut r = vec![7u64; n];
            if call!(rep, cfg, grp, case, "left_shift_uint", cls, sinp, hu::left_shift_uint(&a, sh, n, &mut r)).is_some() { chk!(rep, cfg, grp, case, "left_shift_uint", cls, r.clone(), want_l.clone(), sinp); }
            let mut r = a.clone();
            if call!(rep, cfg, grp, case, "left_shift_uint_inplace", cls, sinp, hu::left_shift_uint_inplace(&mut r, sh, n)).is_some() { chk!(rep, cfg, grp, case, "left_shift_uint_inplace", cls, r.clone(), want_l.clone(), sinp); }
            let mut r = vec![7u64; n];
            if call!(rep, cfg, grp, case, "right_shift_uint", cls, sinp, hu::right_shift_uint(&a, sh, n, &mut r)).is_some() { chk!(rep, cfg, grp, case, "right_shift_uint", cls, r.clone(), want_r.clone(), sinp); }
            let mut r = a.clone();
            if call!(rep, cfg, grp, case, "right_shift_uint_inplace", cls, sinp, hu::right_shift_uint_inplace(&mut r, sh, n)).is_some() { chk!(rep, cfg, grp, case, "right_shift_uint_inplace", cls, r.clone(), want_r.clone(), sinp); }
        }
        // fixed-width 128/192-bit shifts, every shift amount class
        let a2 = words(rng, 2); let a3 = words(rng, 3);
        for &sh in &[0usize, 1, 63, 64, 65, 127, rng.usize_below(128)] {
            let sinp = format!("a2={:?} shift={}", a2, sh);
            let scls = if sh < 64 { "shift<64" } else { "shift>=64" };
            let mut r = vec![7u64; 2];
            hu::left_shift_u128(&a2, sh, &mut r); chk!(rep, cfg, grp, case, "left_shift_u128", scls, r.clone(), modpow2(&bu(&a2).shl(sh), 2), sinp);
            let mut r = a2.clone();
            hu::left_shift_u128_inplace(&mut r, sh); chk!(rep, cfg, grp, case, "left_shift_u128_inplace", scls, r.clone(), modpow2(&bu(&a2).shl(sh), 2), sinp);
            let mut r = vec![7u64; 2];
            hu::right_shift_u128(&a2, sh, &mut r); chk!(rep, cfg, grp, case, "right_shift_u128", scls, r.clone(), modpow2(&bu(&a2).shr(sh), 2), sinp);
            let mut r = a2.clone();
            hu::right_shift_u128_inplace(&mut r, sh); chk!(rep, cfg, grp, case, "right_shift_u128_inplace", scls, r.clone(), modpow2(&bu(&a2).shr(sh), 2), sinp);
        }
        for &sh in &[0usize, 1, 63, 64, 65, 127, 128, 129, 191, rng.usize_below(192)] {
            let sinp = format!("a3={:?} shift={}", a3, sh);
            let scls = if sh < 64 { "shift<64" } else if sh < 128 { "shift<128" } else { "shift>=128" };
            let mut r = vec![7u64; 3];
            hu::left_shift_u192(&a3, sh, &mut r); chk!(rep, cfg, grp, case, "left_shift_u192", scls, r.clone(), modpow2(&bu(&a3).shl(sh), 3), sinp);
            let mut r = a3.clone();
            hu::left_shift_u192_inplace(&mut r, sh); chk!(rep, cfg, grp, case, "left_shift_u192_inplace", scls, r.clone(), modpow2(&bu(&a3).shl(sh), 3), sinp);
            let mut r = vec![7u64; 3];
            hu::right_shift_u192(&a3, sh, &mut r); chk!(rep, cfg, grp, case, "right_shift_u192", scls, r.clone(), modpow2(&bu(&a3).shr(sh), 3), sinp);
            let mut r = a3.clone();
            hu::right_shift_u192_inplace(&mut r, sh); chk!(rep, cfg, grp, case, "right_shift_u192_inplace", scls, r.clone(), modpow2(&bu(&a3).shr(sh), 3), sinp);
        }
    }
    // ---- halves, bitwise, comparison, counts
    {
        let want = modpow2(&ba.add_u64(1).shr(1), n);
        let mut r = vec![7u64; n];
        if call!(rep, cfg, grp, case, "half_round_up_uint", cls, inp, hu::half_round_up_uint(&a, &mut r)).is_some() {
            // (a+1)>>1 does not fit only when a = 2^(64n)-1; the library then wraps like everything else
            chk!(rep, cfg, grp, case, "half_round_up_uint", cls, r.clone(), want.clone(), inp);
        }
        let mut r = a.clone();
        if call!(rep, cfg, grp, case, "half_round_up_uint_inplace", cls, inp, hu::half_round_up_uint_inplace(&mut r)).is_some() { chk!(rep, cfg, grp, case, "half_round_up_uint_inplace", cls, r.clone(), want.clone(), inp); }
        let mut r = vec![0u64; n]; hu::not_uint(&a, &mut r); chk!(rep, cfg, grp, case, "not_uint", cls, r.clone(), a.iter().map(|x| !x).collect::<Vec<_>>(), inp);
        let mut r = vec![0u64; n]; hu::and_uint(&a, &b, &mut r); chk!(rep, cfg, grp, case, "and_uint", cls, r.clone(), a.iter().zip(&b).map(|(x, y)| x & y).collect::<Vec<_>>(), inp);
        let mut r = vec![0u64; n]; hu::or_uint(&a, &b, &mut r); chk!(rep, cfg, grp, case, "or_uint", cls, r.clone(), a.iter().zip(&b).map(|(x, y)| x | y).collect::<Vec<_>>(), inp);
        let mut r = vec![0u64; n]; hu::xor_uint(&a, &b, &mut r); chk!(rep, cfg, grp, case, "xor_uint", cls, r.clone(), a.iter().zip(&b).map(|(x, y)| x ^ y).collect::<Vec<_>>(), inp);
        let ord = ba.cmp(&bb);
        chk!(rep, cfg, grp, case, "compare_uint", cls, hu::compare_uint(&a, &b), ord, inp);
        // different lengths
        let m2 = rng.range(1, 8) as usize; let c = words(rng, m2);
        chk!(rep, cfg, grp, case, "compare_uint(lens differ)", "any", hu::compare_uint(&a, &c), ba.cmp(&bu(&c)), format!("{} c={:?}", inp, c));
        chk!(rep, cfg, grp, case, "is_greater_than_uint", cls, hu::is_greater_than_uint(&a, &b), ord == std::cmp::Ordering::Greater, inp);
        chk!(rep, cfg, grp, case, "is_greater_than_or_equal_uint", cls, hu::is_greater_than_or_equal_uint(&a, &b), ord != std::cmp::Ordering::Less, inp);
        chk!(rep, cfg, grp, case, "is_less_than_uint", cls, hu::is_less_than_uint(&a, &b), ord == std::cmp::Ordering::Less, inp);
        chk!(rep, cfg, grp, case, "is_less_than_or_equal_uint", cls, hu::is_less_than_or_equal_uint(&a, &b), ord != std::cmp::Ordering::Greater, inp);
        chk!(rep, cfg, grp, case, "is_equal_uint", cls, hu::is_equal_uint(&a, &b), ord == std::cmp::Ordering::Equal, inp);
        chk!(rep, cfg, grp, case, "is_equal_uint(self)", cls, hu::is_equal_uint(&a, &a.clone()), true, inp);
        chk!(rep, cfg, grp, case, "get_significant_bit_count_uint", cls, hu::get_significant_bit_count_uint(&a), ba.bits(), inp);
        chk!(rep, cfg, grp, case, "get_significant_uint64_count_uint", cls, hu::get_significant_uint64_count_uint(&a), ba.l.len(), inp);
        chk!(rep, cfg, grp, case, "get_nonzero_uint64_count_uint", cls, hu::get_nonzero_uint64_count_uint(&a), a.iter().filter(|&&x| x != 0).count(), inp);
        chk!(rep, cfg, grp, case, "get_significant_bit_count", "any", hu::get_significant_bit_count(s), refm::bit_len(s), inp);
        chk!(rep, cfg, grp, case, "get_power_of_two", "any", hu::get_power_of_two(s), if s.count_ones() == 1 { s.trailing_zeros() as isize } else { -1 }, inp);
        let pw = 1u64 << (s % 64);
        chk!(rep, cfg, grp, case, "get_power_of_two", "pow2", hu::get_power_of_two(pw), (s % 64) as isize, inp);
        chk!(rep, cfg, grp, case, "hamming_weight", "any", hu::hamming_weight(s as u8), (s as u8).count_ones() as i32, inp);
        let bc = (s % 33) as usize;
        let x32 = (a[0] as u32) & (if bc == 32 { u32::MAX } else { (1u32 << bc) - 1 });
        chk!(rep, cfg, grp, case, "reverse_bits_u32", "any", hu::reverse_bits_u32(x32, bc) as usize, refm::bitrev(x32 as usize, bc), inp);
        let bc = (s % 65) as usize;
        let x64 = a[0] & (if bc == 64 { u64::MAX } else { (1u64 << bc) - 1 });
        let mut want = 0u64; for i in 0..bc { if (x64 >> i) & 1 == 1 { want |= 1 << (bc - 1 - i); } }
        chk!(rep, cfg, grp, case, "reverse_bits_u64", "any", hu::reverse_bits_u64(x64, bc), want, inp);
    }
    // ---- multiplication
    {
        let mut hw = 0u64; hu::multiply_u64_high_word(a[0], b[0], &mut hw);
        chk!(rep, cfg, grp, case, "multiply_u64_high_word", "any", hw, ((a[0] as u128 * b[0] as u128) >> 64) as u64, inp);
        let mut r2 = [0u64; 2]; hu::multiply_u64_u64(a[0], b[0], &mut r2);
        let pr = a[0] as u128 * b[0] as u128;
        chk!(rep, cfg, grp, case, "multiply_u64_u64", "any", r2, [pr as u64, (pr >> 64) as u64], inp);
        // result lengths: 1, n, n+1, 2n
        let m = rng.range(1, 8) as usize; let c = words(rng, m);
        for &rl in &[1usize, n, n + 1, n + m, 2 * n.max(m)] {
            let rcls = &format!("result_len={}", if rl == 1 { "1" } else { ">=2" });
            let minp = format!("a={:?} c={:?} s={} result_len={}", a, c, s, rl);
            let want = modpow2(&ba.mul(&bu(&c)), rl);
            let mut r = vec![7u64; rl];
            if call!(rep, cfg, grp, case, "multiply_uint", rcls, minp, hu::multiply_uint(&a, &c, &mut r)).is_some() { chk!(rep, cfg, grp, case, "multiply_uint", rcls, r.clone(), want.clone(), minp); }
            let want = modpow2(&ba.mul_u64(s), rl);
            let mut r = vec![7u64; rl];
            if call!(rep, cfg, grp, case, "multiply_uint_u64", rcls, minp, hu::multiply_uint_u64(&a, s, &mut r)).is_some() { chk!(rep, cfg, grp, case, "multiply_uint_u64", rcls, r.clone(), want.clone(), minp); }
        }
        let want = modpow2(&ba.mul_u64(s), n);
        let mut r = a.clone();
        if call!(rep, cfg, grp, case, "multiply_uint_u64_inplace", cls, inp, hu::multiply_uint_u64_inplace(&mut r, s)).is_some() { chk!(rep, cfg, grp, case, "multiply_uint_u64_inplace", cls, r.clone(), want.clone(), inp); }
        // product of many words; result sized to hold it (as the context does)
        let k = rng.range(1, 8) as usize;
        let ops: Vec<u64> = (0..k).map(|_| word(rng).max(1)).collect();
        let mut r = vec![7u64; k];
        let want = ops.iter().fold(BigU::one(), |acc, &x| acc.mul_u64(x));
        let minp = format!("operands={:?}", ops);
        if call!(rep, cfg, grp, case, "multiply_many_u64", &format!("count={}", if k == 1 { "1" } else { ">=2" }), minp, hu::multiply_many_u64(&ops, &mut r)).is_some() {
            chk!(rep, cfg, grp, case, "multiply_many_u64", "any", r.clone(), want.to_limbs(k), minp);
        }
    }
    // ---- division with remainder
    {
        // denominators with leading zero words, numerator < = > denominator
        let mut d = words(rng, n);
        if bu(&d).is_zero() { d[0] = word(rng).max(1); }
        let numer = match rng.below(4) { 0 => d.clone(), 1 => { let mut x = d.clone(); x[0] = x[0].wrapping_add(1); x }, _ => a.clone() };
        let (wq, wr) = bu(&numer).divrem(&bu(&d));
        let dinp = format!("n={} numerator={:?} denominator={:?}", n, numer, d);
        let mut q = vec![7u64; n]; let mut r = vec![7u64; n];
        if call!(rep, cfg, grp, case, "divide_uint", cls, dinp, hu::divide_uint(&numer, &d, &mut q, &mut r)).is_some() {
            chk!(rep, cfg, grp, case, "divide_uint", cls, (q.clone(), r.clone()), (wq.to_limbs(n), wr.to_limbs(n)), dinp);
        }
        let mut q = vec![7u64; n]; let mut r = numer.clone();
        if call!(rep, cfg, grp, case, "divide_uint_inplace", cls, dinp, hu::divide_uint_inplace(&mut r, &d, &mut q)).is_some() {
            chk!(rep, cfg, grp, case, "divide_uint_inplace", cls, (q.clone(), r.clone()), (wq.to_limbs(n), wr.to_limbs(n)), dinp);
        }
        // 128 / 64 and 192 / 64
        let d1 = word(rng).max(1);
        let n2 = words(rng, 2);
        let (wq, wr) = bu(&n2).divrem(&BigU::from_u64(d1));
        let dinp = format!("numerator={:?} denominator={}", n2, d1);
        let mut q = [7u64; 2]; let mut r = n2.clone();
        if call!(rep, cfg, grp, case, "divide_u128_u64_inplace", "any", dinp, hu::divide_u128_u64_inplace(&mut r, d1, &mut q)).is_some() {
            chk!(rep, cfg, grp, case, "divide_u128_u64_inplace", "any", (q.to_vec(), r.clone()), (wq.to_limbs(2), wr.to_limbs(2)), dinp);
        }
        let n3 = words(rng, 3);
        let sig = bu(&n3).l.len();
        let (wq, wr) = bu(&n3).divrem(&BigU::from_u64(d1));
        let dinp = format!("numerator={:?} denominator={}", n3, d1);
        let dcls = &format!("numerator_words={}", sig);
        let mut q = [7u64; 3]; let mut r = n3.clone();
        if call!(rep, cfg, grp, case, "divide_u192_u64_inplace", dcls, dinp, hu::divide_u192_u64_inplace(&mut r, d1, &mut q)).is_some() {
            chk!(rep, cfg, grp, case, "divide_u192_u64_inplace", dcls, (q.to_vec(), r.clone()), (wq.to_limbs(3), wr.to_limbs(3)), dinp);
        }
    }
    // ---- multi-word modular helpers (operands reduced below a multi-word modulus)
    {
        let mut md = words(rng, n);
        if bu(&md) < BigU::from_u64(2) { md[0] = md[0] | 2; }
        let bm = bu(&md);
        let x = ba.rem(&bm); let y = bb.rem(&bm);
        let (xv, yv) = (x.to_limbs(n), y.to_limbs(n));
        let minp = format!("n={} x={:?} y={:?} modulus={:?}", n, xv, yv, md);
        let mut r = vec![7u64; n];
        if call!(rep, cfg, grp, case, "add_uint_mod", cls, minp, hu::add_uint_mod(&xv, &yv, &md, &mut r)).is_some() { chk!(rep, cfg, grp, case, "add_uint_mod", cls, r.clone(), x.add(&y).rem(&bm).to_limbs(n), minp); }
        let mut r = xv.clone();
        if call!(rep, cfg, grp, case, "add_uint_mod_inplace", cls, minp, hu::add_uint_mod_inplace(&mut r, &yv, &md)).is_some() { chk!(rep, cfg, grp, case, "add_uint_mod_inplace", cls, r.clone(), x.add(&y).rem(&bm).to_limbs(n), minp); }
        let mut r = vec![7u64; n];
        if call!(rep, cfg, grp, case, "sub_uint_mod", cls, minp, hu::sub_uint_mod(&xv, &yv, &md, &mut r)).is_some() { chk!(rep, cfg, grp, case, "sub_uint_mod", cls, r.clone(), x.add(&bm).sub(&y).rem(&bm).to_limbs(n), minp); }
        let mut r = vec![7u64; n];
        if call!(rep, cfg, grp, case, "negate_uint_mod", cls, minp, hu::negate_uint_mod(&xv, &md, &mut r)).is_some() { chk!(rep, cfg, grp, case, "negate_uint_mod", cls, r.clone(), bm.sub(&x).rem(&bm).to_limbs(n), minp); }
        let mut r = vec![7u64; n];
        if call!(rep, cfg, grp, case, "increment_uint_mod", cls, minp, hu::increment_uint_mod(&xv, &md, &mut r)).is_some() { chk!(rep, cfg, grp, case, "increment_uint_mod", cls, r.clone(), x.add_u64(1).rem(&bm).to_limbs(n), minp); }
        let mut r = vec![7u64; n];
        if call!(rep, cfg, grp, case, "decrement_uint_mod", cls, minp, hu::decrement_uint_mod(&xv, &md, &mut r)).is_some() { chk!(rep, cfg, grp, case, "decrement_uint_mod", cls, r.clone(), x.add(&bm).sub(&BigU::one()).rem(&bm).to_limbs(n), minp); }
        if md[0] & 1 == 1 {
            let mut r = vec![7u64; n];
            if call!(rep, cfg, grp, case, "div2_uint_mod", cls, minp, hu::div2_uint_mod(&xv, &md, &mut r)).is_some() {
                rep.count("per_primitive", "div2_uint_mod");
                let rr = bu(&r);
                if !(rr < bm && rr.add(&rr).rem(&bm) == x) {
                    rep.violation(&format!("{}|div2_uint_mod|{}|value", P, cls), format!("div2_uint_mod -> {:?}; {}", r, minp), replay_json(cfg, grp, case, json!({"inputs": minp})));
                }
            }
        }
    }
    // ---- reduction of multi-word values modulo a word modulus, dot products
    {
        let qbits = rng.range(2, 61) as u32;
        let q = loop { let v = rng.bits(qbits) | (1 << (qbits - 1)); if v >= 2 { break v; } };
        let m = Modulus::new(q);
        let minp = format!("value={:?} q={}", a, q);
        chk!(rep, cfg, grp, case, "modulo_uint", cls, hu::modulo_uint(&a, &m), ba.rem_u64(q), minp);
        let mut r = a.clone();
        if call!(rep, cfg, grp, case, "modulo_uint_inplace", cls, minp, hu::modulo_uint_inplace(&mut r, &m)).is_some() {
            let mut want = vec![0u64; n]; want[0] = ba.rem_u64(q);
            chk!(rep, cfg, grp, case, "modulo_uint_inplace", cls, r.clone(), want, minp);
        }
        // divide_uint_mod_inplace: quotient has as many words as the numerator
        let (wq, wr) = ba.divrem(&BigU::from_u64(q));
        let qcls = &format!("quot_len={}", match n { 1 => "1", 2 => "2", _ => ">=3" });
        let mut numer = a.clone(); let mut quot = vec![7u64; n];
        if call!(rep, cfg, grp, case, "divide_uint_mod_inplace", qcls, minp, hu::divide_uint_mod_inplace(&mut numer, &m, &mut quot)).is_some() {
            chk!(rep, cfg, grp, case, "divide_uint_mod_inplace", qcls, (quot.clone(), numer[0]), (wq.to_limbs(n), wr.low_u64()), minp);
        }
        // documented domain ("follows the condition of barrett_reduce_128"): the exact sum of products fits 128 bits, i.e.
        // len * (q-1)^2 < 2^128. Long vectors (hundreds / thousands of terms) are in-domain for moduli below ~59 bits.
        let cap: u128 = { let sq = (q as u128 - 1) * (q as u128 - 1); if sq == 0 { 1 << 20 } else { (u128::MAX / sq).min(1 << 20) } };
        let (len, lcls) = match rng.below(8) {
            0 if cap >= 17 => (rng.range(17, (cap as u64).min(300)) as usize, "len=17..300"),
            1 if cap >= 257 => (rng.range(257, (cap as u64).min(4096)) as usize, "len=257..4096"),
            _ => (rng.range(1, 16.min(cap as u64)) as usize, "len<=16"),
        };
        let all_max = rng.chance(1, 6);
        let v1: Vec<u64> = (0..len).map(|_| if all_max { q - 1 } else { match rng.below(4) { 0 => q - 1, 1 => 0, _ => rng.below(q) } }).collect();
        let v2: Vec<u64> = (0..len).map(|_| if all_max { q - 1 } else { match rng.below(4) { 0 => q - 1, 1 => 1, _ => rng.below(q) } }).collect();
        let mut acc = 0u128; for i in 0..len { acc = (acc + v1[i] as u128 * v2[i] as u128) % q as u128; }
        rep.count("dot_product_terms", lcls);
        let dinp = if len <= 16 { format!("q={} v1={:?} v2={:?}", q, v1, v2) } else { format!("q={} len={} all_max={} v1[..4]={:?} v2[..4]={:?}", q, len, all_max, &v1[..4], &v2[..4]) };
        chk!(rep, cfg, grp, case, "dot_product_mod", lcls, hu::dot_product_mod(&v1, &v2, &m), acc as u64, dinp);
    }
    // ---- naf
    {
        let v = match rng.below(6) { 0 => 0i32, 1 => 1, 2 => -1, 3 => (1 << 30) - 1, 4 => -((1 << 30) - 1), _ => (rng.below(1 << 20) as i32) - (1 << 19) };
        if let Some(d) = call!(rep, cfg, grp, case, "naf", "any", format!("{}", v), hu::naf(v)) {
            rep.count("per_primitive", "naf");
            let sum: i64 = d.iter().map(|&x| x as i64).sum();
            let mut ok = sum == v as i64;
            let mut exps = vec![];
            for &x in &d { let ax = x.unsigned_abs(); if ax == 0 || ax.count_ones() != 1 { ok = false; } else { exps.push(ax.trailing_zeros()); } }
            for w in exps.windows(2) { if w[1] <= w[0] + 1 { ok = false; } } // strictly increasing and non-adjacent
            if !ok { rep.violation(&format!("{}|naf|any|value", P), format!("naf({}) = {:?}", v, d), replay_json(cfg, grp, case, json!({"value": v}))); }
        }
    }
}

fn boundary_moduli(rng: &mut Rng) -> u64 {
    let k = rng.range(2, 61) as u32;
    let top = 1u64 << (k - 1);
    match rng.below(8) {
        0 => top.max(2),                       // 2^(k-1)
        1 => (top + 1).max(2),                 // 2^(k-1)+1
        2 => ((1u64 << k) - 1).max(2),         // 2^k - 1
        3 => (1u64 << 61) - 1,                 // largest 61-bit value
        4 => { // prime of k bits
            let mut v = (rng.bits(k) | top | 1).max(3);
            while !refm::is_prime(v) { v += 2; if v >> 61 != 0 { v = 3; } }
            v
        }
        5 => [2u64, 3, 4, 5, 6, 7][rng.usize_below(6)],
        _ => (rng.bits(k) | top).max(2),
    }
}
fn boundary_operand(rng: &mut Rng, q: u64) -> u64 {
    match rng.below(12) {
        0 => 0, 1 => 1, 2 => q - 1, 3 => q, 4 => 2 * q - 2, 5 => 2 * q - 1, 6 => 1 << 63, 7 => u64::MAX,
        8 => { let k = rng.below(u64::MAX / q); (k * q).wrapping_add(1) }
        9 => { let k = rng.range(1, u64::MAX / q); (k * q).wrapping_sub(1) }
        10 => rng.below(q),
        _ => rng.u64(),
    }
}

pub fn run(cfg: &Cfg, rep: &mut Report) -> PropMeta {
    // (1) exhaustive: all moduli 2..127, all operand pairs below the modulus (and third operand derived)
    if cfg.only_case.is_none() || cfg.only_case.as_ref().unwrap().0 == "exhaustive" {
        run_cases(cfg, "exhaustive", 126, rep, |i, _rng, rep| {
            let q = i + 2;
            let Some(m) = modulus_constants(cfg, "exhaustive", i, rep, q) else { return };
            let bit = refm::bit_len(q);
            rep.count("modulus_bits", &format!("{:02}", bit));
            let lim = 2 * q; // operands cover [0, 2q) so that unreduced inputs of the reducing functions are hit too
            for a in 0..lim {
                for b in 0..lim {
                    single_word(cfg, "exhaustive", i, rep, &m, a, b, a ^ (b << 1));
                    rep.evals(1);
                }
            }
            rep.distinct_key(&format!("exh-q{}", q));
        });
    }
    // (2) boundary product + random single-word
    let n_sw = cfg.n(300_000, 4_000_000) as u64;
    run_cases(cfg, "single", n_sw, rep, |i, rng, rep| {
        let q = boundary_moduli(rng);
        let Some(m) = modulus_constants(cfg, "single", i, rep, q) else { return };
        rep.count("modulus_bits", &format!("{:02}", refm::bit_len(q)));
        for _ in 0..24 {
            let (a, b, c) = (boundary_operand(rng, q), boundary_operand(rng, q), boundary_operand(rng, q));
            single_word(cfg, "single", i, rep, &m, a, b, c);
            rep.eval(Some(&format!("sw-{}-{}-{}", refm::bit_len(q), refm::bit_len(a), refm::bit_len(b))));
        }
        if i < 3 {
            let (a, b) = (boundary_operand(rng, q), boundary_operand(rng, q));
            let op = hu::MultiplyU64ModOperand::new(b % q, &m);
            rep.sample(json!({"group": "single", "modulus": q, "const_ratio": m.const_ratio().to_vec(), "a": a, "b": b,
                "observed": {"barrett_reduce_u64(a)": hu::barrett_reduce_u64(a, &m), "multiply_u64_mod(a,b)": hu::multiply_u64_mod(a, b, &m), "operand_quotient(b mod q)": op.quotient,
                             "multiply_u64operand_mod_lazy(a, b mod q)": hu::multiply_u64operand_mod_lazy(a, &op, &m), "exponentiate(a mod q, 5)": hu::exponentiate_u64_mod(a % q, 5, &m)},
                "expected": {"a mod q": a % q, "a*b mod q": refm::mulmod(a, b, q), "floor(b*2^64/q)": ((((b % q) as u128) << 64) / q as u128) as u64}}));
        }
    });
    // (3) multi-word helpers
    let n_mw = cfg.n(700_000, 12_000_000) as u64;
    run_cases(cfg, "multi", n_mw, rep, |i, rng, rep| {
        let before = rep.violations.len();
        multi_word(cfg, "multi", i, rep, rng);
        rep.eval(Some(&format!("mw-{}", i % 4096)));
        let _ = before;
        if i < 2 {
            let a = words(rng, 3); let b = words(rng, 3);
            let mut sum = vec![0u64; 3]; let c = hu::add_uint(&a, &b, &mut sum);
            let mut prod = vec![0u64; 6]; hu::multiply_uint(&a, &b, &mut prod);
            rep.sample(json!({"group": "multi", "case": i, "note": "one case = every multi-word helper on fresh operands of 1..8 words; shown: one add and one multiply",
                "a": a, "b": b, "observed_add_uint": {"sum": sum, "carry": c}, "observed_multiply_uint": prod, "expected_product_hex": bu(&a).mul(&bu(&b)).to_hex()}));
        }
    });
    PropMeta {
        id: "C08", level: "exploration",
        rule: "exhaustive: every modulus 2..127 x every operand pair in [0,2q); single: boundary moduli (2^k, 2^k+-1, primes, 2^61-1, random of every bit size 2..61) x boundary operands (0,1,q-1,q,2q-2,2q-1,2^63,2^64-1,kq+-1,random); multi: word counts 1..8 with words from {0,1,2^63,2^64-1,equal,random}. distinct = distinct (modulus bits, operand bits) classes / exhaustive moduli / multi-word case buckets. Includes the fixed two-word forms add_u128 / add_u128_inplace and the raw-modulus inversion try_invert_u64_mod_u64",
        assumptions: vec!["u128 arithmetic of rustc".into(), "harness BigU (cross-checked against Python integers by `hv selftest`)".into(),
            "documented domains: operands of add/sub/negate/div2 below the modulus, increment <= 2q-2, MultiplyU64ModOperand operand < q, exponentiate operand < q, multi-word buffers of equal length".into()],
        exhaustive: false, floor: 1000,
    }
}
