//! `hv selftest`: emits random and boundary big-integer operations as JSONL on stdout;
//! `py/check_big.py` re-evaluates them with Python integers. Also self-checks refm.
use crate::big::{BigI, BigU};
use crate::refm;
use crate::rt::{Cfg, Rng};

fn rnd_big(rng: &mut Rng) -> BigU {
    let n = rng.range(0, 6) as usize;
    let v: Vec<u64> = (0..n).map(|_| match rng.below(6) { 0 => 0, 1 => u64::MAX, 2 => 1, 3 => 1 << 63, _ => rng.u64() }).collect();
    BigU::from_limbs(&v)
}

pub fn run(cfg: &Cfg) -> i32 {
    let mut rng = Rng::new(cfg.seed ^ 0xB16);
    let n = 20000;
    for _ in 0..n {
        let a = rnd_big(&mut rng); let b = rnd_big(&mut rng);
        let sh = rng.usize_below(200);
        let mut line = format!("{{\"a\":\"{}\",\"b\":\"{}\",\"sh\":{},\"add\":\"{}\",\"mul\":\"{}\",\"shl\":\"{}\",\"shr\":\"{}\",\"bits\":{},\"dec\":\"{}\"",
            a.to_hex(), b.to_hex(), sh, a.add(&b).to_hex(), a.mul(&b).to_hex(), a.shl(sh).to_hex(), a.shr(sh).to_hex(), a.bits(), a.to_dec());
        if a >= b { line += &format!(",\"sub\":\"{}\"", a.sub(&b).to_hex()); }
        if !b.is_zero() {
            let (q, r) = a.divrem(&b);
            line += &format!(",\"div\":\"{}\",\"rem\":\"{}\"", q.to_hex(), r.to_hex());
            // signed: (-a) floor-div b, rounding division
            let na = BigI { neg: !a.is_zero(), m: a.clone() };
            let (fq, fr) = na.divmod_floor(&b);
            line += &format!(",\"nfq\":\"{}\",\"nfr\":\"{}\",\"rnd\":\"{}\",\"nrnd\":\"{}\"", fq.to_dec(), fr.to_dec(),
                BigI::from_u(a.clone()).div_round_half_up(&b).to_dec(), na.div_round_half_up(&b).to_dec());
        }
        line += "}";
        println!("{}", line);
    }
    // refm self-consistency (panics => non-zero exit)
    for &(n, q) in &[(4usize, 17u64), (8, 97), (16, 193), (64, 7681), (8, 1152921504606846577)] {
        if !refm::is_prime(q) || (q - 1) % (2 * n as u64) != 0 { continue; }
        let psi = refm::min_primitive_2n_root(n, q).expect("root");
        let a: Vec<u64> = (0..n).map(|_| rng.below(q)).collect();
        let b: Vec<u64> = (0..n).map(|_| rng.below(q)).collect();
        let fa = refm::ntt_ref(&a, psi, q); let fb = refm::ntt_ref(&b, psi, q);
        assert_eq!(refm::intt_ref(&fa, psi, q), a, "intt_ref(ntt_ref) != id");
        let prod: Vec<u64> = fa.iter().zip(&fb).map(|(&x, &y)| refm::mulmod(x, y, q)).collect();
        assert_eq!(refm::intt_ref(&prod, psi, q), refm::negacyclic_mul(&a, &b, q), "convolution theorem (reference)");
    }
    eprintln!("selftest: emitted {} records; refm self-consistency ok", n);
    0
}
