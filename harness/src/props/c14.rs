//! C14 — serialization round-trips every object exactly, sizes exact, across contexts.
//!
//! Workload: parameter sets whose primes sit on and around every byte-width boundary (1..8 bytes per
//! residue, mixed widths within one chain), all three schemes; for each a "zoo" of every serializable
//! type and format. Observed: bytes written (counting writer), announced size, bytes consumed (cursor
//! position with trailing garbage / inside a concatenation), the restored object. Oracle: field-by-field
//! equality with the original (seeded objects: with their expanded form; selected-terms format: with the
//! reference masking computed by the naive transforms of `refm`), in the same context and in a context
//! rebuilt from the deserialized parameters.
//!
//! The object zoo (`Obj`, `Env`, `build_zoo`, `gen_spec`) is shared with C15.

use crate::he::*;
use crate::refm;
use crate::rt::*;
use heathcliff::app::matmul::cipher3d::{Cipher3d, Plain3d};
use heathcliff::app::matmul::{Cipher1d, Cipher2d, Plain1d, Plain2d};
use heathcliff::app::rns_plain::{RnspCiphertext, RnspGaloisKeys, RnspHeContext, RnspPublicKey, RnspRelinKeys, RnspSerializableWithHeContext};
use heathcliff::*;
use serde_json::json;
use std::io::{Cursor, Read, Write};
use std::sync::Arc;

const P: &str = "C14";

// ------------------------------------------------------------------ formats, environment, objects
#[derive(Clone, Debug, PartialEq)]
pub enum Fmt { Compact, Full, Terms(Vec<usize>) }
impl Fmt {
    pub fn name(&self) -> &'static str { match self { Fmt::Compact => "compact", Fmt::Full => "full", Fmt::Terms(_) => "terms" } }
}

/// the context(s) an object is (de)serialized against
pub struct Env { pub ctx: Arc<HeContext>, pub rnsp: Option<RnspHeContext> }

#[derive(Clone)]
pub enum Obj {
    Parms(EncryptionParameters), Modulus(Modulus), Plain(Plaintext),
    Ct(Ciphertext, Fmt), VecCt(Vec<Ciphertext>),
    Sk(SecretKey), Pk(PublicKey), Relin(RelinKeys), Galois(GaloisKeys), KSwitch(KSwitchKeys),
    P1(Plain1d), P2(Plain2d), P3(Plain3d),
    C1(Cipher1d, Fmt), C2(Cipher2d, Fmt), C3(Cipher3d, Fmt),
    Poly(Vec<u64>, ParmsID),
    RCt(RnspCiphertext, Fmt), RVecCt(Vec<RnspCiphertext>), RPk(RnspPublicKey), RRelin(RnspRelinKeys), RGalois(RnspGaloisKeys),
}

pub fn expand_ct(ctx: &HeContext, c: &Ciphertext) -> Ciphertext { if c.contains_seed() { c.clone().expand_seed(ctx) } else { c.clone() } }
fn expand_pk(ctx: &HeContext, k: &PublicKey) -> PublicKey { PublicKey::new(expand_ct(ctx, k.as_ciphertext())) }
fn expand_ksk(ctx: &HeContext, k: &KSwitchKeys) -> KSwitchKeys {
    KSwitchKeys::from_members(*k.parms_id(), k.keys().iter().map(|v| v.iter().map(|p| expand_pk(ctx, p)).collect()).collect())
}
fn map_c1(c: &Cipher1d, f: &dyn Fn(&Ciphertext) -> Ciphertext) -> Cipher1d { Cipher1d::new(c.data.iter().map(|x| f(x)).collect()) }
fn map_c2(c: &Cipher2d, f: &dyn Fn(&Ciphertext) -> Ciphertext) -> Cipher2d { Cipher2d::new_1ds(c.data.iter().map(|x| map_c1(x, f)).collect()) }
fn map_c3(c: &Cipher3d, f: &dyn Fn(&Ciphertext) -> Ciphertext) -> Cipher3d { Cipher3d::new_2ds(c.data.iter().map(|x| map_c2(x, f)).collect()) }

/// Reference for the selected-terms format: polynomial 0 keeps exactly the selected coefficients (in
/// coefficient form) and zeros elsewhere; the other polynomials and all metadata are unchanged.
pub fn terms_reference(ctx: &HeContext, c: &Ciphertext, terms: &[usize]) -> Ciphertext {
    let cd = ctx.get_context_data(c.parms_id()).expect("ciphertext level");
    let qs: Vec<u64> = cd.parms().coeff_modulus().iter().map(|m| m.value()).collect();
    let tables = cd.small_ntt_tables();
    let n = c.poly_modulus_degree();
    let mut out = c.clone();
    for (j, &q) in qs.iter().enumerate() {
        let comp = c.poly_component(0, j).to_vec();
        let coef = if c.is_ntt_form() { refm::intt_ref(&comp, tables[j].root(), q) } else { comp };
        let mut masked = vec![0u64; n];
        for &t in terms { masked[t] = coef[t]; }
        let back = if c.is_ntt_form() { refm::ntt_ref(&masked, tables[j].root(), q) } else { masked };
        out.poly_component_mut(0, j).copy_from_slice(&back);
    }
    out
}

type Diff = Option<(String, String)>;

fn first_word_diff(a: &[u64], b: &[u64]) -> Option<usize> { a.iter().zip(b).position(|(x, y)| x != y) }

pub fn diff_plain(a: &Plaintext, b: &Plaintext) -> Diff {
    if a.parms_id() != b.parms_id() { return Some(("level_id".into(), format!("parms id {:?} vs {:?}", a.parms_id(), b.parms_id()))); }
    if a.coeff_count() != b.coeff_count() { return Some(("coeff_count".into(), format!("coeff_count {} vs restored {}", a.coeff_count(), b.coeff_count()))); }
    if a.scale().to_bits() != b.scale().to_bits() { return Some(("scale".into(), format!("scale bits {:#x} vs restored {:#x}", a.scale().to_bits(), b.scale().to_bits()))); }
    if a.data().len() != b.data().len() { return Some(("data_len".into(), format!("{} words vs restored {}", a.data().len(), b.data().len()))); }
    if let Some(i) = first_word_diff(a.data(), b.data()) { return Some(("words".into(), format!("word {}: {} vs restored {}", i, a.data()[i], b.data()[i]))); }
    None
}

fn diff_ct_meta(a: &Ciphertext, b: &Ciphertext) -> Diff {
    if a.size() != b.size() { return Some(("size".into(), format!("size {} vs restored {}", a.size(), b.size()))); }
    if a.coeff_modulus_size() != b.coeff_modulus_size() || a.poly_modulus_degree() != b.poly_modulus_degree() {
        return Some(("dimensions".into(), format!("k={} n={} vs restored k={} n={}", a.coeff_modulus_size(), a.poly_modulus_degree(), b.coeff_modulus_size(), b.poly_modulus_degree())));
    }
    if a.parms_id() != b.parms_id() { return Some(("level_id".into(), format!("parms id {:?} vs restored {:?}", a.parms_id(), b.parms_id()))); }
    if a.is_ntt_form() != b.is_ntt_form() { return Some(("representation".into(), format!("is_ntt_form {} vs restored {}", a.is_ntt_form(), b.is_ntt_form()))); }
    if a.scale().to_bits() != b.scale().to_bits() { return Some(("scale".into(), format!("scale {:e} ({:#x}) vs restored {:e} ({:#x})", a.scale(), a.scale().to_bits(), b.scale(), b.scale().to_bits()))); }
    if a.correction_factor() != b.correction_factor() { return Some(("correction_factor".into(), format!("correction factor {} vs restored {}", a.correction_factor(), b.correction_factor()))); }
    if a.data().len() != b.data().len() { return Some(("data_len".into(), format!("{} words vs restored {}", a.data().len(), b.data().len()))); }
    None
}

pub fn diff_ct(a: &Ciphertext, b: &Ciphertext) -> Diff {
    if let Some(d) = diff_ct_meta(a, b) { return Some(d); }
    if let Some(i) = first_word_diff(a.data(), b.data()) {
        let per = (a.poly_modulus_degree() * a.coeff_modulus_size()).max(1);
        let n = a.poly_modulus_degree().max(1);
        return Some(("words".into(), format!("poly {} component {} coefficient {}: {} vs restored {}", i / per, (i % per) / n, i % n, a.data()[i], b.data()[i])));
    }
    None
}

/// selected-terms comparison: polynomial 0 is compared in coefficient form (reference inverse transform
/// of the restored words), the rest word by word
fn diff_ct_terms(ctx: &HeContext, a: &Ciphertext, b: &Ciphertext) -> Diff {
    if let Some(d) = diff_ct_meta(a, b) { return Some(d); }
    if a.data() == b.data() { return None; }
    let per = a.poly_modulus_degree() * a.coeff_modulus_size();
    if a.size() > 1 { if let Some(i) = first_word_diff(&a.data()[per..], &b.data()[per..]) {
        let i = i + per; let n = a.poly_modulus_degree();
        return Some(("other_polys".into(), format!("poly {} component {} coefficient {}: {} vs restored {}", i / per, (i % per) / n, i % n, a.data()[i], b.data()[i])));
    } }
    let cd = ctx.get_context_data(a.parms_id()).expect("level");
    let qs: Vec<u64> = cd.parms().coeff_modulus().iter().map(|m| m.value()).collect();
    let tables = cd.small_ntt_tables();
    for (j, &q) in qs.iter().enumerate() {
        let (ca, cb) = (a.poly_component(0, j), b.poly_component(0, j));
        if ca == cb { continue; }
        if let Some(k) = cb.iter().position(|&x| x >= q) { return Some(("poly0_noncanonical".into(), format!("component {} word {} = {} >= modulus {}", j, k, cb[k], q))); }
        let (xa, xb) = if a.is_ntt_form() { (refm::intt_ref(ca, tables[j].root(), q), refm::intt_ref(cb, tables[j].root(), q)) } else { (ca.to_vec(), cb.to_vec()) };
        if let Some(k) = first_word_diff(&xa, &xb) { return Some(("poly0_terms".into(), format!("component {} coefficient {} (coefficient form): expected {} restored {}", j, k, xa[k], xb[k]))); }
    }
    Some(("poly0_words".into(), "words differ although the coefficient forms agree".into()))
}

fn diff_ksk(a: &KSwitchKeys, b: &KSwitchKeys) -> Diff {
    if a.parms_id() != b.parms_id() { return Some(("level_id".into(), "key parms id differs".into())); }
    if a.keys().len() != b.keys().len() { return Some(("key_slots".into(), format!("{} key slots vs restored {}", a.keys().len(), b.keys().len()))); }
    for (i, (x, y)) in a.keys().iter().zip(b.keys()).enumerate() {
        if x.len() != y.len() { return Some(("key_index".into(), format!("slot {} holds {} keys vs restored {}", i, x.len(), y.len()))); }
        for (j, (p, r)) in x.iter().zip(y).enumerate() {
            if let Some((f, d)) = diff_ct(p.as_ciphertext(), r.as_ciphertext()) { return Some((f, format!("slot {} key {}: {}", i, j, d))); }
        }
    }
    None
}

fn diff_p1(a: &Plain1d, b: &Plain1d) -> Diff {
    if a.data.len() != b.data.len() { return Some(("container_len".into(), format!("{} elements vs restored {}", a.data.len(), b.data.len()))); }
    for (i, (x, y)) in a.data.iter().zip(&b.data).enumerate() { if let Some((f, d)) = diff_plain(x, y) { return Some((f, format!("[{}]: {}", i, d))); } }
    None
}
fn diff_p2(a: &Plain2d, b: &Plain2d) -> Diff {
    if a.data.len() != b.data.len() { return Some(("container_len".into(), format!("{} rows vs restored {}", a.data.len(), b.data.len()))); }
    for (i, (x, y)) in a.data.iter().zip(&b.data).enumerate() { if let Some((f, d)) = diff_p1(x, y) { return Some((f, format!("[{}]{}", i, d))); } }
    None
}
fn diff_p3(a: &Plain3d, b: &Plain3d) -> Diff {
    if a.data.len() != b.data.len() { return Some(("container_len".into(), format!("{} planes vs restored {}", a.data.len(), b.data.len()))); }
    for (i, (x, y)) in a.data.iter().zip(&b.data).enumerate() { if let Some((f, d)) = diff_p2(x, y) { return Some((f, format!("[{}]{}", i, d))); } }
    None
}
fn diff_c1(a: &Cipher1d, b: &Cipher1d, f: &dyn Fn(&Ciphertext, &Ciphertext) -> Diff) -> Diff {
    if a.data.len() != b.data.len() { return Some(("container_len".into(), format!("{} elements vs restored {}", a.data.len(), b.data.len()))); }
    for (i, (x, y)) in a.data.iter().zip(&b.data).enumerate() { if let Some((k, d)) = f(x, y) { return Some((k, format!("[{}]: {}", i, d))); } }
    None
}
fn diff_c2(a: &Cipher2d, b: &Cipher2d, f: &dyn Fn(&Ciphertext, &Ciphertext) -> Diff) -> Diff {
    if a.data.len() != b.data.len() { return Some(("container_len".into(), format!("{} rows vs restored {}", a.data.len(), b.data.len()))); }
    for (i, (x, y)) in a.data.iter().zip(&b.data).enumerate() { if let Some((k, d)) = diff_c1(x, y, f) { return Some((k, format!("[{}]{}", i, d))); } }
    None
}
fn diff_c3(a: &Cipher3d, b: &Cipher3d, f: &dyn Fn(&Ciphertext, &Ciphertext) -> Diff) -> Diff {
    if a.data.len() != b.data.len() { return Some(("container_len".into(), format!("{} planes vs restored {}", a.data.len(), b.data.len()))); }
    for (i, (x, y)) in a.data.iter().zip(&b.data).enumerate() { if let Some((k, d)) = diff_c2(x, y, f) { return Some((k, format!("[{}]{}", i, d))); } }
    None
}
fn diff_parms(a: &EncryptionParameters, b: &EncryptionParameters) -> Diff {
    if a.scheme() != b.scheme() { return Some(("scheme".into(), format!("{:?} vs restored {:?}", a.scheme(), b.scheme()))); }
    if a.poly_modulus_degree() != b.poly_modulus_degree() { return Some(("degree".into(), format!("{} vs restored {}", a.poly_modulus_degree(), b.poly_modulus_degree()))); }
    let (qa, qb): (Vec<u64>, Vec<u64>) = (a.coeff_modulus().iter().map(|m| m.value()).collect(), b.coeff_modulus().iter().map(|m| m.value()).collect());
    if qa != qb { return Some(("coeff_modulus".into(), format!("{:?} vs restored {:?}", qa, qb))); }
    if a.plain_modulus().value() != b.plain_modulus().value() { return Some(("plain_modulus".into(), format!("{} vs restored {}", a.plain_modulus().value(), b.plain_modulus().value()))); }
    if a.use_special_prime_for_encryption() != b.use_special_prime_for_encryption() { return Some(("special_prime_flag".into(), "flag differs".into())); }
    if a.parms_id() != b.parms_id() { return Some(("parms_id".into(), format!("{:?} vs restored {:?}", a.parms_id(), b.parms_id()))); }
    None
}

fn ct_attrs(ctx: &HeContext, c: &Ciphertext) -> String {
    let lvl = ctx.get_context_data(c.parms_id()).map(|d| d.chain_index() as i64).unwrap_or(-1);
    format!("size{}|chain{}|{}|{}", c.size(), lvl, if c.is_ntt_form() { "ntt" } else { "coef" }, if c.contains_seed() { "seeded" } else { "expanded" })
}
fn c1_seeded(c: &Cipher1d) -> bool { c.data.iter().any(|x| x.contains_seed()) }

impl Obj {
    pub fn type_name(&self) -> String {
        match self {
            Obj::Parms(_) => "EncryptionParameters".into(), Obj::Modulus(_) => "Modulus".into(), Obj::Plain(_) => "Plaintext".into(),
            Obj::Ct(_, f) => format!("Ciphertext/{}", f.name()), Obj::VecCt(_) => "Vec<Ciphertext>".into(),
            Obj::Sk(_) => "SecretKey".into(), Obj::Pk(_) => "PublicKey".into(), Obj::Relin(_) => "RelinKeys".into(),
            Obj::Galois(_) => "GaloisKeys".into(), Obj::KSwitch(_) => "KSwitchKeys".into(),
            Obj::P1(_) => "Plain1d".into(), Obj::P2(_) => "Plain2d".into(), Obj::P3(_) => "Plain3d".into(),
            Obj::C1(_, f) => format!("Cipher1d/{}", f.name()), Obj::C2(_, f) => format!("Cipher2d/{}", f.name()), Obj::C3(_, f) => format!("Cipher3d/{}", f.name()),
            Obj::Poly(_, _) => "PolynomialSerializer".into(),
            Obj::RCt(_, f) => format!("RnspCiphertext/{}", f.name()), Obj::RVecCt(_) => "Vec<RnspCiphertext>".into(),
            Obj::RPk(_) => "RnspPublicKey".into(), Obj::RRelin(_) => "RnspRelinKeys".into(), Obj::RGalois(_) => "RnspGaloisKeys".into(),
        }
    }
    /// does the object (or an element of it) carry a seed?
    pub fn seeded(&self) -> bool {
        match self {
            Obj::Ct(c, _) => c.contains_seed(), Obj::VecCt(v) => v.iter().any(|c| c.contains_seed()),
            Obj::Pk(k) => k.contains_seed(),
            Obj::Relin(k) => k.as_kswitch_keys().keys().iter().flatten().any(|p| p.contains_seed()),
            Obj::Galois(k) => k.as_kswitch_keys().keys().iter().flatten().any(|p| p.contains_seed()),
            Obj::KSwitch(k) => k.keys().iter().flatten().any(|p| p.contains_seed()),
            Obj::C1(c, _) => c1_seeded(c), Obj::C2(c, _) => c.data.iter().any(c1_seeded), Obj::C3(c, _) => c.data.iter().any(|x| x.data.iter().any(c1_seeded)),
            Obj::RCt(c, _) => c.components.iter().any(|x| x.contains_seed()),
            Obj::RVecCt(v) => v.iter().any(|c| c.components.iter().any(|x| x.contains_seed())),
            Obj::RPk(k) => k.components.iter().any(|x| x.contains_seed()),
            Obj::RRelin(k) => k.components.iter().any(|r| r.as_kswitch_keys().keys().iter().flatten().any(|p| p.contains_seed())),
            Obj::RGalois(k) => k.components.iter().any(|r| r.as_kswitch_keys().keys().iter().flatten().any(|p| p.contains_seed())),
            _ => false,
        }
    }
    /// finer structural attributes (coverage only)
    pub fn attrs(&self, env: &Env) -> String {
        match self {
            Obj::Ct(c, Fmt::Terms(t)) => format!("{}|terms{}", ct_attrs(&env.ctx, c), if t.is_empty() { "0".into() } else if t.len() == c.poly_modulus_degree() { "N".to_string() } else if t.len() == 1 { "1".into() } else { "k".into() }),
            Obj::Ct(c, _) => ct_attrs(&env.ctx, c),
            Obj::Plain(p) => format!("{}|len{}", if p.is_ntt_form() { "ntt" } else { "coef" }, if p.data().is_empty() { "0" } else if p.data().len() == 1 { "1" } else { "k" }),
            Obj::Galois(k) => { let ks = k.as_kswitch_keys(); format!("slots{}|present{}|{}", ks.keys().len(), ks.len().min(3), if self.seeded() { "seeded" } else { "expanded" }) }
            Obj::C1(c, _) => format!("len{}|{}", c.data.len().min(3), if self.seeded() { "seeded" } else { "expanded" }),
            Obj::C2(c, _) => format!("len{}|{}", c.data.len().min(3), if self.seeded() { "seeded" } else { "expanded" }),
            Obj::C3(c, _) => format!("len{}|{}", c.data.len().min(3), if self.seeded() { "seeded" } else { "expanded" }),
            Obj::P1(c) => format!("len{}", c.data.len().min(3)), Obj::P2(c) => format!("len{}", c.data.len().min(3)), Obj::P3(c) => format!("len{}", c.data.len().min(3)),
            Obj::Poly(_, id) => (if *id == PARMS_ID_ZERO { "plain_modulus" } else { "coeff_modulus" }).to_string(),
            _ => (if self.seeded() { "seeded" } else { "expanded" }).to_string(),
        }
    }

    pub fn write(&self, env: &Env, w: &mut dyn Write) -> std::io::Result<usize> {
        let mut w = w;
        let s = &mut w;
        let ctx: &HeContext = &env.ctx;
        match self {
            Obj::Parms(x) => Serializable::serialize(x, s),
            Obj::Modulus(x) => Serializable::serialize(x, s),
            Obj::Plain(x) => Serializable::serialize(x, s),
            Obj::Ct(x, Fmt::Compact) => SerializableWithHeContext::serialize(x, ctx, s),
            Obj::Ct(x, Fmt::Full) => x.serialize_full(ctx, s),
            Obj::Ct(x, Fmt::Terms(t)) => x.serialize_terms(ctx, t, s),
            Obj::VecCt(x) => SerializableWithHeContext::serialize(x, ctx, s),
            Obj::Sk(x) => Serializable::serialize(x, s),
            Obj::Pk(x) => SerializableWithHeContext::serialize(x, ctx, s),
            Obj::Relin(x) => SerializableWithHeContext::serialize(x, ctx, s),
            Obj::Galois(x) => SerializableWithHeContext::serialize(x, ctx, s),
            Obj::KSwitch(x) => SerializableWithHeContext::serialize(x, ctx, s),
            Obj::P1(x) => Serializable::serialize(x, s),
            Obj::P2(x) => Serializable::serialize(x, s),
            Obj::P3(x) => Serializable::serialize(x, s),
            Obj::C1(x, Fmt::Terms(t)) => x.serialize_terms(ctx, t, s),
            Obj::C1(x, _) => SerializableWithHeContext::serialize(x, ctx, s),
            Obj::C2(x, Fmt::Terms(t)) => x.serialize_terms(ctx, t, s),
            Obj::C2(x, _) => SerializableWithHeContext::serialize(x, ctx, s),
            Obj::C3(x, Fmt::Terms(t)) => x.serialize_terms(ctx, t, s),
            Obj::C3(x, _) => SerializableWithHeContext::serialize(x, ctx, s),
            Obj::Poly(d, id) => PolynomialSerializer::serialize_polynomial(ctx, s, d, *id),
            Obj::RCt(x, Fmt::Compact) => RnspSerializableWithHeContext::serialize(x, env.rnsp.as_ref().expect("rnsp env"), s),
            Obj::RCt(x, Fmt::Full) => x.serialize_full(env.rnsp.as_ref().expect("rnsp env"), s),
            Obj::RCt(x, Fmt::Terms(t)) => x.serialize_terms(env.rnsp.as_ref().expect("rnsp env"), t, s),
            Obj::RVecCt(x) => RnspSerializableWithHeContext::serialize(x, env.rnsp.as_ref().expect("rnsp env"), s),
            Obj::RPk(x) => RnspSerializableWithHeContext::serialize(x, env.rnsp.as_ref().expect("rnsp env"), s),
            Obj::RRelin(x) => RnspSerializableWithHeContext::serialize(x, env.rnsp.as_ref().expect("rnsp env"), s),
            Obj::RGalois(x) => RnspSerializableWithHeContext::serialize(x, env.rnsp.as_ref().expect("rnsp env"), s),
        }
    }

    /// the size the library announces for this object/format
    pub fn announced(&self, env: &Env) -> usize {
        let ctx: &HeContext = &env.ctx;
        match self {
            Obj::Parms(x) => Serializable::serialized_size(x),
            Obj::Modulus(x) => Serializable::serialized_size(x),
            Obj::Plain(x) => Serializable::serialized_size(x),
            Obj::Ct(x, Fmt::Compact) => SerializableWithHeContext::serialized_size(x, ctx),
            Obj::Ct(x, Fmt::Full) => x.serialized_full_size(ctx),
            Obj::Ct(x, Fmt::Terms(t)) => x.serialized_terms_size(ctx, t.len()),
            Obj::VecCt(x) => SerializableWithHeContext::serialized_size(x, ctx),
            Obj::Sk(x) => Serializable::serialized_size(x),
            Obj::Pk(x) => SerializableWithHeContext::serialized_size(x, ctx),
            Obj::Relin(x) => SerializableWithHeContext::serialized_size(x, ctx),
            Obj::Galois(x) => SerializableWithHeContext::serialized_size(x, ctx),
            Obj::KSwitch(x) => SerializableWithHeContext::serialized_size(x, ctx),
            Obj::P1(x) => Serializable::serialized_size(x),
            Obj::P2(x) => Serializable::serialized_size(x),
            Obj::P3(x) => Serializable::serialized_size(x),
            Obj::C1(x, Fmt::Terms(t)) => x.serialized_terms_size(ctx, t.len()),
            Obj::C1(x, _) => SerializableWithHeContext::serialized_size(x, ctx),
            Obj::C2(x, Fmt::Terms(t)) => x.serialized_terms_size(ctx, t.len()),
            Obj::C2(x, _) => SerializableWithHeContext::serialized_size(x, ctx),
            Obj::C3(x, Fmt::Terms(t)) => x.serialized_terms_size(ctx, t.len()),
            Obj::C3(x, _) => SerializableWithHeContext::serialized_size(x, ctx),
            Obj::Poly(_, id) => (PolynomialSerializer {}).serialized_polynomial_size(ctx, *id),
            Obj::RCt(x, Fmt::Compact) => RnspSerializableWithHeContext::serialized_size(x, env.rnsp.as_ref().expect("rnsp env")),
            Obj::RCt(x, Fmt::Full) => x.serialized_full_size(env.rnsp.as_ref().expect("rnsp env")),
            Obj::RCt(x, Fmt::Terms(t)) => x.serialized_terms_size(env.rnsp.as_ref().expect("rnsp env"), t.len()),
            Obj::RVecCt(x) => RnspSerializableWithHeContext::serialized_size(x, env.rnsp.as_ref().expect("rnsp env")),
            Obj::RPk(x) => RnspSerializableWithHeContext::serialized_size(x, env.rnsp.as_ref().expect("rnsp env")),
            Obj::RRelin(x) => RnspSerializableWithHeContext::serialized_size(x, env.rnsp.as_ref().expect("rnsp env")),
            Obj::RGalois(x) => RnspSerializableWithHeContext::serialized_size(x, env.rnsp.as_ref().expect("rnsp env")),
        }
    }

    /// deserialize an object of the same type/format as `self` from `r`
    pub fn read_like(&self, env: &Env, r: &mut dyn Read) -> std::io::Result<Obj> {
        let mut r = r;
        let s = &mut r;
        let ctx: &HeContext = &env.ctx;
        Ok(match self {
            Obj::Parms(_) => Obj::Parms(<EncryptionParameters as Serializable>::deserialize(s)?),
            Obj::Modulus(_) => Obj::Modulus(<Modulus as Serializable>::deserialize(s)?),
            Obj::Plain(_) => Obj::Plain(<Plaintext as Serializable>::deserialize(s)?),
            Obj::Ct(_, Fmt::Compact) => Obj::Ct(<Ciphertext as SerializableWithHeContext>::deserialize(ctx, s)?, Fmt::Compact),
            Obj::Ct(_, Fmt::Full) => Obj::Ct(Ciphertext::deserialize_full(ctx, s)?, Fmt::Full),
            Obj::Ct(_, Fmt::Terms(t)) => Obj::Ct(Ciphertext::deserialize_terms(ctx, t, s)?, Fmt::Terms(t.clone())),
            Obj::VecCt(_) => Obj::VecCt(<Vec<Ciphertext> as SerializableWithHeContext>::deserialize(ctx, s)?),
            Obj::Sk(_) => Obj::Sk(<SecretKey as Serializable>::deserialize(s)?),
            Obj::Pk(_) => Obj::Pk(<PublicKey as SerializableWithHeContext>::deserialize(ctx, s)?),
            Obj::Relin(_) => Obj::Relin(<RelinKeys as SerializableWithHeContext>::deserialize(ctx, s)?),
            Obj::Galois(_) => Obj::Galois(<GaloisKeys as SerializableWithHeContext>::deserialize(ctx, s)?),
            Obj::KSwitch(_) => Obj::KSwitch(<KSwitchKeys as SerializableWithHeContext>::deserialize(ctx, s)?),
            Obj::P1(_) => Obj::P1(<Plain1d as Serializable>::deserialize(s)?),
            Obj::P2(_) => Obj::P2(<Plain2d as Serializable>::deserialize(s)?),
            Obj::P3(_) => Obj::P3(<Plain3d as Serializable>::deserialize(s)?),
            Obj::C1(_, Fmt::Terms(t)) => Obj::C1(Cipher1d::deserialize_terms(ctx, t, s)?, Fmt::Terms(t.clone())),
            Obj::C1(_, f) => Obj::C1(<Cipher1d as SerializableWithHeContext>::deserialize(ctx, s)?, f.clone()),
            Obj::C2(_, Fmt::Terms(t)) => Obj::C2(Cipher2d::deserialize_terms(ctx, t, s)?, Fmt::Terms(t.clone())),
            Obj::C2(_, f) => Obj::C2(<Cipher2d as SerializableWithHeContext>::deserialize(ctx, s)?, f.clone()),
            Obj::C3(_, Fmt::Terms(t)) => Obj::C3(Cipher3d::deserialize_terms(ctx, t, s)?, Fmt::Terms(t.clone())),
            Obj::C3(_, f) => Obj::C3(<Cipher3d as SerializableWithHeContext>::deserialize(ctx, s)?, f.clone()),
            Obj::Poly(_, id) => Obj::Poly(PolynomialSerializer::deserialize_polynomial(ctx, s)?, *id),
            Obj::RCt(_, Fmt::Compact) => Obj::RCt(<RnspCiphertext as RnspSerializableWithHeContext>::deserialize(env.rnsp.as_ref().expect("rnsp env"), s)?, Fmt::Compact),
            Obj::RCt(_, Fmt::Full) => Obj::RCt(RnspCiphertext::deserialize_full(env.rnsp.as_ref().expect("rnsp env"), s)?, Fmt::Full),
            Obj::RCt(_, Fmt::Terms(t)) => Obj::RCt(RnspCiphertext::deserialize_terms(env.rnsp.as_ref().expect("rnsp env"), t, s)?, Fmt::Terms(t.clone())),
            Obj::RVecCt(_) => Obj::RVecCt(<Vec<RnspCiphertext> as RnspSerializableWithHeContext>::deserialize(env.rnsp.as_ref().expect("rnsp env"), s)?),
            Obj::RPk(_) => Obj::RPk(<RnspPublicKey as RnspSerializableWithHeContext>::deserialize(env.rnsp.as_ref().expect("rnsp env"), s)?),
            Obj::RRelin(_) => Obj::RRelin(<RnspRelinKeys as RnspSerializableWithHeContext>::deserialize(env.rnsp.as_ref().expect("rnsp env"), s)?),
            Obj::RGalois(_) => Obj::RGalois(<RnspGaloisKeys as RnspSerializableWithHeContext>::deserialize(env.rnsp.as_ref().expect("rnsp env"), s)?),
        })
    }

    /// what a correct deserializer must return: the object itself, seeds expanded, and for the
    /// selected-terms format polynomial 0 masked to the selected coefficients
    pub fn expected(&self, env: &Env) -> Obj {
        let ctx: &HeContext = &env.ctx;
        let full = |c: &Ciphertext| expand_ct(ctx, c);
        match self {
            Obj::Ct(c, Fmt::Terms(t)) => Obj::Ct(terms_reference(ctx, &expand_ct(ctx, c), t), Fmt::Terms(t.clone())),
            Obj::Ct(c, f) => Obj::Ct(expand_ct(ctx, c), f.clone()),
            Obj::VecCt(v) => Obj::VecCt(v.iter().map(|c| expand_ct(ctx, c)).collect()),
            Obj::Pk(k) => Obj::Pk(expand_pk(ctx, k)),
            Obj::Relin(k) => Obj::Relin(RelinKeys::new(expand_ksk(ctx, k.as_kswitch_keys()))),
            Obj::Galois(k) => Obj::Galois(GaloisKeys::new(expand_ksk(ctx, k.as_kswitch_keys()))),
            Obj::KSwitch(k) => Obj::KSwitch(expand_ksk(ctx, k)),
            Obj::C1(c, Fmt::Terms(t)) => { let f = |x: &Ciphertext| terms_reference(ctx, &expand_ct(ctx, x), t); Obj::C1(map_c1(c, &f), Fmt::Terms(t.clone())) }
            Obj::C2(c, Fmt::Terms(t)) => { let f = |x: &Ciphertext| terms_reference(ctx, &expand_ct(ctx, x), t); Obj::C2(map_c2(c, &f), Fmt::Terms(t.clone())) }
            Obj::C3(c, Fmt::Terms(t)) => { let f = |x: &Ciphertext| terms_reference(ctx, &expand_ct(ctx, x), t); Obj::C3(map_c3(c, &f), Fmt::Terms(t.clone())) }
            Obj::C1(c, f) => Obj::C1(map_c1(c, &full), f.clone()),
            Obj::C2(c, f) => Obj::C2(map_c2(c, &full), f.clone()),
            Obj::C3(c, f) => Obj::C3(map_c3(c, &full), f.clone()),
            Obj::Poly(d, id) => {
                let mut d = d.clone();
                if *id == PARMS_ID_ZERO { d.resize(ctx.first_context_data().unwrap().parms().poly_modulus_degree(), 0); }
                Obj::Poly(d, *id)
            }
            Obj::RCt(c, f) => {
                let rn = env.rnsp.as_ref().expect("rnsp env");
                let comps = c.components.iter().zip(&rn.components).map(|(x, cx)| match f { Fmt::Terms(t) => terms_reference(cx, &expand_ct(cx, x), t), _ => expand_ct(cx, x) }).collect();
                Obj::RCt(RnspCiphertext::from_raw_parts(comps), f.clone())
            }
            Obj::RVecCt(v) => {
                let rn = env.rnsp.as_ref().expect("rnsp env");
                Obj::RVecCt(v.iter().map(|c| RnspCiphertext::from_raw_parts(c.components.iter().zip(&rn.components).map(|(x, cx)| expand_ct(cx, x)).collect())).collect())
            }
            Obj::RPk(k) => { let rn = env.rnsp.as_ref().expect("rnsp env"); Obj::RPk(RnspPublicKey::from_raw_parts(k.components.iter().zip(&rn.components).map(|(x, cx)| expand_pk(cx, x)).collect())) }
            Obj::RRelin(k) => { let rn = env.rnsp.as_ref().expect("rnsp env"); Obj::RRelin(RnspRelinKeys::from_raw_parts(k.components.iter().zip(&rn.components).map(|(x, cx)| RelinKeys::new(expand_ksk(cx, x.as_kswitch_keys()))).collect())) }
            Obj::RGalois(k) => { let rn = env.rnsp.as_ref().expect("rnsp env"); Obj::RGalois(RnspGaloisKeys::from_raw_parts(k.components.iter().zip(&rn.components).map(|(x, cx)| GaloisKeys::new(expand_ksk(cx, x.as_kswitch_keys()))).collect())) }
            other => other.clone(),
        }
    }

    /// field-by-field comparison; `self` is the expected object, `got` the restored one
    pub fn diff(&self, got: &Obj, env: &Env) -> Option<(String, String)> {
        let ctx: &HeContext = &env.ctx;
        let plain_ct = |a: &Ciphertext, b: &Ciphertext| diff_ct(a, b);
        let terms_ct = |a: &Ciphertext, b: &Ciphertext| diff_ct_terms(ctx, a, b);
        match (self, got) {
            (Obj::Parms(a), Obj::Parms(b)) => diff_parms(a, b),
            (Obj::Modulus(a), Obj::Modulus(b)) => if a.value() != b.value() || a.bit_count() != b.bit_count() || a.const_ratio() != b.const_ratio() || a.is_prime() != b.is_prime() { Some(("modulus".into(), format!("{:?} vs restored {:?}", a, b))) } else { None },
            (Obj::Plain(a), Obj::Plain(b)) => diff_plain(a, b),
            (Obj::Ct(a, Fmt::Terms(_)), Obj::Ct(b, _)) => diff_ct_terms(ctx, a, b),
            (Obj::Ct(a, _), Obj::Ct(b, _)) => diff_ct(a, b),
            (Obj::VecCt(a), Obj::VecCt(b)) => diff_c1(&Cipher1d::new(a.clone()), &Cipher1d::new(b.clone()), &plain_ct),
            (Obj::Sk(a), Obj::Sk(b)) => diff_plain(a.as_plaintext(), b.as_plaintext()),
            (Obj::Pk(a), Obj::Pk(b)) => diff_ct(a.as_ciphertext(), b.as_ciphertext()),
            (Obj::Relin(a), Obj::Relin(b)) => diff_ksk(a.as_kswitch_keys(), b.as_kswitch_keys()),
            (Obj::Galois(a), Obj::Galois(b)) => diff_ksk(a.as_kswitch_keys(), b.as_kswitch_keys()),
            (Obj::KSwitch(a), Obj::KSwitch(b)) => diff_ksk(a, b),
            (Obj::P1(a), Obj::P1(b)) => diff_p1(a, b),
            (Obj::P2(a), Obj::P2(b)) => diff_p2(a, b),
            (Obj::P3(a), Obj::P3(b)) => diff_p3(a, b),
            (Obj::C1(a, Fmt::Terms(_)), Obj::C1(b, _)) => diff_c1(a, b, &terms_ct),
            (Obj::C2(a, Fmt::Terms(_)), Obj::C2(b, _)) => diff_c2(a, b, &terms_ct),
            (Obj::C3(a, Fmt::Terms(_)), Obj::C3(b, _)) => diff_c3(a, b, &terms_ct),
            (Obj::C1(a, _), Obj::C1(b, _)) => diff_c1(a, b, &plain_ct),
            (Obj::C2(a, _), Obj::C2(b, _)) => diff_c2(a, b, &plain_ct),
            (Obj::C3(a, _), Obj::C3(b, _)) => diff_c3(a, b, &plain_ct),
            (Obj::Poly(a, _), Obj::Poly(b, _)) => {
                if a.len() != b.len() { return Some(("data_len".into(), format!("{} words vs restored {}", a.len(), b.len()))); }
                first_word_diff(a, b).map(|i| ("words".to_string(), format!("word {}: {} vs restored {}", i, a[i], b[i])))
            }
            (Obj::RCt(a, f), Obj::RCt(b, _)) => {
                let rn = env.rnsp.as_ref().expect("rnsp env");
                if a.components.len() != b.components.len() { return Some(("components".into(), format!("{} vs restored {}", a.components.len(), b.components.len()))); }
                for (i, ((x, y), cx)) in a.components.iter().zip(&b.components).zip(&rn.components).enumerate() {
                    let d = if let Fmt::Terms(_) = f { diff_ct_terms(cx, x, y) } else { diff_ct(x, y) };
                    if let Some((k, d)) = d { return Some((k, format!("component {}: {}", i, d))); }
                }
                None
            }
            (Obj::RVecCt(a), Obj::RVecCt(b)) => {
                if a.len() != b.len() { return Some(("container_len".into(), format!("{} vs restored {}", a.len(), b.len()))); }
                for (i, (x, y)) in a.iter().zip(b).enumerate() {
                    if x.components.len() != y.components.len() { return Some(("components".into(), format!("[{}]: {} vs restored {}", i, x.components.len(), y.components.len()))); }
                    for (j, (p, q)) in x.components.iter().zip(&y.components).enumerate() { if let Some((k, d)) = diff_ct(p, q) { return Some((k, format!("[{}] component {}: {}", i, j, d))); } }
                }
                None
            }
            (Obj::RPk(a), Obj::RPk(b)) => {
                if a.components.len() != b.components.len() { return Some(("components".into(), "count".into())); }
                for (i, (x, y)) in a.components.iter().zip(&b.components).enumerate() { if let Some((k, d)) = diff_ct(x.as_ciphertext(), y.as_ciphertext()) { return Some((k, format!("component {}: {}", i, d))); } }
                None
            }
            (Obj::RRelin(a), Obj::RRelin(b)) => {
                if a.components.len() != b.components.len() { return Some(("components".into(), "count".into())); }
                for (i, (x, y)) in a.components.iter().zip(&b.components).enumerate() { if let Some((k, d)) = diff_ksk(x.as_kswitch_keys(), y.as_kswitch_keys()) { return Some((k, format!("component {}: {}", i, d))); } }
                None
            }
            (Obj::RGalois(a), Obj::RGalois(b)) => {
                if a.components.len() != b.components.len() { return Some(("components".into(), "count".into())); }
                for (i, (x, y)) in a.components.iter().zip(&b.components).enumerate() { if let Some((k, d)) = diff_ksk(x.as_kswitch_keys(), y.as_kswitch_keys()) { return Some((k, format!("component {}: {}", i, d))); } }
                None
            }
            _ => Some(("type".into(), "restored object has a different type".into())),
        }
    }
}

// ------------------------------------------------------------------ parameter sets
pub fn byte_width(q: u64) -> usize { (refm::bit_len(q) + 7) / 8 }

const EDGE_BITS: [u32; 17] = [8, 9, 16, 17, 24, 25, 32, 33, 40, 41, 48, 49, 56, 57, 58, 59, 60];
const T_BITS: [u32; 22] = [2, 3, 4, 7, 8, 9, 15, 16, 17, 23, 24, 25, 31, 32, 33, 40, 41, 48, 49, 56, 57, 60];

/// parameter set with primes on and around the byte-width boundaries; `kmax` = largest chain length
pub fn gen_spec(rng: &mut Rng, ns: &[usize], kmax: usize, t_bits_max: u32) -> Option<Spec> {
    let scheme = *rng.pick(&[SchemeType::BFV, SchemeType::BGV, SchemeType::CKKS]);
    let n = *rng.pick(ns);
    let logm = (2 * n).trailing_zeros();
    let minb = logm + 2; // smallest size that reliably holds a prime = 1 mod 2n
    let k = rng.range(1, kmax as u64) as usize;
    let fam = rng.below(5);
    let edge = |rng: &mut Rng| (*rng.pick(&EDGE_BITS)).max(minb);
    let bits: Vec<u32> = match fam {
        0 => (0..k).map(|_| edge(rng)).collect(),
        1 => (0..k).map(|_| rng.range(minb as u64, 60) as u32).collect(),
        2 => { let b = edge(rng).max(minb + 3); vec![b; k] }
        3 => { // one prime per distinct byte width, random order
            let mut ws: Vec<u32> = (1..=8).collect(); rng.shuffle(&mut ws); ws.truncate(k);
            ws.iter().map(|&w| { let hi = (8 * w).min(60); let lo = (8 * (w - 1) + 1).max(minb); if lo > hi { minb } else { rng.range(lo as u64, hi as u64) as u32 } }).collect()
        }
        _ => (0..k).map(|i| if i % 2 == 0 { minb + rng.below(3) as u32 } else { 60 - rng.below(3) as u32 }).collect(),
    };
    let fam_name = ["edges", "any", "uniform", "one_per_width", "extremes"][fam as usize];
    let qs = coeff_primes(n, &bits, rng)?;
    let t = if scheme == SchemeType::CKKS { 0 } else {
        let data_bits: u32 = if k > 1 { bits[..k - 1].iter().sum() } else { bits[0] };
        let cap = data_bits.saturating_sub(1).min(t_bits_max).max(2);
        let cands: Vec<u32> = T_BITS.iter().copied().filter(|&b| b <= cap).collect();
        let tb = *rng.pick(&cands);
        let coprime = |c: u64| c >= 2 && qs.iter().all(|&q| refm::gcd(q, c) == 1);
        let mut c = match rng.below(4) {
            0 if tb >= minb => ntt_primes(n, tb, 6, 0).into_iter().find(|c| !qs.contains(c)).unwrap_or(1u64 << (tb - 1)),
            1 => 1u64 << (tb - 1),
            2 => (1u64 << tb) - 1,
            _ => rng.bits(tb) | (1u64 << (tb - 1)),
        };
        if c < 2 { c = 2; }
        let mut guard = 0;
        while !coprime(c) { c = if c > 3 { c - 1 } else { c + 1 }; guard += 1; if guard > 64 { return None; } }
        c
    };
    let special_flag = rng.chance(1, 6);
    let expand = rng.chance(5, 6);
    Some(Spec { scheme, n, qs, t, special_flag, expand, family: fam_name.to_string() })
}

// ------------------------------------------------------------------ the object zoo
pub struct Item { pub label: String, pub obj: Obj, /// degenerate objects that are executed but not asserted
    pub out_of_domain: bool }

pub struct ZooOpts { pub max_size: usize, pub light: bool, pub rnsp: bool, pub terms_ntt_max_n: usize }

#[derive(Default)]
pub struct Interop {
    pub plain: Option<(Plaintext, Vec<u64>)>,
    pub seeded_ct: Option<Ciphertext>,
    pub fresh: Vec<Ciphertext>,
    pub pk_seeded: Option<PublicKey>,
    pub relin_seeded: Option<RelinKeys>,
    pub galois_seeded: Option<(GaloisKeys, Vec<usize>)>,
    pub other_keygen: Option<KeyGenerator>,
    pub ksk_seeded: Option<KSwitchKeys>,
}

pub struct Zoo { pub kit: Kit, pub kit_b: Option<Kit>, pub env: Env, pub items: Vec<Item>, pub interop: Interop, pub skips: Vec<(String, String)> }

struct Builder<'a> { skips: &'a mut Vec<(String, String)> }
impl<'a> Builder<'a> {
    fn t<T>(&mut self, what: &str, f: impl FnOnce() -> T) -> Option<T> {
        match lib(f) { Ok(v) => Some(v), Err(p) => { self.skips.push((what.to_string(), p.0)); None } }
    }
}

pub fn gen_terms(rng: &mut Rng, n: usize) -> (&'static str, Vec<usize>) {
    match rng.below(7) {
        0 => ("empty", vec![]),
        1 => ("single", vec![rng.usize_below(n)]),
        2 => ("all", (0..n).collect()),
        3 => ("all_reversed", (0..n).rev().collect()),
        4 => { // the index pattern of the matmul helpers' output_terms(): i*ib*ob + j*ib + ib-1
            let logn = n.trailing_zeros() as u64;
            let a = rng.range(0, logn); let b = rng.range(0, logn - a); let c = rng.range(0, logn - a - b);
            let (ib, ob, bb) = (1usize << a, 1usize << b, 1usize << c);
            let mut v = vec![]; for i in 0..bb { for j in 0..ob { v.push(i * ib * ob + j * ib + ib - 1); } }
            ("helper_pattern", v)
        }
        5 => ("last", vec![n - 1]),
        _ => { let mut all: Vec<usize> = (0..n).collect(); rng.shuffle(&mut all); all.truncate(rng.range(1, n as u64) as usize); ("random_subset", all) }
    }
}

fn weird_scale(rng: &mut Rng) -> f64 {
    match rng.below(6) {
        0 => 1.5e-7, 1 => (1u64 << 59) as f64 + 1024.0, 2 => f64::MIN_POSITIVE, 3 => 1e300,
        4 => 3.0f64.powi(rng.range(1, 30) as i32),
        _ => f64::from_bits((rng.range(900, 1200) << 52) | (rng.u64() & ((1u64 << 52) - 1))),
    }
}

fn synthetic_ct(kit: &Kit, rng: &mut Rng, level: usize, size: usize, ntt: bool) -> Ciphertext {
    let mut c = Ciphertext::new();
    c.resize(&kit.ctx, kit.levels[level].parms_id(), size);
    c.set_is_ntt_form(ntt);
    let qs = kit.level_qs(level);
    let n = kit.n();
    let mode = rng.below(4);
    for p in 0..size { for (j, &q) in qs.iter().enumerate() {
        let w = byte_width(q) as u32;
        for x in c.poly_component_mut(p, j).iter_mut() {
            *x = match mode {
                0 => q - 1,
                1 => rng.below(q),
                2 => match rng.below(6) { 0 => 0, 1 => 1, 2 => q - 1, 3 => ((1u64 << (8 * (w - 1))).wrapping_sub(1)) % q, 4 => (1u64 << (8 * (w - 1))) % q, _ => rng.below(q) },
                _ => if rng.bool() { q - 1 - rng.below(q.min(256)) } else { rng.below(q.min(256)) },
            };
        }
    } }
    let _ = n;
    match kit.spec.scheme {
        SchemeType::BGV => c.set_correction_factor(rng.range(1, kit.t() - 1)),
        SchemeType::CKKS => c.set_scale(weird_scale(rng)),
        _ => {}
    }
    c
}

fn log2q(kit: &Kit, level: usize) -> f64 { kit.level_qs(level).iter().map(|&q| (q as f64).log2()).sum() }

fn ckks_plain_at(kit: &Kit, rng: &mut Rng, level: usize, scale_bits_cap: f64) -> Option<Plaintext> {
    let enc = kit.ckks.as_ref()?;
    let n = kit.n();
    let room = (log2q(kit, level) - (n as f64).log2() - 4.0).min(scale_bits_cap).floor();
    if room < 0.0 { return None; }
    let s = if room < 1.0 { 0 } else { rng.range(0, room as u64) as i32 };
    let scale = 2f64.powi(s) * if s > 4 && rng.bool() { 1.0 + rng.f64() / 4.0 } else { 1.0 };
    let cnt = rng.range(1, (n / 2) as u64) as usize;
    let vals: Vec<C64> = (0..cnt).map(|_| C64::new(rng.f64() * 2.0 - 1.0, rng.f64() * 2.0 - 1.0)).collect();
    let id = *kit.levels[level].parms_id();
    lib(|| enc.encode_c64_array_new(&vals, Some(id), scale)).ok()
}

/// plaintexts and ciphertexts of one kit: (plaintexts with labels, ciphertexts with labels)
fn pools(kit: &Kit, rng: &mut Rng, opts: &ZooOpts, b: &mut Builder, interop: Option<&mut Interop>) -> (Vec<(String, Plaintext)>, Vec<(String, Ciphertext)>) {
    let scheme = kit.spec.scheme;
    let (n, nl) = (kit.n(), kit.levels.len());
    let mut plains: Vec<(String, Plaintext)> = vec![];
    let mut cts: Vec<(String, Ciphertext)> = vec![];
    let levels: Vec<usize> = if opts.light && nl > 2 { vec![0, nl - 1] } else { (0..nl).collect() };
    let mut io = Interop::default();
    let (mut fresh_a, mut fresh_b): (Option<Ciphertext>, Option<Ciphertext>) = (None, None);
    if scheme != SchemeType::CKKS {
        let t = kit.t();
        for _ in 0..if opts.light { 1 } else { 3 } { let (cls, co) = super::c01::gen_plain(rng, n, t); plains.push((format!("plain:{}", cls), kit.plain_from_coeffs(&co))); }
        let co: Vec<u64> = (0..n).map(|_| if rng.chance(1, 4) { t - 1 } else { rng.below(t) }).collect();
        let p0 = kit.plain_from_coeffs(&co);
        let co1: Vec<u64> = (0..rng.range(1, n as u64) as usize).map(|_| rng.below(t)).collect();
        let p1 = kit.plain_from_coeffs(&co1);
        plains.push(("plain:full".into(), p0.clone()));
        for &l in &levels { let id = *kit.levels[l].parms_id(); if let Some(p) = b.t("transform_plain_to_ntt", || kit.eval.transform_plain_to_ntt_new(&p0, &id)) { plains.push((format!("plain:ntt:L{}", l), p)); } }
        fresh_a = b.t("encrypt", || kit.enc.encrypt_new(&p0));
        fresh_b = b.t("encrypt", || kit.enc.encrypt_new(&p1));
        if let Some(c) = b.t("encrypt_symmetric", || { let mut c = Ciphertext::new(); kit.enc.encrypt_symmetric(&p0, &mut c); c }) { cts.push(("sym_unseeded".into(), c)); }
        if let Some(c) = b.t("encrypt_symmetric_new", || kit.enc.encrypt_symmetric_new(&p0)) { io.seeded_ct = Some(c.clone()); cts.push(("sym_seeded".into(), c)); }
        io.plain = Some((p0, co));
    } else {
        for &l in &levels {
            if let Some(p) = ckks_plain_at(kit, rng, l, 50.0) {
                plains.push((format!("plain:ckks:L{}", l), p.clone()));
                if let Some(c) = b.t("encrypt", || kit.enc.encrypt_new(&p)) { if l == 0 && fresh_a.is_none() { fresh_a = Some(c.clone()); } cts.push((format!("fresh_pk:L{}", l), c)); }
                if let Some(c) = b.t("encrypt_symmetric_new", || kit.enc.encrypt_symmetric_new(&p)) { if l == 0 { io.seeded_ct = Some(c.clone()); } cts.push((format!("sym_seeded:L{}", l), c)); }
                if !opts.light { if let Some(c) = b.t("encrypt_symmetric", || { let mut c = Ciphertext::new(); kit.enc.encrypt_symmetric(&p, &mut c); c }) { cts.push((format!("sym_unseeded:L{}", l), c)); } }
            }
        }
        // small-scale operands for the product chain (scale^16 must stay below the modulus)
        let cap = ((log2q(kit, 0) - 8.0) / 16.0).floor().max(0.0);
        if let Some(p) = ckks_plain_at(kit, rng, 0, cap) {
            let a = b.t("encrypt", || kit.enc.encrypt_new(&p)); let bb = b.t("encrypt", || kit.enc.encrypt_new(&p));
            if fresh_a.is_none() { fresh_a = a.clone(); }
            fresh_b = bb; if a.is_some() { io.fresh.push(a.clone().unwrap()); }
            if let (Some(a), Some(f)) = (a, fresh_b.clone()) {
                // product chain on the small-scale operands
                let target = if opts.light { rng.range(3, opts.max_size as u64) as usize } else { opts.max_size };
                let mut cur = a;
                for s in 3..=target {
                    match b.t("multiply", || kit.eval.multiply_new(&cur, &f)) { Some(c) => { cur = c; if !opts.light || s == 3 || s == target { cts.push((format!("product:size{}", s), cur.clone())); } } None => break }
                }
            }
        }
        if let Some(f) = &fresh_a {
            if nl > 1 {
                if let Some(c) = b.t("mod_switch_to_next", || kit.eval.mod_switch_to_next_new(f)) { cts.push(("mod_switched".into(), c)); }
                if let Some(c) = b.t("rescale_to_next", || kit.eval.rescale_to_next_new(f)) { cts.push(("rescaled".into(), c)); }
            }
            if let Some(c) = b.t("transform_from_ntt", || kit.eval.transform_from_ntt_new(f)) { cts.push(("other_rep".into(), c)); }
            let mut w = f.clone(); w.set_scale(weird_scale(rng)); cts.push(("weird_scale".into(), w));
        }
    }
    // zero encryptions at every level (public key and seeded symmetric)
    for &l in &levels {
        let id = *kit.levels[l].parms_id();
        if let Some(c) = b.t("encrypt_zero_at", || kit.enc.encrypt_zero_new_at(&id)) { cts.push((format!("zero_pk:L{}", l), c)); }
        if let Some(c) = b.t("encrypt_zero_symmetric_at", || kit.enc.encrypt_zero_symmetric_new_at(&id)) { cts.push((format!("zero_sym_seeded:L{}", l), c)); }
    }
    if scheme != SchemeType::CKKS {
        if let Some(f) = &fresh_a {
            cts.push(("fresh_pk".into(), f.clone()));
            for &l in &levels { if l == 0 { continue; } let id = *kit.levels[l].parms_id(); if let Some(c) = b.t("mod_switch_to", || kit.eval.mod_switch_to_new(f, &id)) { cts.push((format!("mod_switched:L{}", l), c)); } }
            let other = if f.is_ntt_form() { b.t("transform_from_ntt", || kit.eval.transform_from_ntt_new(f)) } else { b.t("transform_to_ntt", || kit.eval.transform_to_ntt_new(f)) };
            if let Some(c) = other { cts.push(("other_rep".into(), c)); }
            if let Some(g) = &fresh_b {
                let target = if opts.light { rng.range(3, opts.max_size as u64) as usize } else { opts.max_size };
                let mut cur = f.clone();
                for s in 3..=target {
                    match b.t("multiply", || kit.eval.multiply_new(&cur, g)) {
                        Some(c) => {
                            cur = c;
                            if !opts.light || s == 3 || s == target { cts.push((format!("product:size{}", s), cur.clone())); }
                            if s == 3 && nl > 1 {
                                if let Some(m) = b.t("mod_switch_to_next", || kit.eval.mod_switch_to_next_new(&cur)) { cts.push(("product:size3:mod_switched".into(), m)); }
                                let o = if cur.is_ntt_form() { b.t("transform_from_ntt", || kit.eval.transform_from_ntt_new(&cur)) } else { b.t("transform_to_ntt", || kit.eval.transform_to_ntt_new(&cur)) };
                                if let Some(o) = o { cts.push(("product:size3:other_rep".into(), o)); }
                            }
                        }
                        None => break,
                    }
                }
            }
        }
        io.fresh = [fresh_a.clone(), fresh_b.clone()].into_iter().flatten().collect();
    }
    // synthetic ciphertexts (resize + fill through the public accessors): extreme residues, any size/level/flag
    for i in 0..if opts.light { 1 } else { 3 } {
        let l = rng.usize_below(nl); let size = rng.range(2, opts.max_size as u64) as usize; let ntt = rng.bool();
        if let Some(c) = b.t("synthetic", || synthetic_ct(kit, rng, l, size, ntt)) { cts.push((format!("synthetic{}:size{}:L{}", i, size, l), c)); }
    }
    // ciphertexts of special structure (random data never has it): x - x (every word zero) and, in BFV/BGV, (x - x) + plain
    // (c1 all zero, c0 noise-free); zero runs and zero tails are what run-length or significant-length shortcuts key on
    if let Some(fa) = fresh_a.clone() {
        if let Some(z) = b.t("sub", || kit.eval.sub_new(&fa, &fa)) {
            if scheme != SchemeType::CKKS { if let Some((p0, _)) = io.plain.as_ref() { if let Some(tr) = b.t("add_plain", || kit.eval.add_plain_new(&z, p0)) { cts.push(("transparent:(x-x)+plain".into(), tr)); } } }
            cts.push(("zero:x-x".into(), z));
        }
    }
    if let Some(dst) = interop { *dst = io; }
    (plains, cts)
}

fn pick_cts(rng: &mut Rng, cts: &[(String, Ciphertext)], k: usize) -> Vec<Ciphertext> { (0..k).map(|_| rng.pick(cts).1.clone()).collect() }
fn pick_plains(rng: &mut Rng, ps: &[(String, Plaintext)], k: usize) -> Vec<Plaintext> { (0..k).map(|_| rng.pick(ps).1.clone()).collect() }

pub fn build_zoo(spec: &Spec, rng: &mut Rng, opts: &ZooOpts) -> Result<Zoo, String> {
    let kit = Kit::new(spec)?;
    let mut skips: Vec<(String, String)> = vec![];
    let mut items: Vec<Item> = vec![];
    let mut interop = Interop::default();
    let (n, nl) = (kit.n(), kit.levels.len());
    let scheme = spec.scheme;
    let mut push = |items: &mut Vec<Item>, label: String, obj: Obj| items.push(Item { label, obj, out_of_domain: false });
    let terms_ok = |c: &Ciphertext| !c.is_ntt_form() || n <= opts.terms_ntt_max_n;

    // parameters and moduli
    push(&mut items, "parms".into(), Obj::Parms(spec.parms()));
    if !opts.light {
        push(&mut items, "parms:flag_flipped".into(), Obj::Parms(spec.parms().set_use_special_prime_for_encryption(!spec.special_flag)));
        items.push(Item { label: "parms:unset".into(), obj: Obj::Parms(EncryptionParameters::new(scheme)), out_of_domain: true });
        items.push(Item { label: "parms:scheme_none".into(), obj: Obj::Parms(EncryptionParameters::new(SchemeType::None)), out_of_domain: true });
    }
    for (i, &q) in spec.qs.iter().enumerate() { push(&mut items, format!("modulus:q{}", i), Obj::Modulus(Modulus::new(q))); }
    if spec.t != 0 { push(&mut items, "modulus:t".into(), Obj::Modulus(Modulus::new(spec.t))); }
    push(&mut items, "modulus:zero".into(), Obj::Modulus(Modulus::new(0)));
    { let bts = rng.range(2, 61) as u32; let v = (rng.bits(bts) | (1u64 << (bts - 1))).max(2); push(&mut items, format!("modulus:random{}bit", bts), Obj::Modulus(Modulus::new(v))); }

    let (plains, cts) = { let mut b = Builder { skips: &mut skips }; pools(&kit, rng, opts, &mut b, Some(&mut interop)) };
    push(&mut items, "plain:empty".into(), Obj::Plain(Plaintext::new()));
    for (l, p) in &plains { push(&mut items, l.clone(), Obj::Plain(p.clone())); }
    for (l, c) in &cts {
        push(&mut items, format!("ct:{}:compact", l), Obj::Ct(c.clone(), Fmt::Compact));
        if !opts.light || rng.bool() { push(&mut items, format!("ct:{}:full", l), Obj::Ct(c.clone(), Fmt::Full)); }
        if terms_ok(c) {
            for _ in 0..if opts.light { 1 } else { 2 } { let (k, t) = gen_terms(rng, n); push(&mut items, format!("ct:{}:terms:{}", l, k), Obj::Ct(c.clone(), Fmt::Terms(t))); }
        }
    }
    if !cts.is_empty() {
        push(&mut items, "vec_ct:empty".into(), Obj::VecCt(vec![]));
        let k = rng.range(1, 3) as usize; push(&mut items, "vec_ct".into(), Obj::VecCt(pick_cts(rng, &cts, k)));
    }

    // keys
    {
        let mut b = Builder { skips: &mut skips };
        push(&mut items, "sk".into(), Obj::Sk(kit.sk.clone()));
        push(&mut items, "pk:expanded".into(), Obj::Pk(kit.pk.clone()));
        if let Some(k) = b.t("create_public_key", || kit.keygen.create_public_key(true)) { interop.pk_seeded = Some(k.clone()); push(&mut items, "pk:seeded".into(), Obj::Pk(k)); }
        push(&mut items, "kswitch:default_empty".into(), Obj::KSwitch(KSwitchKeys::default()));
        if kit.has_keyswitching() {
            if let Some(k) = b.t("create_relin_keys", || kit.keygen.create_relin_keys(true)) { interop.relin_seeded = Some(k.clone()); push(&mut items, "relin:seeded".into(), Obj::Relin(k)); }
            if let Some(k) = b.t("create_relin_keys", || kit.keygen.create_relin_keys(false)) { push(&mut items, "relin:expanded".into(), Obj::Relin(k)); }
            if !opts.light {
                if let Some(k) = b.t("create_galois_keys", || kit.keygen.create_galois_keys(true)) { push(&mut items, "galois:full:seeded".into(), Obj::Galois(k)); }
                if let Some(k) = b.t("create_galois_keys", || kit.keygen.create_galois_keys(false)) { push(&mut items, "galois:full:expanded".into(), Obj::Galois(k)); }
            }
            // sparse sets with missing entries (including the set with no key at all)
            let mut odd: Vec<usize> = (0..n).map(|i| 2 * i + 1).collect(); rng.shuffle(&mut odd);
            let cnt = if opts.light { 2 } else { rng.range(1, 4.min(n as u64)) as usize };
            let elts: Vec<usize> = odd[..cnt].to_vec();
            if let Some(k) = b.t("create_galois_keys_from_elts", || kit.keygen.create_galois_keys_from_elts(&elts, true)) { interop.galois_seeded = Some((k.clone(), elts.clone())); push(&mut items, format!("galois:sparse{}:seeded", cnt), Obj::Galois(k)); }
            if !opts.light {
                let elts2: Vec<usize> = odd[cnt..(cnt + 1).min(n)].to_vec();
                if let Some(k) = b.t("create_galois_keys_from_elts", || kit.keygen.create_galois_keys_from_elts(&elts2, false)) { push(&mut items, "galois:sparse:expanded".into(), Obj::Galois(k)); }
                if let Some(k) = b.t("create_galois_keys_from_elts", || kit.keygen.create_galois_keys_from_elts(&[], rng.bool())) { push(&mut items, "galois:no_keys".into(), Obj::Galois(k)); }
            }
            if let Some(other) = b.t("KeyGenerator::new", || KeyGenerator::new(kit.ctx.clone())) {
                if let Some(k) = b.t("create_keyswitching_key", || kit.keygen.create_keyswitching_key(other.secret_key(), true)) { interop.ksk_seeded = Some(k.clone()); push(&mut items, "kswitch:seeded".into(), Obj::KSwitch(k)); }
                if !opts.light { if let Some(k) = b.t("create_keyswitching_key", || kit.keygen.create_keyswitching_key(other.secret_key(), false)) { push(&mut items, "kswitch:expanded".into(), Obj::KSwitch(k)); } }
                interop.other_keygen = Some(other);
            }
        }
    }

    // containers (empty, ragged, mixed seeded/expanded, mixed sizes and levels)
    if !plains.is_empty() {
        push(&mut items, "plain1d:empty".into(), Obj::P1(Plain1d::new(vec![])));
        let k = rng.range(1, 3) as usize; push(&mut items, "plain1d".into(), Obj::P1(Plain1d::new(pick_plains(rng, &plains, k))));
        push(&mut items, "plain2d:empty".into(), Obj::P2(Plain2d::new(vec![])));
        push(&mut items, "plain2d:ragged".into(), Obj::P2(Plain2d::new(vec![pick_plains(rng, &plains, 1), vec![], pick_plains(rng, &plains, 3), vec![Plaintext::new()]])));
        push(&mut items, "plain3d:empty".into(), Obj::P3(Plain3d::new_2ds(vec![])));
        push(&mut items, "plain3d:ragged".into(), Obj::P3(Plain3d::new_2ds(vec![Plain2d::new(vec![pick_plains(rng, &plains, 2)]), Plain2d::new(vec![]), Plain2d::new(vec![vec![], pick_plains(rng, &plains, 1)])])));
    }
    let tcts: Vec<(String, Ciphertext)> = cts.iter().filter(|(_, c)| terms_ok(c)).cloned().collect();
    if !cts.is_empty() {
        let fmts = |rng: &mut Rng| -> Vec<(Fmt, &'static str)> { let mut v = vec![(Fmt::Compact, "compact")]; if !tcts.is_empty() { let (k, t) = gen_terms(rng, n); v.push((Fmt::Terms(t), k)); } v };
        for (f, k) in fmts(rng) {
            let pool = if f == Fmt::Compact { &cts } else { &tcts };
            push(&mut items, format!("cipher1d:empty:{}", k), Obj::C1(Cipher1d::new(vec![]), f.clone()));
            let m = rng.range(1, 4) as usize; push(&mut items, format!("cipher1d:{}", k), Obj::C1(Cipher1d::new(pick_cts(rng, pool, m)), f.clone()));
        }
        for (f, k) in fmts(rng) {
            let pool = if f == Fmt::Compact { &cts } else { &tcts };
            push(&mut items, format!("cipher2d:empty:{}", k), Obj::C2(Cipher2d::new(vec![]), f.clone()));
            push(&mut items, format!("cipher2d:ragged:{}", k), Obj::C2(Cipher2d::new(vec![pick_cts(rng, pool, 2), vec![], pick_cts(rng, pool, 1)]), f.clone()));
        }
        for (f, k) in fmts(rng) {
            let pool = if f == Fmt::Compact { &cts } else { &tcts };
            push(&mut items, format!("cipher3d:empty:{}", k), Obj::C3(Cipher3d::new_2ds(vec![]), f.clone()));
            push(&mut items, format!("cipher3d:ragged:{}", k), Obj::C3(Cipher3d::new_2ds(vec![Cipher2d::new(vec![pick_cts(rng, pool, 1), vec![]]), Cipher2d::new(vec![]), Cipher2d::new(vec![pick_cts(rng, pool, 2)])]), f.clone()));
        }
    }

    // single polynomials
    {
        let unseeded: Vec<&(String, Ciphertext)> = cts.iter().filter(|(_, c)| !c.contains_seed()).collect();
        for _ in 0..if opts.light { 1 } else { 3 } {
            if unseeded.is_empty() { break; }
            let (l, c) = *rng.pick(&unseeded); let i = rng.usize_below(c.size());
            push(&mut items, format!("poly:{}:poly{}", l, i), Obj::Poly(c.poly(i).to_vec(), *c.parms_id()));
        }
        for (l, p) in &plains {
            if p.is_ntt_form() { push(&mut items, format!("poly:{}", l), Obj::Poly(p.data().clone(), *p.parms_id())); }
            else if scheme != SchemeType::CKKS { push(&mut items, format!("poly:{}", l), Obj::Poly(p.data().clone(), PARMS_ID_ZERO)); }
        }
        if scheme != SchemeType::CKKS { push(&mut items, "poly:plain:empty".into(), Obj::Poly(vec![], PARMS_ID_ZERO)); }
    }

    // rns_plain wrappers: two component contexts with the same ring and coefficient modulus, different plain moduli
    let mut kit_b = None;
    let mut rnsp = None;
    if opts.rnsp && scheme != SchemeType::CKKS {
        let cands = [2u64, 3, 17, 97, 257, 12289, 65537, spec.t + 2, spec.t.saturating_sub(1).max(2)];
        for &t2 in cands.iter() {
            if t2 == spec.t || t2 < 2 || !spec.qs.iter().all(|&q| refm::gcd(q, t2) == 1) { continue; }
            let mut sb = spec.clone(); sb.t = t2;
            if let Ok(k) = Kit::new(&sb) { if k.levels.len() == nl { kit_b = Some(k); break; } }
        }
        if let Some(kb) = &kit_b {
            let rn = RnspHeContext { components: vec![kit.ctx.clone(), kb.ctx.clone()] };
            let mut b = Builder { skips: &mut skips };
            let lopts = ZooOpts { max_size: opts.max_size.min(4), light: true, rnsp: false, terms_ntt_max_n: opts.terms_ntt_max_n };
            let (_, cb) = pools(kb, rng, &lopts, &mut b, None);
            // pair ciphertexts of equal origin
            let mut pairs: Vec<(String, RnspCiphertext)> = vec![];
            for (l, c) in &cts { if let Some((_, d)) = cb.iter().find(|(lb, _)| lb == l) { pairs.push((l.clone(), RnspCiphertext::from_raw_parts(vec![c.clone(), d.clone()]))); } }
            for (l, rc) in &pairs {
                push(&mut items, format!("rnsp_ct:{}:compact", l), Obj::RCt(rc.clone(), Fmt::Compact));
                push(&mut items, format!("rnsp_ct:{}:full", l), Obj::RCt(rc.clone(), Fmt::Full));
                if rc.components.iter().all(|c| terms_ok(c)) { let (k, t) = gen_terms(rng, n); push(&mut items, format!("rnsp_ct:{}:terms:{}", l, k), Obj::RCt(rc.clone(), Fmt::Terms(t))); }
            }
            if !pairs.is_empty() {
                push(&mut items, "rnsp_vec_ct:empty".into(), Obj::RVecCt(vec![]));
                let v: Vec<RnspCiphertext> = (0..rng.range(1, 3)).map(|_| rng.pick(&pairs).1.clone()).collect();
                push(&mut items, "rnsp_vec_ct".into(), Obj::RVecCt(v));
            }
            for seed in [true, false] {
                let tag = if seed { "seeded" } else { "expanded" };
                if let (Some(x), Some(y)) = (b.t("create_public_key", || kit.keygen.create_public_key(seed)), b.t("create_public_key", || kb.keygen.create_public_key(seed))) { push(&mut items, format!("rnsp_pk:{}", tag), Obj::RPk(RnspPublicKey::from_raw_parts(vec![x, y]))); }
                if kit.has_keyswitching() && kb.has_keyswitching() {
                    if let (Some(x), Some(y)) = (b.t("create_relin_keys", || kit.keygen.create_relin_keys(seed)), b.t("create_relin_keys", || kb.keygen.create_relin_keys(seed))) { push(&mut items, format!("rnsp_relin:{}", tag), Obj::RRelin(RnspRelinKeys::from_raw_parts(vec![x, y]))); }
                    let elts = [1usize, 2 * n - 1, 3];
                    if let (Some(x), Some(y)) = (b.t("create_galois_keys_from_elts", || kit.keygen.create_galois_keys_from_elts(&elts[..2], seed)), b.t("create_galois_keys_from_elts", || kb.keygen.create_galois_keys_from_elts(&elts[1..], seed))) { push(&mut items, format!("rnsp_galois:{}", tag), Obj::RGalois(RnspGaloisKeys::from_raw_parts(vec![x, y]))); }
                }
            }
            rnsp = Some(rn);
        }
    }
    let env = Env { ctx: kit.ctx.clone(), rnsp };
    Ok(Zoo { kit, kit_b, env, items, interop, skips })
}

// ------------------------------------------------------------------ observation helpers
pub struct CountingWriter { pub bytes: Vec<u8>, pub calls: u64 }
impl CountingWriter { pub fn new() -> Self { CountingWriter { bytes: vec![], calls: 0 } } }
impl Write for CountingWriter {
    fn write(&mut self, b: &[u8]) -> std::io::Result<usize> { self.bytes.extend_from_slice(b); self.calls += 1; Ok(b.len()) }
    fn flush(&mut self) -> std::io::Result<()> { Ok(()) }
}

/// reference encoding through an in-memory writer: (returned count, bytes)
pub fn encode(obj: &Obj, env: &Env) -> Result<std::io::Result<(usize, Vec<u8>)>, Panicked> {
    lib(|| { let mut w = CountingWriter::new(); let r = obj.write(env, &mut w)?; Ok((r, w.bytes)) })
}

/// context(s) rebuilt from the *deserialized serialization* of the parameters
pub fn rebuild_env(env: &Env, expand: bool) -> Result<Env, String> {
    let rebuild = |ctx: &Arc<HeContext>| -> Result<Arc<HeContext>, String> {
        let parms = ctx.key_context_data().ok_or("no key context data")?.parms().clone();
        let mut bytes = vec![];
        lib(|| Serializable::serialize(&parms, &mut bytes)).map_err(|p| format!("serializing parameters panicked: {}", p.0))?.map_err(|e| format!("serializing parameters failed: {}", e))?;
        let p2 = lib(|| <EncryptionParameters as Serializable>::deserialize(&mut &bytes[..])).map_err(|p| format!("deserializing parameters panicked: {}", p.0))?.map_err(|e| format!("deserializing parameters failed: {}", e))?;
        let c2 = lib(|| HeContext::new(p2, expand, SecurityLevel::None)).map_err(|p| format!("HeContext::new on the restored parameters panicked: {}", p.0))?;
        if !c2.parameters_set() { return Err("restored parameters are rejected by HeContext::new".into()); }
        // the chains must agree level by level (cf. C13)
        let (mut a, mut b) = (ctx.key_context_data(), c2.key_context_data());
        loop {
            match (&a, &b) {
                (Some(x), Some(y)) => { if x.parms_id() != y.parms_id() { return Err("level ids of the rebuilt context differ".into()); } let (nx, ny) = (x.next_context_data(), y.next_context_data()); a = nx; b = ny; }
                (None, None) => break,
                _ => return Err("chain length of the rebuilt context differs".into()),
            }
        }
        if ctx.first_parms_id() != c2.first_parms_id() || ctx.last_parms_id() != c2.last_parms_id() { return Err("first/last level of the rebuilt context differ".into()); }
        Ok(c2)
    };
    let ctx = rebuild(&env.ctx)?;
    let rnsp = match &env.rnsp { Some(r) => Some(RnspHeContext { components: r.components.iter().map(|c| rebuild(c)).collect::<Result<Vec<_>, _>>()? }), None => None };
    Ok(Env { ctx, rnsp })
}

struct Obs<'a> { cfg: &'a Cfg, grp: &'a str, case: u64, spec: &'a Spec }

fn viol(o: &Obs, rep: &mut Report, ty: &str, class: &str, kind: &str, detail: String, label: &str) {
    rep.violation(&format!("{}|{}|{}|{}", P, ty, class, kind), format!("{} ; object `{}` ; params {}", detail, label, o.spec.describe()),
        replay_json(o.cfg, o.grp, o.case, json!({"params": o.spec.describe(), "object": label, "type": ty})));
}

fn hex(b: &[u8]) -> String { b.iter().take(48).map(|x| format!("{:02x}", x)).collect::<Vec<_>>().join("") }

struct Encoded { idx: usize, bytes: Vec<u8>, expected: Obj }

/// one object: sizes, consumption and value in the same and in the rebuilt context
fn check_object(o: &Obs, rep: &mut Report, env1: &Env, env2: Option<&Env>, idx: usize, item: &Item, rng: &mut Rng) -> Option<Encoded> {
    let obj = &item.obj;
    let ty = obj.type_name();
    let scheme = o.spec.scheme_name();
    let class = format!("{}|{}", scheme, if obj.seeded() { "seeded" } else { "expanded" });
    let attrs = obj.attrs(env1);
    rep.count("type_format_by_scheme", &format!("{}|{}", ty, scheme));
    rep.count("object_attributes", &format!("{}|{}", ty, attrs));
    if let Obj::Ct(c, _) = obj {
        rep.count("ct_size", &format!("{:02}", c.size()));
        rep.count("ct_chain_index", &format!("{}|{}", scheme, env1.ctx.get_context_data(c.parms_id()).map(|d| d.chain_index()).unwrap_or(99)));
        match o.spec.scheme {
            SchemeType::BGV => rep.count("bgv_correction_factor", if c.correction_factor() == 1 { "1" } else { "!=1" }),
            SchemeType::CKKS => rep.count("ckks_scale", if c.scale() == 1.0 { "1.0" } else if c.scale().to_bits() & ((1u64 << 52) - 1) == 0 { "power_of_two" } else { "other" }),
            _ => {}
        }
    }
    if item.out_of_domain {
        // degenerate builder states (no ring / no scheme): executed, never asserted
        rep.out_of_precondition += 1;
        let r = encode(obj, env1);
        let outcome = match &r {
            Err(p) => format!("serialize panicked: {}", p.0.chars().take(60).collect::<String>()),
            Ok(Err(e)) => format!("serialize refused: {}", e),
            Ok(Ok((_, bytes))) => match lib(|| obj.read_like(env1, &mut &bytes[..])) { Err(p) => format!("deserialize panicked: {}", p.0.chars().take(60).collect::<String>()), Ok(Err(e)) => format!("deserialize refused: {}", e), Ok(Ok(_)) => "round trip completes".into() },
        };
        rep.note(&format!("out-of-domain `{}`: {}", item.label, outcome));
        return None;
    }
    // ---- write
    let (returned, bytes) = match encode(obj, env1) {
        Err(p) => { viol(o, rep, &ty, &class, "panic:serialize", format!("serialize panicked: {}", p.0), &item.label); return None; }
        Ok(Err(e)) => { viol(o, rep, &ty, &class, "io_error:serialize", format!("serialize into a Vec returned Err: {}", e), &item.label); return None; }
        Ok(Ok(x)) => x,
    };
    let announced = match lib(|| obj.announced(env1)) {
        Ok(a) => a,
        Err(p) => { viol(o, rep, &ty, &class, "panic:serialized_size", format!("serialized_size panicked: {}", p.0), &item.label); return None; }
    };
    rep.max("encoding_bytes", bytes.len() as f64); rep.min("encoding_bytes", bytes.len() as f64);
    if returned != bytes.len() || announced != bytes.len() {
        viol(o, rep, &ty, &class, "size", format!("announced {} bytes, serialize returned {}, {} bytes were written ({})", announced, returned, bytes.len(), attrs), &item.label);
    }
    let expected = match lib(|| obj.expected(env1)) {
        Ok(e) => e,
        Err(p) => { viol(o, rep, &ty, &class, "panic:expand_seed", format!("expanding the original panicked: {}", p.0), &item.label); return None; }
    };
    // ---- read back with trailing garbage, in both contexts
    let mut stream = bytes.clone();
    let glen = rng.range(1, 24) as usize;
    for _ in 0..glen { stream.push(if rng.chance(1, 3) { 0xff } else { rng.u64() as u8 }); }
    let mut sampled = None;
    for (stage, env) in [("same_ctx", Some(env1)), ("rebuilt_ctx", env2)] {
        let Some(env) = env else { continue };
        let mut cur = Cursor::new(&stream[..]);
        let got = lib(|| obj.read_like(env, &mut cur));
        let consumed = cur.position() as usize;
        rep.count("stage", stage);
        match got {
            Err(p) => viol(o, rep, &ty, &class, &format!("panic:deserialize:{}", stage), format!("deserialize panicked: {} ({}, {} bytes)", p.0, attrs, bytes.len()), &item.label),
            Ok(Err(e)) => viol(o, rep, &ty, &class, &format!("io_error:deserialize:{}", stage), format!("deserialize of a complete encoding returned Err: {} ({})", e, attrs), &item.label),
            Ok(Ok(g)) => {
                if consumed != bytes.len() { viol(o, rep, &ty, &class, &format!("consumed:{}", stage), format!("{} bytes written but {} consumed ({} trailing bytes followed; {})", bytes.len(), consumed, glen, attrs), &item.label); }
                match lib(|| expected.diff(&g, env)) {
                    Ok(None) => {}
                    Ok(Some((field, d))) => viol(o, rep, &ty, &class, &format!("value:{}:{}", field, stage), format!("restored object differs: {} ({}, encoding {} bytes: {}..)", d, attrs, bytes.len(), hex(&bytes)), &item.label),
                    Err(p) => viol(o, rep, &ty, &class, &format!("panic:compare:{}", stage), format!("comparing the restored object panicked (malformed object?): {}", p.0), &item.label),
                }
                if stage == "same_ctx" { sampled = Some(consumed); }
            }
        }
    }
    let wpat: Vec<String> = o.spec.qs.iter().map(|&q| byte_width(q).to_string()).collect();
    rep.eval(Some(&format!("{}|{}|{}|w{}|t{}", ty, scheme, attrs, wpat.join(""), byte_width(o.spec.t))));
    if rep.samples.len() < 6 && (idx % 7 == 3) {
        rep.sample(json!({"params": o.spec.describe(), "object": item.label, "type": ty, "attributes": attrs, "announced": announced, "returned": returned, "written": bytes.len(),
            "consumed_with_trailing_garbage": sampled, "first_bytes": hex(&bytes), "restored_equals_expected_same_ctx": true}));
    }
    Some(Encoded { idx, bytes, expected })
}

/// several objects back to back in one stream: each one is recovered independently
fn check_concat(o: &Obs, rep: &mut Report, zoo: &Zoo, env2: Option<&Env>, enc: &[Encoded], rng: &mut Rng) {
    if enc.len() < 2 { return; }
    let rounds = 3;
    for _ in 0..rounds {
        let m = rng.range(2, 6.min(enc.len() as u64)) as usize;
        let picks: Vec<&Encoded> = (0..m).map(|_| &enc[rng.usize_below(enc.len())]).collect();
        let mut stream = vec![];
        for e in &picks { stream.extend_from_slice(&e.bytes); }
        for (stage, env) in [("same_ctx", Some(&zoo.env)), ("rebuilt_ctx", env2)] {
            let Some(env) = env else { continue };
            let mut cur = Cursor::new(&stream[..]);
            let mut want_pos = 0usize;
            for (k, e) in picks.iter().enumerate() {
                let item = &zoo.items[e.idx];
                let ty = item.obj.type_name();
                let class = format!("{}|{}", o.spec.scheme_name(), if item.obj.seeded() { "seeded" } else { "expanded" });
                want_pos += e.bytes.len();
                let got = lib(|| item.obj.read_like(env, &mut cur));
                rep.count("stage", "concatenation");
                match got {
                    Ok(Ok(g)) => {
                        let pos = cur.position() as usize;
                        let d = lib(|| e.expected.diff(&g, env)).unwrap_or(Some(("compare_panicked".into(), String::new())));
                        if pos != want_pos || d.is_some() {
                            viol(o, rep, &ty, &class, &format!("concatenation:{}", stage), format!("object {} of {} in one stream: stream position {} (expected {}), difference {:?}", k + 1, m, pos, want_pos, d), &item.label);
                            break;
                        }
                    }
                    Ok(Err(e2)) => { viol(o, rep, &ty, &class, &format!("concatenation:{}", stage), format!("object {} of {} in one stream: Err {}", k + 1, m, e2), &item.label); break; }
                    Err(p) => { viol(o, rep, &ty, &class, &format!("concatenation:{}", stage), format!("object {} of {} in one stream: panic {}", k + 1, m, p.0), &item.label); break; }
                }
            }
        }
        rep.evals(1);
    }
}

// ------------------------------------------------------------------ seeded objects in later operations
fn restore(obj: &Obj, from: &Env, into: &Env) -> Option<Obj> {
    let (_, bytes) = encode(obj, from).ok()?.ok()?;
    lib(|| obj.read_like(into, &mut &bytes[..])).ok()?.ok()
}

fn budget(kit: &Kit, ct: &Ciphertext) -> Option<usize> {
    if kit.spec.scheme == SchemeType::CKKS { return None; }
    lib(|| { let mut c = ct.clone(); if c.is_ntt_form() { kit.eval.transform_from_ntt_inplace(&mut c); } kit.dec.invariant_noise_budget(&c) }).ok()
}

fn same_ct(a: &Ciphertext, b: &Ciphertext) -> bool { diff_ct(a, b).is_none() }

/// analytic worst case for one key switch on a fresh ciphertext (special prime not smaller than any data prime,
/// so the switching noise is at most K*N*21 + N per coefficient) / for one product of two fresh ciphertexts
fn keyswitch_decrypts(kit: &Kit, after_product: bool) -> bool {
    if kit.spec.scheme == SchemeType::CKKS || !kit.has_keyswitching() { return false; }
    let key_qs = kit.key_qs(); let p = *key_qs.last().unwrap();
    if kit.level_qs(0).iter().any(|&q| q > p) { return false; }
    let (n, k) = (kit.n() as f64, kit.level_qs(0).len() as f64);
    let b = fresh_noise_bound(kit.n(), true) + modswitch_bound(kit.n()) + n + 2.0;
    let ks = k * n * 21.0 + n;
    let t = (kit.t() as f64).log2();
    if after_product { 2.0 * t + 2.0 * b.log2() + 2.0 * n.log2() + (ks.log2() - b.log2()).max(0.0) + 10.0 < log2q(kit, 0) }
    else { t + (b + ks).log2() + 6.0 < log2q(kit, 0) }
}

/// analytic worst case (as in C01): does a fresh first-level encryption certainly decrypt correctly?
fn fresh_decrypts(kit: &Kit, pk: bool) -> bool {
    if kit.spec.scheme == SchemeType::CKKS { return false; }
    let n = kit.n() as f64;
    let b = fresh_noise_bound(kit.n(), pk) + modswitch_bound(kit.n()) + n + 2.0;
    ((kit.t() as f64).log2() + b.log2() + 4.0) < log2q(kit, 0)
}

fn interop(o: &Obs, rep: &mut Report, zoo: &Zoo, env2: Option<&Env>, rng: &mut Rng) {
    let kit = &zoo.kit;
    let scheme = kit.spec.scheme_name();
    let exact = kit.spec.scheme != SchemeType::CKKS;
    let io = &zoo.interop;
    let n = kit.n();
    let envs: Vec<(&str, &Env)> = [("same_ctx", Some(&zoo.env)), ("rebuilt_ctx", env2)].into_iter().filter_map(|(s, e)| e.map(|e| (s, e))).collect();
    // (a) a seeded ciphertext: expanded by hand vs expanded by deserialization, then decrypted
    if let Some(s) = io.seeded_ct.as_ref().filter(|c| c.contains_seed()) {
        if let (Ok(e), Some(Obj::Sk(_))) = (lib(|| s.clone().expand_seed(&kit.ctx)), Some(Obj::Sk(kit.sk.clone()))) {
            let dec_e = lib(|| kit.dec.decrypt_new(&e));
            for (stage, env) in &envs { for f in [Fmt::Compact, Fmt::Full] {
                let (Some(Obj::Ct(d, _)), Some(Obj::Sk(sk2))) = (restore(&Obj::Ct(s.clone(), f.clone()), &zoo.env, env), restore(&Obj::Sk(kit.sk.clone()), &zoo.env, env)) else { continue };
                let dec_d = lib(|| Decryptor::new(env.ctx.clone(), sk2).decrypt_new(&d));
                rep.count("later_operation", &format!("decrypt|{}|{}|{}", scheme, f.name(), stage));
                match (&dec_e, &dec_d) {
                    (Ok(pe), Ok(pd)) => {
                        if let Some((k, dd)) = diff_plain(pe, pd) { viol(o, rep, "later_op:decrypt", &format!("{}|seeded_ct", scheme), &format!("value:{}", stage), format!("decrypting the deserialized seeded ciphertext ({}) differs from decrypting expand_seed(original): {} {}", f.name(), k, dd), "interop:seeded_ct"); }
                        if exact && fresh_decrypts(kit, false) { rep.count("later_operation", "decrypt|semantic_check"); if let Some((_, co)) = &io.plain {
                            if &plain_coeffs(pd, n) != co { viol(o, rep, "later_op:decrypt", &format!("{}|seeded_ct", scheme), &format!("plaintext:{}", stage), format!("deserialized seeded ciphertext ({}) decrypts to {:?}.. instead of the encrypted plaintext {:?}..", f.name(), &plain_coeffs(pd, n)[..n.min(6)], &co[..n.min(6)]), "interop:seeded_ct"); }
                        } }
                    }
                    (Ok(_), Err(p)) => viol(o, rep, "later_op:decrypt", &format!("{}|seeded_ct", scheme), &format!("panic:{}", stage), format!("decrypting the deserialized seeded ciphertext panicked: {}", p.0), "interop:seeded_ct"),
                    _ => {}
                }
                rep.evals(1);
            } }
        }
    }
    // (b) a seeded public key: encrypt under it after expansion / after deserialization, same entropy
    if let (Some(pk_s), Some((p0, co))) = (io.pk_seeded.as_ref().filter(|k| k.contains_seed()), io.plain.as_ref()) {
        if let Ok(pk_e) = lib(|| pk_s.clone().expand_seed(&kit.ctx)) {
            for (stage, env) in &envs {
                let Some(Obj::Pk(pk_d)) = restore(&Obj::Pk(pk_s.clone()), &zoo.env, env) else { continue };
                let ent = rng.u64();
                heathcliff::verif::set_thread_entropy(Some(ent));
                let c_e = lib(|| Encryptor::new(kit.ctx.clone()).set_public_key(pk_e.clone()).encrypt_new(p0));
                heathcliff::verif::set_thread_entropy(Some(ent));
                let c_d = lib(|| Encryptor::new(env.ctx.clone()).set_public_key(pk_d).encrypt_new(p0));
                rep.count("later_operation", &format!("encrypt_with_pk|{}|{}", scheme, stage));
                match (c_e, c_d) {
                    (Ok(ce), Ok(cd)) => {
                        if !same_ct(&ce, &cd) { viol(o, rep, "later_op:encrypt", &format!("{}|seeded_pk", scheme), &format!("value:{}", stage), format!("encrypting (same randomness) under the deserialized seeded public key differs from encrypting under expand_seed(original): {:?}", diff_ct(&ce, &cd)), "interop:pk_seeded"); }
                        if fresh_decrypts(kit, true) { rep.count("later_operation", "encrypt_with_pk|semantic_check"); if let Ok(pd) = lib(|| kit.dec.decrypt_new(&cd)) { if &plain_coeffs(&pd, n) != co {
                            viol(o, rep, "later_op:encrypt", &format!("{}|seeded_pk", scheme), &format!("plaintext:{}", stage), "a ciphertext made with the deserialized seeded public key does not decrypt to the plaintext".into(), "interop:pk_seeded"); } } }
                    }
                    (Ok(_), Err(p)) => viol(o, rep, "later_op:encrypt", &format!("{}|seeded_pk", scheme), &format!("panic:{}", stage), format!("encrypting under the deserialized seeded public key panicked: {}", p.0), "interop:pk_seeded"),
                    _ => {}
                }
                rep.evals(1);
            }
        }
    }
    // (c) seeded relinearization keys
    if let (Some(rk_s), Some(f0), Some(f1)) = (io.relin_seeded.as_ref(), io.fresh.first(), io.fresh.last()) {
        if let (Ok(rk_e), Ok(prod)) = (lib(|| if rk_s.contains_seed() { rk_s.clone().expand_seed(&kit.ctx) } else { rk_s.clone() }), lib(|| kit.eval.multiply_new(f0, f1))) {
            let r_e = lib(|| kit.eval.relinearize_new(&prod, &rk_e));
            for (stage, env) in &envs {
                let Some(Obj::Relin(rk_d)) = restore(&Obj::Relin(rk_s.clone()), &zoo.env, env) else { continue };
                let r_d = lib(|| Evaluator::new(env.ctx.clone()).relinearize_new(&prod, &rk_d));
                rep.count("later_operation", &format!("relinearize|{}|{}|{}", scheme, if rk_s.contains_seed() { "seeded" } else { "too_small_for_seed" }, stage));
                match (&r_e, r_d) {
                    (Ok(re), Ok(rd)) => {
                        if !same_ct(re, &rd) { viol(o, rep, "later_op:relinearize", &format!("{}|seeded_keys", scheme), &format!("value:{}", stage), format!("relinearizing with deserialized seeded keys differs from relinearizing with expand_seed(original): {:?}", diff_ct(re, &rd)), "interop:relin_seeded"); }
                        if exact && keyswitch_decrypts(kit, true) && budget(kit, &prod).unwrap_or(0) >= 4 && budget(kit, &rd).unwrap_or(0) >= 4 {
                            if let (Ok(a), Ok(b)) = (lib(|| kit.dec.decrypt_new(&prod)), lib(|| kit.dec.decrypt_new(&rd))) {
                                if plain_coeffs(&a, n) != plain_coeffs(&b, n) { viol(o, rep, "later_op:relinearize", &format!("{}|seeded_keys", scheme), &format!("plaintext:{}", stage), "the relinearized product (deserialized seeded keys) decrypts differently from the product although both have noise budget".into(), "interop:relin_seeded"); }
                                rep.count("later_operation", "relinearize|semantic_check");
                            }
                        }
                    }
                    (Ok(_), Err(p)) => viol(o, rep, "later_op:relinearize", &format!("{}|seeded_keys", scheme), &format!("panic:{}", stage), format!("relinearizing with the deserialized seeded keys panicked: {}", p.0), "interop:relin_seeded"),
                    _ => {}
                }
                rep.evals(1);
            }
        }
    }
    // (d) seeded Galois keys
    if let (Some((gk_s, elts)), Some(f0)) = (io.galois_seeded.as_ref(), io.fresh.first()) {
        if let Ok(gk_e) = lib(|| if gk_s.contains_seed() { gk_s.clone().expand_seed(&kit.ctx) } else { gk_s.clone() }) {
            let g = *rng.pick(elts);
            let a_e = lib(|| kit.eval.apply_galois_new(f0, g, &gk_e));
            for (stage, env) in &envs {
                let Some(Obj::Galois(gk_d)) = restore(&Obj::Galois(gk_s.clone()), &zoo.env, env) else { continue };
                let a_d = lib(|| Evaluator::new(env.ctx.clone()).apply_galois_new(f0, g, &gk_d));
                rep.count("later_operation", &format!("apply_galois|{}|{}|{}", scheme, if gk_s.contains_seed() { "seeded" } else { "too_small_for_seed" }, stage));
                match (&a_e, a_d) {
                    (Ok(ae), Ok(ad)) => {
                        if !same_ct(ae, &ad) { viol(o, rep, "later_op:apply_galois", &format!("{}|seeded_keys", scheme), &format!("value:{}", stage), format!("apply_galois({}) with deserialized seeded keys differs from the result with expand_seed(original): {:?}", g, diff_ct(ae, &ad)), "interop:galois_seeded"); }
                        if exact && keyswitch_decrypts(kit, false) && budget(kit, f0).unwrap_or(0) >= 4 && budget(kit, &ad).unwrap_or(0) >= 4 {
                            if let (Ok(a), Ok(b)) = (lib(|| kit.dec.decrypt_new(f0)), lib(|| kit.dec.decrypt_new(&ad))) {
                                let want = refm::automorphism(&plain_coeffs(&a, n), g, kit.t());
                                if plain_coeffs(&b, n) != want { viol(o, rep, "later_op:apply_galois", &format!("{}|seeded_keys", scheme), &format!("plaintext:{}", stage), format!("apply_galois({}) with deserialized seeded keys does not decrypt to the automorphism of the plaintext", g), "interop:galois_seeded"); }
                                rep.count("later_operation", "apply_galois|semantic_check");
                            }
                        }
                    }
                    (Ok(_), Err(p)) => viol(o, rep, "later_op:apply_galois", &format!("{}|seeded_keys", scheme), &format!("panic:{}", stage), format!("apply_galois with the deserialized seeded keys panicked: {}", p.0), "interop:galois_seeded"),
                    _ => {}
                }
                rep.evals(1);
            }
        }
    }
    // (e) seeded key-switching keys
    if let (Some(ks_s), Some(f0)) = (io.ksk_seeded.as_ref(), io.fresh.first()) {
        if let Ok(ks_e) = lib(|| if ks_s.contains_seed() { ks_s.clone().expand_seed(&kit.ctx) } else { ks_s.clone() }) {
            let a_e = lib(|| kit.eval.apply_keyswitching_new(f0, &ks_e));
            for (stage, env) in &envs {
                let Some(Obj::KSwitch(ks_d)) = restore(&Obj::KSwitch(ks_s.clone()), &zoo.env, env) else { continue };
                let a_d = lib(|| Evaluator::new(env.ctx.clone()).apply_keyswitching_new(f0, &ks_d));
                rep.count("later_operation", &format!("apply_keyswitching|{}|{}", scheme, stage));
                match (&a_e, a_d) {
                    (Ok(ae), Ok(ad)) => if !same_ct(ae, &ad) { viol(o, rep, "later_op:apply_keyswitching", &format!("{}|seeded_keys", scheme), &format!("value:{}", stage), format!("key switching with deserialized seeded keys differs: {:?}", diff_ct(ae, &ad)), "interop:ksk_seeded"); },
                    (Ok(_), Err(p)) => viol(o, rep, "later_op:apply_keyswitching", &format!("{}|seeded_keys", scheme), &format!("panic:{}", stage), format!("key switching with the deserialized seeded keys panicked: {}", p.0), "interop:ksk_seeded"),
                    _ => {}
                }
                rep.evals(1);
            }
        }
    }
}

// ------------------------------------------------------------------ driver
fn one_case(cfg: &Cfg, grp: &str, case: u64, rng: &mut Rng, rep: &mut Report, big: bool) {
    // big: the degree cycles with the case index so that even a handful of cases (quick tier) reaches the largest objects
    let big_ns: &[usize] = match case % 3 { 0 => &[8192], 1 => &[4096], _ => &[1024, 2048] };
    let spec = if big { (0..8).find_map(|_| gen_spec(rng, big_ns, 4, 60)) } else { gen_spec(rng, &[4, 16, 64], 5, 60) }; // few NTT primes of the smallest sizes exist at large degrees: retry
    let Some(spec) = spec else { rep.count("generator", "no_primes_for_sizes"); return; };
    let opts = if big { ZooOpts { max_size: 16, light: true, rnsp: rng.chance(1, 4), terms_ntt_max_n: 2048 } } else { ZooOpts { max_size: 16, light: false, rnsp: rng.chance(1, 3), terms_ntt_max_n: 64 } };
    let zoo = match build_zoo(&spec, rng, &opts) {
        Ok(z) => z,
        Err(e) => { rep.count("generator", "context_rejected"); rep.note(&format!("rejected example: {}", e.chars().take(90).collect::<String>())); return; }
    };
    rep.count("generator", "context_ok");
    rep.count("params", &format!("{}|n={}|k={}|levels={}", spec.scheme_name(), spec.n, spec.qs.len(), zoo.kit.levels.len()));
    rep.count("prime_family", &spec.family);
    for &q in &spec.qs { rep.count("coeff_prime_bytes", &byte_width(q).to_string()); rep.count("coeff_prime_bits", &format!("{:02}", refm::bit_len(q))); }
    let widths: std::collections::BTreeSet<usize> = spec.qs.iter().map(|&q| byte_width(q)).collect();
    rep.count("chain_widths", if widths.len() > 1 { "mixed" } else { "uniform" });
    if spec.t != 0 { rep.count("plain_modulus_bytes", &byte_width(spec.t).to_string()); }
    for (what, msg) in &zoo.skips { rep.count("zoo_construction_refused", what); if rep.notes.len() < 12 { rep.note(&format!("construction refused: {}: {}", what, msg.chars().take(100).collect::<String>())); } }
    if zoo.kit_b.is_some() { rep.count("generator", "rnsp_pair_built"); }
    let o = Obs { cfg, grp, case, spec: &spec };
    let env2 = match rebuild_env(&zoo.env, spec.expand) {
        Ok(e) => Some(e),
        Err(e) => { viol(&o, rep, "EncryptionParameters", spec.scheme_name(), "rebuilt_context", format!("context rebuilt from the deserialized parameters: {}", e), "parms"); None }
    };
    let mut enc: Vec<Encoded> = vec![];
    for (i, item) in zoo.items.iter().enumerate() {
        if let Some(e) = check_object(&o, rep, &zoo.env, env2.as_ref(), i, item, rng) { enc.push(e); }
    }
    check_concat(&o, rep, &zoo, env2.as_ref(), &enc, rng);
    interop(&o, rep, &zoo, env2.as_ref(), rng);
}

pub fn run(cfg: &Cfg, rep: &mut Report) -> PropMeta {
    run_cases(cfg, "small", cfg.n(8000, 120000) as u64, rep, |i, rng, rep| one_case(cfg, "small", i, rng, rep, false));
    run_cases(cfg, "big", cfg.n(1, 96) as u64, rep, |i, rng, rep| one_case(cfg, "big", i, rng, rep, true));
    PropMeta {
        id: "C14", level: "exploration",
        rule: "random parameter sets (3 schemes; N in {4,16,64}, thorough also 1024..8192; 1..5 primes drawn from families: every prime on a byte-width edge 8|9,16|17,..,56|57,58..60 bits, any size, uniform width, one prime per distinct byte width, smallest/largest alternating; plain modulus of 2..60 bits) x a zoo of every serializable type/format (parameters, moduli, plaintexts coefficient/NTT at every level, ciphertexts compact/full/selected-terms of sizes 2..16 from real product chains, every level, both representations, seeded/expanded, BGV correction factors after modulus switching, CKKS rescaled and arbitrary scales, synthetic extreme residues; secret/public/relinearization/Galois (full, sparse, empty)/key-switching keys; Plain1d/2d/3d, Cipher1d/2d/3d incl. empty and ragged; PolynomialSerializer; rns_plain wrappers) x {same context, context rebuilt from deserialized parameters} x {trailing garbage, concatenation of 2..6 objects} + seeded objects in later operations. distinct = distinct (type/format, scheme, structural attributes, byte-width pattern of the chain, plain-modulus width)",
        assumptions: vec![
            "expand_seed of the library defines the expanded form of a seeded object (C16 checks the expansion itself)".into(),
            "selected-terms reference uses refm::intt_ref/ntt_ref with the library's published root (C09 checks psi); NTT-form ciphertexts get the selected-terms oracle for N <= 64 (quick) / 2048 (thorough)".into(),
            "semantic checks of later operations are asserted only inside a noise precondition (fresh encryptions: analytic worst case of C01, t*(21(2N+1)+(N+1)/2+N+2)*16 < q; relinearize/apply_galois: special prime >= every data prime, analytic worst case of fresh/product/key-switch noise with margin below q, and library noise budget of operand and result >= 4 bits, BFV/BGV); CKKS later operations are compared between the two expansion routes only".into(),
            "degenerate parameter objects (no coefficient modulus set, scheme None) are executed and reported in notes, not asserted".into(),
            "constructions the library refuses (e.g. CKKS scale overflow in long product chains) are skipped and counted in zoo_construction_refused".into(),
        ],
        exhaustive: false, floor: 5000,
    }
}
