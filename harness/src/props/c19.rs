//! C19 — LWE extraction, field trace and packing place coefficients as documented.
//!
//! Workload: for one parameter set (two 50..60-bit data primes + a 60-bit special prime, small t /
//! CKKS scale chosen for the level) two index-revealing plaintexts are encrypted (coefficient
//! encoding) and
//!   * every coefficient i is extracted (from the coefficient-form and from the NTT-form ciphertext),
//!     re-assembled and decrypted: constant coefficient == m_i;
//!   * the field trace is applied with every parameter l in 0..=log2 N: coefficient j of the result is
//!     (N/2^l) m_j if (N/2^l) | j and 0 otherwise (API convention verified against lwe.rs: `logn = l`
//!     leaves 2^l coefficients, the loop runs log2 N - l doubling steps);
//!   * k extractions (k = 1..=N) are packed: value v_j sits at index j * N/2^ceil(log2 k), zeros elsewhere
//!     (no scalar factor: the 1/N pre-scaling cancels the doubling of the merge tree and of the trace).
//! Oracles: the library decryptor and (N <= 256) the independent oracle decryptor; expected vectors
//! are computed from the plaintext coefficients with u128 arithmetic only.
//! Every ciphertext the harness gets hold of runs through the C06 validity predicate.

use crate::he::*;
use crate::props::c06::valid_ct;
use crate::refm;
use crate::rt::*;
use heathcliff::app::lwe::LWECiphertext;
use heathcliff::*;
use serde_json::{json, Value};

const P: &str = "C19";
const SCHEMES: [SchemeType; 3] = [SchemeType::BFV, SchemeType::BGV, SchemeType::CKKS];
const FAMILIES: usize = 4;
const ORACLE_MAX_N: usize = 256;

fn log2n(n: usize) -> usize { n.trailing_zeros() as usize }

// ------------------------------------------------------------------ parameter sets
fn tfam_name(scheme: SchemeType, fam: usize) -> &'static str {
    if scheme == SchemeType::CKKS { ["scale_max_for_level", "scale_min_for_tolerance", "scale_power_of_ten", "scale_random_between"][fam] }
    else { ["t_odd_prime_gt_4N", "t_small_prime", "t_power_of_two", "t_batching_prime"][fam] }
}

fn build_spec(rng: &mut Rng, scheme: SchemeType, n: usize, fam: usize) -> Option<Spec> {
    let b1 = rng.range(50, 60) as u32;
    let b2 = rng.range(50, 60) as u32;
    let qs = coeff_primes(n, &[b1, b2, 60], rng)?;
    let t = if scheme == SchemeType::CKKS { 0 } else {
        match fam {
            0 => { let mut c = 4 * n as u64 + 1 + 2 * rng.below(500); while !refm::is_prime(c) { c += 2; } c }
            1 => *rng.pick(&[3u64, 17, 257]),
            2 => 1u64 << rng.range(1, 14),
            _ => {
                let logm = log2n(2 * n) as u32;
                let mut bits = rng.range((logm + 2) as u64, 16.max(logm as u64 + 2)) as u32;
                loop { if let Some(&c) = ntt_primes_up(n, bits, 1).first() { break c; } bits += 1; if bits > 30 { return None; } }
            }
        }
    };
    Some(Spec { scheme, n, qs, t, special_flag: false, expand: true, family: tfam_name(scheme, fam).to_string() })
}

/// index-revealing plaintexts: coefficient j holds j+1 (source 0) / 7(j+1)+3 (source 1) mod t, a third / half of
/// them negated so that upper-half values occur
fn msg_int(n: usize, t: u64, which: usize) -> Vec<u64> {
    (0..n).map(|j| {
        let (base, upper) = if which == 0 { ((j as u64 + 1) % t, j % 3 == 1) } else { ((7 * (j as u64 + 1) + 3) % t, j % 2 == 0) };
        if upper { (t - base) % t } else { base }
    }).collect()
}
fn msg_real(n: usize, which: usize) -> Vec<f64> {
    (0..n).map(|j| {
        let (base, neg) = if which == 0 { ((j as f64 + 1.0) / n as f64, j % 3 == 1) } else { ((n as f64 - j as f64 - 0.5) / n as f64, j % 2 == 0) };
        if neg { -base } else { base }
    }).collect()
}

// ------------------------------------------------------------------ environment of one case
#[derive(Clone)]
enum Msg { Int(Vec<u64>), Real(Vec<f64>) }
#[derive(Clone)]
enum Want { Int(Vec<Option<u64>>), Real(Vec<Option<f64>>) }

struct Env<'a> {
    cfg: &'a Cfg, grp: &'a str, case: u64,
    kit: &'a Kit,
    oracle: Option<Oracle>,
    benc: Option<BatchEncoder>,
    gk: GaloisKeys,
    level: usize,
    scale: f64,
    /// worst-case noise of a source ciphertext and of one key switch ("e" units: BFV v, BGV (phase-m)/t, CKKS absolute)
    e_src: f64,
    ks: f64,
    log2q: f64,
    exh: bool,
}

impl<'a> Env<'a> {
    fn n(&self) -> usize { self.kit.n() }
    fn scheme(&self) -> SchemeType { self.kit.spec.scheme }
    fn sname(&self) -> &'static str { self.kit.spec.scheme_name() }
    fn is_ckks(&self) -> bool { self.scheme() == SchemeType::CKKS }

    fn viol(&self, rep: &mut Report, op: &str, class: &str, kind: &str, detail: String, info: &Value) {
        rep.violation(&format!("{}|{}|{}|{}", P, op, class, kind),
            format!("{} ; input {} ; level {} ; params {}", detail, info, self.level, self.kit.spec.describe()),
            replay_json(self.cfg, self.grp, self.case, json!({"params": self.kit.spec.describe(), "op": op, "class": class, "input": info, "level": self.level, "scale": self.scale})));
    }

    /// C06-style validity of a ciphertext handed out by the library
    fn validity(&self, rep: &mut Report, op: &str, class: &str, ct: &Ciphertext, info: &Value) -> bool {
        rep.count("intermediate_validity_checks", &format!("{}|{}", self.sname(), op));
        let mut ok = true;
        if let Err(e) = valid_ct(self.kit, ct) { ok = false; self.viol(rep, op, class, "invalid_result", format!("ciphertext fails the independent validity predicate: {}", e), info); }
        if !ct.is_valid_for(&self.kit.ctx) { ok = false; self.viol(rep, op, &format!("{}|is_valid_for", class), "invalid_result", "ciphertext is not is_valid_for the context".into(), info); }
        if ct.size() != 2 || ct.parms_id() != self.kit.levels[self.level].parms_id() { ok = false; self.viol(rep, op, &format!("{}|shape", class), "invalid_result", format!("size {} / level changed", ct.size()), info); }
        ok
    }

    /// decrypt with the library in the representation its decryptor accepts
    fn lib_decrypt(&self, ct: &Ciphertext) -> Result<Msg, Panicked> {
        let n = self.n();
        lib(|| {
            let c = match (self.scheme(), ct.is_ntt_form()) {
                (SchemeType::BFV, true) => self.kit.eval.transform_from_ntt_new(ct),
                (SchemeType::BFV, false) => ct.clone(),
                (_, false) => self.kit.eval.transform_to_ntt_new(ct),
                (_, true) => ct.clone(),
            };
            let p = self.kit.dec.decrypt_new(&c);
            if self.is_ckks() { Msg::Real(self.kit.ckks.as_ref().unwrap().decode_polynomial_new(&p)) }
            else { let mut v = self.benc.as_ref().unwrap().decode_polynomial_new(&p); v.resize(n, 0); Msg::Int(v) }
        })
    }

    fn oracle_decrypt(&self, ct: &Ciphertext) -> Option<(Msg, f64)> {
        let o = self.oracle.as_ref()?;
        Some(match self.scheme() {
            SchemeType::BFV => { let (m, b, _) = o.bfv(&self.kit.ctx, ct, self.kit.t()); (Msg::Int(m), b as f64) }
            SchemeType::BGV => { let (m, b, _) = o.bgv(&self.kit.ctx, ct, self.kit.t()); (Msg::Int(m), b as f64) }
            _ => (Msg::Real(o.ckks_coeffs(&self.kit.ctx, ct)), 0.0),
        })
    }

    /// is the worst-case noise `e` (with plaintext multiplier c) far enough below the decryption threshold?
    fn precondition(&self, e: f64, c: f64) -> (bool, f64) {
        if self.is_ckks() {
            let mag = (c * self.scale + 2.0 * e + 1.0).log2() + 2.0;
            let effective = self.tol(e, c, c) <= 0.25 / self.n() as f64;
            (mag < self.log2q && effective, self.log2q - mag)
        } else {
            let t = self.kit.t() as f64;
            let need = 4.0 + t.log2() + (2.0 * e + (c + 1.0) * t + 1.0).log2();
            (need < self.log2q, self.log2q - need)
        }
    }
    /// CKKS tolerance on one coefficient whose exact value is x: noise (with a factor 2 of margin), encoder rounding
    /// (c/2), word-wise double rounding of the decoder (2^13/scale absolute, 2^-48 relative)
    fn tol(&self, e: f64, c: f64, x: f64) -> f64 { (2.0 * e + 0.5 * c + 8192.0) / self.scale + x.abs() * 2f64.powi(-48) }

    fn compare(&self, got: &Msg, want: &Want, e: f64, c: f64) -> Result<f64, String> {
        match (got, want) {
            (Msg::Int(g), Want::Int(w)) => {
                if g.len() != w.len() { return Err(format!("length {} != {}", g.len(), w.len())); }
                let bad: Vec<usize> = (0..w.len()).filter(|&j| w[j].map_or(false, |x| x != g[j])).collect();
                if bad.is_empty() { Ok(0.0) } else {
                    let j = bad[0];
                    Err(format!("{} of {} asserted coefficients differ; first at index {}: got {} expected {} ; got[..16]={:?} expected[..16]={:?}", bad.len(), w.iter().filter(|x| x.is_some()).count(), j, g[j], w[j].unwrap(),
                        &g[..g.len().min(16)], &w[..w.len().min(16)]))
                }
            }
            (Msg::Real(g), Want::Real(w)) => {
                if g.len() != w.len() { return Err(format!("length {} != {}", g.len(), w.len())); }
                let mut worst = 0.0f64; let mut first: Option<usize> = None;
                for j in 0..w.len() { if let Some(x) = w[j] {
                    let r = (g[j] - x).abs() / self.tol(e, c, x);
                    if !(r <= 1.0) && first.is_none() { first = Some(j); }
                    if r > worst || r.is_nan() { worst = r; }
                } }
                match first { None => Ok(worst), Some(j) => Err(format!("coefficient {} is {:e}, expected {:e} (tolerance {:e}); worst error/tolerance {:e} ; got[..8]={:?} expected[..8]={:?}", j, g[j], w[j].unwrap(), self.tol(e, c, w[j].unwrap()), worst,
                    &g[..g.len().min(8)], &w[..w.len().min(8)])) }
            }
            _ => Err("decoded kind mismatch".into()),
        }
    }

    /// decide one result ciphertext; returns the library's decoded vector for samples
    fn judge(&self, rep: &mut Report, op: &str, class: &str, ct: &Ciphertext, want: &Want, e: f64, c: f64, info: &Value) -> Option<Msg> {
        self.validity(rep, op, class, ct, info);
        let (pre, margin) = self.precondition(e, c);
        let got = match self.lib_decrypt(ct) {
            Ok(g) => g,
            Err(p) => { self.viol(rep, op, &format!("{}|decrypt", class), "panic", format!("decrypting the result panicked: {}", p.0), info); return None; }
        };
        if !pre { rep.out_of_precondition += 1; rep.count("out_of_precondition", &format!("{}|N={}|{}|L{}", self.sname(), self.n(), op, self.level)); return Some(got); }
        rep.min(&format!("margin_bits_{}_{}", self.sname(), op), margin);
        match self.compare(&got, want, e, c) {
            Ok(r) => { if self.is_ckks() { rep.max(&format!("ckks_error_over_tolerance_{}", op), r); } }
            Err(d) => self.viol(rep, op, class, "value", format!("library decryption of the result: {}", d), info),
        }
        if let Some((og, budget)) = self.oracle_decrypt(ct) {
            rep.count("oracle", &format!("{}|oracle_decryptor+library", op));
            if !self.is_ckks() && op != "extract_assemble" { rep.min(&format!("oracle_budget_bits_{}_{}", self.sname(), op), budget); }
            if let Err(d) = self.compare(&og, want, e, c) { self.viol(rep, op, &format!("{}|oracle", class), "value", format!("oracle decryption of the result: {}", d), info); }
        } else { rep.count("oracle", &format!("{}|library_only", op)); }
        if self.exh { rep.count("exhaustive_asserted", &format!("{}|N={}|{}", self.sname(), self.n(), op)); }
        Some(got)
    }

    fn lwe_wellformed(&self, rep: &mut Report, class: &str, lwe: &LWECiphertext, src: &Ciphertext, info: &Value) {
        let qs = self.kit.level_qs(self.level); let n = self.n();
        let mut bad: Option<String> = None;
        if lwe.c0().len() != qs.len() || lwe.c1().len() != qs.len() * n || lwe.coeff_modulus_size() != qs.len() || lwe.poly_modulus_degree() != n { bad = Some("dimensions".into()); }
        else if lwe.parms_id() != src.parms_id() || lwe.scale().to_bits() != src.scale().to_bits() || lwe.correction_factor() != src.correction_factor() { bad = Some("level / scale / correction factor not carried over".into()); }
        else { for (i, &q) in qs.iter().enumerate() { if lwe.c0()[i] >= q || lwe.c1()[i * n..(i + 1) * n].iter().any(|&x| x >= q) { bad = Some(format!("residue >= modulus {}", q)); break; } } }
        if let Some(b) = bad { self.viol(rep, "extract_lwe", class, "invalid_result", format!("extracted LWE ciphertext malformed: {}", b), info); }
    }
}

fn msg_head(m: &Msg, k: usize) -> Value { match m { Msg::Int(v) => json!(v[..v.len().min(k)]), Msg::Real(v) => json!(v[..v.len().min(k)]) } }

fn k_set(n: usize, rng: &mut Rng, cap_pow: usize) -> Vec<usize> {
    let mut v = vec![1, 2, n - 1, n];
    let mut p = 2usize; let mut cnt = 0;
    while p <= n { if cnt < cap_pow || p * 2 >= n { v.push(p); v.push(p + 1); v.push(p - 1); } p *= 2; cnt += 1; }
    for _ in 0..2 { v.push(rng.range(1, n as u64) as usize); }
    v.retain(|&k| k >= 1 && k <= n); v.sort(); v.dedup(); v
}
fn k_class(k: usize, n: usize) -> &'static str {
    if k == 1 { "k=1" } else if k == n { "k=N" } else if k.is_power_of_two() { "k=2^j" } else if (k - 1).is_power_of_two() { "k=2^j+1" } else if (k + 1).is_power_of_two() { "k=2^j-1" } else { "k=other" }
}
fn l_class(l: usize, n: usize) -> &'static str { if l == 0 { "l=0" } else if l == log2n(n) { "l=log2N" } else { "0<l<log2N" } }

// ------------------------------------------------------------------ one case
fn one_case(cfg: &Cfg, grp: &str, case: u64, rng: &mut Rng, rep: &mut Report, scheme: SchemeType, n: usize, fam: usize, level_req: usize, exh: bool) {
    let Some(spec) = build_spec(rng, scheme, n, fam) else { rep.count("generator", "no_parameters"); return; };
    let kit = match Kit::new(&spec) { Ok(k) => k, Err(e) => { rep.count("generator", "context_rejected"); rep.note(&format!("rejected: {}", e.chars().take(100).collect::<String>())); return; } };
    if !kit.has_keyswitching() || kit.levels.len() < 2 { rep.count("generator", "no_keyswitching_or_single_level"); return; }
    rep.count("generator", "context_ok");
    let level = level_req.min(kit.levels.len() - 1);
    let sname = spec.scheme_name();
    let lqs = kit.level_qs(level);
    let log2q: f64 = lqs.iter().map(|&q| (q as f64).log2()).sum();
    let pspecial = *kit.key_qs().last().unwrap() as f64;
    let nf = n as f64;
    let ks = ERR_MAX * nf * lqs.iter().map(|&q| q as f64).sum::<f64>() / pspecial + 2.0 * (nf + 1.0) + 1.0;
    let e_src = fresh_noise_bound(n, true) + nf + 2.0;
    // CKKS scale: `cap` keeps N * scale 2^4 below the level's modulus and |v| * scale < 2^63; `smin` is the smallest
    // power of two for which the worst-case tolerance of every operation of this case stays below 1/(4N)
    let scale = if scheme != SchemeType::CKKS { 1.0 } else {
        let cap = (log2q.floor() - log2n(n) as f64 - 4.0).min(58.0);
        let e_worst = (e_src + ks * (nf * nf - 1.0) / 3.0).max(nf * e_src + (nf - 1.0) * ks);
        let smin = ((4.0 * nf * (2.0 * e_worst + 0.5 * nf + 8192.0)).log2().ceil() + 1.0).min(cap);
        match fam {
            0 => 2f64.powf(cap),
            1 => 2f64.powf(smin),
            2 => { let mut s10 = 10f64.powf((smin * 2f64.log10()).ceil()); if s10.log2() > cap { s10 = 2f64.powf(cap) * 0.75; } s10 } // not a power of two
            _ => 2f64.powf(smin + rng.range(0, (cap - smin).max(0.0) as u64) as f64),
        }
    };
    let oracle = if n <= ORACLE_MAX_N { match Oracle::new(&kit.ctx, &kit.sk) { Ok(o) => Some(o), Err(e) => { rep.harness_errors.push(format!("oracle construction failed: {}", e)); return; } } } else { None };
    let benc = if scheme != SchemeType::CKKS { match lib(|| BatchEncoder::new(kit.ctx.clone())) { Ok(b) => Some(b), Err(p) => { rep.harness_errors.push(format!("BatchEncoder::new panicked: {}", p.0)); return; } } } else { None };
    let cell = json!({"scheme": sname, "n": n, "family": spec.family, "level": level});
    let gk = match lib(|| kit.keygen.create_automorphism_keys(false)) {
        Ok(g) => g,
        Err(p) => { rep.violation(&format!("{}|create_automorphism_keys|{}|panic", P, sname), format!("panicked: {} ; {}", p.0, spec.describe()), replay_json(cfg, grp, case, cell)); return; }
    };
    let env = Env { cfg, grp, case, kit: &kit, oracle, benc, gk, level, scale, e_src, ks, log2q, exh };
    rep.count("params", &format!("{}|N={}|{}|L{}", sname, n, spec.family, level));
    let logn = log2n(n);
    // the automorphism key set must contain exactly the elements 2^j+1, j = 1..=log2 N
    for j in 1..=logn { if !env.gk.has_key((1usize << j) + 1) { env.viol(rep, "create_automorphism_keys", sname, "value", format!("key for Galois element {} missing", (1usize << j) + 1), &cell); return; } }

    // ---- sources: two ciphertexts, each in coefficient and NTT form
    let msgs: Vec<Msg> = (0..2).map(|w| if env.is_ckks() { Msg::Real(msg_real(n, w)) } else { Msg::Int(msg_int(n, kit.t(), w)) }).collect();
    let level_id = *kit.levels[level].parms_id();
    let mut src: Vec<[Ciphertext; 2]> = vec![]; // [coefficient form, ntt form]
    // in every third case the first source is the noise-free ciphertext (x - x) + plain (c1 = 0 in every component): extraction
    // and packing wrap, negate and shift c1, so exact zeros there are a structure random ciphertexts never have
    let transparent = |w: usize| w == 0 && case % 3 == 2;
    rep.count("source_structure", if transparent(0) { "first source transparent (c1 = 0)" } else { "fresh" });
    for (w, m) in msgs.iter().enumerate() {
        let r = lib(|| {
            let fresh = match m {
                Msg::Real(v) => { let p = kit.ckks.as_ref().unwrap().encode_f64_polynomial_new(v, Some(level_id), scale); let c = kit.enc.encrypt_new(&p); if transparent(w) { kit.eval.add_plain_new(&kit.eval.sub_new(&c, &c), &p) } else { c } }
                Msg::Int(v) => { let p = env.benc.as_ref().unwrap().encode_polynomial_new(v); let c = kit.enc.encrypt_new(&p); let c = if transparent(w) { kit.eval.add_plain_new(&kit.eval.sub_new(&c, &c), &p) } else { c }; if level == 1 { kit.eval.mod_switch_to_next_new(&c) } else { c } }
            };
            if fresh.is_ntt_form() { [kit.eval.transform_from_ntt_new(&fresh), fresh] } else { let t = kit.eval.transform_to_ntt_new(&fresh); [fresh, t] }
        });
        let pair = match r { Ok(p) => p, Err(p) => { rep.count("source", "encode_or_encrypt_panicked"); rep.note(&format!("source construction panicked (not C19's subject): {}", p.0.chars().take(120).collect::<String>())); return; } };
        // the source itself must decrypt to the plaintext, otherwise nothing below is meaningful (C01's subject)
        let want = match m { Msg::Int(v) => Want::Int(v.iter().map(|&x| Some(x)).collect()), Msg::Real(v) => Want::Real(v.iter().map(|&x| Some(x)).collect()) };
        let info = json!({"source": w});
        for (f, ct) in pair.iter().enumerate() {
            env.validity(rep, "source", &format!("{}|{}", sname, if f == 0 { "coef" } else { "ntt" }), ct, &info);
            let ok = env.lib_decrypt(ct).ok().map_or(false, |g| env.compare(&g, &want, e_src, 1.0).is_ok());
            if !ok { rep.count("source", "does_not_decrypt_to_plaintext"); return; }
        }
        rep.count("source", "ok");
        src.push(pair);
    }
    // six fully written-out samples: N = 8, one operation per (scheme, level) cell
    let sample_op: &str = if exh && n == 8 && fam == (if level == 0 { 0 } else { 1 }) {
        match (scheme, level) { (SchemeType::BFV, 0) | (SchemeType::BGV, 1) => "extract", (SchemeType::BGV, 0) | (SchemeType::CKKS, 1) => "trace", _ => "pack" }
    } else { "" };

    // ---- (1) extraction + re-assembly, every requested index, both representations of source 0
    let is: Vec<usize> = if exh { (0..n).collect() } else {
        let mut v = vec![0, 1, 2, n / 2 - 1, n / 2, n / 2 + 1, n - 2, n - 1];
        for _ in 0..4 { v.push(rng.usize_below(n)); }
        v.retain(|&i| i < n); v.sort(); v.dedup(); v
    };
    let mut sampled_extract = false;
    for &i in &is {
        for (f, repr) in ["coef", "ntt"].iter().enumerate() {
            let class = format!("{}|{}|{}", sname, repr, if i == 0 { "i=0" } else { "i>0" });
            let info = json!({"i": i, "representation": repr, "source": 0});
            rep.count("extract", &format!("{}|N={}|{}|L{}", sname, n, repr, level));
            rep.eval(Some(&format!("{}|N={}|extract|{}|i={}|L{}", sname, n, repr, i, level)));
            let lwe = match lib(|| kit.eval.extract_lwe(&src[0][f], i)) { Ok(l) => l, Err(p) => { env.viol(rep, "extract_lwe", &class, "panic", format!("panicked: {}", p.0), &info); continue; } };
            env.lwe_wellformed(rep, &class, &lwe, &src[0][f], &info);
            let asm = match lib(|| kit.eval.assemble_lwe(&lwe)) { Ok(c) => c, Err(p) => { env.viol(rep, "assemble_lwe", &class, "panic", format!("panicked: {}", p.0), &info); continue; } };
            let want = match &msgs[0] {
                Msg::Int(v) => Want::Int((0..n).map(|j| if j == 0 { Some(v[i]) } else { None }).collect()),
                Msg::Real(v) => Want::Real((0..n).map(|j| if j == 0 { Some(v[i]) } else { None }).collect()),
            };
            let got = env.judge(rep, "extract_assemble", &class, &asm, &want, e_src, 1.0, &info);
            // the method form of the re-assembly (LWECiphertext::assemble_lwe) is a public entry point of its own: same judgement
            match lib(|| lwe.assemble_lwe()) {
                Err(p) => env.viol(rep, "LWECiphertext::assemble_lwe", &class, "panic", format!("panicked: {}", p.0), &info),
                Ok(asm2) => {
                    rep.count("assemble_entry_points", "LWECiphertext::assemble_lwe");
                    let _ = env.judge(rep, "extract_assemble(method)", &class, &asm2, &want, e_src, 1.0, &info);
                    if asm2.data() != asm.data() || asm2.parms_id() != asm.parms_id() || asm2.is_ntt_form() != asm.is_ntt_form() || asm2.scale().to_bits() != asm.scale().to_bits() || asm2.correction_factor() != asm.correction_factor() {
                        env.viol(rep, "LWECiphertext::assemble_lwe", &class, "forms_differ", "LWECiphertext::assemble_lwe and Evaluator::assemble_lwe return different ciphertexts for the same LWE ciphertext".into(), &info);
                    }
                }
            }
            if sample_op == "extract" && !sampled_extract && i == n - 1 { if let Some(g) = got {
                sampled_extract = true;
                rep.sample(json!({"op": "extract_lwe+assemble_lwe", "params": spec.describe(), "level": level, "scale": scale, "plaintext_head": msg_head(&msgs[0], 16), "i": i, "representation": repr,
                    "expected_constant_coefficient": match &msgs[0] { Msg::Int(v) => json!(v[i]), Msg::Real(v) => json!(v[i]) }, "observed_decryption_head": msg_head(&g, 4)}));
            } }
        }
    }

    // ---- (2) field trace with every parameter l (input representation: the one key switching accepts)
    let trace_in = if scheme == SchemeType::BFV { &src[0][0] } else { &src[0][1] };
    for l in 0..=logn {
        let c = n >> l; // N / 2^l
        let class = format!("{}|{}", sname, l_class(l, n));
        let info = json!({"l": l, "source": 0});
        rep.count("trace", &format!("{}|N={}|l={}|L{}", sname, n, l, level));
        rep.eval(Some(&format!("{}|N={}|trace|l={}|L{}", sname, n, l, level)));
        let r = lib(|| { let mut x = trace_in.clone(); kit.eval.field_trace_inplace(&mut x, &env.gk, l); x });
        let out = match r { Ok(x) => x, Err(p) => { env.viol(rep, "field_trace", &class, "panic", format!("panicked: {}", p.0), &info); continue; } };
        let cf = c as f64;
        let e = cf * e_src + (cf - 1.0) * ks;
        let want = match &msgs[0] {
            Msg::Int(v) => { let t = kit.t(); Want::Int((0..n).map(|j| Some(if j % c == 0 { ((c as u128 * v[j] as u128) % t as u128) as u64 } else { 0 })).collect()) }
            Msg::Real(v) => Want::Real((0..n).map(|j| Some(if j % c == 0 { cf * v[j] } else { 0.0 })).collect()),
        };
        let got = env.judge(rep, "field_trace", &class, &out, &want, e, cf, &info);
        if sample_op == "trace" && l == 1 { if let Some(g) = got {
            rep.sample(json!({"op": "field_trace_inplace", "params": spec.describe(), "level": level, "scale": scale, "plaintext_head": msg_head(&msgs[0], 16), "l": l, "multiplier_N_over_2^l": c, "observed_decryption_head": msg_head(&g, 16)}));
        } }
    }
    if scheme == SchemeType::BFV {
        // outside the property: an NTT-form BFV operand is refused by key switching; record what happens
        let r = lib(|| { let mut x = src[0][1].clone(); kit.eval.field_trace_inplace(&mut x, &env.gk, 0); x });
        rep.count("trace_bfv_ntt_form_operand", if r.is_ok() { "accepted" } else { "refused" });
    }

    // ---- history: the Evaluator is a long-lived object that serves every level. Before the packing checks of this case (all on
    //      one level) it packs and traces once on ANOTHER level of the chain, so that anything it initialises lazily is
    //      initialised for a different modulus count first (lower level first when this case checks the top level, and vice versa)
    if kit.levels.len() >= 2 {
        let other = if level == 0 { kit.levels.len() - 1 } else { 0 };
        let other_id = *kit.levels[other].parms_id();
        let r = lib(|| {
            let c = match &msgs[0] {
                Msg::Real(v) => kit.enc.encrypt_new(&kit.ckks.as_ref().unwrap().encode_f64_polynomial_new(v, Some(other_id), scale)),
                Msg::Int(v) => { let c = kit.enc.encrypt_new(&env.benc.as_ref().unwrap().encode_polynomial_new(v)); if other == 0 { c } else { kit.eval.mod_switch_to_new(&c, &other_id) } }
            };
            let l0 = kit.eval.extract_lwe(&c, 0); let l1 = kit.eval.extract_lwe(&c, 1);
            let _ = kit.eval.pack_lwe_ciphertexts(&[l0, l1], &env.gk);
        });
        rep.count("history_prelude", &format!("{}|pack on level {} before level {}|{}", sname, other, level, if r.is_ok() { "ran" } else { "refused" }));
    }

    // ---- (3) packing k extractions; LWE j comes from source j%2, representation (j/2)%2, coefficient (a j + b) mod N
    let a = 2 * rng.usize_below(n / 2) + 1; let b = rng.usize_below(n);
    let ks_list: Vec<usize> = if exh { (1..=n).collect() } else { k_set(n, rng, if n >= 2048 { 7 } else { 64 }) };
    let kmax = *ks_list.last().unwrap();
    let mut lwes: Vec<LWECiphertext> = Vec::with_capacity(kmax);
    let mut vals_i: Vec<u64> = vec![]; let mut vals_r: Vec<f64> = vec![];
    for j in 0..kmax {
        let (w, f, i) = (j % 2, (j / 2) % 2, (a * j + b) % n);
        match lib(|| kit.eval.extract_lwe(&src[w][f], i)) {
            Ok(l) => lwes.push(l),
            Err(p) => { env.viol(rep, "extract_lwe", &format!("{}|{}|{}", sname, if f == 0 { "coef" } else { "ntt" }, if i == 0 { "i=0" } else { "i>0" }), "panic", format!("panicked: {}", p.0), &json!({"i": i, "source": w})); return; }
        }
        match &msgs[w] { Msg::Int(v) => vals_i.push(v[i]), Msg::Real(v) => vals_r.push(v[i]) }
    }
    for &k in &ks_list {
        let mut big_l = 0usize; while (1usize << big_l) < k { big_l += 1; }
        let stride = n >> big_l;
        let class = format!("{}|{}", sname, k_class(k, n));
        let info = json!({"k": k, "index_map": format!("lwe j = coefficient ({}*j+{}) mod N of source j%2", a, b)});
        rep.count("pack", &format!("{}|N={}|{}|L{}", sname, n, k_class(k, n), level));
        rep.eval(Some(&format!("{}|N={}|pack|k={}|L{}", sname, n, k, level)));
        let out = match lib(|| kit.eval.pack_lwe_ciphertexts(&lwes[..k], &env.gk)) { Ok(x) => x, Err(p) => { env.viol(rep, "pack_lwe_ciphertexts", &class, "panic", format!("panicked: {}", p.0), &info); continue; } };
        // merge layer: W' = 4W + ks (W_0 = 0); then log2 N - L trace steps W' = 2W + ks; the leaf's own noise arrives unscaled
        let ctr = stride as f64;
        let e = e_src + ks * (ctr * ((1u128 << (2 * big_l)) as f64 - 1.0) / 3.0 + (ctr - 1.0));
        let want = if env.is_ckks() {
            let mut w = vec![Some(0.0f64); n]; for j in 0..k { w[j * stride] = Some(vals_r[j]); } Want::Real(w)
        } else {
            let mut w = vec![Some(0u64); n]; for j in 0..k { w[j * stride] = Some(vals_i[j]); } Want::Int(w)
        };
        let got = env.judge(rep, "pack_lwe", &class, &out, &want, e, 1.0, &info);
        if sample_op == "pack" && k == 3 { if let Some(g) = got {
            rep.sample(json!({"op": "pack_lwe_ciphertexts", "params": spec.describe(), "level": level, "scale": scale, "k": k, "stride": stride,
                "packed_values": if env.is_ckks() { json!(vals_r[..k]) } else { json!(vals_i[..k]) }, "observed_decryption_head": msg_head(&g, 16)}));
        } }
    }
    rep.max(&format!("pack_count_max_N={}", n), kmax as f64);
}

// ------------------------------------------------------------------ driver
fn exhaustive_expected(ns: &[usize]) -> Vec<(String, u64)> {
    let per_scheme = (FAMILIES * 2) as u64;
    let mut v = vec![];
    for &n in ns { for s in SCHEMES { let sn = scheme_name(s);
        v.push((format!("{}|N={}|extract_assemble", sn, n), per_scheme * 2 * n as u64));
        v.push((format!("{}|N={}|field_trace", sn, n), per_scheme * (log2n(n) as u64 + 1)));
        v.push((format!("{}|N={}|pack_lwe", sn, n), per_scheme * n as u64));
    } }
    v
}

pub fn run(cfg: &Cfg, rep: &mut Report) -> PropMeta {
    // (A) exhaustive sub-space: every N in the list x scheme x {4 plain-modulus / scale families} x {first, second data level},
    //     inside each case every index i (both representations), every l, every k
    let ns_exh: Vec<usize> = cfg.pick(vec![4, 8, 16, 32], vec![4, 8, 16, 32, 64]);
    let per_n = 3 * FAMILIES * 2;
    run_cases(cfg, "exhaustive", (ns_exh.len() * per_n) as u64, rep, |i, rng, rep| {
        let i = i as usize;
        let n = ns_exh[i / per_n]; let r = i % per_n;
        one_case(cfg, "exhaustive", i as u64, rng, rep, SCHEMES[r % 3], n, (r / 3) % FAMILIES, r / (3 * FAMILIES), true);
    });
    // (B) sampled: larger N, all l, boundary + random i, k in {1,2,2^j,2^j+-1,N-1,N} + random
    let ns_s: Vec<usize> = cfg.pick(vec![64, 128, 256, 512, 1024], vec![128, 256, 512, 1024, 2048, 4096]);
    let reps = cfg.n(6, 8);
    run_cases(cfg, "sampled", (ns_s.len() * 3 * reps) as u64, rep, |i, rng, rep| {
        let iu = i as usize;
        let n = ns_s[iu % ns_s.len()]; let scheme = SCHEMES[(iu / ns_s.len()) % 3];
        let fam = rng.usize_below(FAMILIES);
        // CKKS on the single-prime level cannot meet the tolerance for N >= 1024 (worst-case key-switch noise vs. scale): mostly stay on the first level there
        let mut level = if rng.chance(1, 3) { 1 } else { 0 };
        if scheme == SchemeType::CKKS && n >= 1024 && rng.chance(3, 4) { level = 0; }
        one_case(cfg, "sampled", i, rng, rep, scheme, n, fam, level, false);
    });
    // was the finite space of (A) enumerated and asserted completely?
    let mut complete = cfg.only_case.is_none() && rep.harness_errors.is_empty();
    if complete {
        let tab = rep.tables.get("exhaustive_asserted").cloned();
        for (key, want) in exhaustive_expected(&ns_exh) {
            let got = tab.as_ref().and_then(|t| t.get(&key)).copied().unwrap_or(0);
            if got != want { complete = false; rep.note(&format!("exhaustive cell {} asserted {} of {}", key, got, want)); }
        }
    }
    rep.note(if complete { "exhaustive sub-space enumerated and asserted completely" } else { "exhaustive sub-space NOT complete in this run" });
    PropMeta {
        id: "C19", level: "exploration",
        rule: cfg.pick(
            "(A) exhaustive: N in {4,8,16,32} x {BFV,BGV,CKKS} x input representation {coefficient, NTT} x every coefficient index i in [0,N) (extract_lwe + assemble_lwe), every trace parameter l in [0,log2 N] (field_trace_inplace), every pack count k in [1,N] (pack_lwe_ciphertexts), each repeated for 4 plain-modulus/scale families x 2 data levels with random 50..60-bit primes; (B) sampled: N in {64..1024}, all l, boundary+random i, k in {1,2,2^j,2^j+-1,N-1,N}+random. Index-revealing plaintexts, library decryptor and (N<=256) oracle decryptor. distinct = distinct (scheme, N, operation, parameter value, level) cells. Every extract/assemble cell judges the method form LWECiphertext::assemble_lwe as well and compares it with Evaluator::assemble_lwe",
            "(A) exhaustive: N in {4,8,16,32,64} x {BFV,BGV,CKKS} x input representation {coefficient, NTT} x every coefficient index i in [0,N) (extract_lwe + assemble_lwe), every trace parameter l in [0,log2 N] (field_trace_inplace), every pack count k in [1,N] (pack_lwe_ciphertexts), each repeated for 4 plain-modulus/scale families x 2 data levels with random 50..60-bit primes; (B) sampled: N in {128..4096}, all l, boundary+random i, k in {1,2,2^j,2^j+-1,N-1,N}+random (at N>=2048 the 2^j+-1 triples only for j<=7 and j>=log2 N-1). Index-revealing plaintexts, library decryptor and (N<=256) oracle decryptor. distinct = distinct (scheme, N, operation, parameter value, level) cells. Every extract/assemble cell judges the method form LWECiphertext::assemble_lwe as well and compares it with Evaluator::assemble_lwe"),
        assumptions: vec![
            "asserted only when the analytic worst case is below the threshold: source noise 21(2N+1)+N+2, one key switch 21*N*sum(q_i)/P + 2(N+1)+1, trace c*e+(c-1)*ks, packing (L=ceil(log2 k)) e+ks*((N/2^L)(4^L-1)/3+N/2^L-1), all doubled, and 16*t*(2e+(c+1)t+1) < q_level (BFV/BGV) resp. c*scale*4 < q_level and tolerance <= 1/(4N) (CKKS); other cases are executed and counted out_of_precondition".into(),
            "CKKS tolerance per coefficient: (2e + c/2 + 2^13)/scale + 2^-48*|expected| (noise bound, encoder rounding, the decoder's word-wise double rounding)".into(),
            "field trace is exercised in the representation key switching accepts (BFV coefficient form, BGV/CKKS NTT form); an NTT-form BFV operand is refused and only recorded".into(),
            "oracle decryptor (N<=256) trusts refm::intt_ref with the library's published root (C09 checks it)".into(),
            "parameter sets inside the exhaustive cells (primes, t, scale) are drawn at random per case, they are not part of the enumerated space".into(),
        ],
        exhaustive: complete,
        floor: cfg.pick(3000, 8000),
    }
}
