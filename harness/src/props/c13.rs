//! C13 — parameter validation is sound; the modulus chain is well-formed and reproducible.
//!
//! Workloads
//!   universe   exhaustive small universe through the public builder (see `Universe`)
//!   random     random larger configurations (1..64 moduli, realistic sizes, compliant / over budget)
//!   secbound   every (degree, level) of the security table at max-1 / max / max+1 total bits
//!   generators CoeffModulus::create / create_with_plain_modulus, PlainModulus::batching(_multiple),
//!              CoeffModulus::bfv_default, CoeffModulus::max_bit_count, Modulus::new refusals
//!
//! Oracles (all written from the property text; nothing from heathcliff::util is used):
//!   * HeContext::new never panics on a constructible parameter object;
//!   * accepted  => the independent predicate `level_verdict` holds for every level of the chain;
//!   * rejected  => the error is a documented specific code whose documented meaning is TRUE of
//!                  the input (so a compliant input can never be rejected);
//!   * chain structure, constants (BigU), qualifier flags, parameter ids (reference SHA-256),
//!     agreement of two independently built contexts, global id collision check;
//!   * generated moduli: distinct, exact sizes, = 1 mod 2N, prime by refm::is_prime.

use crate::big::BigU;
use crate::refm;
use crate::rt::*;
use heathcliff::{CoeffModulus, ContextData, EncryptionParameters, HeContext, Modulus, PlainModulus, SchemeType, SecurityLevel};
use serde_json::{json, Value};
use sha2::{Digest, Sha256};
use std::collections::HashMap;
use std::sync::{Arc, Mutex};

const P: &str = "C13";

// ------------------------------------------------------------------------------------------
// Reference data transcribed by hand from the HomomorphicEncryption.org security standard
// (ternary secret, classical attacks): largest log2(q) for N = 1024 .. 32768.
// (Compared against the library's own table only through the library's observable behaviour.)
const STD_DEGREES: [usize; 6] = [1024, 2048, 4096, 8192, 16384, 32768];
const STD_128: [usize; 6] = [27, 54, 109, 218, 438, 881];
const STD_192: [usize; 6] = [19, 37, 75, 152, 305, 611];
const STD_256: [usize; 6] = [14, 29, 58, 118, 237, 476];

/// None = no limit (security level none); Some(0) = degree not in the standard.
fn std_max_bits(n: usize, sec: SecurityLevel) -> Option<usize> {
    let tab = match sec { SecurityLevel::None => return None, SecurityLevel::Tc128 => &STD_128, SecurityLevel::Tc192 => &STD_192, SecurityLevel::Tc256 => &STD_256 };
    Some(STD_DEGREES.iter().position(|&d| d == n).map(|i| tab[i]).unwrap_or(0))
}

const DEGREE_MIN: usize = 2;
const DEGREE_MAX: usize = 1 << 17;
const DOCUMENTED_ERRORS: [&str; 14] = [
    "InvalidScheme", "InvalidCoeffModulusSize", "InvalidCoeffModulusBitCount", "InvalidCoeffModulusNoNTT",
    "InvalidPolyModulusDegree", "InvalidPolyModulusDegreeNonPowerOfTwo", "InvalidParametersTooLarge",
    "InvalidParametersInsecure", "FailedCreatingRNSBase", "InvalidPlainModulusBitCount",
    "InvalidPlainModulusCoprimality", "InvalidPlainModulusTooLarge", "InvalidPlainModulusNonzero", "FailedCreatingRNSTool",
];

const SCHEMES: [SchemeType; 4] = [SchemeType::None, SchemeType::BFV, SchemeType::CKKS, SchemeType::BGV];
const SECS: [SecurityLevel; 4] = [SecurityLevel::None, SecurityLevel::Tc128, SecurityLevel::Tc192, SecurityLevel::Tc256];

fn scheme_word(s: SchemeType) -> u64 { match s { SchemeType::None => 0, SchemeType::BFV => 1, SchemeType::CKKS => 2, SchemeType::BGV => 3 } }
fn scheme_name(s: SchemeType) -> &'static str { match s { SchemeType::None => "none", SchemeType::BFV => "bfv", SchemeType::CKKS => "ckks", SchemeType::BGV => "bgv" } }
fn sec_name(s: SecurityLevel) -> &'static str { match s { SecurityLevel::None => "none", SecurityLevel::Tc128 => "tc128", SecurityLevel::Tc192 => "tc192", SecurityLevel::Tc256 => "tc256" } }
fn is_bfv_like(s: SchemeType) -> bool { matches!(s, SchemeType::BFV | SchemeType::BGV) }
fn idhex(id: &[u64; 4]) -> String { format!("{:016x}{:016x}{:016x}{:016x}", id[0], id[1], id[2], id[3]) }

/// Reference parameter id: SHA-256 over the little-endian u64 words [scheme, N, q_1..q_k, t],
/// digest read back as four little-endian u64.
fn sha_id(scheme: SchemeType, n: usize, qs: &[u64], t: u64) -> [u64; 4] {
    let mut h = Sha256::new();
    h.update(scheme_word(scheme).to_le_bytes());
    h.update((n as u64).to_le_bytes());
    for q in qs { h.update(q.to_le_bytes()); }
    h.update(t.to_le_bytes());
    let out = h.finalize();
    let mut r = [0u64; 4];
    for i in 0..4 { let mut b = [0u8; 8]; b.copy_from_slice(&out[8 * i..8 * i + 8]); r[i] = u64::from_le_bytes(b); }
    r
}

// ------------------------------------------------------------------------------------------ number theory helpers
/// distinct prime factors (Pollard rho with u128 arithmetic, deterministic)
fn factor(n: u64) -> Vec<u64> {
    fn rho(n: u64) -> u64 {
        if n % 2 == 0 { return 2; }
        let mut c = 1u64;
        loop {
            let f = |x: u64| ((x as u128 * x as u128 + c as u128) % n as u128) as u64;
            let (mut x, mut y, mut d) = (2u64, 2u64, 1u64);
            while d == 1 { x = f(x); y = f(f(y)); d = refm::gcd(x.abs_diff(y), n); }
            if d != n { return d; }
            c += 1;
        }
    }
    fn rec(n: u64, out: &mut Vec<u64>) {
        if n < 2 { return; }
        if refm::is_prime(n) { if !out.contains(&n) { out.push(n); } return; }
        let d = rho(n);
        rec(d, out); rec(n / d, out);
    }
    let mut out = vec![];
    let mut m = n;
    if m < 2 { return out; }
    for p in [2u64, 3, 5, 7, 11, 13, 17, 19, 23, 29, 31, 37, 41, 43, 47] {
        if m % p == 0 { out.push(p); while m % p == 0 { m /= p; } }
    }
    rec(m, &mut out);
    out.sort();
    out
}

#[derive(Clone, Debug)]
struct ValInfo { bits: usize, prime: bool, factors: Vec<u64> }
fn val_info(v: u64) -> ValInfo { ValInfo { bits: refm::bit_len(v), prime: refm::is_prime(v), factors: factor(v) } }
type Infos = HashMap<u64, ValInfo>;

/// primes p = 1 (mod m) with exactly `bits` bits, largest first
fn primes_down(m: u64, bits: u32, count: usize) -> Vec<u64> {
    let mut out = vec![];
    if bits < 2 || bits > 62 || m == 0 || count == 0 { return out; }
    let top = (1u64 << bits) - 1; let lo = 1u64 << (bits - 1);
    let mut v = top / m * m + 1;
    while v > top { if v < m { return out; } v -= m; }
    while v >= lo {
        if refm::is_prime(v) { out.push(v); if out.len() == count { break; } }
        if v < m { break; }
        v -= m;
    }
    out
}
/// number of primes = 1 mod m with exactly `bits` bits (None if the range is too large to enumerate)
fn count_primes(m: u64, bits: u32, cap: usize) -> Option<usize> {
    if bits < 2 || bits > 60 { return Some(0); }
    let top = (1u64 << bits) - 1;
    if top / m > 1 << 16 { return None; }
    Some(primes_down(m, bits, cap).len())
}
fn random_prime(rng: &mut Rng, m: u64, bits: u32, avoid: &[u64]) -> Option<u64> {
    if bits < 2 || bits > 61 { return None; }
    let lo = 1u64 << (bits - 1); let hi = (1u64 << bits) - 1;
    let kmin = (lo + m - 2) / m; // smallest k with k*m+1 >= lo
    let kmax = (hi - 1) / m;
    if kmin > kmax { return None; }
    if kmax - kmin < 256 {
        let c: Vec<u64> = (kmin..=kmax).map(|k| k * m + 1).filter(|&v| v >= lo && v <= hi && refm::is_prime(v) && !avoid.contains(&v)).collect();
        if c.is_empty() { return None; }
        return Some(*rng.pick(&c));
    }
    for _ in 0..6000 {
        let v = rng.range(kmin, kmax) * m + 1;
        if v >= lo && v <= hi && refm::is_prime(v) && !avoid.contains(&v) { return Some(v); }
    }
    None
}

// ------------------------------------------------------------------------------------------ the independent predicate
#[derive(Clone, Debug, Default)]
struct Verdict {
    /// every reason why the level is NOT admissible (empty = admissible)
    reasons: Vec<&'static str>,
    /// a primitive 2N-th root exists modulo every q_i but some q_i is composite: the library's
    /// randomised root search (designed for prime moduli) may or may not find one
    random_ntt: bool,
    total_bits: usize,
}
#[derive(Clone, Copy, PartialEq, Debug)]
enum Tri { Yes, No, Random }
impl Verdict {
    fn has(&self, r: &str) -> bool { self.reasons.iter().any(|x| *x == r) }
    /// reasons of the *literal* predicate of the property text
    fn literal_reasons(&self) -> Vec<&'static str> { self.reasons.iter().copied().filter(|r| *r != "q_no_2n_root").collect() }
    fn first(&self) -> &'static str { self.reasons.first().copied().unwrap_or("valid") }
    fn tri(&self) -> Tri { if !self.reasons.is_empty() { Tri::No } else if self.random_ntt { Tri::Random } else { Tri::Yes } }
}

fn level_verdict(scheme: SchemeType, n: usize, qs: &[u64], t: u64, sec: SecurityLevel, infos: &Infos) -> Verdict {
    let mut v = Verdict::default();
    let tmp_store: Vec<ValInfo> = qs.iter().filter(|q| !infos.contains_key(q)).map(|&q| val_info(q)).collect();
    let mut ti = 0;
    let qi: Vec<&ValInfo> = qs.iter().map(|q| match infos.get(q) { Some(x) => x, None => { ti += 1; &tmp_store[ti - 1] } }).collect();
    if scheme == SchemeType::None { v.reasons.push("scheme_none"); }
    let k = qs.len();
    if k < 1 || k > 64 { v.reasons.push("k_range"); }
    if qi.iter().any(|i| i.bits < 2 || i.bits > 60) { v.reasons.push("q_bits"); }
    let n_in_range = n >= DEGREE_MIN && n <= DEGREE_MAX;
    let n_pow2 = n > 0 && n & (n - 1) == 0;
    if !n_in_range { v.reasons.push("n_range"); }
    if !n_pow2 { v.reasons.push("n_not_pow2"); }
    let big_q = if qs.iter().any(|&q| q == 0) { BigU::zero() } else { refm::product(qs) };
    v.total_bits = if k == 0 { 0 } else { big_q.bits() };
    if let Some(max) = std_max_bits(n, sec) { if v.total_bits > max { v.reasons.push("insecure"); } }
    let mut coprime = true;
    for i in 0..k { for j in 0..i { if qs[i] == 0 || qs[j] == 0 || refm::gcd(qs[i], qs[j]) != 1 { coprime = false; } } }
    if !coprime { v.reasons.push("q_not_coprime"); }
    if n_in_range && n_pow2 && k >= 1 {
        let m = 2 * n as u64;
        if qs.iter().any(|&q| q % m != 1) { v.reasons.push("q_not_1_mod_2n"); }
        else if qi.iter().any(|i| i.factors.iter().any(|&p| p % m != 1)) { v.reasons.push("q_no_2n_root"); }
        else if qi.iter().any(|i| !i.prime) { v.random_ntt = true; }
    }
    if is_bfv_like(scheme) {
        let tb = refm::bit_len(t);
        if tb < 2 || tb > 60 { v.reasons.push("t_bits"); }
        else {
            if qs.iter().any(|&q| q != 0 && refm::gcd(q, t) != 1) { v.reasons.push("t_not_coprime"); }
            if k >= 1 && BigU::from_u64(t) >= big_q { v.reasons.push("t_ge_q"); }
        }
    } else if scheme == SchemeType::CKKS && t != 0 { v.reasons.push("t_nonzero"); }
    v
}

#[derive(PartialEq, Debug)]
enum Truth { True, False, ToleratedRandom, Unverifiable }
/// is the documented meaning of the reported error code true of the input?
fn error_truth(err: &str, v: &Verdict) -> Truth {
    let t = |b: bool| if b { Truth::True } else { Truth::False };
    match err {
        "InvalidScheme" => t(v.has("scheme_none")),
        "InvalidCoeffModulusSize" => t(v.has("k_range")),
        "InvalidCoeffModulusBitCount" => t(v.has("q_bits")),
        "InvalidPolyModulusDegree" => t(v.has("n_range")),
        "InvalidPolyModulusDegreeNonPowerOfTwo" => t(v.has("n_not_pow2")),
        "InvalidParametersInsecure" => t(v.has("insecure")),
        "FailedCreatingRNSBase" => t(v.has("q_not_coprime")),
        "InvalidCoeffModulusNoNTT" => if v.has("q_not_1_mod_2n") || v.has("q_no_2n_root") { Truth::True } else if v.random_ntt { Truth::ToleratedRandom } else { Truth::False },
        "InvalidPlainModulusBitCount" => t(v.has("t_bits")),
        "InvalidPlainModulusCoprimality" => t(v.has("t_not_coprime")),
        "InvalidPlainModulusTooLarge" => t(v.has("t_ge_q")),
        "InvalidPlainModulusNonzero" => t(v.has("t_nonzero")),
        "InvalidParametersTooLarge" => Truth::False, // k <= 64 and N <= 2^17 can never overflow usize
        _ => Truth::Unverifiable,                     // FailedCreatingRNSTool: no documented arithmetic meaning
    }
}

// ------------------------------------------------------------------------------------------ candidates
#[derive(Clone, Debug)]
struct Cand<'a> {
    scheme: SchemeType, n: usize,
    /// None = set_coeff_modulus never called
    qs: Option<&'a [u64]>,
    t: u64, sec: SecurityLevel, expand: bool, special: bool,
}
impl<'a> Cand<'a> {
    fn describe(&self) -> Value {
        json!({"scheme": scheme_name(self.scheme), "poly_modulus_degree": self.n, "coeff_modulus": self.qs.map(|q| q.to_vec()),
            "plain_modulus": self.t, "security": sec_name(self.sec), "expand_mod_chain": self.expand, "use_special_prime_for_encryption": self.special})
    }
    fn qlist(&self) -> &'a [u64] { self.qs.unwrap_or(&[]) }
    /// independent prediction of the documented builder refusals
    fn predicted_constructible(&self) -> bool {
        let okv = |v: u64| v == 0 || (v >= 2 && v >> 61 == 0);
        if !okv(self.t) || self.qlist().iter().any(|&q| !okv(q)) { return false; }
        if let Some(q) = self.qs { if q.is_empty() || q.len() > 64 { return false; } }
        match self.scheme {
            SchemeType::None => self.n == 0 && self.qs.is_none() && self.t == 0,
            SchemeType::CKKS => self.t == 0,
            _ => true,
        }
    }
}

/// Build through the public builder. order 0: degree, coeff, plain, flag (zero/unset values are
/// not set at all), cached Modulus objects; order 1: flag, plain, coeff, degree, every setter
/// called, every Modulus constructed afresh.
fn build(c: &Cand, order: u8, cache: Option<&HashMap<u64, Modulus>>) -> Result<EncryptionParameters, Panicked> {
    lib(|| {
        let mk = |v: u64| -> Modulus { if let Some(m) = cache.and_then(|h| h.get(&v)) { *m } else { Modulus::new(v) } };
        let mut p = EncryptionParameters::new(c.scheme);
        if order == 0 {
            if c.n != 0 { p = p.set_poly_modulus_degree(c.n); }
            if let Some(qs) = c.qs { let ms: Vec<Modulus> = qs.iter().map(|&v| mk(v)).collect(); p = p.set_coeff_modulus(&ms); }
            if c.t != 0 { p = p.set_plain_modulus(&mk(c.t)); }
            p.set_use_special_prime_for_encryption(c.special)
        } else {
            p = p.set_use_special_prime_for_encryption(c.special);
            p = p.set_plain_modulus_u64(c.t);
            if let Some(qs) = c.qs { let ms: Vec<Modulus> = qs.iter().map(|&v| Modulus::new(v)).collect(); p = p.set_coeff_modulus(&ms); }
            p.set_poly_modulus_degree(c.n)
        }
    })
}

// ------------------------------------------------------------------------------------------ global id store (collision check)
struct IdStore { shards: Vec<Mutex<HashMap<[u64; 4], Box<[u64]>>>> }
impl IdStore {
    fn new() -> IdStore { IdStore { shards: (0..64).map(|_| Mutex::new(HashMap::new())).collect() } }
    /// returns the previously stored, different word vector on a collision
    fn insert(&self, id: &[u64; 4], words: &[u64]) -> Option<Vec<u64>> {
        let mut g = self.shards[(id[0] & 63) as usize].lock().unwrap();
        match g.get(id) {
            Some(w) => if &w[..] != words { Some(w.to_vec()) } else { None },
            None => { g.insert(*id, words.to_vec().into_boxed_slice()); None }
        }
    }
    fn len(&self) -> usize { self.shards.iter().map(|s| s.lock().unwrap().len()).sum() }
}
fn words_of(scheme: SchemeType, n: usize, qs: &[u64], t: u64) -> Vec<u64> {
    let mut w = vec![scheme_word(scheme), n as u64]; w.extend_from_slice(qs); w.push(t); w
}

struct Env<'a> { cfg: &'a Cfg, grp: &'a str, case: u64, store: &'a IdStore, cache: Option<&'a HashMap<u64, Modulus>> }
impl<'a> Env<'a> {
    fn viol(&self, rep: &mut Report, op: &str, class: &str, kind: &str, detail: String, c: &Cand) {
        rep.violation(&format!("{}|{}|{}|{}", P, op, class, kind), format!("{} ; input {}", detail, c.describe()), replay_json(self.cfg, self.grp, self.case, c.describe()));
    }
}

/// id of a freshly built parameter object: equals the reference hash; globally collision free
fn register_object(env: &Env, rep: &mut Report, c: &Cand, parms: &EncryptionParameters) {
    let want = sha_id(c.scheme, c.n, c.qlist(), c.t);
    let got = *parms.parms_id();
    rep.count("checks", "parms_id_vs_reference_sha256");
    if got != want {
        env.viol(rep, "parms_id", &format!("scheme={},object", scheme_name(c.scheme)), "value", format!("parms_id {} but SHA-256 of the documented words is {}", idhex(&got), idhex(&want)), c);
    }
    // the object must also report what was put in
    let back: Vec<u64> = parms.coeff_modulus().iter().map(|m| m.value()).collect();
    if parms.scheme() != c.scheme || parms.poly_modulus_degree() != c.n || back != c.qlist() || parms.plain_modulus().value() != c.t || parms.use_special_prime_for_encryption() != c.special {
        env.viol(rep, "builder", &format!("scheme={}", scheme_name(c.scheme)), "value", format!("builder object reports scheme {:?} n {} q {:?} t {} flag {}", parms.scheme(), parms.poly_modulus_degree(), back, parms.plain_modulus().value(), parms.use_special_prime_for_encryption()), c);
    }
    if let Some(other) = env.store.insert(&got, &words_of(c.scheme, c.n, c.qlist(), c.t)) {
        env.viol(rep, "parms_id", "distinct_objects", "collision", format!("id {} shared with parameter words {:?}", idhex(&got), other), c);
    }
}

#[derive(Clone, Debug, PartialEq)]
struct Summary { set: bool, err: String, key: [u64; 4], first: [u64; 4], last: [u64; 4], chain: Vec<([u64; 4], usize)> }

fn chain_nodes(ctx: &HeContext) -> Option<Vec<Arc<ContextData>>> {
    let mut nodes = vec![ctx.key_context_data()?];
    while let Some(nx) = nodes.last().unwrap().next_context_data() {
        nodes.push(nx);
        if nodes.len() > 70 { break; }
    }
    Some(nodes)
}
fn summarize(ctx: &HeContext) -> Option<Summary> {
    let nodes = chain_nodes(ctx)?;
    Some(Summary {
        set: ctx.parameters_set(), err: format!("{:?}", nodes[0].qualifiers().parameter_error),
        key: *ctx.key_parms_id(), first: *ctx.first_parms_id(), last: *ctx.last_parms_id(),
        chain: nodes.iter().map(|n| (*n.parms_id(), n.chain_index())).collect(),
    })
}

/// Everything the property says about one parameter object + (security, expand) pair.
/// `verdicts[len]` is the verdict for the prefix of `len` moduli.
fn examine(env: &Env, rep: &mut Report, c: &Cand, parms: &EncryptionParameters, verdicts: &[Verdict], infos: &Infos, second: bool) {
    let qs = c.qlist();
    let k = qs.len();
    let vkey = &verdicts[k];
    let sname = scheme_name(c.scheme);
    let ctx = match lib(|| HeContext::new(parms.clone(), c.expand, c.sec)) {
        Ok(x) => x,
        Err(p) => {
            rep.eval(Some(&format!("{}/panic/{}", sname, vkey.first())));
            rep.count("outcome", "PANIC");
            env.viol(rep, "HeContext::new", &format!("{},{}", sname, vkey.first()), "panic", format!("HeContext::new panicked: {}", p.0), c);
            return;
        }
    };
    let Some(nodes) = chain_nodes(&ctx) else {
        rep.eval(None);
        env.viol(rep, "HeContext::new", &format!("{},{}", sname, vkey.first()), "no_key_context_data", "key_context_data() is None".into(), c);
        return;
    };
    let key = &nodes[0];
    let err = format!("{:?}", key.qualifiers().parameter_error);
    let set = ctx.parameters_set();
    rep.count("outcome", &err);
    rep.count("scheme_x_outcome", &format!("{}:{}", sname, if set { "accepted" } else { "rejected" }));
    rep.count("security_x_outcome", &format!("{}:{}", sec_name(c.sec), if set { "accepted" } else if err == "InvalidParametersInsecure" { "insecure" } else { "rejected_other" }));
    rep.count("verdict_of_reference_predicate", match vkey.tri() { Tri::Yes => "admissible", Tri::No => "inadmissible", Tri::Random => "admissible_but_composite_ntt_modulus" });
    if set != (err == "Success") || set != key.qualifiers().parameters_set() {
        env.viol(rep, "HeContext::parameters_set", sname, "value", format!("parameters_set()={} but key-level error is {}", set, err), c);
    }
    if !set {
        rep.eval(Some(&format!("{}/{}/{}", sname, err, vkey.first())));
        if err == "None" || err == "Success" || !DOCUMENTED_ERRORS.contains(&err.as_str()) {
            env.viol(rep, "validate", &format!("{},reported={}", sname, err), "unspecific_error", format!("rejected with error {:?}", err), c);
        } else {
            match error_truth(&err, vkey) {
                Truth::True => {}
                Truth::ToleratedRandom => { rep.count("composite_ntt_friendly_modulus", "rejected_NoNTT_although_root_exists"); rep.out_of_precondition += 1; }
                Truth::Unverifiable => rep.count("composite_ntt_friendly_modulus", &format!("unverifiable_error_{}", err)),
                Truth::False => env.viol(rep, "validate", &format!("reported={}", err), "false_error",
                    format!("rejected with {} but that condition does not hold; reference predicate says {:?} (total bits {})", err, if vkey.reasons.is_empty() { vec!["admissible"] } else { vkey.reasons.clone() }, vkey.total_bits), c),
            }
        }
        rep.count("rejected_chain_shape", if nodes.len() == 1 && ctx.first_parms_id() == ctx.key_parms_id() && ctx.last_parms_id() == ctx.key_parms_id() { "key_only" } else { "other" });
    } else {
        // ---------------- soundness at the key level (every level is checked in check_chain)
        let lit = vkey.literal_reasons();
        if !lit.is_empty() {
            env.viol(rep, "validate", &format!("{},{}", sname, lit[0]), "not_refused", format!("parameters accepted although {:?}", lit), c);
        }
        if k >= 1 { check_chain(env, rep, c, &ctx, &nodes, verdicts, infos); } else { rep.eval(None); }
        if vkey.random_ntt { rep.count("composite_ntt_friendly_modulus", "accepted"); }
    }
    // ---------------- an independently built second context agrees
    if second {
        let second_parms = build(c, 1, None);
        match second_parms {
            Err(p) => env.viol(rep, "builder", &format!("{},setter_order", sname), "panic", format!("the same parameters could not be built in another setter order: {}", p.0), c),
            Ok(p2) => {
                rep.count("checks", "second_independent_build");
                if p2.parms_id() != parms.parms_id() {
                    env.viol(rep, "parms_id", &format!("scheme={},setter_order", sname), "value", format!("ids differ between two builds: {} vs {}", idhex(parms.parms_id()), idhex(p2.parms_id())), c);
                }
                match lib(|| HeContext::new(p2.clone(), c.expand, c.sec)) {
                    Err(pn) => env.viol(rep, "HeContext::new", &format!("{},second_build", sname), "panic", format!("second build panicked: {}", pn.0), c),
                    Ok(ctx2) => {
                        let (a, b) = (summarize(&ctx), summarize(&ctx2));
                        if a != b {
                            let any_random = verdicts.iter().skip(1).any(|v| v.random_ntt);
                            if any_random {
                                rep.count("composite_ntt_friendly_modulus", "two_builds_disagree");
                                env.viol(rep, "HeContext::new", "ntt_friendly_composite_coeff_modulus", "nondeterministic",
                                    format!("two contexts built from identical parameters disagree: first {:?} / second {:?}", a.map(|s| (s.set, s.err, s.chain.len())), b.map(|s| (s.set, s.err, s.chain.len()))), c);
                            } else {
                                env.viol(rep, "HeContext::new", &format!("{},two_builds", sname), "disagree", format!("first {:?} second {:?}", a, b), c);
                            }
                        }
                    }
                }
            }
        }
    }
}

fn limbs_eq(got: &[u64], want: &BigU, len: usize) -> bool { want.l.len() <= len && got == &want.to_limbs(len)[..] }

fn check_chain(env: &Env, rep: &mut Report, c: &Cand, ctx: &Arc<HeContext>, nodes: &[Arc<ContextData>], verdicts: &[Verdict], infos: &Infos) {
    let qs = c.qlist();
    let k = qs.len();
    let sname = scheme_name(c.scheme);
    let n = c.n;
    macro_rules! bad { ($op:expr, $class:expr, $kind:expr, $($arg:tt)*) => { env.viol(rep, $op, &$class, $kind, format!($($arg)*), c) }; }

    // ---------- expected shape, from the documented construction rule:
    // key level = all moduli; if there is more than one modulus and the special-prime flag is
    // off, the first data level drops the last modulus (when that is admissible); with
    // expand_mod_chain further levels drop one modulus at a time while admissible.
    let max_steps = if c.expand { k - 1 } else if k > 1 && !c.special { 1 } else { 0 };
    let mut steps = 0;
    let mut shape_ok = true;
    for s in 1..=max_steps {
        let present = nodes.len() > s;
        match verdicts[k - s].tri() {
            Tri::Yes => { if !present { shape_ok = false; bad!("chain", format!("{},missing_level", sname), "structure", "level with {} moduli is admissible but absent (chain has {} nodes)", k - s, nodes.len()); break; } }
            Tri::No => { if present { shape_ok = false; bad!("validate", format!("{},level={}", sname, verdicts[k - s].first()), "not_refused", "chain contains a level with {} moduli although {:?}", k - s, verdicts[k - s].reasons); } break; }
            Tri::Random => { if !present { rep.count("composite_ntt_friendly_modulus", "chain_level_dropped"); break; } }
        }
        steps = s;
    }
    if shape_ok && nodes.len() != steps + 1 {
        bad!("chain", format!("{},length", sname), "structure", "chain has {} nodes, construction rule gives {} (k={}, expand={}, special={})", nodes.len(), steps + 1, k, c.expand, c.special);
    }
    rep.count("chain_length", &format!("{:02}", nodes.len()));
    let mut first_index = if k == 1 || c.special || nodes.len() == 1 { 0 } else { 1 };
    if first_index == 1 && verdicts[k - 1].tri() == Tri::Random && *ctx.first_parms_id() == *nodes[0].parms_id() {
        // the level below the key contains a composite modulus: its first (randomised) validation
        // failed, so first = key, and the re-validation during chain expansion succeeded
        rep.count("composite_ntt_friendly_modulus", "first_is_key_but_chain_continues");
        first_index = 0;
    }
    rep.count("first_is_key", &format!("k={},special={},first==key:{}", if k == 1 { "1" } else { ">1" }, c.special, first_index == 0));
    if *ctx.key_parms_id() != *nodes[0].parms_id() { bad!("chain", format!("{},key_parms_id", sname), "structure", "key_parms_id {} is not the head of the chain {}", idhex(ctx.key_parms_id()), idhex(nodes[0].parms_id())); }
    if *ctx.first_parms_id() != *nodes[first_index].parms_id() {
        bad!("chain", format!("{},first_parms_id,k={},special={}", sname, if k == 1 { "1" } else { ">1" }, c.special), "structure", "first_parms_id {} but node {} of the chain is {}", idhex(ctx.first_parms_id()), first_index, idhex(nodes[first_index].parms_id()));
    }
    if *ctx.last_parms_id() != *nodes[nodes.len() - 1].parms_id() { bad!("chain", format!("{},last_parms_id", sname), "structure", "last_parms_id {} is not the tail {}", idhex(ctx.last_parms_id()), idhex(nodes[nodes.len() - 1].parms_id())); }
    if ctx.using_keyswitching() != (first_index != 0) { bad!("using_keyswitching", sname.to_string(), "value", "using_keyswitching {} but first==key is {}", ctx.using_keyswitching(), first_index == 0); }
    if format!("{:?}", ctx.security_level()) != format!("{:?}", c.sec) { bad!("security_level", sname.to_string(), "value", "context reports {:?}", ctx.security_level()); }
    match (ctx.first_context_data(), ctx.last_context_data()) {
        (Some(f), Some(l)) => { if !Arc::ptr_eq(&f, &nodes[first_index]) || !Arc::ptr_eq(&l, &nodes[nodes.len() - 1]) { bad!("chain", format!("{},first_last_context_data", sname), "structure", "first/last_context_data are not the chain nodes"); } }
        _ => bad!("chain", format!("{},first_last_context_data", sname), "structure", "first/last_context_data missing"),
    }

    // ---------- links, indices, per-level content
    if nodes[0].prev_context_data().is_some() { bad!("chain", format!("{},key_prev", sname), "structure", "key level has a predecessor"); }
    if nodes[nodes.len() - 1].next_context_data().is_some() { bad!("chain", format!("{},tail_next", sname), "structure", "walk ended before the tail (cycle or > 70 nodes)"); }
    if nodes[nodes.len() - 1].chain_index() != 0 { bad!("chain_index", format!("{},tail", sname), "value", "last level has chain_index {} (chain of {} nodes)", nodes[nodes.len() - 1].chain_index(), nodes.len()); }
    let mut agg_flags = String::new();
    for (i, nd) in nodes.iter().enumerate() {
        let lvl = if i == 0 { "key" } else { "data" };
        if i > 0 {
            match nd.prev_context_data() {
                Some(pv) => if !Arc::ptr_eq(&pv, &nodes[i - 1]) || pv.parms_id() != nodes[i - 1].parms_id() { bad!("chain", format!("{},prev_link", sname), "structure", "node {} prev is not node {}", i, i - 1); },
                None => bad!("chain", format!("{},prev_link", sname), "structure", "node {} has no prev", i),
            }
            if !(nd.chain_index() < nodes[i - 1].chain_index()) { bad!("chain_index", format!("{},order", sname), "value", "chain_index {} at node {} does not decrease from {}", nd.chain_index(), i, nodes[i - 1].chain_index()); }
            else if nd.chain_index() + 1 != nodes[i - 1].chain_index() { rep.count("chain_index_step", "gap>1"); }
        }
        match ctx.get_context_data(nd.parms_id()) {
            Some(g) => if !Arc::ptr_eq(&g, nd) { bad!("get_context_data", format!("{},{}", sname, lvl), "value", "get_context_data(id of node {}) returns another object", i); },
            None => bad!("get_context_data", format!("{},{}", sname, lvl), "value", "get_context_data does not find node {} ({})", i, idhex(nd.parms_id())),
        }
        if i >= k { bad!("chain", format!("{},too_long", sname), "structure", "node {} in a chain over {} moduli", i, k); break; }
        let len = k - i;
        let lq = &qs[..len];
        let pr = nd.parms();
        let got_q: Vec<u64> = pr.coeff_modulus().iter().map(|m| m.value()).collect();
        if got_q != lq { bad!("chain", format!("{},prefix", sname), "structure", "node {} has moduli {:?}, expected the prefix {:?}", i, got_q, lq); continue; }
        if pr.scheme() != c.scheme || pr.poly_modulus_degree() != n || pr.plain_modulus().value() != c.t { bad!("chain", format!("{},level_parms", sname), "structure", "node {} changed scheme/degree/plain modulus", i); }
        let want_id = sha_id(c.scheme, n, lq, c.t);
        rep.count("checks", "level_id_vs_reference_sha256");
        if *nd.parms_id() != want_id || *pr.parms_id() != want_id { bad!("parms_id", format!("scheme={},level={}", sname, lvl), "value", "node {} id {} / parms id {} but reference {}", i, idhex(nd.parms_id()), idhex(pr.parms_id()), idhex(&want_id)); }
        if let Some(other) = env.store.insert(&want_id, &words_of(c.scheme, n, lq, c.t)) { bad!("parms_id", "distinct_objects".to_string(), "collision", "level id {} shared with parameter words {:?}", idhex(&want_id), other); }
        // soundness of every level
        let v = &verdicts[len];
        let lit = v.literal_reasons();
        if i > 0 && !lit.is_empty() && shape_ok { bad!("validate", format!("{},level={}", sname, lit[0]), "not_refused", "level {} ({} moduli) accepted although {:?}", i, len, lit); }
        let ql = nd.qualifiers();
        if !ql.parameters_set() { bad!("qualifiers", format!("{},{},parameters_set", sname, lvl), "value", "chain node {} is not parameters_set ({:?})", i, ql.parameter_error); }

        // ---------- constants against their definitions
        let big_q = refm::product(lq);
        if !limbs_eq(nd.total_coeff_modulus(), &big_q, len) { bad!("total_coeff_modulus", format!("{},k={}", sname, if len == 1 { "1" } else { ">1" }), "value", "node {}: {:?}, expected {}", i, nd.total_coeff_modulus(), big_q.to_dec()); }
        if nd.total_coeff_modulus_bit_count() != big_q.bits() { bad!("total_coeff_modulus_bit_count", sname.to_string(), "value", "node {}: {}, expected {}", i, nd.total_coeff_modulus_bit_count(), big_q.bits()); }
        if let Some(max) = std_max_bits(n, c.sec) { rep.min(&format!("security_slack_bits_{}", sec_name(c.sec)), max as f64 - big_q.bits() as f64); }
        let m2n = 2 * n as u64;
        let roots = nd.small_ntt_tables();
        if roots.len() != len { bad!("small_ntt_tables", sname.to_string(), "value", "node {}: {} tables for {} moduli", i, roots.len(), len); }
        else { for j in 0..len { if !refm::is_primitive_2n_root(roots[j].root(), n, lq[j]) { bad!("small_ntt_tables", format!("{},root", sname), "value", "node {}: root {} of modulus {} is not a primitive {}-th root of unity", i, roots[j].root(), lq[j], m2n); } } }
        if !ql.using_fft || !ql.using_ntt { bad!("qualifiers", format!("{},using_fft_ntt", sname), "value", "node {}: using_fft {} using_ntt {}", i, ql.using_fft, ql.using_ntt); }
        let desc = lq.windows(2).all(|w| w[0] > w[1]);
        if ql.using_descending_modulus_chain != desc { bad!("qualifiers", format!("{},using_descending_modulus_chain", sname), "value", "node {}: flag {} for moduli {:?}", i, ql.using_descending_modulus_chain, lq); }
        if format!("{:?}", ql.sec_level) != format!("{:?}", c.sec) { bad!("qualifiers", format!("{},sec_level", sname), "value", "node {}: sec_level {:?}, requested {:?}", i, ql.sec_level, c.sec); }
        let t = c.t;
        if is_bfv_like(c.scheme) && t >= 2 && BigU::from_u64(t) < big_q {
            let (quo, rem) = big_q.divrem(&BigU::from_u64(t));
            let r = rem.low_u64();
            let cd = nd.coeff_div_plain_modulus();
            if cd.len() != len { bad!("coeff_div_plain_modulus", format!("{},len", sname), "value", "node {}: {} entries for {} moduli", i, cd.len(), len); }
            else { for j in 0..len {
                let w = quo.rem_u64(lq[j]);
                let wq = (((w as u128) << 64) / lq[j] as u128) as u64;
                if cd[j].operand != w || cd[j].quotient != wq { bad!("coeff_div_plain_modulus", format!("{},level={}", sname, lvl), "value", "node {} prime {}: operand {} quotient {}, expected floor(q/t) mod q_i = {} (quotient {})", i, lq[j], cd[j].operand, cd[j].quotient, w, wq); }
            } }
            if nd.coeff_modulus_mod_plain_modulus() != r { bad!("coeff_modulus_mod_plain_modulus", format!("{},level={}", sname, lvl), "value", "node {}: {}, expected q mod t = {}", i, nd.coeff_modulus_mod_plain_modulus(), r); }
            let uh = nd.verif_upper_half_increment();
            let want_uh: Vec<u64> = lq.iter().map(|&q| r % q).collect();
            if uh != &want_uh { bad!("upper_half_increment", format!("{},level={}", sname, lvl), "value", "node {}: {:?}, expected (q mod t) mod q_i = {:?}", i, uh, want_uh); }
            if nd.plain_upper_half_threshold() != (t + 1) / 2 { bad!("plain_upper_half_threshold", sname.to_string(), "value", "node {}: {}, expected (t+1)/2 = {}", i, nd.plain_upper_half_threshold(), (t + 1) / 2); }
            let fast = lq.iter().all(|&q| q > t);
            if ql.using_fast_plain_lift != fast { bad!("qualifiers", format!("{},using_fast_plain_lift", sname), "value", "node {}: flag {} with t {} and moduli {:?}", i, ql.using_fast_plain_lift, t, lq); }
            let inc = nd.plain_upper_half_increment();
            if fast {
                let want: Vec<u64> = lq.iter().map(|&q| q - t).collect();
                if inc != &want { bad!("plain_upper_half_increment", format!("{},fast_lift", sname), "value", "node {}: {:?}, expected q_i - t = {:?}", i, inc, want); }
            } else if !limbs_eq(inc, &big_q.sub(&BigU::from_u64(t)), len) {
                bad!("plain_upper_half_increment", format!("{},slow_lift", sname), "value", "node {}: {:?}, expected q - t = {}", i, inc, big_q.sub(&BigU::from_u64(t)).to_dec());
            }
            // batching <=> X^N+1 splits completely mod t <=> every prime factor of t is 1 mod 2N.
            // The library can only decide this for prime t (randomised search built for a
            // cyclic group of order t-1): for composite t only soundness is demanded.
            let tinfo_tmp; let tinfo = match infos.get(&t) { Some(x) => x, None => { tinfo_tmp = val_info(t); &tinfo_tmp } };
            let exists = tinfo.factors.iter().all(|&p| p % m2n == 1);
            if tinfo.prime {
                if ql.using_batching != exists { bad!("qualifiers", format!("{},using_batching,t_prime", sname), "value", "node {}: flag {} but t = {} is {} 1 mod {}", i, ql.using_batching, t, if exists { "" } else { "not" }, m2n); }
            } else if ql.using_batching && !exists {
                bad!("qualifiers", format!("{},using_batching,t_composite", sname), "value", "node {}: batching claimed for t = {} whose factors {:?} are not all 1 mod {}", i, t, tinfo.factors, m2n);
            } else if exists && !ql.using_batching { rep.count("composite_plain_modulus", "batching_possible_but_not_found"); rep.out_of_precondition += 1; }
            else if exists { rep.count("composite_plain_modulus", "batching_found"); }
            if ql.using_batching {
                match lib(|| nd.plain_ntt_tables().root()) {
                    Ok(rt) => if !refm::is_primitive_2n_root(rt, n, t) { bad!("plain_ntt_tables", format!("{},root", sname), "value", "node {}: root {} is not a primitive {}-th root of unity mod {}", i, rt, m2n, t); },
                    Err(p) => bad!("plain_ntt_tables", format!("{},missing", sname), "panic", "node {}: using_batching but plain_ntt_tables() panics: {}", i, p.0),
                }
            }
            if i == 0 { agg_flags = format!("{}:batching={},fast_lift={},descending={},keyswitching={}", sname, ql.using_batching, ql.using_fast_plain_lift, ql.using_descending_modulus_chain, first_index != 0); }
        } else if c.scheme == SchemeType::CKKS {
            let want = big_q.add_u64(1).shr(1);
            if !limbs_eq(nd.upper_half_threshold(), &want, len) { bad!("upper_half_threshold", format!("{},k={}", sname, if len == 1 { "1" } else { ">1" }), "value", "node {}: {:?}, expected (q+1)/2 = {}", i, nd.upper_half_threshold(), want.to_dec()); }
            if nd.plain_upper_half_threshold() != 1u64 << 63 { bad!("plain_upper_half_threshold", sname.to_string(), "value", "node {}: {}, expected 2^63", i, nd.plain_upper_half_threshold()); }
            // a 64-bit two's complement coefficient x >= 2^63 means x - 2^64: the increment is -2^64 mod q_i
            let want: Vec<u64> = lq.iter().map(|&q| { let r = ((1u128 << 64) % q as u128) as u64; if r == 0 { 0 } else { q - r } }).collect();
            if nd.plain_upper_half_increment() != &want { bad!("plain_upper_half_increment", format!("{},ckks", sname), "value", "node {}: {:?}, expected -2^64 mod q_i = {:?}", i, nd.plain_upper_half_increment(), want); }
            if !ql.using_batching || ql.using_fast_plain_lift { bad!("qualifiers", format!("{},ckks_flags", sname), "value", "node {}: using_batching {} using_fast_plain_lift {}", i, ql.using_batching, ql.using_fast_plain_lift); }
            if i == 0 { agg_flags = format!("{}:batching={},fast_lift={},descending={},keyswitching={}", sname, ql.using_batching, ql.using_fast_plain_lift, ql.using_descending_modulus_chain, first_index != 0); }
        }
        rep.count("levels_checked", lvl);
    }
    rep.count("flags", &agg_flags);
    rep.eval(Some(&format!("{}/ok/len{}/k{}/{}/{}/{}", sname, nodes.len(), k.min(9), agg_flags, c.expand, c.special)));
    rep.max("accepted_moduli_count", k as f64);
    rep.max("accepted_degree", n as f64);
    if rep.samples.len() < 2 {
        let levels: Vec<Value> = nodes.iter().enumerate().map(|(i, nd)| {
            let ql = nd.qualifiers();
            json!({"node": i, "chain_index": nd.chain_index(), "parms_id": idhex(nd.parms_id()), "moduli": nd.parms().coeff_modulus().iter().map(|m| m.value()).collect::<Vec<_>>(),
                "total_coeff_modulus": BigU::from_limbs(nd.total_coeff_modulus()).to_dec(), "bits": nd.total_coeff_modulus_bit_count(),
                "q_div_t_mod_qi": nd.coeff_div_plain_modulus().iter().map(|o| o.operand).collect::<Vec<_>>(), "q_mod_t": nd.coeff_modulus_mod_plain_modulus(),
                "plain_upper_half_threshold": nd.plain_upper_half_threshold().to_string(), "plain_upper_half_increment": nd.plain_upper_half_increment(), "upper_half_threshold": nd.upper_half_threshold(),
                "flags": format!("batching={} fast_lift={} descending={} sec={:?}", ql.using_batching, ql.using_fast_plain_lift, ql.using_descending_modulus_chain, ql.sec_level)})
        }).collect();
        rep.sample(json!({"group": env.grp, "case": env.case, "input": c.describe(), "observed": {"parameters_set": true, "using_keyswitching": ctx.using_keyswitching(),
            "key": idhex(ctx.key_parms_id()), "first": idhex(ctx.first_parms_id()), "last": idhex(ctx.last_parms_id()), "levels": levels}, "all_oracles_passed_or_reported": true}));
    }
}

// ------------------------------------------------------------------------------------------ generated moduli
/// properties of moduli returned by a generator: distinct, exact sizes, = 1 mod `m`, prime
fn check_generated(env: &Env, rep: &mut Report, op: &str, n: usize, m: u64, sizes: &[usize], out: &[Modulus], c: &Cand) {
    let vals: Vec<u64> = out.iter().map(|x| x.value()).collect();
    let mut why = vec![];
    if vals.len() != sizes.len() { why.push(format!("returned {} moduli for {} sizes", vals.len(), sizes.len())); }
    else { for (j, &v) in vals.iter().enumerate() { if refm::bit_len(v) != sizes[j] { why.push(format!("modulus {} has {} bits, {} requested", v, refm::bit_len(v), sizes[j])); break; } } }
    let mut s = vals.clone(); s.sort(); s.dedup();
    if s.len() != vals.len() { why.push("moduli not distinct".to_string()); }
    if let Some(v) = vals.iter().find(|&&v| m == 0 || v % m != 1) { why.push(format!("{} is not 1 mod {}", v, m)); }
    if let Some(v) = vals.iter().find(|&&v| !refm::is_prime(v)) { why.push(format!("{} is not prime", v)); }
    if let Some(x) = out.iter().find(|x| !x.is_prime()) { why.push(format!("Modulus::is_prime() false for {}", x.value())); }
    rep.count("generators", &format!("{}:returned", op));
    if !why.is_empty() {
        env.viol(rep, op, &format!("sizes={}", if sizes.len() == 1 { "1" } else { ">1" }), "value", format!("{}(N={}, sizes={:?}) = {:?}: {}", op, n, sizes, vals, why.join("; ")), c);
    }
}

// ------------------------------------------------------------------------------------------ the universe
struct Universe {
    degrees: Vec<usize>,
    pool: Vec<u64>,
    plains: Vec<u64>,
    infos: Infos,
    cache: HashMap<u64, Modulus>,
}
impl Universe {
    fn new() -> Universe {
        let m = 1u64 << 18;
        let p60 = primes_down(m, 60, 2);           // the two largest 60-bit primes = 1 mod 2^18
        let p61 = primes_down(m, 61, 1)[0];        // a 61-bit prime (constructible, never admissible)
        let pool = vec![0, 2, 3, 5, 13, 17, 97, 193, 257, 7681, 12289, 4, 15, 21, 34, 85, p60[0], p61];
        let plains = vec![0, 2, 3, 16, 17, 34, 257, 1u64 << 58, p60[1], (1u64 << 60) + 1];
        let degrees = vec![0, 1, 2, 3, 4, 6, 8, 16, 1024, 1 << 17, 1 << 18];
        let mut infos = Infos::new(); let mut cache = HashMap::new();
        for &v in pool.iter().chain(plains.iter()) { infos.insert(v, val_info(v)); cache.insert(v, Modulus::new(v)); }
        Universe { degrees, pool, plains, infos, cache }
    }
    /// list index -> None (never set) / Some(list); index 1 is the empty list
    fn n_lists(&self) -> usize { let p = self.pool.len(); 2 + p + p * p + p * p * p }
    fn list(&self, idx: usize) -> Option<Vec<u64>> {
        let p = self.pool.len();
        if idx == 0 { return None; }
        if idx == 1 { return Some(vec![]); }
        let mut i = idx - 2;
        if i < p { return Some(vec![self.pool[i]]); }
        i -= p;
        if i < p * p { return Some(vec![self.pool[i / p], self.pool[i % p]]); }
        i -= p * p;
        Some(vec![self.pool[i / (p * p)], self.pool[(i / p) % p], self.pool[i % p]])
    }
    fn describe(&self) -> String {
        format!("schemes {{none,bfv,ckks,bgv}} x degrees {:?} x coeff lists {{unset, empty, every ordered list of length 1..3 over {:?}}} x plain moduli {:?} x security {{none,128,192,256}} x expand {{0,1}} x special-prime flag {{0,1}}", self.degrees, self.pool, self.plains)
    }
}

fn universe_case(cfg: &Cfg, u: &Universe, store: &IdStore, case: u64, rep: &mut Report) {
    let nd = u.degrees.len();
    let li = case as usize / nd; let di = case as usize % nd;
    let n = u.degrees[di];
    let list = u.list(li);
    // quick tier: every list of length <= 2, a seed-dependent 1/8 of the lists of length 3
    if cfg.quick() && list.as_ref().map(|l| l.len() == 3).unwrap_or(false) {
        if Rng::derive(cfg.seed, 0xC13, li as u64).below(8) != 0 { return; }
    }
    let env = Env { cfg, grp: "universe", case, store, cache: Some(&u.cache) };
    let qs: Option<&[u64]> = list.as_deref();
    let k = qs.map(|q| q.len()).unwrap_or(0);
    rep.count("universe_lists", &format!("len={}", match &list { None => "unset".to_string(), Some(l) => l.len().to_string() }));
    for &scheme in &SCHEMES {
        for (tidx, &t) in u.plains.iter().enumerate() {
            let base = Cand { scheme, n, qs, t, sec: SecurityLevel::None, expand: false, special: false };
            let predicted = base.predicted_constructible();
            let parms = match build(&base, 0, env.cache) {
                Ok(p) => p,
                Err(p) => {
                    rep.count("builder", &format!("not_constructible:{}", p.0.split(" @ ").next().unwrap_or("").chars().take(60).collect::<String>()));
                    rep.count("builder_vs_prediction", if predicted { "refused_but_predicted_constructible" } else { "refused_as_predicted" });
                    rep.out_of_precondition += 1;
                    continue;
                }
            };
            rep.count("builder", "constructible");
            rep.count("builder_vs_prediction", if predicted { "built_as_predicted" } else { "built_but_predicted_refusal" });
            register_object(&env, rep, &base, &parms);
            let mut first_combo = true;
            for &sec in &SECS {
                let verdicts: Vec<Verdict> = (0..=k).map(|len| level_verdict(scheme, n, &qs.unwrap_or(&[])[..len], t, sec, &u.infos)).collect();
                for special in [false, true] {
                    let p2 = parms.clone().set_use_special_prime_for_encryption(special);
                    for expand in [false, true] {
                        let c = Cand { scheme, n, qs, t, sec, expand, special };
                        let tri = verdicts[k].tri();
                        // second independent build: every potentially accepted small context, the first
                        // combination of the big ones, and a quarter of the rejected objects once
                        let second = match tri {
                            Tri::No => first_combo && (li + di + tidx) % 4 == 0,
                            _ => n <= 64 || first_combo,
                        };
                        examine(&env, rep, &c, &p2, &verdicts, &u.infos, second);
                        first_combo = false;
                    }
                }
            }
        }
    }
}

// ------------------------------------------------------------------------------------------ random larger configurations
struct RandomCfg { scheme: SchemeType, n: usize, qs: Vec<u64>, t: u64, sec: SecurityLevel, expand: bool, special: bool, family: String }

fn partition_bits(rng: &mut Rng, total: usize, k: usize, lo: usize, hi: usize) -> Option<Vec<usize>> {
    if k == 0 || total < k * lo || total > k * hi { return None; }
    let mut s = vec![lo; k];
    let mut left = total - k * lo;
    let mut guard = 0;
    while left > 0 && guard < 100000 { let j = rng.usize_below(k); if s[j] < hi { s[j] += 1; left -= 1; } guard += 1; }
    if left > 0 { return None; }
    Some(s)
}

fn gen_random(rng: &mut Rng) -> RandomCfg {
    let scheme = *rng.pick(&[SchemeType::BFV, SchemeType::CKKS, SchemeType::BGV]);
    let std_n = rng.chance(1, 2);
    let n = if std_n { *rng.pick(&[1024usize, 1024, 2048, 2048, 4096, 4096, 8192, 16384, 32768]) } else { 1usize << rng.range(1, 9) };
    let m = 2 * n as u64;
    let sec = if std_n { *rng.pick(&SECS) } else if rng.chance(1, 6) { *rng.pick(&SECS) } else { SecurityLevel::None };
    let lo = (refm::bit_len(m) + 2).max(if std_n { 20 } else { 6 }).min(60);
    let budget = std_max_bits(n, sec).filter(|&b| b > 0);
    let mut family;
    let style = rng.below(8);
    let mut sizes: Vec<usize> = vec![];
    if let (Some(b), true) = (budget, style < 5) {
        // around the budget of the security table: under, exactly at, just over
        let target = match style { 0 | 1 => b.saturating_sub(rng.below(12) as usize), 2 => b, 3 => b + 1 + rng.below(3) as usize, _ => b + rng.range(4, 120) as usize };
        family = match style { 0 | 1 => "budget_under", 2 => "budget_exact", 3 => "budget_just_over", _ => "budget_far_over" }.to_string();
        let kmin = (target + 59) / 60; let kmax = (target / lo).min(64);
        if kmin <= kmax && kmax >= 1 {
            let k = rng.range(kmin as u64, kmax.min(kmin + 6) as u64) as usize;
            sizes = partition_bits(rng, target, k, lo, 60).unwrap_or_default();
        }
        if sizes.is_empty() { sizes = vec![target.clamp(lo, 60)]; family = "budget_single".into(); }
    } else {
        let k = match rng.below(10) { 0 => 64, 1 => rng.range(33, 64), 2 | 3 => rng.range(9, 32), _ => rng.range(1, 8) } as usize;
        family = format!("free_k{}", if k > 32 { ">32" } else if k > 8 { "9..32" } else { "1..8" });
        let same = rng.chance(1, 4);
        let b0 = rng.range(lo as u64, 60) as usize;
        sizes = (0..k).map(|_| if same { b0.max(lo + 8).min(60) } else { rng.range(lo as u64, 60) as usize }).collect();
    }
    let mut expand = rng.bool();
    let special = rng.chance(1, 4);
    // keep potentially accepted contexts affordable: N * k * levels <= 2^22
    loop {
        let k = sizes.len();
        let levels = if expand { k } else { k.min(2) };
        if n * k * levels <= 1 << 22 { break; }
        if expand { expand = false; continue; }
        if budget.is_some() { break; } // rejected before any table is built, or at most 16 moduli
        sizes.pop();
    }
    let mut qs: Vec<u64> = vec![];
    for &b in &sizes { if let Some(p) = random_prime(rng, m, b as u32, &qs) { qs.push(p); } }
    if qs.is_empty() { qs.push(primes_down(m, 30.max(refm::bit_len(m) as u32 + 1), 1)[0]); }
    match rng.below(6) { 0 | 1 => { qs.sort(); qs.reverse(); } 2 => qs.sort(), _ => {} }
    // defects injected into the list
    let inj = rng.below(28);
    let pos = rng.usize_below(qs.len());
    match inj {
        0 => { let d = qs[rng.usize_below(qs.len())]; if qs.len() < 64 { qs.insert(pos, d); } else { qs[pos] = d; } family += "+duplicate"; }
        1 => { // composite with a primitive 2N-th root: product of two primes = 1 mod 2N
            let hb = (refm::bit_len(m) as u32 + 1).max(8).min(29);
            if let (Some(a), Some(b)) = (random_prime(rng, m, hb, &[]), random_prime(rng, m, hb + 1, &[])) { qs[pos] = a * b; family += "+composite_ntt_friendly"; }
        }
        2 => { let v = (rng.bits(40) | 1 | 1 << 20) * 3; qs[pos] = v; family += "+composite_multiple_of_3"; }
        3 => { let mut v = rng.bits(45) | 1 | 1 << 30; while !refm::is_prime(v) || v % m == 1 { v += 2; } qs[pos] = v; family += "+prime_not_ntt_friendly"; }
        4 => { qs[pos] = (rng.bits(40) | 1 << 20) & !1; family += "+even_modulus"; }
        5 => { if let Some(p) = random_prime(rng, m, 61, &[]) { qs[pos] = p; family += "+61bit_prime"; } }
        6 => { qs[pos] = 0; family += "+zero_modulus"; }
        7 => { // composite = 1 mod 2N without a root: (2N+... ) square of a prime = -1 mod 2N style
            let mut v = m + 1; let mut found = None;
            for _ in 0..20000 { if !refm::is_prime(v) && refm::bit_len(v) <= 60 && factor(v).iter().any(|&p| p % m != 1) { found = Some(v); break; } v += m * (1 + rng.below(1000)); if refm::bit_len(v) > 60 { break; } }
            if let Some(v) = found { qs[pos] = v; family += "+composite_1mod2N_without_root"; }
        }
        _ => {}
    }
    let big_q = if qs.iter().any(|&q| q == 0) { BigU::zero() } else { refm::product(&qs) };
    let t = if scheme == SchemeType::CKKS { 0 } else {
        match rng.below(16) {
            0 => { family += "+t_zero"; 0 }
            1 => { family += "+t_equals_q0"; qs[0] }
            2 => { family += "+t_shares_factor"; let f = factor(qs[pos]); if f.is_empty() { 6 } else if f[0] < 1 << 30 { f[0] * 2 } else { qs[pos] } }
            3 => { family += "+t_61bit"; (1u64 << 60) | rng.bits(60) }
            4 => { family += "+t_60bit"; (1u64 << 59) | rng.bits(59) | 1 }
            5 => { family += "+t_ge_q"; if qs.len() == 1 && qs[0] < (1 << 59) { qs[0] + 1 + rng.below(5) } else { (1u64 << 59) + 1 } }
            6 => { family += "+t_composite_batching"; match (random_prime(rng, m, refm::bit_len(m) as u32 + 1, &[]), random_prime(rng, m, refm::bit_len(m) as u32 + 2, &[])) { (Some(a), Some(b)) if refm::bit_len(a) + refm::bit_len(b) <= 60 => a * b, _ => 1 << 10 } }
            7 | 8 => { family += "+t_pow2"; 1u64 << rng.range(1, 40) }
            9 | 10 => { family += "+t_odd"; (rng.bits(30) | 1).max(3) }
            _ => { family += "+t_batching"; let tb = rng.range((refm::bit_len(m) + 1).max(14) as u64, 40) as u32; random_prime(rng, m, tb, &qs).unwrap_or(65537) }
        }
    };
    let _ = big_q;
    RandomCfg { scheme, n, qs, t, sec, expand, special, family }
}

fn run_config(env: &Env, rep: &mut Report, r: &RandomCfg, second: bool) {
    let mut infos = Infos::new();
    for &v in r.qs.iter().chain([r.t].iter()) { infos.entry(v).or_insert_with(|| val_info(v)); }
    let c = Cand { scheme: r.scheme, n: r.n, qs: Some(&r.qs), t: r.t, sec: r.sec, expand: r.expand, special: r.special };
    let (fam, tkind) = match r.family.find("+t_") { Some(p) => (&r.family[..p], &r.family[p + 1..]), None => (&r.family[..], "t_fixed") };
    rep.count("family", &format!("{}:{}", env.grp, fam));
    rep.count("plain_modulus_kind", &format!("{}:{}", scheme_name(r.scheme), tkind));
    rep.count("degree", &format!("{}:{:06}", env.grp, r.n));
    rep.count("moduli_count", &format!("{}:{:02}", env.grp, r.qs.len()));
    let parms = match build(&c, 0, None) {
        Ok(p) => p,
        Err(p) => {
            rep.count("builder", &format!("not_constructible:{}", p.0.split(" @ ").next().unwrap_or("").chars().take(60).collect::<String>()));
            rep.count("builder_vs_prediction", if c.predicted_constructible() { "refused_but_predicted_constructible" } else { "refused_as_predicted" });
            rep.out_of_precondition += 1;
            return;
        }
    };
    rep.count("builder", "constructible");
    register_object(env, rep, &c, &parms);
    let k = r.qs.len();
    let verdicts: Vec<Verdict> = (0..=k).map(|len| level_verdict(r.scheme, r.n, &r.qs[..len], r.t, r.sec, &infos)).collect();
    examine(env, rep, &c, &parms, &verdicts, &infos, second);
}

// ------------------------------------------------------------------------------------------ security-table boundary
fn secbound_case(cfg: &Cfg, store: &IdStore, case: u64, rep: &mut Report) {
    let env = Env { cfg, grp: "secbound", case, store, cache: None };
    let mut i = case as usize;
    let scheme = [SchemeType::BFV, SchemeType::CKKS, SchemeType::BGV][i % 3]; i /= 3;
    let delta = (i % 3) as i64 - 1; i /= 3;
    let sec = SECS[1 + i % 3]; i /= 3;
    let n = STD_DEGREES[i % 6];
    let m = 2 * n as u64;
    let max = std_max_bits(n, sec).unwrap();
    let target = (max as i64 + delta) as usize;
    // sizes: as few moduli as possible, each the largest primes of its size so that the product has exactly `target` bits
    let k = (target + 59) / 60;
    let base = target / k; let extra = target % k;
    let sizes: Vec<usize> = (0..k).map(|j| base + (j < extra) as usize).collect();
    let mut qs: Vec<u64> = vec![];
    for &b in &sizes {
        let need = sizes.iter().filter(|&&x| x == b).count();
        let cands = primes_down(m, b as u32, need);
        if let Some(&p) = cands.iter().find(|p| !qs.contains(p)) { qs.push(p); }
    }
    if qs.len() != k { rep.count("secbound", &format!("unreachable:n={},{}bits", n, target)); rep.out_of_precondition += 1; return; }
    let bits = refm::product(&qs).bits();
    rep.count("secbound", &format!("{}:total_minus_max={:+}", sec_name(sec), bits as i64 - max as i64));
    let t = if scheme == SchemeType::CKKS { 0 } else if bits <= 20 || qs.contains(&65537) { 2 } else { 65537 };
    let r = RandomCfg { scheme, n, qs, t, sec, expand: false, special: false, family: format!("secbound_{:+}", bits as i64 - max as i64) };
    run_config(&env, rep, &r, n <= 4096);
}

// ------------------------------------------------------------------------------------------ generators
#[allow(deprecated)]
fn generators_case(cfg: &Cfg, store: &IdStore, case: u64, rng: &mut Rng, rep: &mut Report) {
    let env = Env { cfg, grp: "generators", case, store, cache: None };
    let dummy = Cand { scheme: SchemeType::None, n: 0, qs: None, t: 0, sec: SecurityLevel::None, expand: false, special: false };
    let valid_degrees: Vec<usize> = (1..=17).map(|e| 1usize << e).collect();
    let nvd = valid_degrees.len() as u64;
    if case < nvd {
        // ---- every single size 2..=60 at this degree, create and batching
        let n = valid_degrees[case as usize]; let m = 2 * n as u64;
        for b in 2..=60usize {
            let avail = count_primes(m, b as u32, 1);
            for (op, res) in [("CoeffModulus::create", lib(|| CoeffModulus::create(n, vec![b]))), ("PlainModulus::batching", lib(|| vec![PlainModulus::batching(n, b)]))] {
                rep.eval(Some(&format!("gen/{}/{}/{}", op, n, b)));
                match res {
                    Ok(out) => { check_generated(&env, rep, op, n, m, &[b], &out, &dummy); rep.min("smallest_generated_bits", b as f64); }
                    Err(_) => { rep.count("generators", &format!("{}:refused:{}", op, match avail { Some(0) => "no_such_prime", Some(_) => "although_prime_exists", None => "not_enumerated" })); }
                }
            }
        }
        // bfv_default and max_bit_count at this degree
        for &sec in &SECS {
            let got = CoeffModulus::max_bit_count(n, sec);
            rep.count("generators", "max_bit_count:checked");
            let ok = match std_max_bits(n, sec) { None => got >= 64 * 60, Some(w) => got == w };
            if !ok { env.viol(rep, "CoeffModulus::max_bit_count", &format!("sec={}", sec_name(sec)), "value", format!("max_bit_count({}, {}) = {}, the standard says {:?}", n, sec_name(sec), got, std_max_bits(n, sec)), &dummy); }
            match lib(|| CoeffModulus::bfv_default(n, sec)) {
                Err(_) => rep.count("generators", &format!("bfv_default:refused:{}", if std_max_bits(n, sec).unwrap_or(0) == 0 { "non_standard_input" } else { "STANDARD_INPUT" })),
                Ok(out) => {
                    let sizes: Vec<usize> = out.iter().map(|x| refm::bit_len(x.value())).collect();
                    check_generated(&env, rep, "CoeffModulus::bfv_default", n, m, &sizes, &out, &dummy);
                    let qs: Vec<u64> = out.iter().map(|x| x.value()).collect();
                    let bits = refm::product(&qs).bits();
                    let max = std_max_bits(n, sec).unwrap_or(0);
                    rep.count("generators", &format!("bfv_default:{}:n={}:bits={}/{}", sec_name(sec), n, bits, max));
                    if bits > max { env.viol(rep, "CoeffModulus::bfv_default", &format!("sec={}", sec_name(sec)), "value", format!("bfv_default({}, {}) has {} bits, the standard allows {}", n, sec_name(sec), bits, max), &dummy); }
                    for scheme in [SchemeType::BFV, SchemeType::BGV] {
                        let r = RandomCfg { scheme, n, qs: qs.clone(), t: 65537, sec, expand: n <= 8192, special: false, family: "bfv_default".into() };
                        run_config(&env, rep, &r, n <= 4096);
                    }
                }
            }
        }
        return;
    }
    let sub = case - nvd;
    if sub == 0 {
        // ---- refusals of Modulus::new, invalid degrees / sizes of the generators, max_bit_count off the table
        for v in [1u64, 1 << 61, (1 << 61) + 1, u64::MAX] { rep.count("generators", &format!("Modulus::new({}):{}", if v == 1 { "1".to_string() } else { format!("{}bit", refm::bit_len(v)) }, if lib(|| Modulus::new(v)).is_err() { "refused" } else { "RETURNED" })); rep.eval(None); }
        for v in [0u64, 2, (1 << 61) - 1] { rep.count("generators", &format!("Modulus::new({}bit):{}", refm::bit_len(v), if lib(|| Modulus::new(v)).is_ok() { "built" } else { "REFUSED" })); rep.eval(None); }
        for n in [0usize, 1, 3, 6, 12, 1000, 1 << 18, 1 << 20] {
            for &sec in &SECS {
                let got = CoeffModulus::max_bit_count(n, sec);
                let ok = match std_max_bits(n, sec) { None => got >= 64 * 60, Some(w) => got == w };
                rep.count("generators", "max_bit_count:checked");
                if !ok { env.viol(rep, "CoeffModulus::max_bit_count", &format!("sec={}", sec_name(sec)), "value", format!("max_bit_count({}, {}) = {}", n, sec_name(sec), got), &dummy); }
            }
            match lib(|| CoeffModulus::create(n, vec![30, 30])) {
                Ok(out) => check_generated(&env, rep, "CoeffModulus::create", n, 2 * n as u64, &[30, 30], &out, &dummy),
                Err(_) => rep.count("generators", "CoeffModulus::create:refused:invalid_degree"),
            }
            rep.eval(Some(&format!("gen/invalid_degree/{}", n)));
        }
        for sizes in [vec![], vec![0usize], vec![1], vec![61], vec![30, 61], vec![64], vec![30; 65]] {
            match lib(|| CoeffModulus::create(64, sizes.clone())) {
                Ok(out) => check_generated(&env, rep, "CoeffModulus::create", 64, 128, &sizes, &out, &dummy),
                Err(_) => rep.count("generators", "CoeffModulus::create:refused:invalid_sizes"),
            }
            rep.eval(Some(&format!("gen/invalid_sizes/{}", sizes.len())));
        }
        return;
    }
    // ---- random size lists (repeated sizes force many distinct primes of one size)
    let n = *rng.pick(&valid_degrees); let m = 2 * n as u64;
    let lo = (refm::bit_len(m) + rng.below(3) as usize).clamp(2, 60);
    let k = match rng.below(6) { 0 => 64, 1 => rng.range(20, 63), _ => rng.range(1, 12) } as usize;
    let same = rng.chance(1, 3);
    let b0 = rng.range(lo as u64, 60) as usize;
    let sizes: Vec<usize> = (0..k).map(|_| if same { b0 } else { rng.range(lo as u64, 60) as usize }).collect();
    let which = rng.below(3);
    let (op, res, modulus) = match which {
        0 => ("CoeffModulus::create", lib(|| CoeffModulus::create(n, sizes.clone())), m),
        1 => ("PlainModulus::batching_multiple", lib(|| PlainModulus::batching_multiple(n, sizes.clone())), m),
        _ => {
            let t = *rng.pick(&[2u64, 3, 4, 17, 255, 256, 65537, 786433]);
            let l = m / refm::gcd(m, t) * t;
            rep.count("generators", &format!("create_with_plain_modulus:t={}", t));
            let r = lib(|| CoeffModulus::create_with_plain_modulus(n, &Modulus::new(t), sizes.clone()));
            if let Ok(out) = &r { if out.iter().any(|x| x.value() % l != 1) { rep.count("generators", "create_with_plain_modulus:not_1_mod_lcm(2N,t)"); } else { rep.count("generators", "create_with_plain_modulus:1_mod_lcm(2N,t)"); } }
            ("CoeffModulus::create_with_plain_modulus", r, m)
        }
    };
    rep.eval(Some(&format!("gen/{}/{}/{}", op, n, k.min(20))));
    match res {
        Err(_) => {
            // feasible? count the primes of every requested size independently
            let mut feasible = Some(true);
            let mut need: HashMap<usize, usize> = HashMap::new();
            for &b in &sizes { *need.entry(b).or_insert(0) += 1; }
            for (&b, &c) in &need { match count_primes(m, b as u32, c) { Some(x) => if x < c { feasible = Some(false); }, None => if feasible == Some(true) { feasible = None; } } }
            rep.count("generators", &format!("{}:refused:{}", op, match feasible { Some(false) => "not_enough_primes", Some(true) => if which == 2 { "primes_exist_mod_2N_only" } else { "ALTHOUGH_ENOUGH_PRIMES" }, None => "not_enumerated" }));
        }
        Ok(out) => {
            check_generated(&env, rep, op, n, modulus, &sizes, &out, &dummy);
            rep.max("largest_generated_list", out.len() as f64);
            let qs: Vec<u64> = out.iter().map(|x| x.value()).collect();
            if which != 2 && n * k * k <= 1 << 20 && qs.len() == k {
                // the generated list is admissible by construction: the context must accept it
                let scheme = *rng.pick(&[SchemeType::BFV, SchemeType::CKKS, SchemeType::BGV]);
                let r = RandomCfg { scheme, n, qs, t: if scheme == SchemeType::CKKS { 0 } else { 2 }, sec: SecurityLevel::None, expand: true, special: rng.chance(1, 4), family: "generated_list".into() };
                run_config(&env, rep, &r, n * k <= 1 << 12);
            }
        }
    }
}

// ------------------------------------------------------------------------------------------ RNS-plain wrapper
/// `RnspHeContext` holds one ordinary context per plain modulus over the same coefficient modulus. Its
/// `parameters_set()` is the wrapper's validation verdict: it must be true exactly when every component
/// parameter set is admissible (the independent predicate) - one bad plain modulus among good ones included.
fn rnsp_case(cfg: &Cfg, store: &IdStore, case: u64, rng: &mut Rng, rep: &mut Report) {
    use heathcliff::app::rns_plain::{RnspEncryptionParameters, RnspHeContext};
    let env = Env { cfg, grp: "rnsp_wrapper", case, store, cache: None };
    let scheme = if rng.chance(1, 2) { SchemeType::BFV } else { SchemeType::BGV };
    let n = 8usize << rng.below(4);
    let k = 1 + rng.usize_below(3);
    let qs = crate::he::ntt_primes(n, 30 + rng.below(21) as u32, k, rng.usize_below(4));
    if qs.len() < k { rep.out_of_precondition += 1; return; }
    let big_q = refm::product(&qs);
    let count = 1 + rng.usize_below(4);
    // which positions are inadmissible: none / exactly one (any position) / several / all
    let bad_mask: u32 = match rng.below(8) { 0 | 1 | 2 => 0, 3 | 4 | 5 => 1 << rng.below(count as u64), 6 => rng.below(1 << count) as u32, _ => (1 << count) - 1 };
    let mut ts: Vec<u64> = vec![];
    for i in 0..count {
        let t = if bad_mask >> i & 1 == 1 {
            match rng.below(3) {
                0 => qs[rng.usize_below(k)],                                   // shares a factor with q
                1 => qs[0] * (2 + rng.below(3)),                                // multiple of a coefficient prime
                _ => { if big_q.bits() <= 58 { let mut v = (1u64 << big_q.bits()) + 1 + 2 * rng.below(1000); while qs.iter().any(|&q| refm::gcd(q, v) != 1) { v += 2; } v } else { qs[k - 1] } } // t >= q
            }
        } else {
            let bits = 2 + rng.below((big_q.bits() as u64 - 3).min(40)) as u32;
            let mut v = (1u64 << (bits - 1)) | rng.below(1u64 << (bits - 1));
            let mut tries = 0;
            while (qs.iter().any(|&q| refm::gcd(q, v) != 1) || ts.contains(&v) || BigU::from_u64(v) >= big_q) && tries < 100 { v = (1u64 << (bits - 1)) | rng.below(1u64 << (bits - 1)); tries += 1; }
            v
        };
        ts.push(t);
    }
    let infos = Infos::new();
    let verdicts: Vec<Verdict> = ts.iter().map(|&t| level_verdict(scheme, n, &qs, t, SecurityLevel::None, &infos)).collect();
    let want = verdicts.iter().all(|v| v.tri() == Tri::Yes);
    let n_bad = verdicts.iter().filter(|v| v.tri() != Tri::Yes).count();
    let c = Cand { scheme, n, qs: Some(&qs[..]), t: ts[0], sec: SecurityLevel::None, expand: true, special: false };
    let desc = format!("plain moduli {:?} (reference: {} inadmissible: {:?})", ts, n_bad, verdicts.iter().map(|v| v.first()).collect::<Vec<_>>());
    let mods = match lib(|| (ts.iter().map(|&t| Modulus::new(t)).collect::<Vec<_>>(), qs.iter().map(|&q| Modulus::new(q)).collect::<Vec<_>>())) { Ok(m) => m, Err(_) => { rep.out_of_precondition += 1; return; } };
    let class = format!("{}_of_{}_bad", if n_bad == 0 { "0".to_string() } else if n_bad == count { "all".to_string() } else { "some".to_string() }, if count == 1 { "1" } else { "many" });
    rep.eval(Some(&format!("rnsp/{:?}/{}/{:?}/{:?}", scheme, n, qs, ts)));
    for expand in [true, false] {
        let parms = RnspEncryptionParameters::new(scheme).set_poly_modulus_degree(n).set_plain_modulus(mods.0.clone()).set_coeff_modulus(mods.1.clone());
        let ctx = match lib(|| RnspHeContext::new(parms, expand, SecurityLevel::None)) {
            Ok(c) => c,
            Err(p) => { env.viol(rep, "RnspHeContext::new", &class, "panic", format!("RnspHeContext::new panicked: {} ; {}", p.0, desc), &c); return; }
        };
        rep.count("rnsp_wrapper_verdicts(bad_components)", &class);
        if ctx.components.len() != count { env.viol(rep, "RnspHeContext::new", &class, "component_count", format!("{} components for {} plain moduli ; {}", ctx.components.len(), count, desc), &c); return; }
        match lib(|| ctx.parameters_set()) {
            Err(p) => env.viol(rep, "RnspHeContext::parameters_set", &class, "panic", format!("parameters_set panicked: {} ; {}", p.0, desc), &c),
            Ok(got) => {
                if got != want { env.viol(rep, "RnspHeContext::parameters_set", &class, if got { "accepts_invalid" } else { "rejects_valid" }, format!("wrapper verdict {} but the reference verdict is {} ; {}", got, want, desc), &c); }
            }
        }
        // each component agrees with the reference verdict for its own plain modulus and reports that plain modulus
        for (i, comp) in ctx.components.iter().enumerate() {
            let got = comp.parameters_set(); let w = verdicts[i].tri() == Tri::Yes;
            if got != w { env.viol(rep, "RnspHeContext::components", &class, if got { "accepts_invalid" } else { "rejects_valid" }, format!("component {} verdict {} but reference {} ({}) ; {}", i, got, w, verdicts[i].first(), desc), &c); }
        }
        if want {
            match lib(|| ctx.plain_modulus().iter().map(|m| m.value()).collect::<Vec<u64>>()) {
                Ok(pm) => if pm != ts { env.viol(rep, "RnspHeContext::plain_modulus", &class, "value", format!("plain_modulus() = {:?} ; {}", pm, desc), &c); },
                Err(p) => env.viol(rep, "RnspHeContext::plain_modulus", &class, "panic", format!("plain_modulus panicked: {} ; {}", p.0, desc), &c),
            }
        }
    }
}

pub fn run(cfg: &Cfg, rep: &mut Report) -> PropMeta {
    let u = Universe::new();
    let store = IdStore::new();
    let replay_grp = cfg.only_case.as_ref().map(|x| x.0.clone());
    let want = |g: &str| replay_grp.as_deref().map(|x| x == g).unwrap_or(true);

    // (1) exhaustive small universe
    if want("universe") {
        let n_cases = (u.n_lists() * u.degrees.len()) as u64;
        run_cases(cfg, "universe", n_cases, rep, |i, _rng, rep| universe_case(cfg, &u, &store, i, rep));
    }
    // (2) random larger configurations + security table boundary
    if want("random") {
        let n = cfg.n(2500, 40_000) as u64;
        run_cases(cfg, "random", n, rep, |i, rng, rep| {
            let env = Env { cfg, grp: "random", case: i, store: &store, cache: None };
            let r = gen_random(rng);
            let cheap = r.n * r.qs.len() <= 1 << 14;
            run_config(&env, rep, &r, cheap || i % 4 == 0);
        });
    }
    if want("secbound") {
        run_cases(cfg, "secbound", 6 * 3 * 3 * 3, rep, |i, _rng, rep| secbound_case(cfg, &store, i, rep));
    }
    // (3) generators
    if want("generators") {
        let n = 17 + 1 + cfg.n(400, 6000) as u64;
        run_cases(cfg, "generators", n, rep, |i, rng, rep| generators_case(cfg, &store, i, rng, rep));
    }
    if want("rnsp_wrapper") {
        let n = cfg.n(600, 8000) as u64;
        run_cases(cfg, "rnsp_wrapper", n, rep, |i, rng, rep| rnsp_case(cfg, &store, i, rng, rep));
    }
    rep.max("distinct_parameter_objects_in_collision_check", store.len() as f64);
    rep.note("use_special_prime_for_encryption is not part of the hashed words: two parameter objects that differ only in that flag share their id (documented word layout = scheme, N, q_i, t); the collision check identifies objects by those words");
    rep.note("composite coefficient/plain moduli: the library looks for a primitive 2N-th root by a randomised search (rand::thread_rng, not the verif entropy hook) that assumes a prime modulus; outcomes for composite NTT-friendly moduli are counted in the composite_* tables");

    let exhaustive = !cfg.quick() && cfg.only_case.is_none();
    PropMeta {
        id: "C13", level: "exploration",
        rule: "universe (enumerated completely in the thorough tier; quick = every list of length <= 2 and a seed-dependent 1/8 of the lists of length 3): schemes {none,bfv,ckks,bgv} x degrees {0,1,2,3,4,6,8,16,1024,2^17,2^18} x coefficient lists {unset, empty, every ordered list with repetition of length 1..3 over {0,2,3,5,13,17,97,193,257,7681,12289,4,15,21,34,85, largest 60-bit prime = 1 mod 2^18, largest 61-bit prime = 1 mod 2^18}} x plain moduli {0,2,3,16,17,34,257,2^58, second largest 60-bit prime = 1 mod 2^18, 2^60+1} x security {none,128,192,256} x expand_mod_chain x use_special_prime flag; builder panics = not constructible (skipped). random: 1..64 moduli of 6..60 bits at N = 2..32768 around/over the security budget with injected duplicates, composites, non-NTT primes, 61-bit and zero moduli, all kinds of plain moduli. secbound: every (N, level) of the security table at max-1/max/max+1 total bits. generators: create/batching for every N = 2..2^17 x every size 2..60, random size lists up to 64 entries, bfv_default and max_bit_count for every N x level. distinct = distinct (scheme, outcome, reason / chain length, flags) classes. rnsp_wrapper: the RNS-plain wrapper context over 1..4 plain moduli of which none / one at any position / several / all are inadmissible: wrapper verdict, per-component verdicts and plain_modulus() against the independent predicate",
        assumptions: vec![
            "reference security table (27/54/109/218/438/881, 19/37/75/152/305/611, 14/29/58/118/237/476 bits for N = 1024..32768) transcribed by hand from the HomomorphicEncryption.org standard (ternary secret, classical), not read from the library".into(),
            "parameter id layout of DESIGN.md appendix A: SHA-256 (sha2 crate) over little-endian u64 words [scheme, N, q_1..q_k, t]".into(),
            "harness BigU / u128 arithmetic, refm::is_prime (deterministic Miller-Rabin), Pollard-rho factorisation written in this file".into(),
            "documented limits: degree 2..2^17, 1..64 moduli of 2..60 bits, plain modulus 2..60 bits; the meaning of each error code is its doc comment in encryption_parameters.rs".into(),
            "a rejection must carry an error code whose documented meaning is true of the input (so admissible all-prime inputs must be accepted); for composite moduli that admit a 2N-th root the library's randomised root search may fail: such rejections / missing batching are counted, not reported".into(),
            "builder panics (Modulus::new on 1 or > 61 bits, empty list, scheme none with anything set, CKKS with a plain modulus) are the documented refusals and are skipped".into(),
            "second independent context is built in-process with another setter order and fresh Modulus objects; no child process".into(),
        ],
        exhaustive, floor: if cfg.only_case.is_some() { 1 } else { 50_000 },
    }
}
