//! C18 — multiparty protocols agree across parties and message orders, keep plaintexts.
//!
//! The harness is the network: every protocol object `send`s into a byte buffer and the buffers
//! are handed to `receive` in the order a HISTORY prescribes (for every round and receiver a
//! permutation of the n-1 senders). One *run* = create n `Participant`s (same common tape, private
//! randomness from the thread entropy seed) and drive every protocol once. The run is repeated with
//! identical seeds under every history; outputs must be identical word for word within a run
//! (all parties) and across histories. On the first history the outputs are also decided by
//! reference arithmetic on the parties' actual secrets (recovered with the reference inverse
//! transform): pk0 + pk1*s = -e, relin-key components c0 + c1*s - P*s^2|_j = noise, exact phases of
//! every produced ciphertext under the summed / target secret, and the library's ordinary
//! `Decryptor` under those secrets. A second group enumerates every non-empty set of withheld
//! messages and demands that `finish` (or `step2`) panics.

use crate::big::{BigI, BigU};
use crate::he::*;
use crate::refm;
use crate::rt::*;
use heathcliff::multiparty::participant::*;
use heathcliff::multiparty::utils::{BFVShareSampler, BFVSimdShareEncoder};
use heathcliff::util::{BlakeRNG, NTTTables, PRNGSeed};
use heathcliff::*;
use rand::{RngCore, SeedableRng};
use serde_json::{json, Value};
use std::sync::Arc;

const P: &str = "C18";
/// up to this degree inverse transforms are the O(N^2) reference; above it the library's inverse
/// NTT is used and cross-checked by Horner evaluation of the result at random transform points
const REF_MAX: usize = 256;
const ERR: f64 = 21.0;
const REFUSE_MSG: &str = "Not all participants have sent their messages";

// ------------------------------------------------------------------------------------------ context of a case
struct Cx<'a> { cfg: &'a Cfg, grp: &'a str, case: u64, info: Value }

fn viol(cx: &Cx, rep: &mut Report, op: &str, class: &str, kind: &str, detail: String) {
    rep.violation(&format!("{}|{}|{}|{}", P, op, class, kind), format!("{} ; setup {}", detail, cx.info),
        replay_json(cx.cfg, cx.grp, cx.case, json!({"op": op, "class": class, "setup": cx.info})));
}

struct Setup {
    spec: Spec,
    ctx: Arc<HeContext>,
    np: usize,
    tape: [u8; 64],
    entropy: u64,
    n: usize,
    t: u64,
    key_qs: Vec<u64>,
    data_qs: Vec<u64>,
    has_ks: bool,
    levels: usize,
    batch: Option<BatchEncoder>,
    ckks: Option<CKKSEncoder>,
    v1: Vec<u64>,
    m1: Vec<u64>,
    m2: Vec<u64>,
    z1: Vec<C64>,
    z2: Vec<C64>,
    scale: f64,
    p1: Plaintext,
    p2: Plaintext,
    /// largest data prime / special prime (key-switching noise factor)
    ratio: f64,
}

fn short(s: &str) -> String { s.chars().take(110).collect() }

/// parameter set: kd data primes of 50..59 bits + one 60-bit special prime (or, `flat`, no special
/// prime: every prime is a data prime and key switching is unavailable); batching plain modulus of at most 17 bits
fn make_setup(rng: &mut Rng, scheme: SchemeType, n: usize, kd: usize, np: usize, flat: bool) -> Result<Setup, String> {
    let mut bits: Vec<u32> = (0..kd).map(|_| rng.range(50, 59) as u32).collect();
    if !flat { bits.push(60); }
    let qs = coeff_primes(n, &bits, rng).ok_or("no primes")?;
    let logm = (2 * n).trailing_zeros();
    let t = if scheme == SchemeType::CKKS { 0 } else {
        let tb0 = rng.range((logm + 2).max(8) as u64, 17) as u32;
        let skip = rng.usize_below(3);
        (tb0..=17).chain((logm + 2)..tb0).flat_map(|tb| { let v = ntt_primes(n, tb, 6, skip); if v.is_empty() { ntt_primes(n, tb, 6, 0) } else { v } })
            .find(|c| !qs.contains(c)).ok_or("no batching prime")?
    };
    let spec = Spec { scheme, n, qs: qs.clone(), t, special_flag: flat, expand: true, family: format!("kd{}{}", kd, if flat { "-flat" } else { "+special" }) };
    let ctx = spec.context()?;
    let has_ks = ctx.using_keyswitching();
    if has_ks == flat { return Err("unexpected key-switching availability".into()); }
    let key_qs: Vec<u64> = ctx.key_context_data().unwrap().parms().coeff_modulus().iter().map(|m| m.value()).collect();
    let first = ctx.first_context_data().unwrap();
    let data_qs: Vec<u64> = first.parms().coeff_modulus().iter().map(|m| m.value()).collect();
    let mut levels = 0; let mut cur = Some(first.clone());
    while let Some(c) = cur { levels += 1; cur = c.next_context_data(); }
    let mut tape = [0u8; 64];
    for i in 0..8 { tape[i * 8..i * 8 + 8].copy_from_slice(&rng.u64().to_le_bytes()); }
    let entropy = rng.u64();
    let ratio = if flat { 1.0 } else { *data_qs.iter().max().unwrap() as f64 / *key_qs.last().unwrap() as f64 };
    let mut su = Setup { spec, ctx: ctx.clone(), np, tape, entropy, n, t, key_qs, data_qs, has_ks, levels, batch: None, ckks: None,
        v1: vec![], m1: vec![], m2: vec![], z1: vec![], z2: vec![], scale: 1.0, p1: Plaintext::new(), p2: Plaintext::new(), ratio };
    if scheme == SchemeType::CKKS {
        let enc = lib(|| CKKSEncoder::new(ctx.clone())).map_err(|p| p.0)?;
        let lq: f64 = su.data_qs.iter().map(|&q| (q as f64).log2()).sum();
        let sb = (((lq - (n as f64).log2() - 8.0) / 2.0).floor()).min(50.0);
        su.scale = 2f64.powi(sb as i32);
        let class = rng.below(3);
        let gen = |rng: &mut Rng| -> Vec<C64> { (0..n / 2).map(|_| match class { 0 => C64::new(rng.f64() * 2.0 - 1.0, 0.0), _ => C64::new((rng.f64() * 2.0 - 1.0) * 0.7, (rng.f64() * 2.0 - 1.0) * 0.7) }).collect() };
        su.z1 = gen(rng); su.z2 = gen(rng);
        let id = *ctx.first_parms_id();
        let (z1, z2, sc) = (su.z1.clone(), su.z2.clone(), su.scale);
        let (p1, p2) = lib(|| (enc.encode_c64_array_new(&z1, Some(id), sc), enc.encode_c64_array_new(&z2, Some(id), sc))).map_err(|p| p.0)?;
        su.p1 = p1; su.p2 = p2; su.ckks = Some(enc);
    } else {
        let enc = lib(|| BatchEncoder::new(ctx.clone())).map_err(|p| p.0)?;
        su.v1 = match rng.below(5) { 0 => vec![0; n], 1 => vec![t - 1; n], _ => (0..n).map(|_| rng.below(t)).collect() };
        let v1 = su.v1.clone();
        let p1 = lib(|| enc.encode_new(&v1)).map_err(|p| p.0)?;
        let back = lib(|| enc.decode_new(&p1)).map_err(|p| p.0)?;
        if back != su.v1 { return Err("BatchEncoder decode(encode(v)) != v (out of this property's precondition)".into()); }
        su.m1 = plain_coeffs(&p1, n);
        let (_, c2) = crate::props::c01::gen_plain(rng, n, t);
        su.m2 = c2.clone(); su.m2.resize(n, 0);
        let mut p2 = Plaintext::new(); p2.resize(c2.len().max(1));
        for (i, &c) in c2.iter().enumerate() { p2.data_mut()[i] = c; }
        su.p1 = p1; su.p2 = p2; su.batch = Some(enc);
    }
    Ok(su)
}

fn describe(su: &Setup) -> Value {
    json!({"params": su.spec.describe(), "parties": su.np, "tape_seed_word0": u64::from_le_bytes(su.tape[0..8].try_into().unwrap()), "entropy_seed": su.entropy, "levels": su.levels})
}

// ------------------------------------------------------------------------------------------ histories
fn factorial(k: usize) -> usize { (1..=k).product::<usize>().max(1) }
fn nth_perm(mut items: Vec<usize>, mut k: usize) -> Vec<usize> {
    let mut out = vec![];
    while !items.is_empty() { let f = factorial(items.len() - 1); let i = (k / f) % items.len(); k %= f; out.push(items.remove(i)); }
    out
}

/// A history: for every (stage, round, receiver) the order in which the other parties' messages are received.
/// Enumerated mode (n <= 4): the history number is a pair (a, b) of permutation indices; receiver r in round
/// 0 uses permutation a + r + stage, in round 1 permutation b + r + stage (mod (n-1)!): over all (a, b) every
/// receiver sees every order in every round, and for the two-round protocol every pair of orders.
/// Sampled mode (n >= 5): history 0 is ascending order, the others are independent random permutations.
struct Hist { np: usize, f: usize, idx: usize, sampled: bool, salt: u64 }
impl Hist {
    fn order(&self, stage: u64, round: usize, receiver: usize) -> Vec<usize> {
        let mut others: Vec<usize> = (0..self.np).filter(|&i| i != receiver).collect();
        if self.sampled {
            if self.idx > 0 { Rng::derive(self.salt, self.idx as u64 * 4096 + stage * 8 + round as u64, receiver as u64).shuffle(&mut others); }
            others
        } else {
            let base = if round == 0 { self.idx % self.f } else { self.idx / self.f };
            nth_perm(others, (base + receiver + stage as usize) % self.f)
        }
    }
}

// ------------------------------------------------------------------------------------------ network helpers
trait Proto { type Out;
    fn snd(&self, w: &mut Vec<u8>) -> std::io::Result<()>;
    fn rcv(&mut self, from: usize, r: &mut &[u8]) -> std::io::Result<()>;
    fn fin(self) -> Self::Out;
}
macro_rules! proto_impl { ($t:ident, $out:ty) => {
    impl<'a> Proto for $t<'a> { type Out = $out;
        fn snd(&self, w: &mut Vec<u8>) -> std::io::Result<()> { self.send(w) }
        fn rcv(&mut self, from: usize, r: &mut &[u8]) -> std::io::Result<()> { self.receive(from, r) }
        fn fin(self) -> $out { self.finish() } }
} }
proto_impl!(PublicKeyGenerationProtocol, PublicKey);
proto_impl!(SecretKeyRevelationProtocol, SecretKey);
proto_impl!(KeySwitchProtocol, Ciphertext);
proto_impl!(DecryptionProtocol, Plaintext);
proto_impl!(PublicKeySwitchProtocol, Ciphertext);

/// (phase, party, message)
type NetFail = (String, usize, String);

fn collect_msgs<T>(protos: &[T], senders: &[usize], snd: &dyn Fn(&T, &mut Vec<u8>) -> std::io::Result<()>) -> Result<Vec<Vec<u8>>, NetFail> {
    let mut msgs = vec![vec![]; protos.len()];
    for &i in senders {
        let mut buf = vec![];
        match lib(|| snd(&protos[i], &mut buf)) {
            Ok(Ok(())) => {}
            Ok(Err(e)) => return Err(("send:io_error".into(), i, e.to_string())),
            Err(p) => return Err(("send:panic".into(), i, p.0)),
        }
        if buf.is_empty() { return Err(("send:empty_message".into(), i, "send wrote nothing".into())); }
        msgs[i] = buf;
    }
    Ok(msgs)
}

/// hand to every receiver the messages of `order(receiver)` (minus `skip`), in that order
fn deliver<T>(protos: &mut [T], msgs: &[Vec<u8>], receivers: &[usize], order: &dyn Fn(usize) -> Vec<usize>, skip: &dyn Fn(usize, usize) -> bool,
    rcv: &dyn Fn(&mut T, usize, &mut &[u8]) -> std::io::Result<()>) -> Result<u64, NetFail> {
    let mut trailing = 0u64;
    for &r in receivers {
        for s in order(r) {
            if skip(r, s) { continue; }
            let mut rd: &[u8] = &msgs[s];
            let pr = &mut protos[r];
            match lib(|| rcv(pr, s, &mut rd)) {
                Ok(Ok(())) => {}
                Ok(Err(e)) => return Err(("receive:io_error".into(), r, format!("from {}: {}", s, e))),
                Err(p) => return Err(("receive:panic".into(), r, format!("from {}: {}", s, p.0))),
            }
            if !rd.is_empty() { trailing += 1; }
        }
    }
    Ok(trailing)
}

// ------------------------------------------------------------------------------------------ fingerprints (full contents)
fn fp_ct(c: &Ciphertext) -> Vec<u64> {
    let mut v = vec![c.size() as u64, c.is_ntt_form() as u64, c.scale().to_bits(), c.correction_factor()];
    v.extend_from_slice(&c.parms_id()[..]); v.extend_from_slice(c.data()); v
}
fn fp_pt(p: &Plaintext) -> Vec<u64> {
    let mut v = vec![p.coeff_count() as u64, p.scale().to_bits()];
    v.extend_from_slice(&p.parms_id()[..]); v.extend_from_slice(p.data()); v
}
fn fp_sk(s: &SecretKey) -> Vec<u64> { let mut v = s.parms_id()[..].to_vec(); v.extend_from_slice(s.data()); v }
fn fp_rlk(r: &RelinKeys) -> Vec<u64> {
    let ks = r.as_kswitch_keys();
    let mut v = ks.parms_id()[..].to_vec(); v.push(ks.data().len() as u64);
    for row in ks.data() { v.push(row.len() as u64); for k in row { v.extend(fp_ct(k.as_ciphertext())); } }
    v
}
fn first_diff(a: &[u64], b: &[u64]) -> String {
    if a.len() != b.len() { return format!("lengths {} vs {}", a.len(), b.len()); }
    match a.iter().zip(b).position(|(x, y)| x != y) { Some(i) => format!("first differing word {} of {}: {} vs {}", i, a.len(), a[i], b[i]), None => "equal".into() }
}

// ------------------------------------------------------------------------------------------ reference arithmetic
fn inv_ntt(tables: &[NTTTables], i: usize, q: u64, v: &[u64]) -> Vec<u64> {
    let n = v.len();
    let psi = tables[i].root();
    assert!(refm::is_primitive_2n_root(psi, n, q), "published root is not a primitive 2N-th root");
    if n <= REF_MAX { return refm::intt_ref(v, psi, q); }
    let mut a = v.to_vec();
    heathcliff::verif::polysmallmod::intt(&mut a, &tables[i]);
    for x in a.iter_mut() { *x %= q; }
    // cross-check against the definition: a(psi^(2*bitrev(j)+1)) = v[j] at random j (any single wrong
    // coefficient changes the value at every point)
    let logn = n.trailing_zeros() as usize;
    let mut r = Rng::new(q ^ v[0] ^ (n as u64) << 32);
    for k in 0..8 {
        let j = if k == 0 { 0 } else { r.usize_below(n) };
        let x = refm::powmod(psi, (2 * refm::bitrev(j, logn) + 1) as u64, q);
        assert_eq!(refm::horner(&a, x, q), v[j] % q, "library inverse NTT disagrees with the definition (cross-check)");
    }
    a
}

fn mul_small(a: &[u64], s: &[i64], q: u64) -> Vec<u64> {
    let n = a.len();
    let mut acc = vec![0i128; n];
    for (j, &sj) in s.iter().enumerate() {
        if sj == 0 { continue; }
        let sj = sj as i128;
        for i in 0..n - j { acc[i + j] += a[i] as i128 * sj; }
        for i in n - j..n { acc[i + j - n] -= a[i] as i128 * sj; }
    }
    acc.iter().map(|&x| x.rem_euclid(q as i128) as u64).collect()
}

/// a secret known in coefficient form (small integers), in transform form per key component, and as a library key
struct Sec { coef: Vec<i64>, hat: Vec<Vec<u64>>, key: SecretKey }

fn recover_ternary(su: &Setup, sk: &SecretKey) -> Result<Vec<i64>, String> {
    let kd = su.ctx.key_context_data().unwrap();
    let tables = kd.small_ntt_tables();
    let n = su.n;
    if sk.data().len() != n * su.key_qs.len() { return Err(format!("secret key has {} words", sk.data().len())); }
    let mut s: Vec<i64> = vec![];
    for (i, &q) in su.key_qs.iter().enumerate() {
        let c = inv_ntt(tables, i, q, &sk.data()[i * n..(i + 1) * n]);
        let si: Result<Vec<i64>, String> = c.iter().map(|&x| if x == 0 { Ok(0) } else if x == 1 { Ok(1) } else if x == q - 1 { Ok(-1) } else { Err(format!("secret coefficient {} mod {} is not ternary", x, q)) }).collect();
        let si = si?;
        if i == 0 { s = si; } else if s != si { return Err("secret key components disagree".into()); }
    }
    Ok(s)
}

fn sum_secret(su: &Setup, sks: &[SecretKey]) -> Result<Sec, String> {
    let n = su.n;
    let mut coef = vec![0i64; n];
    let mut hat: Vec<Vec<u64>> = su.key_qs.iter().map(|_| vec![0u64; n]).collect();
    for sk in sks {
        let s = recover_ternary(su, sk)?;
        for j in 0..n { coef[j] += s[j]; }
        for (i, &q) in su.key_qs.iter().enumerate() { for j in 0..n { hat[i][j] = refm::addmod(hat[i][j], sk.data()[i * n + j], q); } }
    }
    let mut key = sks[0].clone();
    for i in 0..su.key_qs.len() { key.data_mut()[i * n..(i + 1) * n].copy_from_slice(&hat[i]); }
    Ok(Sec { coef, hat, key })
}

/// exact centered phase c0 + c1 s (+ c2 s^2) of a ciphertext at its level
fn phase(su: &Setup, ct: &Ciphertext, sec: &Sec) -> Result<(Vec<BigI>, BigU), String> {
    let cd = su.ctx.get_context_data(ct.parms_id()).ok_or("ciphertext level unknown to the context")?;
    let qs: Vec<u64> = cd.parms().coeff_modulus().iter().map(|m| m.value()).collect();
    let tables = cd.small_ntt_tables();
    let n = su.n; let size = ct.size();
    if size < 2 || ct.data().len() != size * qs.len() * n { return Err(format!("ciphertext shape: size {} words {}", size, ct.data().len())); }
    let mut comps = vec![];
    for (i, &q) in qs.iter().enumerate() {
        let v = if ct.is_ntt_form() {
            let h = &sec.hat[i];
            let acc: Vec<u64> = (0..n).map(|x| { let mut a = 0u64; for j in (0..size).rev() { a = refm::addmod(refm::mulmod(a, h[x], q), ct.poly_component(j, i)[x] % q, q); } a }).collect();
            inv_ntt(tables, i, q, &acc)
        } else {
            let mut acc: Vec<u64> = ct.poly_component(size - 1, i).iter().map(|&x| x % q).collect();
            for j in (0..size - 1).rev() { acc = mul_small(&acc, &sec.coef, q); acc = refm::poly_add(&acc, ct.poly_component(j, i), q); }
            acc
        };
        comps.push(v);
    }
    let crt = refm::Crt::new(&qs).ok_or("moduli not coprime")?;
    let ph = (0..n).map(|j| { let r: Vec<u64> = comps.iter().map(|c| c[j]).collect(); crt.compose_centered(&r) }).collect();
    Ok((ph, crt.big_q))
}

/// RNS polynomial in transform form -> centered coefficients
fn lift_ntt_poly(su: &Setup, id: &ParmsID, data: &[u64]) -> Result<(Vec<BigI>, BigU), String> {
    let cd = su.ctx.get_context_data(id).ok_or("level unknown")?;
    let qs: Vec<u64> = cd.parms().coeff_modulus().iter().map(|m| m.value()).collect();
    let n = su.n;
    if data.len() != n * qs.len() { return Err(format!("polynomial has {} words, level has {} components", data.len(), qs.len())); }
    let comps: Vec<Vec<u64>> = qs.iter().enumerate().map(|(i, &q)| inv_ntt(cd.small_ntt_tables(), i, q, &data[i * n..(i + 1) * n])).collect();
    let crt = refm::Crt::new(&qs).ok_or("moduli not coprime")?;
    Ok(((0..n).map(|j| { let r: Vec<u64> = comps.iter().map(|c| c[j]).collect(); crt.compose_centered(&r) }).collect(), crt.big_q))
}

fn max_abs(v: &[BigI]) -> BigU { let mut m = BigU::zero(); for x in v { let a = x.abs(); if a > m { m = a; } } m }

#[derive(Clone)]
enum Expect { Poly(Vec<u64>), Slots(Vec<C64>) }

fn vmax(v: &[C64]) -> f64 { v.iter().map(|x| x.norm()).fold(0.0, f64::max) }
fn slot_err(got: &[C64], want: &[C64]) -> f64 {
    if got.len() < want.len() { return f64::INFINITY; }
    let mut w = 0.0f64; for i in 0..want.len() { let d = (got[i] - want[i]).norm(); if !(d <= w) { w = if d.is_nan() { f64::INFINITY } else { d.max(w) }; } } w
}
fn log2q(qs: &[u64]) -> f64 { qs.iter().map(|&q| (q as f64).log2()).sum() }
fn level_qs(su: &Setup, id: &ParmsID) -> Vec<u64> { su.ctx.get_context_data(id).map(|c| c.parms().coeff_modulus().iter().map(|m| m.value()).collect()).unwrap_or_default() }

/// noise precondition for exact decryption: t * E * 8 < Q_level
fn exact_pre(su: &Setup, id: &ParmsID, e: f64) -> bool { (su.t as f64).log2() + e.log2() + 3.0 < log2q(&level_qs(su, id)) }
/// CKKS slot tolerance for coefficient noise E at scale `scale`
fn ckks_tol(su: &Setup, id: &ParmsID, e: f64, scale: f64, vm: f64) -> f64 {
    let k = level_qs(su, id).len();
    (su.n as f64) * (e + 1.0) / scale + ckks_fp_tolerance(su.n, k, vm, scale)
}

/// decide an output ciphertext: exact phase under `sec` (reference) and the library's ordinary Decryptor under sec.key
fn check_ct(cx: &Cx, rep: &mut Report, su: &Setup, sec: &Sec, ct: &Ciphertext, want: &Expect, op: &str, e: f64) {
    let sname = su.spec.scheme_name();
    let cls = format!("scheme={}", sname);
    if ct.size() != 2 && !op.starts_with("relin") { viol(cx, rep, op, &cls, "shape", format!("output ciphertext has size {}", ct.size())); return; }
    let t = su.t;
    match want {
        Expect::Poly(w) => {
            if !exact_pre(su, ct.parms_id(), e) { rep.out_of_precondition += 1; return; }
            match phase(su, ct, sec) {
                Err(m) => viol(cx, rep, op, &cls, "shape", m),
                Ok((ph, q)) => {
                    let (msg, margin): (Vec<u64>, f64) = if su.spec.scheme == SchemeType::BFV {
                        let mut norm = BigU::zero();
                        let m = ph.iter().map(|x| { let tx = x.mul_u64(t); let y = crate::big::centered(&tx.modp(&q), &q).abs(); if y > norm { norm = y; } tx.div_round_half_up(&q).mod_u64(t) }).collect();
                        (m, log2_big(&q) - 1.0 - log2_big(&norm).max(0.0))
                    } else {
                        let finv = refm::invmod(ct.correction_factor() % t, t).unwrap_or(0);
                        let norm = max_abs(&ph);
                        (ph.iter().map(|x| refm::mulmod(x.mod_u64(t), finv, t)).collect(), log2_big(&q) - 1.0 - log2_big(&norm).max(0.0))
                    };
                    rep.min(&format!("noise_margin_bits|{}|{}", sname, op), margin);
                    if &msg != w {
                        let k = msg.iter().zip(w).position(|(a, b)| a != b).unwrap_or(0);
                        viol(cx, rep, op, &cls, "value", format!("reference decryption under the expected secret differs from the plaintext: coefficient {} is {} expected {} (noise margin {:.1} bits)", k, msg[k], w[k], margin));
                    }
                }
            }
            match lib(|| Decryptor::new(su.ctx.clone(), sec.key.clone()).decrypt_new(ct)) {
                Err(p) => viol(cx, rep, op, &format!("{}-Decryptor", cls), "panic", format!("ordinary Decryptor panicked on the output: {}", p.0)),
                Ok(d) => { let got = plain_coeffs(&d, su.n); if &got != w {
                    let k = got.iter().zip(w).position(|(a, b)| a != b).unwrap_or(0);
                    viol(cx, rep, op, &format!("{}-Decryptor", cls), "value", format!("ordinary Decryptor under the expected secret: coefficient {} is {} expected {}", k, got[k], w[k])); } }
            }
        }
        Expect::Slots(w) => {
            let tol = ckks_tol(su, ct.parms_id(), e, ct.scale(), vmax(w));
            match phase(su, ct, sec) {
                Err(m) => viol(cx, rep, op, &cls, "shape", m),
                Ok((ph, _)) => {
                    let coeffs: Vec<f64> = ph.iter().map(|x| x.to_f64() / ct.scale()).collect();
                    let err = slot_err(&embed_decode(&coeffs), w);
                    rep.max(&format!("ckks_error_over_tolerance|{}", op), err / tol);
                    if !(err <= tol) { viol(cx, rep, op, &cls, "value", format!("reference decryption under the expected secret differs from the plaintext by {:e} > tolerance {:e}", err, tol)); }
                }
            }
            let enc = su.ckks.as_ref().unwrap();
            match lib(|| enc.decode_new(&Decryptor::new(su.ctx.clone(), sec.key.clone()).decrypt_new(ct))) {
                Err(p) => viol(cx, rep, op, &format!("{}-Decryptor", cls), "panic", format!("ordinary Decryptor/decoder panicked on the output: {}", p.0)),
                Ok(d) => { let err = slot_err(&d, w); if !(err <= tol) { viol(cx, rep, op, &format!("{}-Decryptor", cls), "value", format!("ordinary Decryptor under the expected secret: slots differ by {:e} > tolerance {:e}", err, tol)); } }
            }
        }
    }
}

/// decide a plaintext returned by collective decryption of `ct`
fn check_plain(cx: &Cx, rep: &mut Report, su: &Setup, pt: &Plaintext, ct: &Ciphertext, want: &Expect, label: &str, e: f64) {
    let sname = su.spec.scheme_name();
    let cls = format!("scheme={}", sname);
    // one signature per protocol: the kind of input ciphertext (fresh / level_down / product) goes into the detail
    let op = label.split(':').next().unwrap_or(label);
    let input = label.split(':').nth(1).unwrap_or("");
    match want {
        Expect::Poly(w) => {
            if !exact_pre(su, ct.parms_id(), e) { rep.out_of_precondition += 1; return; }
            if pt.is_ntt_form() || pt.coeff_count() > su.n || pt.coeff_count() == 0 { viol(cx, rep, op, &cls, "shape", format!("plaintext metadata: ntt={} coeff_count={}", pt.is_ntt_form(), pt.coeff_count())); return; }
            let got = plain_coeffs(pt, su.n);
            if &got != w {
                let k = got.iter().zip(w).position(|(a, b)| a != b).unwrap_or(0);
                let nd = got.iter().zip(w).filter(|(a, b)| a != b).count();
                viol(cx, rep, op, &cls, "value", format!("collective decryption of a {} ciphertext returned a different plaintext: {} of {} coefficients differ, first at {}: {} expected {} (ciphertext ntt_form={}, correction factor {})", input, nd, su.n, k, got[k], w[k], ct.is_ntt_form(), ct.correction_factor()));
            }
        }
        Expect::Slots(w) => {
            let tol = ckks_tol(su, ct.parms_id(), e, ct.scale(), vmax(w));
            if pt.parms_id() != ct.parms_id() || pt.scale().to_bits() != ct.scale().to_bits() { viol(cx, rep, op, &cls, "shape", format!("plaintext level/scale differ from the ciphertext's (scale {} vs {})", pt.scale(), ct.scale())); return; }
            match lift_ntt_poly(su, pt.parms_id(), pt.data()) {
                Err(m) => viol(cx, rep, op, &cls, "shape", m),
                Ok((c, _)) => {
                    let coeffs: Vec<f64> = c.iter().map(|x| x.to_f64() / pt.scale()).collect();
                    let err = slot_err(&embed_decode(&coeffs), w);
                    rep.max(&format!("ckks_error_over_tolerance|{}", label), err / tol);
                    if !(err <= tol) { viol(cx, rep, op, &cls, "value", format!("[{}] collectively decrypted slots (reference decoding) differ by {:e} > tolerance {:e}", input, err, tol)); }
                }
            }
            let enc = su.ckks.as_ref().unwrap();
            match lib(|| enc.decode_new(pt)) {
                Err(p) => viol(cx, rep, op, &format!("{}-decoder", cls), "panic", format!("CKKSEncoder::decode panicked on the collectively decrypted plaintext: {}", p.0)),
                Ok(d) => { let err = slot_err(&d, w); if !(err <= tol) { viol(cx, rep, op, &format!("{}-decoder", cls), "value", format!("collectively decrypted slots (library decoding) differ by {:e} > tolerance {:e}", err, tol)); } }
            }
        }
    }
}

/// pk0 + pk1 s = -e (BGV: -t e) with |e| <= 21 n, on every key component
fn check_pk(cx: &Cx, rep: &mut Report, su: &Setup, sec: &Sec, pk: &PublicKey) -> Option<f64> {
    let sname = su.spec.scheme_name(); let cls = format!("scheme={}", sname);
    let kd = su.ctx.key_context_data().unwrap();
    let c = pk.as_ciphertext();
    if c.size() != 2 || !c.is_ntt_form() || c.parms_id() != kd.parms_id() || pk.parms_id() != kd.parms_id() || c.data().len() != 2 * su.n * su.key_qs.len() {
        viol(cx, rep, "pkgen", &cls, "shape", format!("collective public key: size {} ntt {} words {}", c.size(), c.is_ntt_form(), c.data().len())); return None;
    }
    let (ph, _) = match phase(su, c, sec) { Ok(x) => x, Err(m) => { viol(cx, rep, "pkgen", &cls, "shape", m); return None; } };
    noise_verdict(cx, rep, su, "pkgen", &cls, &ph, ERR * su.np as f64, "pk0 + pk1*s")
}

/// Per-party view of public-key generation: party i's message is p0_i = -(a s_i + e_i) with its own secret s_i and the common a
/// (= pk1); the e_i so defined must each be a fresh error (|e_i| <= 21, BGV t*e_i) and -- being private randomness, not common-tape
/// randomness -- must not coincide between parties (two honest samples of N >= 16 coefficients coincide with probability < 1e-15).
fn check_pk_messages(cx: &Cx, rep: &mut Report, su: &Setup, sks: &[SecretKey], pk: &PublicKey, msgs: &[Vec<u8>]) {
    if msgs.len() != su.np { return; }
    let cls = format!("scheme={}", su.spec.scheme_name());
    let kd = su.ctx.key_context_data().unwrap();
    let n = su.n; let q = su.key_qs[0];
    let a = pk.as_ciphertext().poly_component(1, 0);
    let mut es: Vec<Vec<i64>> = vec![];
    for (i, m) in msgs.iter().enumerate() {
        let mut rd: &[u8] = m;
        let Ok(Ok(p0)) = lib(|| PolynomialSerializer::deserialize_polynomial(&su.ctx, &mut rd)) else { return; };
        if p0.len() != n * su.key_qs.len() { return; }
        let acc: Vec<u64> = (0..n).map(|x| refm::addmod(p0[x] % q, refm::mulmod(a[x], sks[i].data()[x], q), q)).collect();
        let c = inv_ntt(kd.small_ntt_tables(), 0, q, &acc);
        let e: Vec<i64> = c.iter().map(|&x| if x > q / 2 { -((q - x) as i64) } else { x as i64 }).collect();
        let lim = if su.spec.scheme == SchemeType::BGV { ERR as i64 * su.t as i64 } else { ERR as i64 };
        if e.iter().any(|x| x.abs() > lim) || (su.spec.scheme == SchemeType::BGV && e.iter().any(|x| x % su.t as i64 != 0)) {
            viol(cx, rep, "pkgen", &format!("{}:per_party_message", cls), "value", format!("party {}'s message p0_i + a*s_i is not a fresh error polynomial (max |coefficient| {})", i, e.iter().map(|x| x.abs()).max().unwrap_or(0)));
            return;
        }
        es.push(e);
    }
    let shared = (1..es.len()).any(|i| (0..i).any(|j| es[i] == es[j]));
    rep.count("pkgen_private_noise", if shared { "identical between two parties" } else { "per-party errors <= 21 and pairwise distinct" });
    if shared { viol(cx, rep, "pkgen", &format!("{}:private_noise_identical", cls), "value", "two parties' error polynomials e_i = -(p0_i + a*s_i) are identical: private randomness is being drawn from the common tape".into()); }
}

/// |v| <= bound (BGV: v = t * v', |v'| <= bound); returns the observed norm
fn noise_verdict(cx: &Cx, rep: &mut Report, su: &Setup, op: &str, cls: &str, v: &[BigI], bound: f64, what: &str) -> Option<f64> {
    let (norm, ok_div) = if su.spec.scheme == SchemeType::BGV {
        let div = v.iter().all(|x| x.mod_u64(su.t) == 0);
        (max_abs(v).to_f64() / su.t as f64, div)
    } else { (max_abs(v).to_f64(), true) };
    rep.max(&format!("{}_noise_over_bound", op.split(':').next().unwrap_or(op)), norm / bound);
    if !ok_div { viol(cx, rep, op, cls, "value", format!("{} is not a multiple of t under the sum of the parties' secrets (BGV noise must be t*e)", what)); return None; }
    if !(norm <= bound) { viol(cx, rep, op, cls, "value", format!("{} under the sum of the parties' secrets has norm {:e} > bound {}", what, norm, bound)); return None; }
    Some(norm)
}

/// every relinearisation-key component: c0 + c1 s - [i=j] (P mod q_j) s^2 = noise
fn check_rlk(cx: &Cx, rep: &mut Report, su: &Setup, sec: &Sec, rlk: &RelinKeys) -> Option<f64> {
    let sname = su.spec.scheme_name(); let cls = format!("scheme={}", sname);
    let kd = su.ctx.key_context_data().unwrap();
    let tables = kd.small_ntt_tables();
    let k = su.key_qs.len(); let n = su.n;
    let ks = rlk.as_kswitch_keys();
    if ks.data().len() != 1 || ks.data()[0].len() != k - 1 || ks.parms_id() != kd.parms_id() {
        viol(cx, rep, "relin", &cls, "shape", format!("relinearisation key has {} rows, first row {} components, expected 1 x {}", ks.data().len(), ks.data().first().map(|r| r.len()).unwrap_or(0), k - 1)); return None;
    }
    let p_special = su.key_qs[k - 1];
    let np = su.np as f64;
    let bound = 2.0 * n as f64 * np * np * ERR + 2.0 * np * ERR;
    let crt = refm::Crt::new(&su.key_qs).unwrap();
    let mut worst = 0.0f64;
    for j in 0..k - 1 {
        let c = ks.data()[0][j].as_ciphertext();
        if c.size() != 2 || !c.is_ntt_form() || c.data().len() != 2 * n * k || c.parms_id() != kd.parms_id() { viol(cx, rep, "relin", &cls, "shape", format!("component {}: size {} ntt {} words {}", j, c.size(), c.is_ntt_form(), c.data().len())); return None; }
        let mut comps = vec![];
        for (i, &q) in su.key_qs.iter().enumerate() {
            let h = &sec.hat[i];
            let w = if i == j { p_special % q } else { 0 };
            let acc: Vec<u64> = (0..n).map(|x| {
                let a = refm::addmod(c.poly_component(0, i)[x] % q, refm::mulmod(c.poly_component(1, i)[x], h[x], q), q);
                refm::submod(a, refm::mulmod(w, refm::mulmod(h[x], h[x], q), q), q)
            }).collect();
            comps.push(inv_ntt(tables, i, q, &acc));
        }
        let v: Vec<BigI> = (0..n).map(|x| { let r: Vec<u64> = comps.iter().map(|c| c[x]).collect(); crt.compose_centered(&r) }).collect();
        match noise_verdict(cx, rep, su, "relin", &cls, &v, bound, &format!("component {}: c0 + c1*s - P*s^2|_{}", j, j)) { Some(x) => worst = worst.max(x), None => return None }
    }
    Some(worst)
}

// ------------------------------------------------------------------------------------------ CKKS share encoder / sampler (harness side)
struct CkksShareEnc { enc: CKKSEncoder, id: ParmsID, scale: f64 }
impl ShareEncoder for CkksShareEnc {
    type Share = Vec<C64>;
    fn encode(&self, share: &Vec<C64>) -> Plaintext { self.enc.encode_c64_array_new(share, Some(self.id), self.scale) }
    fn decode(&self, plaintext: &Plaintext) -> Vec<C64> { self.enc.decode_new(plaintext) }
}
struct CkksShareSampler { slots: usize }
impl ShareSampler for CkksShareSampler {
    type Share = Vec<C64>;
    fn sample(&self, prng: &mut BlakeRNG) -> Vec<C64> {
        let mut u = || (prng.next_u64() >> 11) as f64 / (1u64 << 53) as f64 * 2.0 - 1.0;
        (0..self.slots).map(|_| { let re = u(); let im = u(); C64::new(re, im) }).collect()
    }
}
fn fp_c64(v: &Vec<C64>) -> Vec<u64> { v.iter().flat_map(|z| [z.re.to_bits(), z.im.to_bits()]).collect() }

// ------------------------------------------------------------------------------------------ one run
#[derive(Default)]
struct RunOut { stages: Vec<(String, Vec<Option<Vec<u64>>>)>, draws: u64, summary: Vec<(String, Value)> }

fn upfront(cx: &Cx, rep: &mut Report, su: &Setup, label: &str, msg: &str, check: bool) {
    if !check { return; }
    if su.spec.scheme == SchemeType::BFV {
        viol(cx, rep, label, "scheme=BFV:construct", "panic", format!("constructing the protocol panicked: {}", msg));
    } else {
        rep.count("accepted", &format!("{}|{}|refused_up_front", label, su.spec.scheme_name()));
        rep.note(&format!("not accepted: {} in {}: {}", label, su.spec.scheme_name(), short(msg)));
    }
}

fn net_fail(cx: &Cx, rep: &mut Report, su: &Setup, label: &str, f: &NetFail, check: bool) {
    if !check { return; }
    let kind = f.0.split(':').nth(1).unwrap_or("panic");
    viol(cx, rep, label, &format!("scheme={}:{}", su.spec.scheme_name(), f.0.split(':').next().unwrap_or("")), kind, format!("party {}: {}", f.1, f.2));
}

/// within-run agreement: every party's output equals party 0's
fn agree(cx: &Cx, rep: &mut Report, su: &Setup, label: &str, fps: &[Option<Vec<u64>>]) {
    let Some(Some(base)) = fps.first() else { return; };
    let bad: Vec<String> = fps.iter().enumerate().skip(1).filter_map(|(i, f)| match f { Some(f) if f == base => None, Some(f) => Some(format!("party {}: {}", i, first_diff(base, f))), None => None }).collect();
    if !bad.is_empty() {
        viol(cx, rep, label, &format!("scheme={}", su.spec.scheme_name()), "disagree", format!("outputs of finish differ between parties (against party 0): {}", bad.join("; ")));
    }
}

/// single-round broadcast protocol: all send, all receive in history order, all finish
fn exchange<T: Proto>(cx: &Cx, rep: &mut Report, su: &Setup, label: &str, mut protos: Vec<T>, hist: &Hist, stage: u64, check: bool, keep: &mut Vec<Vec<u8>>) -> Vec<Option<T::Out>> {
    let np = protos.len();
    let all: Vec<usize> = (0..np).collect();
    let none = |np: usize| -> Vec<Option<T::Out>> { (0..np).map(|_| None).collect() };
    let msgs = match collect_msgs(&protos, &all, &|p: &T, w: &mut Vec<u8>| p.snd(w)) { Ok(m) => m, Err(f) => { net_fail(cx, rep, su, label, &f, check); return none(np); } };
    match deliver(&mut protos, &msgs, &all, &|r| hist.order(stage, 0, r), &|_, _| false, &|p: &mut T, s: usize, r: &mut &[u8]| p.rcv(s, r)) {
        Ok(tr) => { if tr > 0 && check { rep.count("messages", &format!("{}|trailing_bytes_after_receive", label)); } }
        Err(f) => { net_fail(cx, rep, su, label, &f, check); return none(np); }
    }
    if check { rep.count_n("messages", &format!("{}|bytes_per_message", label), msgs[0].len() as u64); *keep = msgs.clone(); }
    protos.into_iter().enumerate().map(|(i, p)| match lib(|| p.fin()) {
        Ok(o) => Some(o),
        Err(e) => { if check { viol(cx, rep, label, &format!("scheme={}:finish", su.spec.scheme_name()), "panic", format!("party {} finish panicked with all messages received: {}", i, e.0)); } None }
    }).collect()
}

fn run_once(cx: &Cx, rep: &mut Report, su: &Setup, hist: &Hist, check: bool) -> RunOut {
    heathcliff::verif::set_thread_entropy(Some(su.entropy));
    let mut out = RunOut::default();
    let scheme = su.spec.scheme; let sname = su.spec.scheme_name();
    let np = su.np; let n = su.n; let npf = np as f64; let nf = n as f64;
    let cls = format!("scheme={}", sname);
    let ctx = su.ctx.clone();

    let made: Result<Vec<Participant>, Panicked> = lib(|| (0..np).map(|i| Participant::new(np, i, ctx.clone(), BlakeRNG::from_seed(PRNGSeed(su.tape)))).collect());
    let mut parties = match made { Ok(p) => p, Err(e) => { if check { viol(cx, rep, "Participant::new", &cls, "panic", e.0); } return out; } };
    let sks: Vec<SecretKey> = parties.iter().map(|p| p.secret_key().clone()).collect();
    let sec: Option<Sec> = if check { match sum_secret(su, &sks) { Ok(s) => Some(s), Err(e) => { viol(cx, rep, "keygen", &cls, "value", format!("a party's secret key is malformed: {}", e)); None } } } else { None };

    let mut kept: Vec<Vec<u8>> = vec![];
    macro_rules! record { ($label:expr, $outs:expr, $fp:expr, $agree:expr) => {{
        let fps: Vec<Option<Vec<u64>>> = $outs.iter().map(|o| o.as_ref().map($fp)).collect();
        if check {
            rep.count("accepted", &format!("{}|{}|ran", $label, sname));
            if $agree { agree(cx, rep, su, $label, &fps); }
        }
        rep.count("protocol_scheme_parties_histories", &format!("{}|{}|parties={}", $label, sname, np));
        rep.eval(Some(&format!("{}|{}|np{}|N{}|{}", $label, sname, np, n, su.spec.family)));
        out.stages.push(($label.to_string(), fps));
    }}; }
    macro_rules! stage { ($label:expr, $id:expr, $make:expr, $fp:expr, $agree:expr) => {{
        match lib(|| $make) {
            Err(p) => { upfront(cx, rep, su, $label, &p.0, check); out.stages.push(($label.to_string(), vec![])); (0..np).map(|_| None).collect::<Vec<_>>() }
            Ok(protos) => { let outs = exchange(cx, rep, su, $label, protos, hist, $id, check, &mut kept); record!($label, outs, $fp, $agree); outs }
        }
    }}; }

    // worst-case coefficient noise figures (phase units; BGV: multiples of t)
    let b_fresh = ERR * (2.0 * nf * npf + 1.0) + (nf * npf + 1.0) / 2.0 + 1.0;
    let b_low = b_fresh + (nf * npf + 1.0) / 2.0 + 1.0;
    let b_rlk = 2.0 * nf * npf * npf * ERR + 2.0 * npf * ERR;
    let kswitch_noise = su.key_qs.len() as f64 * nf * su.ratio.max(1.0) * b_rlk + nf * npf + 2.0;

    // ---- 1. collective public key
    let pks = stage!("pkgen", 1, parties.iter_mut().map(|p| p.generate_public_key()).collect::<Vec<_>>(), |k: &PublicKey| fp_ct(k.as_ciphertext()), true);
    if let (true, Some(sec), Some(pk)) = (check, sec.as_ref(), pks[0].as_ref()) {
        if let Some(x) = check_pk(cx, rep, su, sec, pk) { out.summary.push(("pk_noise_norm".into(), json!(x))); }
        check_pk_messages(cx, rep, su, &sks, pk, &kept);
    }
    // ---- 2. secret-key revelation
    let revealed = stage!("sk_reveal", 2, parties.iter().map(|p| p.reveal_secret_key()).collect::<Vec<_>>(), fp_sk, true);
    if let (true, Some(sec), Some(r)) = (check, sec.as_ref(), revealed[0].as_ref()) {
        if r.data() != sec.key.data() || r.parms_id() != sec.key.parms_id() { viol(cx, rep, "sk_reveal", &cls, "value", format!("revealed key is not the sum of the parties' secrets: {}", first_diff(sec.key.data(), r.data()))); }
    }
    // ---- 3. relinearisation key (two rounds)
    let mut rlks: Vec<Option<RelinKeys>> = (0..np).map(|_| None).collect();
    if su.has_ks {
        let label = "relin";
        match lib(|| parties.iter_mut().map(|p| p.generate_relin_keys()).collect::<Vec<_>>()) {
            Err(p) => { upfront(cx, rep, su, label, &p.0, check); out.stages.push((label.into(), vec![])); }
            Ok(mut protos) => {
                let all: Vec<usize> = (0..np).collect();
                let r = (|| -> Result<(), NetFail> {
                    let m1 = collect_msgs(&protos, &all, &|p: &RelinKeysGenerationProtocol, w: &mut Vec<u8>| p.send_step1(w))?;
                    deliver(&mut protos, &m1, &all, &|r| hist.order(3, 0, r), &|_, _| false, &|p: &mut RelinKeysGenerationProtocol, s: usize, r: &mut &[u8]| p.receive_step1(s, r))?;
                    for (i, p) in protos.iter_mut().enumerate() { lib(|| p.step2()).map_err(|e| ("step2:panic".to_string(), i, e.0))?; }
                    let m2 = collect_msgs(&protos, &all, &|p: &RelinKeysGenerationProtocol, w: &mut Vec<u8>| p.send_step2(w))?;
                    deliver(&mut protos, &m2, &all, &|r| hist.order(3, 1, r), &|_, _| false, &|p: &mut RelinKeysGenerationProtocol, s: usize, r: &mut &[u8]| p.receive_step2(s, r))?;
                    if check { rep.count_n("messages", "relin|bytes_per_message(step1+step2)", (m1[0].len() + m2[0].len()) as u64); }
                    Ok(())
                })();
                match r {
                    Err(f) => { net_fail(cx, rep, su, label, &f, check); out.stages.push((label.into(), vec![None; np])); }
                    Ok(()) => {
                        rlks = protos.into_iter().enumerate().map(|(i, p)| match lib(|| p.finish()) { Ok(o) => Some(o), Err(e) => { if check { viol(cx, rep, label, &format!("{}:finish", cls), "panic", format!("party {} finish panicked with all messages received: {}", i, e.0)); } None } }).collect();
                        record!(label, rlks, fp_rlk, true);
                    }
                }
            }
        }
        if let (true, Some(sec), Some(r)) = (check, sec.as_ref(), rlks[0].as_ref()) {
            if let Some(x) = check_rlk(cx, rep, su, sec, r) { out.summary.push(("rlk_noise_norm".into(), json!(x))); }
        }
    } else if check { rep.count("accepted", &format!("relin|{}|no_special_prime(skipped)", sname)); }

    // ---- workload ciphertexts under the collective key (same calls in every history)
    let Some(pk0) = pks[0].clone() else { out.draws = heathcliff::verif::thread_entropy_draws(); return out; };
    let ev = Evaluator::new(ctx.clone());
    let enc = lib(|| { let e = Encryptor::new(ctx.clone()).set_public_key(pk0); (e.encrypt_new(&su.p1), e.encrypt_new(&su.p2)) });
    let (ct1, ct2) = match enc { Ok(x) => x, Err(e) => { if check { viol(cx, rep, "encrypt_under_collective_pk", &cls, "panic", e.0); } out.draws = heathcliff::verif::thread_entropy_draws(); return out; } };
    let ct_low: Option<Ciphertext> = if su.levels > 1 { match lib(|| ev.mod_switch_to_next_new(&ct1)) { Ok(c) => Some(c), Err(e) => { if check { rep.note(&format!("mod_switch_to_next panicked (not this property): {}", short(&e.0))); } None } } } else { None };
    let ct_prod: Option<Ciphertext> = rlks[0].as_ref().and_then(|rlk| match lib(|| ev.relinearize_new(&ev.multiply_new(&ct1, &ct2), rlk)) {
        Ok(c) => Some(c),
        Err(e) => { if check { viol(cx, rep, "relin:relinearize", &cls, "panic", format!("relinearize with the collective key panicked: {}", e.0)); } None }
    });
    let (exp1, exp_prod, e_prod, pre_prod) = if scheme == SchemeType::CKKS {
        let zp: Vec<C64> = su.z1.iter().zip(&su.z2).map(|(a, b)| a * b).collect();
        let m = su.scale * 1.0 + 1.0;
        let e = nf * (2.0 * m * b_fresh + b_fresh * b_fresh) + kswitch_noise;
        (Expect::Slots(su.z1.clone()), Expect::Slots(zp), e, true)
    } else {
        let prod = refm::negacyclic_mul(&su.m1, &su.m2, su.t);
        let t = su.t as f64;
        if scheme == SchemeType::BFV {
            let e = 4.0 * t * nf * (nf * npf + 2.0) * (b_fresh + 1.0) + kswitch_noise;
            (Expect::Poly(su.m1.clone()), Expect::Poly(prod), e, true)
        } else {
            // |phase| <= N (t (B+1))^2 + t * kswitch ; expressed in multiples of t
            let e = nf * t * (b_fresh + 1.0) * (b_fresh + 1.0) + kswitch_noise;
            (Expect::Poly(su.m1.clone()), Expect::Poly(prod), e, true)
        }
    };
    let _ = pre_prod;
    if let (true, Some(sec)) = (check, sec.as_ref()) {
        // the workload itself: fresh encryption under the collective key opens under the summed secret
        check_ct(cx, rep, su, sec, &ct1, &exp1, "pkgen:encrypt", b_fresh);
        if let Some(c) = &ct_prod { check_ct(cx, rep, su, sec, c, &exp_prod, "relin:product", e_prod); }
    }

    // ---- 4. collective decryption (fresh, one level down, relinearised product)
    let mut dec_inputs: Vec<(&str, &Ciphertext, &Expect, f64)> = vec![("decrypt:fresh", &ct1, &exp1, b_fresh + ERR * npf)];
    if let Some(c) = &ct_low { dec_inputs.push(("decrypt:level_down", c, &exp1, b_low + ERR * npf)); }
    if let Some(c) = &ct_prod { dec_inputs.push(("decrypt:product", c, &exp_prod, e_prod + ERR * npf)); }
    for (k, (label, ct, want, e)) in dec_inputs.iter().enumerate() {
        let outs = stage!(*label, 4 + k as u64, parties.iter().map(|p| p.decrypt(ct)).collect::<Vec<_>>(), fp_pt, true);
        if let (true, Some(pt)) = (check, outs[0].as_ref()) {
            check_plain(cx, rep, su, pt, ct, want, label, *e);
            if k == 0 { out.summary.push(("decrypt:fresh first words".into(), json!(pt.data().iter().take(4).collect::<Vec<_>>()))); }
        }
    }

    // ---- 5. secret-key switching to fresh shares s'_i
    let new_sks: Option<Vec<SecretKey>> = lib(|| (0..np).map(|_| KeyGenerator::new(ctx.clone()).secret_key().clone()).collect()).ok();
    if let Some(new_sks) = &new_sks {
        let outs = stage!("key_switch", 8, parties.iter().zip(new_sks.iter()).map(|(p, s)| p.key_switch(&ct1, s)).collect::<Vec<_>>(), fp_ct, true);
        if let (true, Some(c)) = (check, outs[0].as_ref()) {
            match sum_secret(su, new_sks) { Ok(tsec) => check_ct(cx, rep, su, &tsec, c, &exp1, "key_switch", b_fresh + ERR * npf), Err(e) => rep.note(&format!("target secret malformed: {}", e)) }
        }
    }
    // ---- 6. public-key switching to an ordinary key pair
    let target = lib(|| { let kg = KeyGenerator::new(ctx.clone()); let pk = kg.create_public_key(false); (kg.secret_key().clone(), pk) }).ok();
    if let Some((tsk, tpk)) = &target {
        let outs = stage!("public_key_switch", 9, parties.iter().map(|p| p.public_key_switch(&ct1, tpk)).collect::<Vec<_>>(), fp_ct, true);
        if let (true, Some(c)) = (check, outs[0].as_ref()) {
            match sum_secret(su, std::slice::from_ref(tsk)) { Ok(tsec) => check_ct(cx, rep, su, &tsec, c, &exp1, "public_key_switch", b_fresh + ERR * npf * (2.0 * nf + 1.0)), Err(e) => rep.note(&format!("target secret malformed: {}", e)) }
        }
    }

    // ---- 7./8. cipher -> shares -> cipher
    if scheme == SchemeType::CKKS {
        let senc = CkksShareEnc { enc: CKKSEncoder::new(ctx.clone()), id: *ct1.parms_id(), scale: ct1.scale() };
        let samp = CkksShareSampler { slots: n / 2 };
        let shares = c2s_stage(cx, rep, su, &parties, &ct1, &samp, &senc, hist, check, &fp_c64, &mut out, "cipher_to_shares", 10);
        let have: Option<Vec<Vec<C64>>> = shares.as_ref().and_then(|v| v.iter().cloned().collect());
        if let (true, Some(sh)) = (check, have.as_ref()) {
            let sum: Vec<C64> = (0..n / 2).map(|j| sh.iter().map(|s| s[j]).sum()).collect();
            let tol = ckks_tol(su, ct1.parms_id(), b_fresh + ERR * npf + npf, ct1.scale(), npf + 2.0) + npf * ckks_fp_tolerance(n, su.data_qs.len(), 2.0, ct1.scale());
            let err = slot_err(&sum, &su.z1);
            rep.max("ckks_error_over_tolerance|cipher_to_shares", err / tol);
            if !(err <= tol) { viol(cx, rep, "cipher_to_shares", &cls, "value", format!("sum of shares differs from the plaintext slots by {:e} > tolerance {:e}", err, tol)); }
        }
        let use_sh: Vec<Vec<C64>> = have.unwrap_or_else(|| (0..np).map(|i| (0..n / 2).map(|j| C64::new(((i * 7 + j) % 5) as f64 * 0.1, 0.0)).collect()).collect());
        // party 0 is the designated aggregator of this protocol (as in cipher_to_shares, and as the library's own usage shows):
            // its output is checked; agreement of the other parties' local outputs is not demanded by the property (recorded as information)
            let outs = stage!("shares_to_cipher", 11, parties.iter_mut().zip(use_sh.iter()).map(|(p, s)| p.shares_to_cipher(s, &senc)).collect::<Vec<_>>(), fp_ct, false);
        if let (true, Some(sec), Some(c)) = (check, sec.as_ref(), outs[0].as_ref()) {
            let sum: Vec<C64> = (0..n / 2).map(|j| use_sh.iter().map(|s| s[j]).sum()).collect();
            check_ct(cx, rep, su, sec, c, &Expect::Slots(sum), "shares_to_cipher", ERR * npf + npf);
        }
    } else {
        let made = lib(|| (BFVShareSampler::new(ctx.clone()), BFVSimdShareEncoder::new(ctx.clone())));
        if let Ok((samp, senc)) = made {
            let t = su.t;
            let shares = c2s_stage(cx, rep, su, &parties, &ct1, &samp, &senc, hist, check, &|s: &Vec<u64>| s.clone(), &mut out, "cipher_to_shares", 10);
            let have: Option<Vec<Vec<u64>>> = shares.as_ref().and_then(|v| v.iter().cloned().collect());
            let pre = exact_pre(su, ct1.parms_id(), b_fresh + ERR * npf + npf);
            if let (true, Some(sh)) = (check, have.as_ref()) {
                if !pre { rep.out_of_precondition += 1; } else if sh.iter().any(|s| s.len() != n) {
                    viol(cx, rep, "cipher_to_shares", &cls, "shape", format!("share lengths {:?}", sh.iter().map(|s| s.len()).collect::<Vec<_>>()));
                } else {
                    let sum: Vec<u64> = (0..n).map(|j| sh.iter().fold(0u64, |a, s| refm::addmod(a, s[j] % t, t))).collect();
                    if sum != su.v1 {
                        let k = sum.iter().zip(&su.v1).position(|(a, b)| a != b).unwrap_or(0);
                        let nd = sum.iter().zip(&su.v1).filter(|(a, b)| a != b).count();
                        viol(cx, rep, "cipher_to_shares", &cls, "value", format!("sum of shares mod t differs from the plaintext in {} of {} slots, first slot {}: {} expected {}", nd, n, k, sum[k], su.v1[k]));
                    }
                    out.summary.push(("share sums first slots".into(), json!(sum.iter().take(4).collect::<Vec<_>>())));
                }
            }
            let from_c2s = have.as_ref().map(|sh| sh.iter().all(|s| s.len() == n)).unwrap_or(false);
            let use_sh: Vec<Vec<u64>> = if from_c2s { have.unwrap() } else { (0..np).map(|i| (0..n).map(|j| ((i as u64 + 1) * 7919 + j as u64 * 31) % t).collect()).collect() };
            // party 0 is the designated aggregator of this protocol (as in cipher_to_shares, and as the library's own usage shows):
            // its output is checked; agreement of the other parties' local outputs is not demanded by the property (recorded as information)
            let outs = stage!("shares_to_cipher", 11, parties.iter_mut().zip(use_sh.iter()).map(|(p, s)| p.shares_to_cipher(s, &senc)).collect::<Vec<_>>(), fp_ct, false);
            if let (true, Some(sec), Some(c)) = (check, sec.as_ref(), outs[0].as_ref()) {
                let sum: Vec<u64> = (0..n).map(|j| use_sh.iter().fold(0u64, |a, s| refm::addmod(a, s[j] % t, t))).collect();
                match lib(|| su.batch.as_ref().unwrap().encode_new(&sum)) {
                    Ok(p) => check_ct(cx, rep, su, sec, c, &Expect::Poly(plain_coeffs(&p, n)), "shares_to_cipher", ERR * npf + npf),
                    Err(e) => rep.note(&format!("BatchEncoder::encode panicked: {}", short(&e.0))),
                }
                // diagnostic for a disagreement: what do the other parties' outputs open to?
                for (i, o) in outs.iter().enumerate().skip(1) {
                    if let Some(o) = o { if fp_ct(o) != fp_ct(c) {
                        if let Ok(d) = lib(|| su.batch.as_ref().unwrap().decode_new(&Decryptor::new(ctx.clone(), sec.key.clone()).decrypt_new(o))) {
                            let own_twice = (0..n).all(|j| d[j] == refm::submod(refm::addmod(sum[j], use_sh[i][j] % t, t), use_sh[0][j] % t, t));
                            rep.count("information", "shares_to_cipher: non-aggregating party output differs from party 0"); rep.note(&format!("shares_to_cipher: the output of a party j != 0 opens to {}", if own_twice { "(sum of shares) - share_0 + share_j: its own c0 is counted twice and party 0's never arrives" } else { "something else than (sum of shares) - share_0 + share_j" }));
                        }
                    } }
                }
            }
        } else if check { rep.note("share sampler/encoder could not be constructed"); }
    }
    // ---- 9. the same three protocols on a ciphertext one level down the chain (in BGV it carries a correction factor != 1)
    if let Some(ctl) = &ct_low {
        if let Some(new_sks) = &new_sks {
            let outs = stage!("key_switch:level_down", 12, parties.iter().zip(new_sks.iter()).map(|(p, s)| p.key_switch(ctl, s)).collect::<Vec<_>>(), fp_ct, true);
            if let (true, Some(c)) = (check, outs[0].as_ref()) {
                match sum_secret(su, new_sks) { Ok(tsec) => check_ct(cx, rep, su, &tsec, c, &exp1, "key_switch:level_down", b_low + ERR * npf), Err(e) => rep.note(&format!("target secret malformed: {}", e)) }
            }
        }
        if let Some((tsk, tpk)) = &target {
            let outs = stage!("public_key_switch:level_down", 13, parties.iter().map(|p| p.public_key_switch(ctl, tpk)).collect::<Vec<_>>(), fp_ct, true);
            if let (true, Some(c)) = (check, outs[0].as_ref()) {
                match sum_secret(su, std::slice::from_ref(tsk)) { Ok(tsec) => check_ct(cx, rep, su, &tsec, c, &exp1, "public_key_switch:level_down", b_low + ERR * npf * (2.0 * nf + 1.0)), Err(e) => rep.note(&format!("target secret malformed: {}", e)) }
            }
        }
        if scheme == SchemeType::CKKS {
            let senc = CkksShareEnc { enc: CKKSEncoder::new(ctx.clone()), id: *ctl.parms_id(), scale: ctl.scale() };
            let samp = CkksShareSampler { slots: n / 2 };
            let shares = c2s_stage(cx, rep, su, &parties, ctl, &samp, &senc, hist, check, &fp_c64, &mut out, "cipher_to_shares:level_down", 14);
            let have: Option<Vec<Vec<C64>>> = shares.as_ref().and_then(|v| v.iter().cloned().collect());
            // capacity precondition (CKKS has no modular wrap-around protection): party 0's share is m - sum of the other parties'
            // random shares (slots in the unit square), its coefficients are below (max|m| + 1.5 (n-1) + 1) * scale and must stay
            // below half the modulus of the (smaller) level the ciphertext now lives on
            let cap_ok = (vmax(&su.z1) + 1.5 * (npf - 1.0) + 1.0) * ctl.scale() * 2.0 < level_qs(su, ctl.parms_id()).iter().map(|&q| q as f64).product::<f64>() * 0.9;
            if check && have.is_some() && !cap_ok { rep.out_of_precondition += 1; }
            if let (true, Some(sh), true) = (check, have.as_ref(), cap_ok) {
                let sum: Vec<C64> = (0..n / 2).map(|j| sh.iter().map(|s| s[j]).sum()).collect();
                let tol = ckks_tol(su, ctl.parms_id(), b_low + ERR * npf + npf, ctl.scale(), npf + 2.0) + npf * ckks_fp_tolerance(n, su.data_qs.len(), 2.0, ctl.scale());
                let err = slot_err(&sum, &su.z1);
                rep.max("ckks_error_over_tolerance|cipher_to_shares:level_down", err / tol);
                if !(err <= tol) { viol(cx, rep, "cipher_to_shares:level_down", &cls, "value", format!("sum of shares differs from the plaintext slots by {:e} > tolerance {:e}", err, tol)); }
            }
        } else if let Ok((samp, senc)) = lib(|| (BFVShareSampler::new(ctx.clone()), BFVSimdShareEncoder::new(ctx.clone()))) {
            let t = su.t;
            let shares = c2s_stage(cx, rep, su, &parties, ctl, &samp, &senc, hist, check, &|s: &Vec<u64>| s.clone(), &mut out, "cipher_to_shares:level_down", 14);
            let have: Option<Vec<Vec<u64>>> = shares.as_ref().and_then(|v| v.iter().cloned().collect());
            let pre = exact_pre(su, ctl.parms_id(), b_low + ERR * npf + npf);
            if let (true, Some(sh)) = (check, have.as_ref()) {
                if !pre { rep.out_of_precondition += 1; } else if sh.iter().any(|s| s.len() != n) {
                    viol(cx, rep, "cipher_to_shares:level_down", &cls, "shape", format!("share lengths {:?}", sh.iter().map(|s| s.len()).collect::<Vec<_>>()));
                } else {
                    let sum: Vec<u64> = (0..n).map(|j| sh.iter().fold(0u64, |a, s| refm::addmod(a, s[j] % t, t))).collect();
                    if sum != su.v1 {
                        let k = sum.iter().zip(&su.v1).position(|(a, b)| a != b).unwrap_or(0);
                        let nd = sum.iter().zip(&su.v1).filter(|(a, b)| a != b).count();
                        viol(cx, rep, "cipher_to_shares:level_down", &cls, "value", format!("sum of shares mod t differs from the plaintext in {} of {} slots, first slot {}: {} expected {} (input correction factor {})", nd, n, k, sum[k], su.v1[k], ctl.correction_factor()));
                    }
                }
            }
        }
    }
    out.draws = heathcliff::verif::thread_entropy_draws();
    out
}

/// cipher -> shares: parties 1.. send, party 0 receives in history order, everybody finishes
fn c2s_stage<S, E>(cx: &Cx, rep: &mut Report, su: &Setup, parties: &[Participant], ct: &Ciphertext, samp: &S, senc: &E, hist: &Hist, check: bool,
    fp: &dyn Fn(&S::Share) -> Vec<u64>, out: &mut RunOut, label: &str, order_id: u64) -> Option<Vec<Option<S::Share>>>
where S: ShareSampler, E: ShareEncoder<Share = S::Share> {
    let np = su.np; let sname = su.spec.scheme_name();
    let mut protos = match lib(|| parties.iter().map(|p| p.cipher_to_shares(ct.clone(), samp, senc)).collect::<Vec<_>>()) {
        Ok(x) => x, Err(p) => { upfront(cx, rep, su, label, &p.0, check); out.stages.push((label.into(), vec![])); return None; }
    };
    let senders: Vec<usize> = (1..np).collect();
    let r = (|| -> Result<(), NetFail> {
        let m = collect_msgs(&protos, &senders, &|p: &CipherToSharesProtocol<S::Share>, w: &mut Vec<u8>| p.send(w))?;
        deliver(&mut protos, &m, &[0], &|r| hist.order(order_id, 0, r), &|_, _| false, &|p: &mut CipherToSharesProtocol<S::Share>, s: usize, r: &mut &[u8]| p.receive(s, r))?;
        Ok(())
    })();
    if let Err(f) = r { net_fail(cx, rep, su, label, &f, check); out.stages.push((label.into(), vec![None; np])); return None; }
    let outs: Vec<Option<S::Share>> = protos.into_iter().enumerate().map(|(i, p)| match lib(|| p.finish(senc)) {
        Ok(o) => Some(o),
        Err(e) => { if check { viol(cx, rep, label, &format!("scheme={}:finish", sname), "panic", format!("party {} finish panicked with all messages received: {}", i, e.0)); } None }
    }).collect();
    let fps: Vec<Option<Vec<u64>>> = outs.iter().map(|o| o.as_ref().map(|s| fp(s))).collect();
    if check { rep.count("accepted", &format!("{}|{}|ran", label, sname)); }
    rep.count("protocol_scheme_parties_histories", &format!("{}|{}|parties={}", label, sname, np));
    rep.eval(Some(&format!("{}|{}|np{}|N{}|{}", label, sname, np, su.n, su.spec.family)));
    out.stages.push((label.to_string(), fps));
    Some(outs)
}

// ------------------------------------------------------------------------------------------ protocol case: all histories
fn combo(case: u64, cfg: &Cfg, big: bool) -> (SchemeType, usize, usize, usize, bool) {
    let schemes = [SchemeType::BFV, SchemeType::BGV, SchemeType::CKKS];
    let scheme = schemes[(case % 3) as usize];
    let maxp = cfg.pick(4u64, 6u64);
    let span = maxp - 1;
    let np = 2 + ((case / 3) % span) as usize;
    let c = case / (3 * span);
    let (n, c) = if big { let ns = [256usize, 1024, 4096]; (ns[(c % 3) as usize], c / 3) } else { ([16usize, 64][(c % 2) as usize], c / 2) };
    let kd = 2 + (c % 3) as usize;
    let flat = (c / 3) % 4 == 3;
    (scheme, n, kd, np, flat)
}

fn protocol_case(cfg: &Cfg, grp: &str, case: u64, rng: &mut Rng, rep: &mut Report, big: bool, np_override: Option<usize>) {
    let (scheme, n, kd, np, flat) = combo(case, cfg, big);
    let np = np_override.unwrap_or(np);
    let su = match make_setup(rng, scheme, n, kd, np, flat) { Ok(s) => s, Err(e) => { rep.count("generator", "rejected"); rep.note(&format!("setup rejected: {}", short(&e))); return; } };
    rep.count("generator", "context_ok");
    rep.count("params", &format!("{}|N={}|data_primes={}|special_prime={}", su.spec.scheme_name(), n, su.data_qs.len(), !flat));
    rep.count("scheme_parties_degree", &format!("{}|parties={}|N={}", su.spec.scheme_name(), np, n));
    let f = factorial(np - 1);
    let enumerated = np <= 4;
    let nh = if enumerated { if n <= REF_MAX { f * f } else { f } } else if n <= REF_MAX { 8 } else { 4 };
    let salt = rng.u64();
    let cx = Cx { cfg, grp, case, info: describe(&su) };
    let mut base: Option<RunOut> = None;
    for h in 0..nh {
        // reduced enumeration (large N): both rounds use the same index
        let idx = if enumerated && n > REF_MAX { h * f + h } else { h };
        let hist = Hist { np, f, idx, sampled: !enumerated, salt };
        let o = run_once(&cx, rep, &su, &hist, h == 0);
        rep.count("histories", &format!("parties={}|{}", np, if enumerated { "enumerated" } else { "sampled" }));
        match &base {
            None => { base = Some(o); }
            Some(b) => {
                assert_eq!(b.draws, o.draws, "harness: repetitions drew different amounts of library entropy ({} vs {})", b.draws, o.draws);
                if b.stages.len() != o.stages.len() { viol(&cx, rep, "run", &format!("scheme={}", su.spec.scheme_name()), "history", format!("history {} completed {} stages, history 0 {}", idx, o.stages.len(), b.stages.len())); continue; }
                for ((l0, f0), (_, f1)) in b.stages.iter().zip(&o.stages) {
                    let mut bad = vec![];
                    if f0.len() != f1.len() { bad.push(format!("{} vs {} outputs", f0.len(), f1.len())); }
                    for (i, (a, b)) in f0.iter().zip(f1).enumerate() {
                        match (a, b) { (Some(a), Some(b)) => if a != b { bad.push(format!("party {}: {}", i, first_diff(a, b))); }, (None, None) => {}, _ => bad.push(format!("party {}: finished in one history only", i)) }
                    }
                    if !bad.is_empty() {
                        let orders: Vec<String> = (0..np).map(|r| format!("r{}:{:?}", r, hist.order(0, 0, r))).collect();
                        viol(&cx, rep, l0, &format!("scheme={}", su.spec.scheme_name()), "history", format!("same seeds, different delivery order (history {} e.g. {}) gives different outputs: {}", idx, orders.join(" "), bad.join("; ")));
                    }
                    rep.count("cross_history_comparisons", l0);
                }
            }
        }
    }
    if let Some(b) = &base {
        if case < 9 { rep.sample(json!({"group": grp, "case": case, "setup": cx.info, "histories_run": nh, "stages": b.stages.iter().map(|(l, f)| json!({"stage": l, "parties_finished": f.iter().filter(|x| x.is_some()).count(), "output_words": f.first().and_then(|x| x.as_ref()).map(|x| x.len())})).collect::<Vec<_>>(), "observed": b.summary.iter().map(|(k, v)| json!({k.as_str(): v})).collect::<Vec<_>>()})); }
    }
}

// ------------------------------------------------------------------------------------------ refusal case: withheld messages
fn subsets(others: &[usize], all: bool, rng: &mut Rng) -> Vec<Vec<usize>> {
    let k = others.len();
    let total = (1usize << k) - 1;
    let masks: Vec<usize> = if all { (1..=total).collect() } else { let mut m = vec![total, 1 << rng.usize_below(k)]; for _ in 0..4 { m.push(1 + rng.usize_below(total)); } m.sort(); m.dedup(); m };
    masks.into_iter().map(|m| (0..k).filter(|b| m >> b & 1 == 1).map(|b| others[b]).collect()).collect()
}

fn refusal_verdict<T>(cx: &Cx, rep: &mut Report, su: &Setup, label: &str, r: usize, missing: &[usize], res: Result<T, Panicked>) {
    let others = su.np - 1;
    let cls = format!("scheme={}:missing={}", su.spec.scheme_name(), if missing.len() == others { "all" } else { "some" });
    rep.count("refusals", &format!("{}|{}|parties={}|missing={}of{}", label, su.spec.scheme_name(), su.np, missing.len(), others));
    rep.eval(Some(&format!("refuse|{}|{}|np{}|m{}", label, su.spec.scheme_name(), su.np, missing.len())));
    match res {
        Ok(_) => viol(cx, rep, label, &cls, "not_refused", format!("party {} finished although the messages of parties {:?} were never received", r, missing)),
        Err(p) => { rep.count("refusal_message", if p.0.contains(REFUSE_MSG) { "completeness assertion" } else { "other panic" }); if !p.0.contains(REFUSE_MSG) { rep.note(&format!("refusal by another panic: {} : {}", label, short(&p.0))); } }
    }
}

fn refusal_case(cfg: &Cfg, grp: &str, case: u64, rng: &mut Rng, rep: &mut Report) {
    let (scheme, _, kd, np, flat) = combo(case, cfg, false);
    let n = if (case / 9) % 3 == 2 { 64 } else { 16 };
    let su = match make_setup(rng, scheme, n, kd, np, flat) { Ok(s) => s, Err(e) => { rep.count("generator", "rejected"); rep.note(&format!("setup rejected: {}", short(&e))); return; } };
    let cx = Cx { cfg, grp, case, info: describe(&su) };
    let ctx = su.ctx.clone();
    let all_subsets = np <= 4;
    let Ok(mut parties) = lib(|| (0..np).map(|i| Participant::new(np, i, ctx.clone(), BlakeRNG::from_seed(PRNGSeed(su.tape)))).collect::<Vec<_>>()) else { return; };
    let all: Vec<usize> = (0..np).collect();
    let natural = |r: usize| -> Vec<usize> { (0..np).filter(|&i| i != r).collect() };

    // single-round protocols through the Proto trait
    macro_rules! refuse { ($label:expr, $make:expr) => {{
        'outer: for r in 0..np {
            for missing in subsets(&natural(r), all_subsets, rng) {
                let mut protos = match lib(|| $make) { Ok(p) => p, Err(_) => { rep.count("refusals", &format!("{}|{}|not_accepted", $label, su.spec.scheme_name())); break 'outer; } };
                let Ok(msgs) = collect_msgs(&protos, &all, &|p, w: &mut Vec<u8>| p.snd(w)) else { break 'outer; };
                if deliver(&mut protos, &msgs, &[r], &natural, &|_, s| missing.contains(&s), &|p, s: usize, rd: &mut &[u8]| p.rcv(s, rd)).is_err() { break 'outer; }
                let pr = protos.swap_remove(r);
                drop(protos);
                refusal_verdict(&cx, rep, &su, $label, r, &missing, lib(|| pr.fin()));
            }
        }
    }}; }

    refuse!("pkgen", parties.iter_mut().map(|p| p.generate_public_key()).collect::<Vec<_>>());
    refuse!("sk_reveal", parties.iter().map(|p| p.reveal_secret_key()).collect::<Vec<_>>());

    // a ciphertext under the collective key
    let pk = {
        let Ok(mut protos) = lib(|| parties.iter_mut().map(|p| p.generate_public_key()).collect::<Vec<_>>()) else { return; };
        let Ok(msgs) = collect_msgs(&protos, &all, &|p: &PublicKeyGenerationProtocol, w: &mut Vec<u8>| p.send(w)) else { return; };
        if deliver(&mut protos, &msgs, &[0], &natural, &|_, _| false, &|p: &mut PublicKeyGenerationProtocol, s: usize, r: &mut &[u8]| p.receive(s, r)).is_err() { return; }
        let p0 = protos.swap_remove(0);
        match lib(|| p0.finish()) { Ok(k) => k, Err(_) => return }
    };
    let Ok(ct) = lib(|| Encryptor::new(ctx.clone()).set_public_key(pk).encrypt_new(&su.p1)) else { return; };

    refuse!("decrypt", parties.iter().map(|p| p.decrypt(&ct)).collect::<Vec<_>>());
    if let Ok(new_sks) = lib(|| (0..np).map(|_| KeyGenerator::new(ctx.clone()).secret_key().clone()).collect::<Vec<_>>()) {
        refuse!("key_switch", parties.iter().zip(new_sks.iter()).map(|(p, s)| p.key_switch(&ct, s)).collect::<Vec<_>>());
    }
    if let Ok(tpk) = lib(|| KeyGenerator::new(ctx.clone()).create_public_key(false)) {
        refuse!("public_key_switch", parties.iter().map(|p| p.public_key_switch(&ct, &tpk)).collect::<Vec<_>>());
    }

    // relinearisation keys: a message withheld in round 1 (step2 must refuse) or in round 2 (finish must refuse)
    if su.has_ks {
        'relin: for round in 0..2 {
            for r in 0..np {
                for missing in subsets(&natural(r), all_subsets, rng) {
                    let Ok(mut protos) = lib(|| parties.iter_mut().map(|p| p.generate_relin_keys()).collect::<Vec<_>>()) else { break 'relin; };
                    let Ok(m1) = collect_msgs(&protos, &all, &|p: &RelinKeysGenerationProtocol, w: &mut Vec<u8>| p.send_step1(w)) else { break 'relin; };
                    let rcv1 = |p: &mut RelinKeysGenerationProtocol, s: usize, rd: &mut &[u8]| p.receive_step1(s, rd);
                    let rcv2 = |p: &mut RelinKeysGenerationProtocol, s: usize, rd: &mut &[u8]| p.receive_step2(s, rd);
                    if round == 0 {
                        if deliver(&mut protos, &m1, &[r], &natural, &|_, s| missing.contains(&s), &rcv1).is_err() { break 'relin; }
                        let pr = &mut protos[r];
                        refusal_verdict(&cx, rep, &su, "relin:round1", r, &missing, lib(|| pr.step2()));
                    } else {
                        if deliver(&mut protos, &m1, &all, &natural, &|_, _| false, &rcv1).is_err() { break 'relin; }
                        if lib(|| for p in protos.iter_mut() { p.step2(); }).is_err() { break 'relin; }
                        let Ok(m2) = collect_msgs(&protos, &all, &|p: &RelinKeysGenerationProtocol, w: &mut Vec<u8>| p.send_step2(w)) else { break 'relin; };
                        if deliver(&mut protos, &m2, &[r], &natural, &|_, s| missing.contains(&s), &rcv2).is_err() { break 'relin; }
                        let pr = protos.swap_remove(r);
                        drop(protos);
                        refusal_verdict(&cx, rep, &su, "relin:round2", r, &missing, lib(|| pr.finish()));
                    }
                }
            }
        }
    }

    // shares: cipher -> shares (only party 0 receives) and shares -> cipher
    if scheme != SchemeType::CKKS {
        if let Ok((samp, senc)) = lib(|| (BFVShareSampler::new(ctx.clone()), BFVSimdShareEncoder::new(ctx.clone()))) {
            let senders: Vec<usize> = (1..np).collect();
            for missing in subsets(&senders, all_subsets, rng) {
                let Ok(mut protos) = lib(|| parties.iter().map(|p| p.cipher_to_shares(ct.clone(), &samp, &senc)).collect::<Vec<_>>()) else { break; };
                let Ok(m) = collect_msgs(&protos, &senders, &|p: &CipherToSharesProtocol<Vec<u64>>, w: &mut Vec<u8>| p.send(w)) else { break; };
                if deliver(&mut protos, &m, &[0], &natural, &|_, s| missing.contains(&s), &|p: &mut CipherToSharesProtocol<Vec<u64>>, s: usize, rd: &mut &[u8]| p.receive(s, rd)).is_err() { break; }
                let p0 = protos.swap_remove(0);
                drop(protos);
                refusal_verdict(&cx, rep, &su, "cipher_to_shares", 0, &missing, lib(|| p0.finish(&senc)));
            }
            let sh: Vec<Vec<u64>> = (0..np).map(|i| (0..n).map(|j| ((i as u64 + 1) * 7919 + j as u64 * 31) % su.t).collect()).collect();
            refuse!("shares_to_cipher", parties.iter_mut().zip(sh.iter()).map(|(p, s)| p.shares_to_cipher(s, &senc)).collect::<Vec<_>>());
        }
    } else {
        let senc = CkksShareEnc { enc: CKKSEncoder::new(ctx.clone()), id: *ct.parms_id(), scale: ct.scale() };
        let samp = CkksShareSampler { slots: n / 2 };
        let senders: Vec<usize> = (1..np).collect();
        for missing in subsets(&senders, all_subsets, rng) {
            let Ok(mut protos) = lib(|| parties.iter().map(|p| p.cipher_to_shares(ct.clone(), &samp, &senc)).collect::<Vec<_>>()) else { rep.count("refusals", "cipher_to_shares|CKKS|not_accepted"); break; };
            let Ok(m) = collect_msgs(&protos, &senders, &|p: &CipherToSharesProtocol<Vec<C64>>, w: &mut Vec<u8>| p.send(w)) else { break; };
            if deliver(&mut protos, &m, &[0], &natural, &|_, s| missing.contains(&s), &|p: &mut CipherToSharesProtocol<Vec<C64>>, s: usize, rd: &mut &[u8]| p.receive(s, rd)).is_err() { break; }
            let p0 = protos.swap_remove(0);
            drop(protos);
            refusal_verdict(&cx, rep, &su, "cipher_to_shares", 0, &missing, lib(|| p0.finish(&senc)));
        }
    }
}

pub fn run(cfg: &Cfg, rep: &mut Report) -> PropMeta {
    // 3 schemes x (3|5) party counts x 2 degrees x 3 prime counts, every 4th cycle without special prime
    let cycle = 3 * (cfg.pick(4, 6) - 1) * 2 * 3;
    run_cases(cfg, "protocols", (cycle * cfg.n(16, 16)) as u64, rep, |i, rng, rep| protocol_case(cfg, "protocols", i, rng, rep, false, None));
    if !cfg.quick() {
        let cycle_big = 3 * 5 * 3 * 3;
        run_cases(cfg, "protocols_big", cfg.n(1, cycle_big) as u64, rep, |i, rng, rep| protocol_case(cfg, "protocols_big", i, rng, rep, true, None));
    }
    // more parties than the cycle above reaches (quick: 5..6, thorough: 5..8), delivery orders sampled: aggregation code that
    // batches or blocks the parties' shares only differs from the small-group behaviour up there
    run_cases(cfg, "protocols_many_parties", cfg.pick(6, 24), rep, |i, rng, rep| protocol_case(cfg, "protocols_many_parties", i, rng, rep, false, Some(5 + ((i / 3) % cfg.pick(2, 4)) as usize)));
    run_cases(cfg, "refusal", (cycle * cfg.n(4, 4)) as u64, rep, |i, rng, rep| refusal_case(cfg, "refusal", i, rng, rep));
    PropMeta {
        id: "C18", level: "exploration",
        rule: "group protocols: every (scheme BFV/BGV/CKKS, parties 2..4 quick / 2..6 thorough (plus a group with 5..6 / 5..8 parties and sampled delivery orders), N 16/64 [thorough also 256/1024/4096], 2..4 data primes of 50-59 bits + 60-bit special prime, every 4th cycle without special prime) runs public-key generation, secret-key revelation, two-round relinearisation-key generation, collective decryption of a fresh / a mod-switched / a relinearised product ciphertext, secret-key switching to fresh shares, public-key switching, cipher->shares and shares->cipher; the whole run is repeated with identical tape and entropy seeds under every history. Histories for n<=4: all pairs (a,b) of indices into the (n-1)! orders, receiver r using order a+r+stage in round 1 and b+r+stage in round 2, i.e. every receiver sees every order in every round and the two-round protocol every pair (N>256: a=b); n=5,6: ascending order + 7 (N>256: 3) random histories. group refusal: for every protocol, receiver and non-empty subset (n<=4: all; n=5,6: all-missing, one-missing, 4 random) of withheld messages the receiver's finish/step2 must panic. distinct = distinct (stage, scheme, parties, N, prime family) and (protocol, scheme, parties, #missing) tuples",
        assumptions: vec![
            "noise precondition: data modulus >= 2^98 (2-4 primes of 50-59 bits), t <= 2^17, N <= 4096, n <= 6; exact equality (BFV, BGV) is asserted only when t*E*8 < Q_level with the worst-case coefficient noise E: fresh 21(2Nn+1)+(Nn+1)/2+1, +21n per collective step, +21n(2N+1) for public-key switching, BFV product 4tN(Nn+2)(B+1)+k*N*(qmax/P)*(2Nn^2*21+42n)+Nn+2, BGV product N*t*(B+1)^2+same; all generated sets satisfy it (out_of_precondition counts the exceptions)".into(),
            "CKKS: slot error <= N*(E+1)/scale + double-precision tolerance (he::ckks_fp_tolerance), scale = 2^floor((log2 Q - log2 N - 8)/2) <= 2^50".into(),
            "the parties' secrets are read by the harness and recovered with the reference inverse transform (N<=256) or the library's inverse NTT cross-checked by Horner evaluation at 8 transform points (N>256); the published roots are checked to be primitive 2N-th roots".into(),
            "shares are defined relative to the library's BatchEncoder (decode(encode(v)) = v is checked on the workload vector); CKKS shares use a harness-side ShareEncoder built on CKKSEncoder".into(),
            "cipher_to_shares: only party 0 receives (the library asserts this), so refusal is demanded of party 0 only".into(),
            "a protocol constructor that panics for BGV/CKKS counts as 'scheme not accepted' (table accepted); for BFV it is a violation".into(),
            "public-key generation is additionally observed per party (message p0_i + a*s_i must be a fresh error, and the parties' errors pairwise distinct: DESIGN mutant 'private randomness drawn from the common tape'); coincidence of two honest error polynomials has probability < 1e-15".into(),
            "receivers are independent objects, so delivery interleavings between different receivers cannot be observed; a history fixes the order per (round, receiver)".into(),
        ],
        exhaustive: false, floor: cfg.pick(3000, 20000),
    }
}
