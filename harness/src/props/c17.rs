//! C17 — shared decryptor, key generator, evaluator behave as if calls ran one at a time.
//! (A) controlled schedules: a scheduler installed on the library's feature-guarded yield
//!     points (placed where no lock is held) runs exactly one thread at a time and enumerates
//!     interleavings (all for 2 threads; bounded DFS + seeded random for 3-4 threads);
//! (B) stress: real parallelism with random micro-delays injected at the same hook sites;
//! (C) sanitizers: the stress workload again in a ThreadSanitizer build (and a tiny scenario
//!     under Miri in the thorough tier), driven as subprocesses.
//! Oracle: every concurrent result equals the sequential bytes; caches only grow and end at
//! the maximum requested; no panic (poisoned lock included), no deadlock, no sanitizer report.

use crate::he::*;
use crate::props::c06::same_ct;
use crate::rt::*;
use heathcliff::*;
use serde_json::json;
use std::cell::Cell;
use std::collections::HashSet;
use std::sync::atomic::{AtomicU64, Ordering};
use std::sync::{Arc, Condvar, Mutex};
use std::time::{Duration, Instant};

const P: &str = "C17";

thread_local! {
    static TID: Cell<Option<usize>> = const { Cell::new(None) };
    /// per-thread yield handler: lets several independent scheduled runs proceed in parallel in one process
    static HANDLER: std::cell::RefCell<Option<Arc<dyn Fn(&'static str) + Send + Sync>>> = const { std::cell::RefCell::new(None) };
}

/// install (once) the process-global callback that dispatches to the calling thread's handler
fn install_dispatch() {
    static ONCE: std::sync::Once = std::sync::Once::new();
    ONCE.call_once(|| heathcliff::verif::set_yield_callback(Some(Arc::new(|site| {
        let h = HANDLER.with(|h| h.borrow().clone());
        if let Some(h) = h { h(site); }
    }))));
}

#[derive(Clone, Debug, PartialEq)]
enum St { NotStarted, Parked(&'static str), Running, Finished }

struct Shared { st: Vec<St>, turn: Option<usize>, observations: Vec<(usize, &'static str, usize)> }

pub struct Sched { inner: Mutex<Shared>, cv: Condvar, observer: Mutex<Option<Box<dyn Fn() -> usize + Send + Sync>>> }

impl Sched {
    fn new(n: usize) -> Arc<Sched> { Arc::new(Sched { inner: Mutex::new(Shared { st: vec![St::NotStarted; n], turn: None, observations: vec![] }), cv: Condvar::new(), observer: Mutex::new(None) }) }
    /// called from the library's yield points (and once at thread start)
    fn yield_here(&self, site: &'static str) {
        let Some(tid) = TID.with(|t| t.get()) else { return };
        // observe the cache through its own lock: this thread holds no lock here, the others are parked
        let obs = self.observer.lock().unwrap().as_ref().map(|f| f());
        let mut g = self.inner.lock().unwrap();
        if let Some(o) = obs { g.observations.push((tid, site, o)); }
        g.st[tid] = St::Parked(site);
        g.turn = None;
        self.cv.notify_all();
        while g.turn != Some(tid) { g = self.cv.wait(g).unwrap(); }
        g.st[tid] = St::Running;
    }
    fn finish(&self, tid: usize) {
        let mut g = self.inner.lock().unwrap();
        g.st[tid] = St::Finished; g.turn = None;
        self.cv.notify_all();
    }
}

pub struct RunOutcome { pub trace: Vec<(usize, &'static str)>, pub enabled_counts: Vec<usize>, pub deadlock: bool, pub panics: Vec<(usize, String)>, pub observations: Vec<(usize, &'static str, usize)> }


/// Run `bodies` (one per thread) under the scheduler; `choose(step, enabled)` picks the index into `enabled`.
pub fn run_scheduled(bodies: Vec<Box<dyn FnOnce() + Send>>, observer: Option<Box<dyn Fn() -> usize + Send + Sync>>, choose: impl FnMut(usize, &[usize]) -> usize) -> RunOutcome {
    run_scheduled_limit(bodies, observer, choose, 20)
}

/// `limit_s`: wall-clock patience per scheduling step. A step that exceeds it is only a *suspected* deadlock (the machine may be
/// overloaded): callers confirm it by re-executing the same choices (`confirm_stall`) before reporting anything.
pub fn run_scheduled_limit(bodies: Vec<Box<dyn FnOnce() + Send>>, observer: Option<Box<dyn Fn() -> usize + Send + Sync>>, mut choose: impl FnMut(usize, &[usize]) -> usize, limit_s: u64) -> RunOutcome {
    let n = bodies.len();
    let sched = Sched::new(n);
    *sched.observer.lock().unwrap() = observer;
    install_dispatch();
    let panics = Arc::new(Mutex::new(vec![]));
    let mut handles = vec![];
    for (tid, body) in bodies.into_iter().enumerate() {
        let (s, pn) = (sched.clone(), panics.clone());
        handles.push(std::thread::spawn(move || {
            TID.with(|t| t.set(Some(tid)));
            let s3 = s.clone();
            HANDLER.with(|h| *h.borrow_mut() = Some(Arc::new(move |site| s3.yield_here(site))));
            s.yield_here("start");
            if let Err(p) = lib(body) { pn.lock().unwrap().push((tid, p.0)); }
            HANDLER.with(|h| *h.borrow_mut() = None);
            TID.with(|t| t.set(None));
            s.finish(tid);
        }));
    }
    let mut trace = vec![]; let mut counts = vec![]; let mut deadlock = false;
    let mut step = 0usize;
    loop {
        // wait until nobody is running
        let mut g = sched.inner.lock().unwrap();
        let t0 = Instant::now();
        loop {
            let busy = g.turn.is_some() || g.st.iter().any(|s| matches!(s, St::Running | St::NotStarted));
            if !busy { break; }
            let (g2, to) = sched.cv.wait_timeout(g, Duration::from_millis(200)).unwrap();
            g = g2;
            if to.timed_out() && t0.elapsed() > Duration::from_secs(limit_s) { deadlock = true; break; }
        }
        if deadlock { break; }
        let enabled: Vec<usize> = (0..n).filter(|&i| matches!(g.st[i], St::Parked(_))).collect();
        if enabled.is_empty() { break; }
        let k = choose(step, &enabled).min(enabled.len() - 1);
        let pick = enabled[k];
        let site = if let St::Parked(s) = &g.st[pick] { *s } else { "?" };
        trace.push((pick, site)); counts.push(enabled.len());
        g.turn = Some(pick);
        sched.cv.notify_all();
        drop(g);
        step += 1;
    }
    if !deadlock { for h in handles { let _ = h.join(); } }
    let observations = std::mem::take(&mut sched.inner.lock().unwrap().observations);
    let panics = std::mem::take(&mut *panics.lock().unwrap());
    RunOutcome { trace, enabled_counts: counts, deadlock, panics, observations }
}

/// A scheduling step that made no progress within the wall-clock patience is a suspected deadlock. The verdict is taken on
/// logical grounds: a fresh instance is driven through the same choices (the recorded picks, thread by thread) with a patience
/// of 120 s per step. A deadlock of the code under test is a property of the schedule and reproduces; a stall caused by an
/// overloaded machine does not. Returns the outcome to judge: the confirming run (deadlock = true only if it stalled too).
fn confirm_stall(make: &dyn Fn() -> Instance, first: &RunOutcome) -> (Instance, RunOutcome) {
    let inst = make();
    let picks: Vec<usize> = first.trace.iter().map(|t| t.0).collect();
    let Instance { bodies, observer, check, max_requested } = inst;
    let out = run_scheduled_limit(bodies, observer, |step, en| picks.get(step).and_then(|p| en.iter().position(|e| e == p)).unwrap_or(0), 120);
    (Instance { bodies: vec![], observer: None, check, max_requested }, out)
}

/// Stateless DFS over scheduler choices: returns the next choice path, or None when exhausted.
fn next_path(path: &mut Vec<usize>, counts: &[usize]) -> bool {
    // path[i] = choice taken at step i (padded with 0 beyond its length); counts[i] = enabled at step i
    let mut full: Vec<usize> = (0..counts.len()).map(|i| *path.get(i).unwrap_or(&0)).collect();
    while let Some(last) = full.len().checked_sub(1) {
        if full[last] + 1 < counts[last] { full[last] += 1; *path = full; return true; }
        full.pop();
    }
    false
}

struct Obs<'a> { cfg: &'a Cfg, grp: &'a str, case: u64 }
fn viol(o: &Obs, rep: &mut Report, op: &str, class: &str, kind: &str, detail: String, extra: serde_json::Value) {
    rep.violation(&format!("{}|{}|{}|{}", P, op, class, kind), detail, replay_json(o.cfg, o.grp, o.case, extra));
}

fn tiny_spec(scheme: SchemeType, n: usize) -> Spec {
    let mut r = Rng::new(7);
    // CKKS (rotation scenarios): one data prime + special prime keeps the number of hooked yield points per
    // rotation at 6, so that all 2-thread interleavings can be enumerated
    let qs = coeff_primes(n, if scheme == SchemeType::CKKS { &[40, 41] } else { &[40, 40, 41] }, &mut r).expect("primes");
    let t = if scheme == SchemeType::CKKS { 0 } else { ntt_primes_up(n, 8, 1)[0] };
    Spec { scheme, n, qs, t, special_flag: false, expand: true, family: "c17".into() }
}

/// ciphertext of the given size (product of size-1 fresh ciphertexts)
fn ct_of_size(kit: &Kit, size: usize, rng: &mut Rng) -> Ciphertext {
    let n = kit.n(); let t = kit.t();
    let fresh = |rng: &mut Rng| { let c: Vec<u64> = (0..n).map(|_| rng.below(t.min(4))).collect(); kit.enc.encrypt_new(&kit.plain_from_coeffs(&c)) };
    let mut ct = fresh(rng);
    for _ in 2..size { let f = fresh(rng); ct = kit.eval.multiply_new(&ct, &f); }
    ct
}

type Body = Box<dyn FnOnce() + Send>;

/// One scenario instance: builds fresh shared objects, returns thread bodies, a cache observer, and a post-check
struct Instance { bodies: Vec<Body>, observer: Option<Box<dyn Fn() -> usize + Send + Sync>>, check: Box<dyn FnOnce(&RunOutcome) -> Vec<(String, String)>>, max_requested: Option<usize> }

fn decryptor_instance(kit: &Arc<Kit>, cts: &Arc<Vec<Ciphertext>>, expected: &Arc<Vec<Vec<u64>>>) -> Instance {
    let dec = Arc::new(Decryptor::new(kit.ctx.clone(), kit.sk.clone()));
    let results: Arc<Mutex<Vec<Option<Vec<u64>>>>> = Arc::new(Mutex::new(vec![None; cts.len()]));
    let mut bodies: Vec<Body> = vec![];
    for i in 0..cts.len() {
        let (d, c, r, n) = (dec.clone(), cts.clone(), results.clone(), kit.n());
        bodies.push(Box::new(move || { let p = d.decrypt_new(&c[i]); r.lock().unwrap()[i] = Some(plain_coeffs(&p, n)); }));
    }
    let d2 = dec.clone();
    let (exp, res, d3) = (expected.clone(), results.clone(), dec.clone());
    let maxp = cts.iter().map(|c| c.size() - 1).max().unwrap();
    Instance { bodies, observer: Some(Box::new(move || d2.verif_key_powers())), max_requested: Some(maxp),
        check: Box::new(move |_out| {
            let mut v = vec![];
            let r = res.lock().unwrap();
            for i in 0..exp.len() { match &r[i] { Some(x) if *x == exp[i] => {}, Some(_) => v.push(("decrypt|value".to_string(), format!("thread {} decrypted to a different plaintext than the sequential run", i))), None => v.push(("decrypt|no_result".to_string(), format!("thread {} produced no result", i))) } }
            if d3.verif_key_powers() != maxp.max(1) { v.push(("cache|final_length".to_string(), format!("cache holds {} key powers at quiescence, expected {}", d3.verif_key_powers(), maxp.max(1)))); }
            v
        }) }
}

fn keygen_instance(kit: &Arc<Kit>, reqs: &[usize], reference_array: &Arc<Vec<u64>>, product: &Arc<Ciphertext>, product_plain: &Arc<Vec<u64>>) -> Instance {
    let kg = Arc::new(KeyGenerator::from_sk(kit.ctx.clone(), kit.sk.clone()));
    let rlks: Arc<Mutex<Vec<RelinKeys>>> = Arc::new(Mutex::new(vec![]));
    let gks: Arc<Mutex<Vec<GaloisKeys>>> = Arc::new(Mutex::new(vec![]));
    let mut bodies: Vec<Body> = vec![];
    for (i, &r) in reqs.iter().enumerate() {
        let (k, rl, gk) = (kg.clone(), rlks.clone(), gks.clone());
        bodies.push(Box::new(move || {
            match r {
                0 => { let g = k.create_galois_keys_from_elts(&[3], false); gk.lock().unwrap().push(g); }
                2 if i % 2 == 0 => { let x = k.create_relin_keys(false); rl.lock().unwrap().push(x); }
                p => { k.verif_compute_powers(p); }
            }
        }));
    }
    let k2 = kg.clone();
    let maxp = reqs.iter().copied().max().unwrap().max(1);
    let (k3, refa, kit2, prod, pp) = (kg.clone(), reference_array.clone(), kit.clone(), product.clone(), product_plain.clone());
    Instance { bodies, observer: Some(Box::new(move || k2.verif_key_powers())), max_requested: Some(maxp),
        check: Box::new(move |_out| {
            let mut v = vec![];
            let arr = k3.verif_key_array();
            let d = kit2.n() * kit2.key_qs().len();
            if arr.len() != maxp * d { v.push(("cache|final_length".to_string(), format!("key generator cache holds {} powers, expected {}", arr.len() / d, maxp))); }
            if arr.len() <= refa.len() && arr[..] != refa[..arr.len()] { v.push(("cache|content".to_string(), "cached secret key powers differ from the sequentially computed ones".to_string())); }
            for rk in rlks.lock().unwrap().iter() {
                if !rk.is_valid_for(&kit2.ctx) { v.push(("create_relin_keys|invalid".to_string(), "relinearization keys generated concurrently are not valid".to_string())); continue; }
                let r = kit2.eval.relinearize_new(&prod, rk);
                if plain_coeffs(&kit2.dec.decrypt_new(&r), kit2.n()) != *pp { v.push(("create_relin_keys|value".to_string(), "relinearization keys generated concurrently do not relinearize correctly".to_string())); }
            }
            for gk in gks.lock().unwrap().iter() { if !gk.is_valid_for(&kit2.ctx) { v.push(("create_galois_keys|invalid".to_string(), "Galois keys generated concurrently are not valid".to_string())); } }
            v
        }) }
}

fn rotation_instance(spec: &Spec, sk: &SecretKey, elts: &[usize], pk_ct: &Arc<Ciphertext>, gk_src: &Arc<GaloisKeys>, expected: &Arc<Vec<Ciphertext>>) -> Instance {
    // a fresh context => cold permutation-table cache; keys and ciphertext are plain data valid for any context with the same parameters
    let ctx = spec.context().expect("context");
    let eval = Arc::new(Evaluator::new(ctx.clone()));
    let _ = sk;
    let results: Arc<Mutex<Vec<Option<Ciphertext>>>> = Arc::new(Mutex::new(vec![None; elts.len()]));
    let mut bodies: Vec<Body> = vec![];
    for (i, &g) in elts.iter().enumerate() {
        let (e, c, k, r) = (eval.clone(), pk_ct.clone(), gk_src.clone(), results.clone());
        bodies.push(Box::new(move || { let x = e.apply_galois_new(&c, g, &k); r.lock().unwrap()[i] = Some(x); }));
    }
    let c2 = ctx.clone();
    let (exp, res, c3, distinct) = (expected.clone(), results.clone(), ctx.clone(), elts.iter().collect::<HashSet<_>>().len());
    Instance { bodies, observer: Some(Box::new(move || c2.key_context_data().unwrap().verif_galois_tool().verif_tables_filled())), max_requested: Some(distinct),
        check: Box::new(move |_out| {
            let mut v = vec![];
            let r = res.lock().unwrap();
            for i in 0..exp.len() { match &r[i] { Some(x) if same_ct(x, &exp[i]) => {}, Some(_) => v.push(("apply_galois|value".to_string(), format!("thread {} rotation result differs from the sequential bytes", i))), None => v.push(("apply_galois|no_result".to_string(), format!("thread {} produced no result", i))) } }
            let filled = c3.key_context_data().unwrap().verif_galois_tool().verif_tables_filled();
            if filled != distinct { v.push(("cache|final_length".to_string(), format!("{} permutation tables cached at quiescence, expected {}", filled, distinct))); }
            v
        }) }
}

/// rotations of a ciphertext racing with the plaintext-side automorphism (`apply_galois_plain*` on an NTT-form plaintext) of the
/// same / another element: both go through the shared permutation-table cache of the key level
fn rotation_plain_instance(spec: &Spec, roles: &[(bool, usize)], pk_ct: &Arc<Ciphertext>, plain: &Arc<Plaintext>, gk_src: &Arc<GaloisKeys>, expected_ct: &Arc<Vec<Option<Ciphertext>>>, expected_pl: &Arc<Vec<Option<Plaintext>>>) -> Instance {
    let ctx = spec.context().expect("context");
    let eval = Arc::new(Evaluator::new(ctx.clone()));
    let res_ct: Arc<Mutex<Vec<Option<Ciphertext>>>> = Arc::new(Mutex::new(vec![None; roles.len()]));
    let res_pl: Arc<Mutex<Vec<Option<Plaintext>>>> = Arc::new(Mutex::new(vec![None; roles.len()]));
    let mut bodies: Vec<Body> = vec![];
    for (i, &(is_plain, g)) in roles.iter().enumerate() {
        if is_plain {
            let (e, p, r) = (eval.clone(), plain.clone(), res_pl.clone());
            bodies.push(Box::new(move || { let x = match i % 3 { 0 => e.apply_galois_plain_new(&p, g), 1 => { let mut d = Plaintext::new(); e.apply_galois_plain(&p, g, &mut d); d } _ => { let mut x = (*p).clone(); e.apply_galois_plain_inplace(&mut x, g); x } }; r.lock().unwrap()[i] = Some(x); }));
        } else {
            let (e, c, k, r) = (eval.clone(), pk_ct.clone(), gk_src.clone(), res_ct.clone());
            bodies.push(Box::new(move || { let x = e.apply_galois_new(&c, g, &k); r.lock().unwrap()[i] = Some(x); }));
        }
    }
    let c2 = ctx.clone();
    let distinct = roles.iter().map(|r| r.1).collect::<HashSet<_>>().len();
    let (ec, ep, c3, roles) = (expected_ct.clone(), expected_pl.clone(), ctx.clone(), roles.to_vec());
    Instance { bodies, observer: Some(Box::new(move || c2.key_context_data().unwrap().verif_galois_tool().verif_tables_filled())), max_requested: Some(distinct),
        check: Box::new(move |_out| {
            let mut v = vec![];
            let (rc, rp) = (res_ct.lock().unwrap(), res_pl.lock().unwrap());
            for (i, &(is_plain, g)) in roles.iter().enumerate() {
                if is_plain {
                    match (&rp[i], &ep[i]) { (Some(x), Some(w)) if x.data() == w.data() && x.parms_id() == w.parms_id() && x.scale().to_bits() == w.scale().to_bits() => {},
                        (Some(_), _) => v.push(("apply_galois_plain|value".to_string(), format!("thread {} plaintext automorphism (element {}) differs from the sequential result", i, g))),
                        (None, _) => v.push(("apply_galois_plain|no_result".to_string(), format!("thread {} produced no result", i))) }
                } else {
                    match (&rc[i], &ec[i]) { (Some(x), Some(w)) if same_ct(x, w) => {},
                        (Some(_), _) => v.push(("apply_galois|value".to_string(), format!("thread {} rotation result (element {}) differs from the sequential bytes", i, g))),
                        (None, _) => v.push(("apply_galois|no_result".to_string(), format!("thread {} produced no result", i))) }
                }
            }
            let filled = c3.key_context_data().unwrap().verif_galois_tool().verif_tables_filled();
            if filled != distinct { v.push(("cache|final_length".to_string(), format!("{} permutation tables cached at quiescence, expected {}", filled, distinct))); }
            v
        }) }
}

/// checks common to every execution: no panic, no deadlock, per-thread monotone cache observations
fn common_checks(out: &RunOutcome, max_requested: Option<usize>) -> Vec<(String, String)> {
    let mut v = vec![];
    if out.deadlock { v.push(("schedule|deadlock".to_string(), format!("no progress at a scheduling step, twice: 20 s, then 120 s on a fresh instance driven through the same choices; trace {:?}", out.trace))); }
    for (tid, msg) in &out.panics { v.push((format!("thread|panic"), format!("thread {} panicked: {}", tid, msg))); }
    // the cache only grows: globally in scheduler mode (observations are totally ordered), hence also per thread
    let mut last = 0usize;
    for (tid, site, len) in &out.observations {
        if *len < last { v.push(("cache|shrunk".to_string(), format!("cache length went from {} to {} (seen by thread {} at {})", last, len, tid, site))); }
        last = *len;
        if let Some(m) = max_requested { if *len > m.max(1) { v.push(("cache|overgrown".to_string(), format!("cache length {} exceeds the maximum requested {}", len, m))); } }
    }
    v
}

struct Scenario { name: &'static str, threads: usize, make: Box<dyn Fn() -> Instance + Sync>, stress_only: bool }

fn scenarios(rng: &mut Rng) -> Vec<Scenario> {
    let mut out = vec![];
    for scheme in [SchemeType::BFV, SchemeType::CKKS] {
        let spec = tiny_spec(scheme, 8);
        let kit = Arc::new(Kit::new(&spec).expect("kit"));
        if scheme == SchemeType::BFV {
            // shared decryptor, racing requests for different key powers
            for (name, sizes) in [("decryptor_2_3", vec![2usize, 3]), ("decryptor_3_5", vec![3, 5]), ("decryptor_3_3", vec![3, 3]), ("decryptor_2_3_5", vec![2, 3, 5]), ("decryptor_5_3_2_4", vec![5, 3, 2, 4])] {
                let cts: Arc<Vec<Ciphertext>> = Arc::new(sizes.iter().map(|&s| ct_of_size(&kit, s, rng)).collect());
                let seq = Decryptor::new(kit.ctx.clone(), kit.sk.clone());
                let expected: Arc<Vec<Vec<u64>>> = Arc::new(cts.iter().map(|c| plain_coeffs(&seq.decrypt_new(c), kit.n())).collect());
                let k = kit.clone();
                out.push(Scenario { name, threads: sizes.len(), make: Box::new(move || decryptor_instance(&k, &cts, &expected)), stress_only: false });
            }
            // ciphertexts whose trailing polynomial is exactly zero ((a*b + c) - a*b: size 3, last polynomial all zero) next to
            // ordinary ones: the cache must be grown for the size the ciphertext HAS; expected plaintexts are known by construction
            {
                let n = kit.n(); let t = kit.t();
                let mk = |rng: &mut Rng| -> Vec<u64> { (0..n).map(|_| rng.below(t.min(4))).collect() };
                let (a, b, c) = (mk(rng), mk(rng), mk(rng));
                let sp = special_exact(&kit, &a, &b, &c);
                if let Some(zt) = sp.iter().find(|s| s.name == "zero_tail3") {
                    let plain2 = mk(rng);
                    let c2 = kit.enc.encrypt_new(&kit.plain_from_coeffs(&plain2));
                    for (name, order) in [("decryptor_zero_tail3_and_2", vec![0usize, 1]), ("decryptor_zero_tail3_twice_and_2", vec![0, 0, 1])] {
                        let cts: Arc<Vec<Ciphertext>> = Arc::new(order.iter().map(|&i| if i == 0 { zt.ct.clone() } else { c2.clone() }).collect());
                        let expected: Arc<Vec<Vec<u64>>> = Arc::new(order.iter().map(|&i| if i == 0 { zt.coeffs.clone() } else { plain2.clone() }).collect());
                        let k = kit.clone();
                        out.push(Scenario { name, threads: order.len(), make: Box::new(move || decryptor_instance(&k, &cts, &expected)), stress_only: false });
                    }
                }
            }
            // option combination: an NTT-form scheme (BGV) whose ciphertexts live on the key level (special-prime-for-encryption
            // flag): the shared decryptor races on ciphertexts that carry the key level's full modulus
            {
                let mut sp = tiny_spec(SchemeType::BGV, 8); sp.special_flag = true; sp.family = "c17-bgv-special-flag".into();
                if let Ok(k2) = Kit::new(&sp) {
                    let k2 = Arc::new(k2);
                    for (name, sizes) in [("decryptor_bgv_keylevel_2_3", vec![2usize, 3]), ("decryptor_bgv_keylevel_3_4", vec![3, 4])] {
                        let built = lib(|| sizes.iter().map(|&s| ct_of_size(&k2, s, rng)).collect::<Vec<_>>());
                        let Ok(cts) = built else { continue };
                        let seq = Decryptor::new(k2.ctx.clone(), k2.sk.clone());
                        let Ok(exp) = lib(|| cts.iter().map(|c| plain_coeffs(&seq.decrypt_new(c), k2.n())).collect::<Vec<_>>()) else { continue };
                        let (cts, expected, k) = (Arc::new(cts), Arc::new(exp), k2.clone());
                        out.push(Scenario { name, threads: sizes.len(), make: Box::new(move || decryptor_instance(&k, &cts, &expected)), stress_only: false });
                    }
                }
            }
            // shared key generator: relin keys (power 2), Galois keys (0 = no power), explicit powers
            let seqkg = KeyGenerator::from_sk(kit.ctx.clone(), kit.sk.clone());
            seqkg.verif_compute_powers(4);
            let reference: Arc<Vec<u64>> = Arc::new(seqkg.verif_key_array());
            let a = ct_of_size(&kit, 2, rng); let b = ct_of_size(&kit, 2, rng);
            let prod = Arc::new(kit.eval.multiply_new(&a, &b));
            let pp = Arc::new(plain_coeffs(&kit.dec.decrypt_new(&prod), kit.n()));
            for (name, reqs) in [("keygen_relin_galois", vec![2usize, 0]), ("keygen_powers_2_3", vec![2, 3]), ("keygen_powers_3_4", vec![3, 4]), ("keygen_powers_4_2_3", vec![4, 2, 3]), ("keygen_relin_relin_3", vec![2, 3, 2])] {
                let (k, r, p, q) = (kit.clone(), reference.clone(), prod.clone(), pp.clone());
                let n = reqs.len();
                out.push(Scenario { name, threads: n, make: Box::new(move || keygen_instance(&k, &reqs, &r, &p, &q)), stress_only: false });
            }
        }
        // shared evaluator/context: rotations on a cold permutation-table cache (NTT-form schemes use the cache: CKKS)
        if scheme == SchemeType::CKKS {
            let enc = kit.ckks.as_ref().unwrap();
            let vals: Vec<C64> = (0..kit.n() / 2).map(|j| C64::new(j as f64, 1.0)).collect();
            let ct = Arc::new(kit.enc.encrypt_new(&enc.encode_c64_array_new(&vals, None, 2f64.powi(20))));
            let gk = Arc::new(kit.keygen.create_galois_keys_from_elts(&[3, 5, 9, 15], false));
            for (name, elts) in [("rotate_same_elt", vec![3usize, 3]), ("rotate_diff_elts", vec![3, 5]), ("rotate_3_threads", vec![3, 5, 3]), ("rotate_4_threads", vec![3, 5, 9, 15])] {
                let seq_eval = Evaluator::new(spec.context().unwrap());
                let expected: Arc<Vec<Ciphertext>> = Arc::new(elts.iter().map(|&g| seq_eval.apply_galois_new(&ct, g, &gk)).collect());
                let (s, sk, c, g) = (spec.clone(), kit.sk.clone(), ct.clone(), gk.clone());
                let n = elts.len();
                out.push(Scenario { name, threads: n, make: Box::new(move || rotation_instance(&s, &sk, &elts, &c, &g, &expected)), stress_only: false });
            }
            // rotations racing with plaintext-side automorphisms (NTT-form plaintext) through the same cache
            {
                let pl = Arc::new(enc.encode_c64_array_new(&vals, None, 2f64.powi(20)));
                for (name, roles) in [("rotate_vs_plain_same_elt", vec![(false, 3usize), (true, 3)]), ("plain_vs_plain_same_elt", vec![(true, 3), (true, 3)]), ("rotate_vs_plain_diff_elts", vec![(false, 3), (true, 5)]),
                                      ("rotate_plain_rotate_3_threads", vec![(false, 3), (true, 3), (false, 3)]), ("plain_rotate_plain_3_threads", vec![(true, 3), (false, 3), (true, 3)])] {
                    let seq_eval = Evaluator::new(spec.context().unwrap());
                    let ec: Arc<Vec<Option<Ciphertext>>> = Arc::new(roles.iter().map(|&(p, g)| if p { None } else { Some(seq_eval.apply_galois_new(&ct, g, &gk)) }).collect());
                    let ep: Arc<Vec<Option<Plaintext>>> = Arc::new(roles.iter().map(|&(p, g)| if p { Some(seq_eval.apply_galois_plain_new(&pl, g)) } else { None }).collect());
                    let (s, c, p, g) = (spec.clone(), ct.clone(), pl.clone(), gk.clone());
                    let n = roles.len();
                    out.push(Scenario { name, threads: n, make: Box::new(move || rotation_plain_instance(&s, &roles, &c, &p, &g, &ec, &ep)), stress_only: false });
                }
            }
            // large degree, many threads, one cold table: the table-generation window grows with N (stress only)
            let big = tiny_spec(SchemeType::CKKS, 2048);
            if let Ok(bk) = Kit::new(&big) {
                let enc = bk.ckks.as_ref().unwrap();
                let vals: Vec<C64> = (0..16).map(|j| C64::new(j as f64, 1.0)).collect();
                let ct = Arc::new(bk.enc.encrypt_new(&enc.encode_c64_array_new(&vals, None, 2f64.powi(20))));
                let gk = Arc::new(bk.keygen.create_galois_keys_from_elts(&[3, 5], false));
                let elts = vec![3usize, 3, 3, 3, 5, 3, 3, 3];
                let seq_eval = Evaluator::new(big.context().unwrap());
                let expected: Arc<Vec<Ciphertext>> = Arc::new(elts.iter().map(|&g| seq_eval.apply_galois_new(&ct, g, &gk)).collect());
                let (s, sk, c, g) = (big.clone(), bk.sk.clone(), ct.clone(), gk.clone());
                out.push(Scenario { name: "rotate_n2048_8_threads", threads: 8, make: Box::new(move || rotation_instance(&s, &sk, &elts, &c, &g, &expected)), stress_only: true });
            }
        }
    }
    out
}

fn report(o: &Obs, rep: &mut Report, scen: &str, mode: &str, problems: Vec<(String, String)>, trace: &[(usize, &'static str)]) {
    for (sig, detail) in problems {
        let (op, kind) = sig.split_once('|').unwrap_or((&sig, "value"));
        viol(o, rep, op, &format!("{}|{}", scen, mode), kind, format!("{} ; schedule {:?}", detail, trace), json!({"scenario": scen, "mode": mode, "schedule": trace.iter().map(|(t, s)| format!("{}@{}", t, s)).collect::<Vec<_>>()}));
    }
}

fn fnv_trace(t: &[(usize, &'static str)]) -> u64 { let mut h = 0xcbf29ce484222325u64; for (a, s) in t { h ^= *a as u64 + 1; h = h.wrapping_mul(0x100000001b3); for b in s.bytes() { h ^= b as u64; h = h.wrapping_mul(0x100000001b3); } } h }

/// (A) controlled schedules (scenarios run in parallel; each scheduled run serialises its own threads)
fn controlled(cfg: &Cfg, rep: &mut Report) {
    let mut rng = Rng::new(cfg.seed ^ 0xC17);
    let scens = scenarios(&mut rng);
    if let Some((g, _)) = &cfg.only_case { if g != "schedules" { return; } }
    let seeds: Vec<u64> = scens.iter().map(|_| rng.u64()).collect();
    let merged = Mutex::new(Report::new());
    std::thread::scope(|scope| {
        for (si, sc) in scens.iter().enumerate() {
            if sc.stress_only { continue; }
            let merged = &merged; let seed = seeds[si];
            scope.spawn(move || {
                let mut local = Report::new();
                let rep = &mut local;
                let mut rng = Rng::new(seed);
                let o = Obs { cfg, grp: "schedules", case: si as u64 };
                let budget = if sc.threads == 2 { cfg.pick(4000, 200000) } else { cfg.pick(1500, 20000) };
                let mut distinct: HashSet<u64> = HashSet::new();
                let mut path: Vec<usize> = vec![];
                let mut executed = 0usize; let mut exhausted = false;
                let mut sample_trace = None;
                loop {
                    let inst = (sc.make)();
                    let p = path.clone();
                    let Instance { bodies, observer, check, max_requested } = inst;
                    let mut out = run_scheduled(bodies, observer, |step, _en| *p.get(step).unwrap_or(&0));
                    let mut inst = Instance { bodies: vec![], observer: None, check, max_requested };
                    if out.deadlock { let (i2, o2) = confirm_stall(&*sc.make, &out); rep.count("suspected_stalls_re_executed", if o2.deadlock { "reproduced" } else { "completed_on_re_execution" }); inst = i2; out = o2; }
                    executed += 1; rep.evals(1);
                    distinct.insert(fnv_trace(&out.trace));
                    let mut problems = common_checks(&out, inst.max_requested);
                    if !out.deadlock { problems.extend((inst.check)(&out)); }
                    if sample_trace.is_none() { sample_trace = Some(out.trace.clone()); }
                    report(&o, rep, sc.name, "dfs", problems, &out.trace);
                    if out.deadlock { break; }
                    if !next_path(&mut path, &out.enabled_counts) { exhausted = true; break; }
                    if executed >= budget { break; }
                }
                let mut random_runs = 0;
                if !exhausted {
                    for _ in 0..cfg.pick(800, 10000) {
                        let inst = (sc.make)();
                        let mut r2 = Rng::new(rng.u64());
                        let Instance { bodies, observer, check, max_requested } = inst;
                        let mut out = run_scheduled(bodies, observer, |_s, en| r2.usize_below(en.len()));
                        let mut inst = Instance { bodies: vec![], observer: None, check, max_requested };
                        if out.deadlock { let (i2, o2) = confirm_stall(&*sc.make, &out); rep.count("suspected_stalls_re_executed", if o2.deadlock { "reproduced" } else { "completed_on_re_execution" }); inst = i2; out = o2; }
                        random_runs += 1; rep.evals(1);
                        distinct.insert(fnv_trace(&out.trace));
                        let mut problems = common_checks(&out, inst.max_requested);
                        if !out.deadlock { problems.extend((inst.check)(&out)); }
                        report(&o, rep, sc.name, "random", problems, &out.trace);
                        if out.deadlock { break; }
                    }
                }
                if std::env::var("HV_C17_DEBUG").is_ok() { eprintln!("scenario {} threads {} executed {} random {} distinct {} exhausted {}", sc.name, sc.threads, executed, random_runs, distinct.len(), exhausted); }
                rep.count_n("distinct_schedules", sc.name, distinct.len() as u64);
                rep.count_n("executions", sc.name, (executed + random_runs) as u64);
                rep.count("schedule_space_exhausted", &format!("{}={}", sc.name, exhausted));
                for h in distinct.iter().take(4000) { rep.distinct.insert(*h); }
                if let Some(t) = sample_trace { rep.sample(json!({"scenario": sc.name, "threads": sc.threads, "first_schedule": t.iter().map(|(t, s)| format!("T{}@{}", t, s)).collect::<Vec<_>>(), "distinct_schedules": distinct.len(), "exhausted": exhausted})); }
                merged.lock().unwrap().merge(local);
            });
        }
    });
    rep.merge(merged.into_inner().unwrap());
}

/// (B) stress with real parallelism and micro-delays at the hook sites (scenarios in parallel)
pub fn stress(cfg: &Cfg, rep: &mut Report, iterations: usize) {
    install_dispatch();
    let mut rng = Rng::new(cfg.seed ^ 0x57E55);
    let scens = scenarios(&mut rng);
    let seeds: Vec<u64> = scens.iter().map(|_| rng.u64()).collect();
    let merged = Mutex::new(Report::new());
    let per = (iterations / scens.len()).max(1);
    std::thread::scope(|scope| {
        for (si, sc) in scens.iter().enumerate() {
            let merged = &merged; let seed0 = seeds[si];
            scope.spawn(move || {
                let mut local = Report::new();
                let rep = &mut local;
                let mut rng = Rng::new(seed0);
                let o = Obs { cfg, grp: "stress", case: si as u64 };
                let mut hook_orders: HashSet<u64> = HashSet::new();
                let per = if sc.stress_only { (per / 4).max(20) } else { per };
                for _it in 0..per {
                    let inst = (sc.make)();
                    let order: Arc<Mutex<Vec<(usize, &'static str)>>> = Arc::new(Mutex::new(vec![]));
                    let obs_log: Arc<Mutex<Vec<(usize, &'static str, usize)>>> = Arc::new(Mutex::new(vec![]));
                    let observer = inst.observer.map(Arc::new);
                    let seed = rng.u64();
                    let ctr = Arc::new(AtomicU64::new(0));
                    let (ord2, log2, obs2) = (order.clone(), obs_log.clone(), observer.clone());
                    let handler: Arc<dyn Fn(&'static str) + Send + Sync> = Arc::new(move |site| {
                        let Some(tid) = TID.with(|t| t.get()) else { return };
                        let k = ctr.fetch_add(1, Ordering::Relaxed);
                        let mut r = Rng::derive(seed, tid as u64, k);
                        match r.below(6) { 0 => std::thread::yield_now(), 1 => { for _ in 0..r.below(2000) { std::hint::spin_loop(); } } 2 => std::thread::sleep(Duration::from_micros(r.range(1, 50))), _ => {} }
                        if let Some(f) = &obs2 { let l = f(); log2.lock().unwrap().push((tid, site, l)); }
                        ord2.lock().unwrap().push((tid, site));
                    });
                    let nthreads = inst.bodies.len();
                    let barrier = Arc::new(std::sync::Barrier::new(nthreads));
                    let panics = Arc::new(Mutex::new(vec![]));
                    let done = Arc::new((Mutex::new(0usize), Condvar::new()));
                    let mut hs = vec![];
                    for (tid, body) in inst.bodies.into_iter().enumerate() {
                        let (b, pn, dn, h) = (barrier.clone(), panics.clone(), done.clone(), handler.clone());
                        hs.push(std::thread::spawn(move || {
                            TID.with(|t| t.set(Some(tid)));
                            HANDLER.with(|x| *x.borrow_mut() = Some(h));
                            b.wait();
                            if let Err(p) = lib(body) { pn.lock().unwrap().push((tid, p.0)); }
                            HANDLER.with(|x| *x.borrow_mut() = None);
                            let mut g = dn.0.lock().unwrap(); *g += 1; dn.1.notify_all();
                        }));
                    }
                    // deadlock watchdog (bounded progress)
                    let t0 = Instant::now();
                    let mut deadlock = false;
                    { // decided on logical progress: no hook event and no thread end for 60 s (and at least 30 s since the start); a loaded machine still makes progress
                      let mut g = done.0.lock().unwrap(); let (mut last_len, mut last_done, mut last_progress) = (0usize, 0usize, Instant::now());
                      while *g < nthreads { let (g2, _) = done.1.wait_timeout(g, Duration::from_millis(500)).unwrap(); g = g2; let l = order.lock().unwrap().len(); if l != last_len || *g != last_done { last_len = l; last_done = *g; last_progress = Instant::now(); } if t0.elapsed() > Duration::from_secs(30) && last_progress.elapsed() > Duration::from_secs(60) { deadlock = true; break; } } }
                    if !deadlock { for h in hs { let _ = h.join(); } }
                    let trace = order.lock().unwrap().clone();
                    hook_orders.insert(fnv_trace(&trace));
                    // per-thread monotonicity (real parallelism: only each single observer's view is ordered)
                    let mut problems = vec![];
                    let log = obs_log.lock().unwrap().clone();
                    for tid in 0..nthreads { let mut last = 0; for (t, site, l) in &log { if *t == tid { if *l < last { problems.push(("cache|shrunk".to_string(), format!("thread {} saw the cache shrink from {} to {} at {}", tid, last, l, site))); } last = *l; } } }
                    if deadlock { problems.push(("stress|deadlock".to_string(), "no hook event and no thread end for 60 s".to_string())); }
                    for (tid, msg) in panics.lock().unwrap().iter() { problems.push(("thread|panic".to_string(), format!("thread {} panicked: {}", tid, msg))); }
                    let out = RunOutcome { trace: trace.clone(), enabled_counts: vec![], deadlock, panics: vec![], observations: vec![] };
                    if !deadlock { problems.extend((inst.check)(&out)); }
                    report(&o, rep, sc.name, "stress", problems, &trace[..trace.len().min(24)]);
                    rep.evals(1);
                    if deadlock { break; }
                }
                rep.count_n("stress_iterations", sc.name, per as u64);
                rep.count_n("stress_distinct_hook_orders", sc.name, hook_orders.len() as u64);
                for h in hook_orders.iter().take(4000) { rep.distinct.insert(*h ^ 0x5); }
                merged.lock().unwrap().merge(local);
            });
        }
    });
    rep.merge(merged.into_inner().unwrap());
}

/// (C) sanitizer subprocesses: a TSan build of this binary running the stress part only
fn sanitizer_pass(cfg: &Cfg, rep: &mut Report) {
    let o = Obs { cfg, grp: "tsan", case: 0 };
    let vd = std::env::var("VERIF_DIR").unwrap_or_else(|_| "/verif".into());
    let bin = std::env::var("HV_TSAN_BIN").unwrap_or_else(|_| format!("{}/target-tsan/x86_64-unknown-linux-gnu/release/hv", vd));
    if !std::path::Path::new(&bin).exists() { rep.note("ThreadSanitizer build not present: sanitizer pass skipped (run ./check or setup.sh to build it)"); rep.count("sanitizers", "tsan_skipped_no_binary"); return; }
    let logdir = format!("{}/target-tsan/logs", vd);
    let _ = std::fs::remove_dir_all(&logdir); let _ = std::fs::create_dir_all(&logdir);
    let iters = cfg.pick(1500, 20000);
    let out = std::process::Command::new(&bin).arg("C17").env("HV_C17_MODE", "stress-only").env("HV_C17_ITERS", iters.to_string())
        .env("VERIF_SEED", cfg.seed.to_string()).env("VERIF_DIR", format!("{}/target-tsan/out", vd))
        .env("TSAN_OPTIONS", format!("halt_on_error=0 exitcode=66 log_path={}/tsan report_signal_unsafe=0", logdir)).output();
    let Ok(out) = out else { rep.note("could not start the ThreadSanitizer binary"); rep.count("sanitizers", "tsan_failed_to_start"); return; };
    let stdout = String::from_utf8_lossy(&out.stdout).to_string();
    // collect reports
    let mut reports: Vec<String> = vec![];
    if let Ok(rd) = std::fs::read_dir(&logdir) { for e in rd.flatten() { if let Ok(s) = std::fs::read_to_string(e.path()) { for block in s.split("==================").filter(|b| b.contains("WARNING: ThreadSanitizer")) { reports.push(block.to_string()); } } } }
    let mut seen = HashSet::new();
    for r in &reports {
        // dedupe by the first two frames inside the library or the harness
        let frames: Vec<&str> = r.lines().filter(|l| l.contains("/repo/src/") || l.contains("heathcliff")).take(2).collect();
        let key = frames.iter().map(|f| f.split(" in ").nth(1).unwrap_or(f).split(" /").next().unwrap_or("").trim().to_string()).collect::<Vec<_>>().join(" <-> ");
        if seen.insert(key.clone()) {
            let kind = r.lines().find(|l| l.contains("WARNING: ThreadSanitizer")).unwrap_or("").replace("WARNING: ThreadSanitizer: ", "");
            viol(&o, rep, "tsan", &key.chars().take(120).collect::<String>(), "data_race", format!("ThreadSanitizer: {} ; first frames: {}", kind.trim(), key), json!({"report": r.chars().take(3000).collect::<String>()}));
        }
    }
    rep.count_n("sanitizers", "tsan_reports", reports.len() as u64);
    rep.count_n("sanitizers", "tsan_stress_iterations", iters as u64);
    rep.count("sanitizers", &format!("tsan_exit_code={}", out.status.code().unwrap_or(-1)));
    // the TSan child runs the same oracles: propagate its violations
    for l in stdout.lines().filter(|l| l.starts_with("  signature: ")) { let sig = l.trim_start_matches("  signature: "); viol(&o, rep, "tsan_build", &sig.replace('|', "/"), "value", format!("stress oracle failed inside the ThreadSanitizer build: {}", sig), json!({})); }
    if !stdout.contains("SUMMARY property=C17") { rep.note("ThreadSanitizer child did not complete"); rep.count("sanitizers", "tsan_child_incomplete"); }
    rep.evals(iters as u64);
}

fn miri_pass(cfg: &Cfg, rep: &mut Report) {
    let o = Obs { cfg, grp: "miri", case: 0 };
    let vd = std::env::var("VERIF_DIR").unwrap_or_else(|_| "/verif".into());
    let script = format!("{}/tools/miri_c17.sh", vd);
    if !std::path::Path::new(&script).exists() { rep.note("miri driver script missing"); return; }
    let out = std::process::Command::new("bash").arg(&script).env("VERIF_SEED", cfg.seed.to_string()).output();
    let Ok(out) = out else { rep.note("could not start miri"); return; };
    let text = format!("{}{}", String::from_utf8_lossy(&out.stdout), String::from_utf8_lossy(&out.stderr));
    let ub: Vec<&str> = text.lines().filter(|l| l.contains("Undefined Behavior") || l.contains("Data race detected")).collect();
    rep.count_n("sanitizers", "miri_seeds_ok", text.matches("MIRI-SCENARIO-OK").count() as u64);
    rep.count_n("sanitizers", "miri_ub_reports", ub.len() as u64);
    for l in ub.iter().take(3) { viol(&o, rep, "miri", &l.chars().take(100).collect::<String>(), "undefined_behavior", format!("Miri: {}", l), json!({"log_tail": text.chars().rev().take(3000).collect::<String>().chars().rev().collect::<String>()})); }
    if text.matches("MIRI-SCENARIO-OK").count() == 0 && ub.is_empty() { rep.note("miri produced no completed scenario (tool failure or timeout): inconclusive for the miri part"); rep.count("sanitizers", "miri_inconclusive"); }
}

/// tiny scenario for Miri (called via `hv C17MIRI`): two threads race on a fresh decryptor
pub fn miri_scenario() -> i32 {
    let spec = { let n = 4; Spec { scheme: SchemeType::BFV, n, qs: vec![1048609, 1048681], t: 17, special_flag: false, expand: false, family: "miri".into() } };
    let kit = Arc::new(Kit::new(&spec).expect("kit"));
    let mut rng = Rng::new(1);
    let a = ct_of_size(&kit, 2, &mut rng); let b = ct_of_size(&kit, 3, &mut rng);
    let seq = Decryptor::new(kit.ctx.clone(), kit.sk.clone());
    let (ea, eb) = (plain_coeffs(&seq.decrypt_new(&a), 4), plain_coeffs(&seq.decrypt_new(&b), 4));
    let dec = Arc::new(Decryptor::new(kit.ctx.clone(), kit.sk.clone()));
    let (d1, d2) = (dec.clone(), dec.clone());
    let h1 = std::thread::spawn(move || plain_coeffs(&d1.decrypt_new(&a), 4));
    let h2 = std::thread::spawn(move || plain_coeffs(&d2.decrypt_new(&b), 4));
    let (ra, rb) = (h1.join().unwrap(), h2.join().unwrap());
    if ra == ea && rb == eb && dec.verif_key_powers() == 2 { println!("MIRI-SCENARIO-OK"); 0 } else { println!("MIRI-SCENARIO-MISMATCH"); 1 }
}

pub fn run(cfg: &Cfg, rep: &mut Report) -> PropMeta {
    let mode = std::env::var("HV_C17_MODE").unwrap_or_default();
    if mode == "stress-only" {
        let iters: usize = std::env::var("HV_C17_ITERS").ok().and_then(|s| s.parse().ok()).unwrap_or(1000);
        stress(cfg, rep, iters);
    } else {
        controlled(cfg, rep);
        stress(cfg, rep, cfg.pick(6000, 150000));
        sanitizer_pass(cfg, rep);
        if !cfg.quick() { miri_pass(cfg, rep); }
    }
    PropMeta {
        id: "C17", level: "exploration",
        rule: "scenarios: one fresh shared Decryptor decrypting ciphertexts of sizes (2,3) (3,5) (3,3) (2,3,5) (5,3,2,4); one shared KeyGenerator with concurrent relin/Galois key generation and requests for key powers (2,3) (3,4) (4,2,3); one shared evaluator/context with concurrent Galois maps on a cold permutation-table cache (same / different elements, 2-4 threads). (A) every interleaving of the hooked yield points for 2 threads, bounded DFS + seeded random schedules for 3-4 threads; (B) real-parallel stress with random micro-delays at the hook sites; (C) the stress workload in a ThreadSanitizer build (thorough: a 2-thread scenario under Miri with several seeds). distinct = distinct schedules (hash of the release sequence) + distinct hook-order signatures seen under stress. Five further evaluator scenarios race ciphertext rotations with plaintext-side automorphisms (apply_galois_plain* on an NTT-form plaintext) of the same / another element through the shared permutation-table cache",
        assumptions: vec!["yield points sit only where the library holds no lock, so serialising threads there cannot create interleavings the program cannot have".into(),
            "deadlock is decided as bounded progress: scheduler: a step without progress for 20 s is re-executed on a fresh instance with the same choices and 120 s patience per step, and reported only if it stalls again; stress: no hook event and no thread end for 60 s".into(),
            "interleavings inside a lock phase are not enumerated; ThreadSanitizer / Miri cover data races there, not orderings".into(),
            "Miri runs with alignment and stacked-borrows checks off (unrelated findings outside this property)".into()],
        exhaustive: false, floor: 200,
    }
}
