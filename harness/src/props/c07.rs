//! C07 — the reported invariant noise budget is the true one; fresh budgets meet the
//! worst-case bound; negation keeps it; sums of k lose at most ceil(log2 k)+1 bits; exact
//! decryption whenever the exact noise is below the threshold.
//! Oracle: exact big-integer evaluation of the definition on the phase under the recovered secret.

use crate::big::BigU;
use crate::he::*;
use crate::prog::*;
use crate::props::c01::gen_plain;
use crate::props::c02::{op_brief, program_spec};
use crate::refm;
use crate::rt::*;
use heathcliff::*;
use serde_json::json;

const P: &str = "C07";

struct Obs<'a> { cfg: &'a Cfg, grp: &'a str, case: u64 }

fn viol(o: &Obs, rep: &mut Report, op: &str, class: &str, kind: &str, detail: String, m: &Machine, trace: &[String]) {
    rep.violation(&format!("{}|{}|{}|{}", P, op, class, kind), format!("{} ; program: {:?} ; params {}", detail, trace, m.kit.spec.describe()),
        replay_json(o.cfg, o.grp, o.case, json!({"params": m.kit.spec.describe(), "program": trace})));
}

/// library budget of a ciphertext in any representation (the API wants coefficient form)
fn lib_budget(m: &Machine, ct: &Ciphertext) -> Result<usize, Panicked> {
    lib(|| {
        if ct.is_ntt_form() { let c = m.kit.eval.transform_from_ntt_new(ct); m.kit.dec.invariant_noise_budget(&c) } else { m.kit.dec.invariant_noise_budget(ct) }
    })
}

fn ceil_log2(k: usize) -> usize { let mut b = 0; while (1usize << b) < k { b += 1; } b }

/// checks (a) and (d) on one pool element; returns (library budget, oracle budget)
fn observe(o: &Obs, rep: &mut Report, m: &Machine, el: &Elem, what: &str, trace: &[String]) -> Option<(usize, usize)> {
    let scheme = m.kit.spec.scheme_name();
    let k = m.kit.level_qs(el.level).len();
    let cls = format!("{}|words={}|size={}", scheme, k, if el.ct.size() == 2 { "2" } else { ">2" });
    let lb = match lib_budget(m, &el.ct) {
        Ok(b) => b,
        Err(p) => { viol(o, rep, "invariant_noise_budget", &cls, "panic", format!("budget of a valid ciphertext ({}) panicked: {}", what, p.0), m, trace); return None; }
    };
    let oracle = m.oracle.as_ref()?;
    let (om, ob, norm) = if m.bfv { oracle.bfv(&m.kit.ctx, &el.ct, m.t()) } else { oracle.bgv(&m.kit.ctx, &el.ct, m.t()) };
    rep.count("budget_checked", &format!("{}|words={}|size={}|L{}|budget={}", scheme, k, el.ct.size().min(9), el.level, match ob { 0 => "0", 1..=3 => "1-3", 4..=15 => "4-15", 16..=63 => "16-63", _ => "64+" }));
    rep.min(&format!("budget_seen_{}", scheme), ob as f64);
    rep.max(&format!("budget_seen_{}", scheme), ob as f64);
    if lb != ob {
        viol(o, rep, "invariant_noise_budget", &cls, "value", format!("library budget {} != exact budget {} (noise norm {} bits, level {}, {})", lb, ob, norm.bits(), el.level, what), m, trace);
    }
    // (d) exact noise strictly inside the threshold => library decryption is the message the ciphertext carries
    let q = refm::product(&m.kit.level_qs(el.level));
    let inside = norm.shl(1).add(&norm.shr(9)) < q; // 2*norm*(1+2^-10) < q
    if inside {
        rep.count("decrypt_checked", &format!("{}|budget={}", scheme, ob.min(8)));
        match m.lib_decrypt(&el.ct) {
            Err(p) => viol(o, rep, "decrypt", &cls, "panic", format!("decrypt panicked although exact noise is below threshold: {}", p.0), m, trace),
            Ok(got) => if got != om {
                viol(o, rep, "decrypt", &cls, "value", format!("exact noise below threshold (budget {}) but library decryption {:?} != exact decryption {:?}", ob, &got[..got.len().min(6)], &om[..om.len().min(6)]), m, trace);
            }
        }
    }
    rep.eval(Some(&format!("{}|{}|{}|{}|{}", scheme, k, el.ct.size(), el.level, ob)));
    Some((lb, ob))
}

fn fresh_check(o: &Obs, rep: &mut Report, m: &Machine, idx: usize, pk: bool, trace: &[String]) {
    let el = &m.pool[idx];
    let Some((lb, _)) = observe(o, rep, m, el, "fresh", trace) else { return };
    // norm <= t * E_fresh (BFV: t*|eps|, BGV: |phase|)
    let e = m.fresh_bound(pk);
    let bound = if m.bfv { (m.t() as f64 * e).ceil() } else { e.ceil() };
    let q = refm::product(&m.kit.level_qs(0));
    let nb = BigU::from_u128(bound as u128).bits();
    let want = (q.bits() as isize - nb as isize - 1).max(0) as usize;
    rep.count("fresh_checked", &format!("{}|{}", m.kit.spec.scheme_name(), if pk { "pk" } else { "sk" }));
    if lb < want {
        viol(o, rep, "fresh_budget", &format!("{}|{}", m.kit.spec.scheme_name(), if pk { "pk" } else { "sk" }), "value", format!("fresh budget {} below the worst-case guarantee {} (q {} bits, bound {})", lb, want, q.bits(), bound), m, trace);
    }
}

fn spec_for(rng: &mut Rng, ns: &[usize]) -> Option<Spec> {
    if rng.chance(1, 6) {
        // single prime: one-word norm path, no key switching
        let scheme = if rng.bool() { SchemeType::BFV } else { SchemeType::BGV };
        let n = *rng.pick(ns);
        let qs = coeff_primes(n, &[rng.range(40, 60) as u32], rng)?;
        let t = *rng.pick(&[2u64, 3, 16, 17, 257]);
        if refm::gcd(qs[0], t) != 1 { return None; }
        return Some(Spec { scheme, n, qs, t, special_flag: false, expand: true, family: "single_prime".into() });
    }
    program_spec(rng, ns, None)
}

fn programs(cfg: &Cfg, grp: &str, case: u64, rng: &mut Rng, rep: &mut Report, ns: &[usize]) {
    let Some(spec) = spec_for(rng, ns) else { return };
    let Ok(kit) = Kit::new(&spec) else { return };
    let o = Obs { cfg, grp, case };
    let mut m = Machine::new(&kit, true);
    if m.oracle.is_none() { rep.harness_errors.push("oracle unavailable".into()); return; }
    let mut trace = vec![];
    for _ in 0..4 {
        let (cls, coeffs) = gen_plain(rng, m.n(), m.t());
        let pk = rng.bool();
        trace.push(format!("fresh({}, {})", cls, if pk { "pk" } else { "sk" }));
        let Ok(i) = m.fresh(&coeffs, pk) else { return };
        fresh_check(&o, rep, &m, i, pk, &trace);
    }
    let steps = rng.range(4, cfg.pick(14, 30)) as usize;
    for _ in 0..steps {
        let Some(op) = m.random_op(rng) else { break };
        let form = *rng.pick(&FORMS);
        let ops = Machine::operands(&op);
        trace.push(format!("{}/{:?}", op_brief(&op), form));
        let Ok(ct) = m.execute(&op, form) else { continue }; // panics on well-typed operations are C02's business
        let el = m.result_elem(&op, ct);
        let Some((lb, _)) = observe(&o, rep, &m, &el, op.name(), &trace) else { continue };
        // (c) negation keeps the budget; sums / differences of k lose at most ceil(log2 k)+1 bits
        let same_cf = ops.iter().all(|i| m.pool[*i].ct.correction_factor() == m.pool[ops[0]].ct.correction_factor());
        match &op {
            Op::Negate(a) => {
                if let Ok(b0) = lib_budget(&m, &m.pool[*a].ct) { rep.count("relation_checked", "negate");
                    if b0 != lb { viol(&o, rep, "negate", m.kit.spec.scheme_name(), "value", format!("budget changed under negation: {} -> {}", b0, lb), &m, &trace); } }
            }
            Op::Add(..) | Op::Sub(..) | Op::AddMany(_) if same_cf => {
                let k = ops.len();
                let bs: Vec<usize> = ops.iter().filter_map(|i| lib_budget(&m, &m.pool[*i].ct).ok()).collect();
                if bs.len() == k {
                    let minb = *bs.iter().min().unwrap();
                    let allowed = ceil_log2(k) + 1;
                    rep.count("relation_checked", &format!("sum_k={}", k));
                    if lb + allowed < minb {
                        viol(&o, rep, op.name(), &format!("{}|k={}", m.kit.spec.scheme_name(), k), "value", format!("sum of {} ciphertexts with budgets {:?} has budget {} (< min - {})", k, bs, lb, allowed), &m, &trace);
                    }
                }
            }
            _ => {}
        }
        m.pool.push(el);
        if m.pool.len() > 28 { break; }
    }
    if case < 2 { rep.sample(json!({"group": grp, "case": case, "params": spec.describe(), "program": trace,
        "budgets": m.pool.iter().map(|e| json!({"origin": e.origin, "size": e.ct.size(), "level": e.level, "library_budget": lib_budget(&m, &e.ct).ok(), "exact_budget": m.oracle_decrypt(&e.ct).map(|x| x.1)})).collect::<Vec<_>>()})); }
}

/// fresh encryptions with a large plain modulus (40..59 bits): exercises the 128-bit carries of the q*m/t rounding
fn fresh_large_t(cfg: &Cfg, grp: &str, case: u64, rng: &mut Rng, rep: &mut Report) {
    let scheme = if rng.bool() { SchemeType::BFV } else { SchemeType::BGV };
    let n = *rng.pick(&[8usize, 16, 32, 64]);
    let Some(qs) = coeff_primes(n, &[60, 60, 59], rng) else { return };
    let tb = rng.range(40, 59) as u32;
    let mut t = rng.bits(tb) | (1 << (tb - 1)) | 1;
    while qs.iter().any(|&q| refm::gcd(q, t) != 1) { t += 2; }
    let spec = Spec { scheme, n, qs, t, special_flag: rng.chance(1, 3), expand: true, family: format!("large_t_{}bits", tb) };
    let Ok(kit) = Kit::new(&spec) else { return };
    let o = Obs { cfg, grp, case };
    let mut m = Machine::new(&kit, true);
    if m.oracle.is_none() { return; }
    let mut trace = vec![];
    for _ in 0..6 {
        let (cls, coeffs) = gen_plain(rng, m.n(), m.t());
        let pk = rng.bool();
        trace.push(format!("fresh({}, {})", cls, if pk { "pk" } else { "sk" }));
        let Ok(i) = m.fresh(&coeffs, pk) else { return };
        fresh_check(&o, rep, &m, i, pk, &trace);
        rep.count("large_t_bits", &format!("{}", tb));
    }
}

/// k-fold sums, k = 2..64
fn sums(cfg: &Cfg, grp: &str, case: u64, rng: &mut Rng, rep: &mut Report) {
    let Some(spec) = spec_for(rng, &[2, 4, 8, 16]) else { return };
    let Ok(kit) = Kit::new(&spec) else { return };
    let o = Obs { cfg, grp, case };
    let mut m = Machine::new(&kit, true);
    if m.oracle.is_none() { return; }
    let k = match rng.below(4) { 0 => 64, 1 => rng.range(2, 8) as usize, 2 => *rng.pick(&[3usize, 5, 9, 17, 33]), _ => rng.range(2, 64) as usize };
    let mut trace = vec![format!("{} fresh ciphertexts", k)];
    for _ in 0..k { let (_, c) = gen_plain(rng, m.n(), m.t()); if m.fresh(&c, rng.bool()).is_err() { return; } }
    let idx: Vec<usize> = (0..k).collect();
    let bs: Vec<usize> = idx.iter().filter_map(|i| lib_budget(&m, &m.pool[*i].ct).ok()).collect();
    if bs.len() != k { return; }
    let minb = *bs.iter().min().unwrap();
    // (1) add_many, (2) alternating add/sub chain
    let op = Op::AddMany(idx.clone());
    trace.push(format!("add_many of {}", k));
    if let Ok(ct) = m.execute(&op, *rng.pick(&FORMS)) {
        let el = m.result_elem(&op, ct);
        if let Some((lb, _)) = observe(&o, rep, &m, &el, "add_many", &trace) {
            rep.count("relation_checked", &format!("sum_k={}", k));
            if lb + ceil_log2(k) + 1 < minb { viol(&o, rep, "add_many", &format!("{}|k={}", spec.scheme_name(), k), "value", format!("sum of {} fresh ciphertexts (min budget {}) has budget {}", k, minb, lb), &m, &trace); }
        }
    }
    let mut acc = m.pool[0].ct.clone();
    for i in 1..k {
        let r = lib(|| if i % 2 == 0 { m.kit.eval.add_new(&acc, &m.pool[i].ct) } else { m.kit.eval.sub_new(&acc, &m.pool[i].ct) });
        match r { Ok(c) => acc = c, Err(_) => return }
    }
    if let Ok(lb) = lib_budget(&m, &acc) {
        rep.count("relation_checked", &format!("chain_k={}", k));
        if lb + ceil_log2(k) + 1 < minb { viol(&o, rep, "add_sub_chain", &format!("{}|k={}", spec.scheme_name(), k), "value", format!("alternating sum of {} fresh ciphertexts (min budget {}) has budget {}", k, minb, lb), &m, &trace); }
    }
    rep.eval(Some(&format!("sum|{}|{}", spec.scheme_name(), k)));
}

/// drive ciphertexts at every word count down to zero budget
fn burn(cfg: &Cfg, grp: &str, case: u64, rng: &mut Rng, rep: &mut Report) {
    let Some(spec) = spec_for(rng, &[2, 4, 8, 16, 32]) else { return };
    let Ok(kit) = Kit::new(&spec) else { return };
    let o = Obs { cfg, grp, case };
    let mut m = Machine::new(&kit, true);
    if m.oracle.is_none() { return; }
    let mut trace = vec![];
    let (_, c0) = gen_plain(rng, m.n(), m.t());
    let Ok(mut cur) = m.fresh(&c0, rng.bool()) else { return };
    let mut zeros = 0;
    for _ in 0..60 {
        let mut ops: Vec<Op> = vec![];
        let full: Vec<u64> = (0..m.n()).map(|_| rng.below(m.t())).collect();
        match rng.below(4) {
            0 if m.pool[cur].ct.size() == 2 && m.applicable(&Op::Square(cur)).is_none() => { ops.push(Op::Square(cur)); }
            1 => { ops.push(Op::MultiplyPlain(cur, full, rng.bool())); }
            2 if m.pool[cur].level + 1 < m.kit.levels.len() && m.applicable(&Op::ModSwitchNext(cur)).is_none() && rng.chance(1, 3) => { ops.push(Op::ModSwitchNext(cur)); }
            _ => { ops.push(Op::MultiplyPlain(cur, full, false)); }
        }
        for op in ops {
            trace.push(format!("{}", op_brief(&op)));
            if trace.len() > 30 { trace.remove(0); }
            let Ok(ct) = m.execute(&op, *rng.pick(&FORMS)) else { return };
            let el = m.result_elem(&op, ct);
            let ob = observe(&o, rep, &m, &el, op.name(), &trace).map(|x| x.1).unwrap_or(0);
            m.pool.push(el);
            cur = m.pool.len() - 1;
            if m.pool[cur].ct.size() == 3 && m.applicable(&Op::Relinearize(cur)).is_none() {
                let op = Op::Relinearize(cur);
                let Ok(ct) = m.execute(&op, *rng.pick(&FORMS)) else { return };
                let el = m.result_elem(&op, ct);
                observe(&o, rep, &m, &el, op.name(), &trace);
                m.pool.push(el); cur = m.pool.len() - 1;
            }
            if ob == 0 { zeros += 1; }
        }
        if zeros >= 2 || m.pool[cur].ct.size() > 8 { break; }
    }
}

/// Ciphertexts with a CHOSEN noise polynomial. A size-2 ciphertext (c0, 0) is valid whatever canonical residues c0 holds, and
/// its phase is c0 itself, so the noise the budget routine measures can be planted exactly: BFV noise t*c0 mod+- q = e for
/// c0 = e * t^-1 mod q (residue-wise), BGV noise = phase = e. The planted magnitudes sit on the multi-word boundaries the
/// norm computation (q - x for negative values, comparison, bit length) has to get right: 2^(64k) and neighbours, all-ones
/// limbs, (q mod 2^128) + 1, q/2 and neighbours, single bits, both signs - values a sampled error never takes.
fn synthetic_noise(cfg: &Cfg, grp: &str, case: u64, rng: &mut Rng, rep: &mut Report) {
    let scheme = if rng.bool() { SchemeType::BFV } else { SchemeType::BGV };
    let Some(spec) = program_spec(rng, &[2, 4, 8], Some(scheme)) else { rep.count("generator", "no_spec"); return; };
    let Ok(kit) = Kit::new(&spec) else { rep.count("generator", "context_rejected"); return; };
    let o = Obs { cfg, grp, case };
    let m = Machine::new(&kit, true);
    let (n, t) = (kit.n(), kit.t());
    for level in 0..kit.levels.len() {
        let qs = kit.level_qs(level);
        let q = refm::product(&qs);
        let half = q.shr(1);
        let qb = q.bits();
        for round in 0..6 {
            // magnitude of the dominant coefficient
            let (pname, mag): (&str, BigU) = match (round + rng.below(3) as usize) % 9 {
                0 => { let k = 1 + rng.usize_below(((qb - 1) / 64).max(1)); ("2^(64k)-1", BigU::pow2(64 * k).sub(&BigU::one())) }
                1 => { let k = 1 + rng.usize_below(((qb - 1) / 64).max(1)); ("2^(64k)", BigU::pow2(64 * k)) }
                2 => { let k = 1 + rng.usize_below(((qb - 1) / 64).max(1)); ("2^(64k)+1", BigU::pow2(64 * k).add_u64(1)) }
                3 => ("(q mod 2^128)+1", BigU::from_limbs(&q.to_limbs(2)).add_u64(1)),
                4 => ("(q mod 2^64)+1", BigU::from_u64(q.low_u64()).add_u64(1)),
                5 => ("floor(q/2)-small", half.sub(&BigU::from_u64(rng.below(3)))),
                6 => { let b = rng.usize_below(qb - 1); ("single bit", BigU::pow2(b)) }
                7 => { let k = 1 + rng.usize_below(((qb - 1) / 64).max(1)); ("all-ones middle limb", BigU::pow2(64 * k + 64).sub(&BigU::one()).sub(&BigU::from_u64(rng.below(1 << 20)))) }
                _ => { let b = 1 + rng.usize_below(qb - 1); let mut v = BigU::zero(); for i in 0..b { if rng.bool() { v = v.add(&BigU::pow2(i)); } } ("random bits", v.add(&BigU::pow2(b - 1))) }
            };
            let mag = if mag.cmp_u(&half) == std::cmp::Ordering::Greater { half.clone() } else { mag };
            if mag.is_zero() { continue; }
            let negative = rng.bool();
            let pos = rng.usize_below(n);
            // residues of c0: coefficient `pos` carries +-mag, the others small noise of either sign
            let mut ct = Ciphertext::new();
            if lib(|| { ct.resize(&kit.ctx, kit.levels[level].parms_id(), 2); ct.set_is_ntt_form(false); }).is_err() { return; }
            for (j, &qj) in qs.iter().enumerate() {
                let tinv = if scheme == SchemeType::BFV { refm::invmod(t % qj, qj).unwrap_or(1) } else { 1 };
                for i in 0..n {
                    let (neg_i, r) = if i == pos { (negative, mag.rem_u64(qj)) } else { let s = rng.below(7); (s & 1 == 1, (s >> 1) % qj) };
                    let e = if neg_i && r != 0 { qj - r } else { r };
                    ct.poly_component_mut(0, j)[i] = refm::mulmod(e, tinv, qj);
                }
            }
            let ct = if scheme == SchemeType::BGV { match lib(|| kit.eval.transform_to_ntt_new(&ct)) { Ok(c) => c, Err(_) => { rep.count("generator", "bgv_transform_refused"); continue; } } } else { ct };
            rep.count("planted_noise", &format!("{}|{}|{}|words={}", kit.spec.scheme_name(), pname, if negative { "negative" } else { "positive" }, (qb + 63) / 64));
            let trace = vec![format!("synthetic (c0, 0): coefficient {} carries noise {}{} ({}), level {}", pos, if negative { "-" } else { "+" }, mag.to_hex(), pname, level)];
            let el = Elem { ct: ct.clone(), m: vec![0; n], e_an: f64::INFINITY, e_step: None, e_meas: None, level, origin: "synthetic".into() };
            let before = observe(&o, rep, &m, &el, "planted noise", &trace);
            // negation preserves the budget exactly (the norm is symmetric)
            if let (Some((lb, _)), Ok(nc)) = (before, lib(|| kit.eval.negate_new(&ct))) {
                let eln = Elem { ct: nc, ..el.clone() };
                if let Some((lbn, _)) = observe(&o, rep, &m, &eln, "negated planted noise", &trace) {
                    if lbn != lb { viol(&o, rep, "negate", &format!("{}|planted", kit.spec.scheme_name()), "value", format!("negation changed the reported budget {} -> {}", lb, lbn), &m, &trace); }
                }
            }
        }
    }
}

pub fn run(cfg: &Cfg, rep: &mut Report) -> PropMeta {
    run_cases(cfg, "programs", cfg.n(6000, 100000) as u64, rep, |i, rng, rep| programs(cfg, "programs", i, rng, rep, &[2, 4, 8, 16, 32]));
    run_cases(cfg, "programs_mid", cfg.n(60, 1500) as u64, rep, |i, rng, rep| programs(cfg, "programs_mid", i, rng, rep, &[64, 128, 256]));
    run_cases(cfg, "programs_1024", cfg.pick(2, 40), rep, |i, rng, rep| programs(cfg, "programs_1024", i, rng, rep, &[512, 1024]));
    run_cases(cfg, "burn", cfg.n(3000, 60000) as u64, rep, |i, rng, rep| burn(cfg, "burn", i, rng, rep));
    run_cases(cfg, "fresh_large_t", cfg.n(1500, 30000) as u64, rep, |i, rng, rep| fresh_large_t(cfg, "fresh_large_t", i, rng, rep));
    run_cases(cfg, "sums", cfg.n(1500, 30000) as u64, rep, |i, rng, rep| sums(cfg, "sums", i, rng, rep));
    run_cases(cfg, "synthetic_noise", cfg.n(1500, 30000) as u64, rep, |i, rng, rep| synthetic_noise(cfg, "synthetic_noise", i, rng, rep));
    PropMeta {
        id: "C07", level: "exploration",
        rule: "every pool element produced by random BFV/BGV operation programs (sizes 2..16, every level, budgets from full down to 0, 1..6 primes so the 1..6-word norm paths are hit) plus fresh encryptions (pk/sk) and k-fold sums k=2..64; distinct = distinct (scheme, prime count, size, level, exact budget) tuples. Fresh encryptions go through a per-call varying Encryptor entry point (value-returning, destination over a used ciphertext, caller-supplied u sampler, seeded+expanded); the bound of a public-key encryption made one level up and switched down is error/p + rounding of the switch",
        assumptions: vec!["definition of the budget as implemented and documented: bitlen(q) - bitlen(||[t*c(s)]_q||) - 1 for BFV, with ||[c(s)]_q|| for BGV, clamped at 0".into(),
            "exact-decryption direction asserted when 2*norm*(1+2^-10) < q (margin for the library's approximate rounding)".into(),
            "oracle decryptor limited to N <= 1024 (quick: <= 256)".into()],
        exhaustive: false, floor: 2000,
    }
}
