//! C04 — Galois maps, rotations, conjugation and key switching act as documented.
//! Oracles: reference automorphism X -> X^g on the plaintext polynomial (oracle decryptor and
//! library decryptor), documented slot permutations through the (C11-checked) batch decoder /
//! the reference embedding, and plaintext preservation under secret-key switching.

use crate::he::*;
use crate::props::c06::valid_ct;
use crate::refm;
use crate::rt::*;
use heathcliff::*;
use serde_json::json;

const P: &str = "C04";

struct Obs<'a> { cfg: &'a Cfg, grp: &'a str, case: u64, spec: &'a Spec }
fn viol(o: &Obs, rep: &mut Report, op: &str, class: &str, kind: &str, detail: String) {
    rep.violation(&format!("{}|{}|{}|{}", P, op, class, kind), format!("{} ; params {}", detail, o.spec.describe()), replay_json(o.cfg, o.grp, o.case, json!({"params": o.spec.describe(), "op": op, "class": class})));
}

pub fn galois_spec(rng: &mut Rng, scheme: SchemeType, ns: &[usize], batching: bool) -> Option<Spec> {
    let n = *rng.pick(ns);
    let logm = (2 * n).trailing_zeros();
    let kdata = rng.range(1, 3) as usize;
    let mut bits: Vec<u32> = (0..kdata).map(|_| rng.range(45, 58) as u32).collect();
    bits.push(rng.range(58, 60) as u32); // special prime, at least as large as the data primes
    let qs = coeff_primes(n, &bits, rng)?;
    let t = if scheme == SchemeType::CKKS { 0 } else if batching {
        ntt_primes_up(n, (logm + 1).max(rng.range(5, 16) as u32), 3).into_iter().find(|c| !qs.contains(c))?
    } else { *rng.pick(&[2u64, 16, 17, 97, 256, 65537]) };
    if t != 0 && qs.iter().any(|&q| refm::gcd(q, t) != 1) { return None; }
    Some(Spec { scheme, n, qs, t, special_flag: false, expand: true, family: format!("galois-k{}", kdata + 1) })
}

/// g for a left rotation by s (|s| < N/2): 3^s for s>0, 3^(N/2-|s|) for s<0, 2N-1 for the row swap / conjugation
fn elt_for_step(n: usize, s: isize) -> usize {
    if s == 0 { return 2 * n - 1; }
    let e = if s > 0 { s as usize } else { n / 2 - s.unsigned_abs() };
    let mut g = 1usize; for _ in 0..e { g = g * 3 % (2 * n); } g
}

fn noise_ok(kit: &Kit, level: usize) -> bool {
    // one key switch on a fresh ciphertext: 21*N*sum(q)/P + N + fresh, times t, far below q/2
    let n = kit.n() as f64; let t = kit.t().max(1) as f64;
    let key_qs = kit.key_qs(); let p = *key_qs.last().unwrap() as f64;
    let sumq: f64 = kit.level_qs(level).iter().map(|&q| q as f64).sum();
    let e = fresh_noise_bound(kit.n(), true) + 4.0 * n + 6.0 * (ERR_MAX * n * sumq / p + n + 3.0);
    let lq: f64 = kit.level_qs(level).iter().map(|&q| (q as f64).log2()).sum();
    (e * t).log2() + 3.0 < lq
}

/// bring a fresh ciphertext to `level` by mod switching
fn to_level(kit: &Kit, ct: &Ciphertext, level: usize) -> Option<Ciphertext> {
    if level == 0 { return Some(ct.clone()); }
    lib(|| kit.eval.mod_switch_to_new(ct, kit.levels[level].parms_id())).ok()
}

fn exact_poly(kit: &Kit, oracle: &Option<Oracle>, ct: &Ciphertext) -> Result<(Vec<u64>, Option<Vec<u64>>), Panicked> {
    let libm = lib(|| plain_coeffs(&kit.dec.decrypt_new(ct), kit.n()))?;
    let om = oracle.as_ref().map(|o| if kit.spec.scheme == SchemeType::BFV { o.bfv(&kit.ctx, ct, kit.t()).0 } else { o.bgv(&kit.ctx, ct, kit.t()).0 });
    Ok((libm, om))
}

/// (i) apply_galois with every odd element, BFV/BGV polynomial plaintexts
fn apply_galois_exact(cfg: &Cfg, grp: &str, case: u64, rng: &mut Rng, rep: &mut Report, ns: &[usize]) {
    let scheme = if rng.bool() { SchemeType::BFV } else { SchemeType::BGV };
    let Some(spec) = galois_spec(rng, scheme, ns, false) else { return };
    let Ok(kit) = Kit::new(&spec) else { return };
    if !kit.has_keyswitching() { return; }
    let o = Obs { cfg, grp, case, spec: &spec };
    let n = kit.n(); let t = kit.t();
    let oracle = if n <= 64 { Oracle::new(&kit.ctx, &kit.sk).ok() } else { None };
    let elts: Vec<usize> = if n <= 64 { (0..n).map(|i| 2 * i + 1).collect() } else { (0..24).map(|_| 2 * rng.usize_below(n) + 1).collect() };
    let save_seed = rng.bool();
    let Ok(gk) = lib(|| { let g = kit.keygen.create_galois_keys_from_elts(&elts, save_seed); g.expand_seed_if_needed(&kit.ctx) }) else { viol(&o, rep, "create_galois_keys_from_elts", spec.scheme_name(), "panic", "key generation panicked".into()); return; };
    rep.count("keys", &format!("from_elts|save_seed={}|seed_stored={}", save_seed, save_seed && n * kit.key_qs().len() >= 9));
    // index-revealing plaintext with upper-half values
    let m: Vec<u64> = (0..n).map(|j| if j % 3 == 2 { t - 1 - (j as u64 % t.min(5)) % t } else { (j as u64 + 1) % t }).collect();
    let Ok(ct0) = lib(|| kit.enc.encrypt_new(&kit.plain_from_coeffs(&m))) else { return };
    // sources: the fresh encryption, and ciphertexts of special structure (all-zero, noise-free with c1 = 0, doubled)
    let mut sources: Vec<(&'static str, Ciphertext, Vec<u64>)> = vec![("fresh", ct0, m.clone())];
    if case % 4 == 0 || n > 64 {
        let b: Vec<u64> = (0..n).map(|j| (3 * j as u64 + 2) % t).collect();
        for sp in special_exact(&kit, &m, &b, &m) { if sp.ct.size() == 2 { sources.push((sp.name, sp.ct, sp.coeffs)); } }
    }
    for (sname, ct0, m) in sources.iter().map(|(a, b, c)| (*a, b, c)) {
    let few: Vec<usize> = elts.iter().copied().take(if sname == "fresh" { usize::MAX } else { 6 }).collect();
    for level in 0..kit.levels.len() {
        let Some(ct) = to_level(&kit, ct0, level) else { continue };
        if !noise_ok(&kit, level) { rep.out_of_precondition += 1; continue; }
        rep.count("source_ciphertext", sname);
        for &g in &few {
            let form = rng.below(3);
            let r = lib(|| match form { 0 => { let mut x = ct.clone(); kit.eval.apply_galois_inplace(&mut x, g, &gk); x } 1 => { let mut d = Ciphertext::new(); kit.eval.apply_galois(&ct, g, &gk, &mut d); d } _ => kit.eval.apply_galois_new(&ct, g, &gk) });
            rep.count("apply_galois", &format!("{}|n={}|L{}|seeded_keys={}", spec.scheme_name(), n, level, save_seed));
            rep.eval(Some(&format!("ag|{}|{}|{}|{}", spec.scheme_name(), n, level, g)));
            let res = match r { Ok(c) => c, Err(p) => { viol(&o, rep, "apply_galois", spec.scheme_name(), "panic", format!("g={} level {}: {}", g, level, p.0)); continue; } };
            if let Err(e) = valid_ct(&kit, &res) { viol(&o, rep, "apply_galois", spec.scheme_name(), "invalid_result", e); continue; }
            if res.size() != 2 || res.parms_id() != ct.parms_id() || res.is_ntt_form() != ct.is_ntt_form() || res.correction_factor() != ct.correction_factor() { viol(&o, rep, "apply_galois", spec.scheme_name(), "metadata", format!("g={}", g)); continue; }
            let want = refm::automorphism(m, g, t);
            // the plaintext-side map of the same element (apply_galois_plain, three forms, dirty destination): applying it to the
            // plaintext must give the same polynomial as applying the element to the ciphertext
            if sname == "fresh" && level == 0 {
                let pl = kit.plain_from_coeffs(m);
                let pform = rng.below(3);
                let pname = ["apply_galois_plain_inplace", "apply_galois_plain", "apply_galois_plain_new"][pform as usize];
                match lib(|| match pform { 0 => { let mut x = pl.clone(); kit.eval.apply_galois_plain_inplace(&mut x, g); x } 1 => { let mut d = kit.plain_from_coeffs(&want.iter().map(|&v| (v + 1) % t).collect::<Vec<u64>>()); kit.eval.apply_galois_plain(&pl, g, &mut d); d } _ => kit.eval.apply_galois_plain_new(&pl, g) }) {
                    Err(p) => viol(&o, rep, pname, spec.scheme_name(), "panic", format!("g={}: {}", g, p.0)),
                    Ok(pr) => {
                        rep.count("apply_galois_plain", &format!("{}|{}", spec.scheme_name(), pname));
                        if plain_coeffs(&pr, n) != want { viol(&o, rep, pname, spec.scheme_name(), "value", format!("g={}: the plaintext-side map gives {:?} but X -> X^g of the plaintext is {:?}", g, &plain_coeffs(&pr, n)[..n.min(8)], &want[..n.min(8)])); }
                    }
                }
            }
            if case == 0 && level == 0 && sname == "fresh" && g == elts[elts.len() / 2] { rep.sample(json!({"group": grp, "params": spec.describe(), "galois_element": g, "plaintext_head": m[..n.min(8)], "expected_head": want[..n.min(8)], "decrypted_head": exact_poly(&kit, &oracle, &res).ok().map(|x| x.0[..n.min(8)].to_vec())})); }
            match exact_poly(&kit, &oracle, &res) {
                Err(p) => viol(&o, rep, "apply_galois", &format!("{}|decrypt", spec.scheme_name()), "panic", p.0),
                Ok((lm, om)) => {
                    if lm != want { viol(&o, rep, "apply_galois", &format!("{}|source={}", spec.scheme_name(), sname), "value", format!("g={} level {}: decrypted polynomial is not the plaintext with X -> X^g: got {:?} want {:?}", g, level, &lm[..n.min(8)], &want[..n.min(8)])); }
                    if let Some(om) = om { if om != want { viol(&o, rep, "apply_galois", &format!("{}|oracle", spec.scheme_name()), "value", format!("g={} level {}: oracle decryption differs", g, level)); } }
                }
            }
        }
    }
    }
}

fn rot_rows(v: &[u64], s: isize) -> Vec<u64> {
    let h = v.len() / 2; let mut r = vec![0; v.len()];
    for row in 0..2 { for j in 0..h { let src = (j as isize + s).rem_euclid(h as isize) as usize; r[row * h + j] = v[row * h + src]; } }
    r
}

/// (ii) rotations / column swap in BFV/BGV through the batch encoder
fn rotations_exact(cfg: &Cfg, grp: &str, case: u64, rng: &mut Rng, rep: &mut Report, ns: &[usize]) {
    let scheme = if rng.bool() { SchemeType::BFV } else { SchemeType::BGV };
    let Some(spec) = galois_spec(rng, scheme, ns, true) else { return };
    let Ok(kit) = Kit::new(&spec) else { return };
    let (Some(be), true) = (kit.batch.as_ref(), kit.has_keyswitching()) else { return };
    let o = Obs { cfg, grp, case, spec: &spec };
    let n = kit.n(); let t = kit.t(); let h = n / 2;
    let oracle = if n <= 64 { Oracle::new(&kit.ctx, &kit.sk).ok() } else { None };
    let steps: Vec<isize> = if n <= 64 { (-(h as isize - 1)..=(h as isize - 1)).filter(|&s| s != 0).collect() } else { let mut v: Vec<isize> = vec![1, -1, h as isize - 1, -(h as isize - 1)]; for _ in 0..12 { v.push(rng.range(1, h as u64 - 1) as isize * if rng.bool() { 1 } else { -1 }); } v };
    let exact_keys = lib(|| kit.keygen.create_galois_keys_from_steps(&{ let mut s = steps.clone(); s.push(0); s }, false));
    let default_keys = lib(|| kit.keygen.create_galois_keys(rng.bool()).expand_seed_if_needed(&kit.ctx));
    let values: Vec<u64> = (0..n).map(|j| (j as u64 + 1) % t).collect();
    let Ok(plain) = lib(|| be.encode_new(&values)) else { return };
    let mpoly = plain_coeffs(&plain, n);
    let Ok(ct0) = lib(|| kit.enc.encrypt_new(&plain)) else { return };
    // every fourth case rotates the noise-free ciphertext (x - x) + plain instead: c1 = 0
    let ct0 = if case % 4 == 1 { match special_exact(&kit, &mpoly, &mpoly, &mpoly).into_iter().find(|s| s.name == "transparent") { Some(s) => { rep.count("source_ciphertext", "transparent"); s.ct } None => ct0 } } else { rep.count("source_ciphertext", "fresh"); ct0 };
    for (kname, keys) in [("exact_step_keys", &exact_keys), ("default_power_of_two_keys", &default_keys)] {
        let Ok(gk) = keys else { viol(&o, rep, "create_galois_keys", &format!("{}|{}", spec.scheme_name(), kname), "panic", "key generation panicked".into()); continue; };
        for level in 0..kit.levels.len() {
            let Some(ct) = to_level(&kit, &ct0, level) else { continue };
            // NAF composition applies up to log2(N) key switches: widen the noise precondition accordingly
            if !noise_ok(&kit, level) { rep.out_of_precondition += 1; continue; }
            let mut check = |rep: &mut Report, opn: &str, cls: &str, r: Result<Ciphertext, Panicked>, want_slots: Vec<u64>, g: usize| {
                rep.count("rotations", &format!("{}|{}|{}|n={}|L{}", spec.scheme_name(), opn, kname, n, level));
                let res = match r { Ok(c) => c, Err(p) => { viol(&o, rep, opn, &format!("{}|{}|{}", spec.scheme_name(), kname, cls), "panic", p.0); return; } };
                if let Err(e) = valid_ct(&kit, &res) { viol(&o, rep, opn, spec.scheme_name(), "invalid_result", e); return; }
                match lib(|| be.decode_new(&kit.dec.decrypt_new(&res))) {
                    Err(p) => viol(&o, rep, opn, &format!("{}|decrypt", spec.scheme_name()), "panic", p.0),
                    Ok(got) => if got != want_slots { viol(&o, rep, opn, &format!("{}|{}|{}", spec.scheme_name(), kname, cls), "value", format!("decoded slots {:?} expected {:?} (level {})", &got[..n.min(8)], &want_slots[..n.min(8)], level)); }
                }
                if let Some(or) = &oracle {
                    let om = if kit.spec.scheme == SchemeType::BFV { or.bfv(&kit.ctx, &res, t).0 } else { or.bgv(&kit.ctx, &res, t).0 };
                    if om != refm::automorphism(&mpoly, g, t) { viol(&o, rep, opn, &format!("{}|{}|{}|oracle", spec.scheme_name(), kname, cls), "value", format!("plaintext polynomial is not the input with X -> X^{} (level {})", g, level)); }
                }
            };
            for &s in &steps {
                let form = rng.below(3);
                let r = lib(|| match form { 0 => { let mut x = ct.clone(); kit.eval.rotate_rows_inplace(&mut x, s, gk); x } 1 => { let mut d = Ciphertext::new(); kit.eval.rotate_rows(&ct, s, gk, &mut d); d } _ => kit.eval.rotate_rows_new(&ct, s, gk) });
                rep.eval(Some(&format!("rr|{}|{}|{}|{}|{}", spec.scheme_name(), kname, n, level, s)));
                if case == 0 && level == 0 && s == 1 { rep.sample(json!({"group": grp, "params": spec.describe(), "key_set": kname, "step": s, "input_slots": values[..n.min(8)], "expected_slots": rot_rows(&values, s)[..n.min(8)], "observed_slots": r.as_ref().ok().and_then(|c| lib(|| be.decode_new(&kit.dec.decrypt_new(c))).ok()).map(|v| v[..n.min(8)].to_vec())})); }
                check(rep, "rotate_rows", if s > 0 { "step>0" } else { "step<0" }, r, rot_rows(&values, s), elt_for_step(n, s));
            }
            let form = rng.below(3);
            let r = lib(|| match form { 0 => { let mut x = ct.clone(); kit.eval.rotate_columns_inplace(&mut x, gk); x } 1 => { let mut d = Ciphertext::new(); kit.eval.rotate_columns(&ct, gk, &mut d); d } _ => kit.eval.rotate_columns_new(&ct, gk) });
            let mut swapped = values[h..].to_vec(); swapped.extend_from_slice(&values[..h]);
            rep.eval(Some(&format!("rc|{}|{}|{}|{}", spec.scheme_name(), kname, n, level)));
            check(rep, "rotate_columns", "swap", r, swapped, 2 * n - 1);
        }
    }
}

trait ExpandIfNeeded { fn expand_seed_if_needed(self, ctx: &HeContext) -> Self; }
impl ExpandIfNeeded for GaloisKeys { fn expand_seed_if_needed(self, ctx: &HeContext) -> Self { if self.contains_seed() { self.expand_seed(ctx) } else { self } } }

/// CKKS: apply_galois (all elements), rotate_vector (all steps, both key sets), complex_conjugate
fn ckks_case(cfg: &Cfg, grp: &str, case: u64, rng: &mut Rng, rep: &mut Report, ns: &[usize]) {
    let Some(spec) = galois_spec(rng, SchemeType::CKKS, ns, false) else { return };
    let Ok(kit) = Kit::new(&spec) else { return };
    if !kit.has_keyswitching() { return; }
    let o = Obs { cfg, grp, case, spec: &spec };
    let n = kit.n(); let h = n / 2;
    let enc = kit.ckks.as_ref().unwrap();
    let Ok(oracle) = Oracle::new(&kit.ctx, &kit.sk) else { return };
    let scale = 2f64.powi(rng.range(24, 34) as i32);
    let values: Vec<C64> = (0..h).map(|j| C64::new(j as f64 + 1.0, -(j as f64) - 0.5)).collect();
    let vmax = values.iter().map(|v| v.norm()).fold(0.0, f64::max);
    let Ok(ct0) = lib(|| kit.enc.encrypt_new(&enc.encode_c64_array_new(&values, None, scale))) else { return };
    // every fourth case rotates / conjugates the noise-free ciphertext (x - x) + plain instead: c1 = 0
    let ct0 = if case % 4 == 2 { match special_ckks(&kit, &values, &values, &values, scale).into_iter().find(|s| s.name == "transparent") { Some(s) => { rep.count("source_ciphertext", "transparent"); s.ct } None => ct0 } } else { rep.count("source_ciphertext", "fresh"); ct0 };
    let steps: Vec<isize> = if n <= 64 { (-(h as isize - 1)..=(h as isize - 1)).filter(|&s| s != 0).collect() } else { vec![1, -1, 2, -3, h as isize - 1, -(h as isize - 1), rng.range(1, h as u64 - 1) as isize] };
    let all_elts: Vec<usize> = if n <= 32 { (0..n).map(|i| 2 * i + 1).collect() } else { (0..16).map(|_| 2 * rng.usize_below(n) + 1).collect() };
    let keysets: Vec<(&str, Result<GaloisKeys, Panicked>)> = vec![
        ("exact_step_keys", lib(|| { let mut e: Vec<usize> = steps.iter().map(|&s| elt_for_step(n, s)).collect(); e.push(2 * n - 1); e.extend_from_slice(&all_elts); kit.keygen.create_galois_keys_from_elts(&e, false) })),
        ("default_power_of_two_keys", lib(|| kit.keygen.create_galois_keys(true).expand_seed_if_needed(&kit.ctx))),
    ];
    for (kname, keys) in &keysets {
        let Ok(gk) = keys else { viol(&o, rep, "create_galois_keys", &format!("CKKS|{}", kname), "panic", "key generation panicked".into()); continue; };
        for level in 0..kit.levels.len() {
            let Some(ct) = to_level(&kit, &ct0, level) else { continue };
            let lq: f64 = kit.level_qs(level).iter().map(|&q| (q as f64).log2()).sum();
            if (vmax * scale).log2() + 4.0 >= lq { rep.out_of_precondition += 1; continue; }
            // reference: exact coefficients of the input, automorphism on them, reference embedding
            let c_in = oracle.ckks_coeffs(&kit.ctx, &ct);
            let key_qs = kit.key_qs(); let pp = *key_qs.last().unwrap() as f64;
            let sumq: f64 = kit.level_qs(level).iter().map(|&q| q as f64).sum();
            let ks = ERR_MAX * n as f64 * sumq / pp + n as f64 + 3.0;
            let logn = (n.trailing_zeros() + 1) as f64;
            let tol = (n as f64) * ks * logn / scale + ckks_fp_tolerance(n, kit.level_qs(level).len(), vmax, scale);
            let mut check = |rep: &mut Report, opn: &str, cls: &str, r: Result<Ciphertext, Panicked>, g: usize, want: Option<Vec<C64>>| {
                rep.count("rotations", &format!("CKKS|{}|{}|n={}|L{}", opn, kname, n, level));
                let res = match r { Ok(c) => c, Err(p) => { viol(&o, rep, opn, &format!("CKKS|{}|{}", kname, cls), "panic", p.0); return; } };
                if let Err(e) = valid_ct(&kit, &res) { viol(&o, rep, opn, "CKKS", "invalid_result", e); return; }
                if res.scale().to_bits() != ct.scale().to_bits() || res.parms_id() != ct.parms_id() || res.size() != 2 { viol(&o, rep, opn, "CKKS", "metadata", "scale / level / size changed".into()); return; }
                // X -> X^g on the real coefficient vector
                let mut cg = vec![0.0f64; n];
                for i in 0..n { let k = (i * g) % (2 * n); if k < n { cg[k] += c_in[i]; } else { cg[k - n] -= c_in[i]; } }
                let ref_slots = embed_decode(&cg);
                let got_o = embed_decode(&oracle.ckks_coeffs(&kit.ctx, &res));
                let w1 = ref_slots.iter().zip(&got_o).map(|(a, b)| (a - b).norm()).fold(0.0, f64::max);
                rep.max("ckks_error_over_tolerance", w1 / tol);
                if !(w1 <= tol) { viol(&o, rep, opn, &format!("CKKS|{}|{}|oracle", kname, cls), "value", format!("result is not the input with X -> X^{}: slot error {:e} > {:e} (level {})", g, w1, tol, level)); }
                if let Some(want) = want {
                    match lib(|| enc.decode_new(&kit.dec.decrypt_new(&res))) {
                        Err(p) => viol(&o, rep, opn, "CKKS|decrypt", "panic", p.0),
                        Ok(got) => { let fresh_tol = (n as f64) * (fresh_noise_bound(n, true) + n as f64 + 2.0) / scale; let w = got.iter().zip(&want).map(|(a, b)| (a - b).norm()).fold(0.0, f64::max);
                            if !(w <= tol + fresh_tol) { viol(&o, rep, opn, &format!("CKKS|{}|{}", kname, cls), "value", format!("decoded slots are not the documented permutation: error {:e} > {:e} (level {})", w, tol + fresh_tol, level)); } }
                    }
                }
            };
            for &s in &steps {
                let form = rng.below(3);
                let r = lib(|| match form { 0 => { let mut x = ct.clone(); kit.eval.rotate_vector_inplace(&mut x, s, gk); x } 1 => { let mut d = Ciphertext::new(); kit.eval.rotate_vector(&ct, s, gk, &mut d); d } _ => kit.eval.rotate_vector_new(&ct, s, gk) });
                let want: Vec<C64> = (0..h).map(|j| values[(j as isize + s).rem_euclid(h as isize) as usize]).collect();
                rep.eval(Some(&format!("rv|{}|{}|{}|{}", kname, n, level, s)));
                check(rep, "rotate_vector", if s > 0 { "step>0" } else { "step<0" }, r, elt_for_step(n, s), Some(want));
            }
            let form = rng.below(3);
            let r = lib(|| match form { 0 => { let mut x = ct.clone(); kit.eval.complex_conjugate_inplace(&mut x, gk); x } 1 => { let mut d = Ciphertext::new(); kit.eval.complex_conjugate(&ct, gk, &mut d); d } _ => kit.eval.complex_conjugate_new(&ct, gk) });
            rep.eval(Some(&format!("cc|{}|{}|{}", kname, n, level)));
            check(rep, "complex_conjugate", "conj", r, 2 * n - 1, Some(values.iter().map(|v| v.conj()).collect()));
            if *kname == "exact_step_keys" {
                for &g in &all_elts {
                    let r = lib(|| kit.eval.apply_galois_new(&ct, g, gk));
                    rep.eval(Some(&format!("ag|CKKS|{}|{}|{}", n, level, g)));
                    check(rep, "apply_galois", "any_odd_g", r, g, None);
                }
            }
        }
    }
}

/// (iii) switching a two-component ciphertext from secret s' to secret s
fn keyswitch_case(cfg: &Cfg, grp: &str, case: u64, rng: &mut Rng, rep: &mut Report, ns: &[usize]) {
    let scheme = *rng.pick(&[SchemeType::BFV, SchemeType::BGV, SchemeType::CKKS]);
    let Some(spec) = galois_spec(rng, scheme, ns, false) else { return };
    let Ok(kit) = Kit::new(&spec) else { return };
    if !kit.has_keyswitching() { return; }
    let o = Obs { cfg, grp, case, spec: &spec };
    let n = kit.n(); let t = kit.t();
    // second secret key s'
    let Ok(other) = lib(|| KeyGenerator::new(kit.ctx.clone())) else { return };
    let sk2 = other.secret_key().clone();
    let Ok(enc2) = lib(|| Encryptor::new(kit.ctx.clone()).set_secret_key(sk2.clone())) else { return };
    let save_seed = rng.bool();
    let ksk = lib(|| { let k = kit.keygen.create_keyswitching_key(&sk2, save_seed); if k.contains_seed() { k.expand_seed(&kit.ctx) } else { k } });
    let Ok(ksk) = ksk else { viol(&o, rep, "create_keyswitching_key", spec.scheme_name(), "panic", "key generation panicked".into()); return; };
    let oracle = if n <= 64 { Oracle::new(&kit.ctx, &kit.sk).ok() } else { None };
    for level in 0..kit.levels.len() {
        if scheme == SchemeType::CKKS {
            let enc = kit.ckks.as_ref().unwrap();
            let scale = 2f64.powi(28);
            let values: Vec<C64> = (0..n / 2).map(|j| C64::new(1.0 + j as f64, 0.25 * j as f64)).collect();
            let id = *kit.levels[level].parms_id();
            let Ok(ct) = lib(|| { let mut c = Ciphertext::new(); enc2.encrypt_symmetric(&enc.encode_c64_array_new(&values, Some(id), scale), &mut c); c }) else { continue };
            let form = rng.below(3);
            let r = lib(|| match form { 0 => { let mut x = ct.clone(); kit.eval.apply_keyswitching_inplace(&mut x, &ksk); x } 1 => { let mut d = Ciphertext::new(); kit.eval.apply_keyswitching(&ct, &ksk, &mut d); d } _ => kit.eval.apply_keyswitching_new(&ct, &ksk) });
            rep.count("keyswitch", &format!("CKKS|n={}|L{}|seeded={}", n, level, save_seed)); rep.eval(Some(&format!("ks|CKKS|{}|{}|{}", n, level, form)));
            match r {
                Err(p) => viol(&o, rep, "apply_keyswitching", "CKKS", "panic", p.0),
                Ok(res) => {
                    if let Err(e) = valid_ct(&kit, &res) { viol(&o, rep, "apply_keyswitching", "CKKS", "invalid_result", e); continue; }
                    let key_qs = kit.key_qs(); let pp = *key_qs.last().unwrap() as f64; let sumq: f64 = kit.level_qs(level).iter().map(|&q| q as f64).sum();
                    let tol = (n as f64) * (ERR_MAX * n as f64 * sumq / pp + 2.0 * n as f64 + 30.0) / scale + ckks_fp_tolerance(n, kit.level_qs(level).len(), n as f64, scale);
                    match lib(|| enc.decode_new(&kit.dec.decrypt_new(&res))) { Err(p) => viol(&o, rep, "decrypt", "CKKS", "panic", p.0),
                        Ok(got) => { let w = got.iter().zip(&values).map(|(a, b)| (a - b).norm()).fold(0.0, f64::max); if !(w <= tol) { viol(&o, rep, "apply_keyswitching", "CKKS", "value", format!("plaintext not preserved under the new key: error {:e} > {:e} (level {})", w, tol, level)); } } }
                }
            }
        } else {
            if !noise_ok(&kit, level) { rep.out_of_precondition += 1; continue; }
            let m: Vec<u64> = (0..n).map(|j| (3 * j as u64 + 1) % t).collect();
            let Ok(c0) = lib(|| { let mut c = Ciphertext::new(); enc2.encrypt_symmetric(&kit.plain_from_coeffs(&m), &mut c); c }) else { continue };
            let Some(ct) = to_level(&kit, &c0, level) else { continue };
            let form = rng.below(3);
            let r = lib(|| match form { 0 => { let mut x = ct.clone(); kit.eval.apply_keyswitching_inplace(&mut x, &ksk); x } 1 => { let mut d = Ciphertext::new(); kit.eval.apply_keyswitching(&ct, &ksk, &mut d); d } _ => kit.eval.apply_keyswitching_new(&ct, &ksk) });
            rep.count("keyswitch", &format!("{}|n={}|L{}|seeded={}", spec.scheme_name(), n, level, save_seed)); rep.eval(Some(&format!("ks|{}|{}|{}|{}", spec.scheme_name(), n, level, form)));
            match r {
                Err(p) => viol(&o, rep, "apply_keyswitching", spec.scheme_name(), "panic", p.0),
                Ok(res) => {
                    if let Err(e) = valid_ct(&kit, &res) { viol(&o, rep, "apply_keyswitching", spec.scheme_name(), "invalid_result", e); continue; }
                    match exact_poly(&kit, &oracle, &res) { Err(p) => viol(&o, rep, "decrypt", spec.scheme_name(), "panic", p.0),
                        Ok((lm, om)) => { if lm != m { viol(&o, rep, "apply_keyswitching", spec.scheme_name(), "value", format!("plaintext not preserved under the new key (level {}): got {:?} want {:?}", level, &lm[..n.min(6)], &m[..n.min(6)])); }
                            if let Some(om) = om { if om != m { viol(&o, rep, "apply_keyswitching", &format!("{}|oracle", spec.scheme_name()), "value", format!("oracle: plaintext not preserved (level {})", level)); } } } }
                }
            }
        }
    }
}

pub fn run(cfg: &Cfg, rep: &mut Report) -> PropMeta {
    let small: &[usize] = &[4, 8, 16, 32];
    let mid: &[usize] = &[64, 128, 256];
    run_cases(cfg, "apply_galois", cfg.n(3000, 40000) as u64, rep, |i, rng, rep| apply_galois_exact(cfg, "apply_galois", i, rng, rep, small));
    run_cases(cfg, "rotations", cfg.n(3000, 40000) as u64, rep, |i, rng, rep| rotations_exact(cfg, "rotations", i, rng, rep, small));
    run_cases(cfg, "ckks", cfg.n(3000, 40000) as u64, rep, |i, rng, rep| ckks_case(cfg, "ckks", i, rng, rep, small));
    run_cases(cfg, "keyswitch", cfg.n(5000, 60000) as u64, rep, |i, rng, rep| keyswitch_case(cfg, "keyswitch", i, rng, rep, small));
    run_cases(cfg, "mid_apply_galois", cfg.n(40, 600) as u64, rep, |i, rng, rep| apply_galois_exact(cfg, "mid_apply_galois", i, rng, rep, mid));
    run_cases(cfg, "mid_rotations", cfg.n(40, 600) as u64, rep, |i, rng, rep| rotations_exact(cfg, "mid_rotations", i, rng, rep, mid));
    run_cases(cfg, "mid_ckks", cfg.n(40, 600) as u64, rep, |i, rng, rep| ckks_case(cfg, "mid_ckks", i, rng, rep, &[64, 128]));
    run_cases(cfg, "mid_keyswitch", cfg.n(40, 600) as u64, rep, |i, rng, rep| keyswitch_case(cfg, "mid_keyswitch", i, rng, rep, &[64, 256, 1024, 4096]));
    // large degrees (few cases in quick): element arithmetic modulo 2N, NAF depth and table sizes only differ up there
    run_cases(cfg, "big_rotations", cfg.pick(4, 24), rep, |i, rng, rep| rotations_exact(cfg, "big_rotations", i, rng, rep, &[1024, 4096, 8192]));
    run_cases(cfg, "big_apply_galois", cfg.pick(3, 24), rep, |i, rng, rep| apply_galois_exact(cfg, "big_apply_galois", i, rng, rep, &[1024, 4096, 8192]));
    run_cases(cfg, "big_ckks", cfg.pick(3, 24), rep, |i, rng, rep| ckks_case(cfg, "big_ckks", i, rng, rep, cfg.pick(&[1024, 2048][..], &[1024, 2048, 4096][..])));
    PropMeta {
        id: "C04", level: "exploration",
        rule: "N=4..32: every odd Galois element g<2N through apply_galois (BFV/BGV exact polynomials, CKKS coefficient vectors) and every rotation step -(N/2-1)..N/2-1 through rotate_rows / rotate_vector with (a) keys for exactly those steps and (b) the default power-of-two key set (NAF composition), rotate_columns, complex_conjugate, at every level, random API form, seeded and unseeded keys; secret-key switching s' -> s in three schemes at every level; N=64..4096 sampled. distinct = distinct (operation, scheme, key set, N, level, element/step) tuples. For every element applied to the fresh BFV/BGV ciphertext the plaintext-side map apply_galois_plain (one of its three forms, dirty destination) must give the same polynomial X -> X^g",
        assumptions: vec!["parameter sets with a special prime at least as large as the data primes, so key-switch noise 21*N*sum(q_i)/P + N stays far below the threshold (checked per level)".into(),
            "slot-level expectations read through the batch decoder (checked against naive evaluation by C11) and, independently, polynomial-level expectations through the oracle decryptor (N<=64)".into()],
        exhaustive: true, floor: 2000,
    }
}
