//! C06 — not built yet.
use crate::rt::*;

pub fn run(_cfg: &Cfg, _rep: &mut Report) -> PropMeta {
    PropMeta { id: "C06", level: "exploration", rule: "not built", assumptions: vec![], exhaustive: false, floor: 1 }
}
