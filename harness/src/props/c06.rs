//! C06 — results stay valid, API variants agree bit-for-bit, bad operands are refused.
//! (A) validity + variant agreement ride on BFV/BGV operation programs (prog::Machine) and on
//!     CKKS programs (c03::CkksMachine);
//! (B) refusal workload: exactly one corruption of an otherwise valid operand, every public
//!     operation that takes that kind of operand must panic (= refuse).

use crate::he::*;
use crate::prog::*;
use crate::props::c01::gen_plain;
use crate::props::c02::{op_brief, program_spec};
use crate::rt::*;
use heathcliff::*;
use serde_json::json;

const P: &str = "C06";

pub struct Obs<'a> { pub cfg: &'a Cfg, pub grp: &'a str, pub case: u64 }

fn viol(o: &Obs, rep: &mut Report, op: &str, class: &str, kind: &str, detail: String, spec: &Spec, trace: &[String]) {
    rep.violation(&format!("{}|{}|{}|{}", P, op, class, kind), format!("{} ; program: {:?} ; params {}", detail, trace, spec.describe()),
        replay_json(o.cfg, o.grp, o.case, json!({"params": spec.describe(), "program": trace})));
}

/// independent validity predicate for a ciphertext produced by a public operation
pub fn valid_ct(kit: &Kit, ct: &Ciphertext) -> Result<(), String> {
    let Some(level) = kit.level_of(ct.parms_id()) else { return Err("parms id is not a data level of the context".into()) };
    let qs = kit.level_qs(level);
    let n = kit.n();
    if !(ct.size() >= 2 && ct.size() <= 16) { return Err(format!("size {}", ct.size())); }
    if ct.coeff_modulus_size() != qs.len() || ct.poly_modulus_degree() != n { return Err("dimension fields".into()); }
    if ct.data().len() != ct.size() * qs.len() * n { return Err(format!("buffer length {} != {}", ct.data().len(), ct.size() * qs.len() * n)); }
    for p in 0..ct.size() { for (i, &q) in qs.iter().enumerate() { for (j, &x) in ct.poly_component(p, i).iter().enumerate() {
        if x >= q { return Err(format!("residue {} >= modulus {} at poly {} component {} index {}", x, q, p, i, j)); } } } }
    match kit.spec.scheme {
        SchemeType::CKKS => { if !(ct.scale().is_finite() && ct.scale() > 0.0) { return Err(format!("scale {}", ct.scale())); } if ct.correction_factor() != 1 { return Err("correction factor".into()); } }
        SchemeType::BFV => { if ct.scale() != 1.0 || ct.correction_factor() != 1 { return Err(format!("scale {} cf {}", ct.scale(), ct.correction_factor())); } }
        _ => { if ct.scale() != 1.0 || ct.correction_factor() == 0 || ct.correction_factor() >= kit.t() { return Err(format!("scale {} cf {}", ct.scale(), ct.correction_factor())); } }
    }
    if ct.contains_seed() { return Err("seed flag".into()); }
    Ok(())
}

pub fn same_ct(a: &Ciphertext, b: &Ciphertext) -> bool {
    a.data() == b.data() && a.size() == b.size() && a.parms_id() == b.parms_id() && a.is_ntt_form() == b.is_ntt_form()
        && a.scale().to_bits() == b.scale().to_bits() && a.correction_factor() == b.correction_factor()
        && a.coeff_modulus_size() == b.coeff_modulus_size() && a.poly_modulus_degree() == b.poly_modulus_degree()
}

/// one program step in all three forms; returns the result (if any) for the caller to push
fn step_all_forms(o: &Obs, rep: &mut Report, m: &Machine, op: &Op, trace: &[String]) -> Option<Ciphertext> {
    let scheme = m.kit.spec.scheme_name();
    let ops = Machine::operands(op);
    let aliased = ops.len() > 1 && ops.windows(2).any(|w| w[0] == w[1]);
    let snapshot: Vec<Ciphertext> = ops.iter().map(|i| m.pool[*i].ct.clone()).collect();
    let results: Vec<Result<Ciphertext, Panicked>> = FORMS.iter().map(|f| m.execute(op, *f)).collect();
    for (k, i) in ops.iter().enumerate() {
        if !same_ct(&snapshot[k], &m.pool[*i].ct) { viol(o, rep, op.name(), scheme, "operand_modified", "a read-only operand changed".into(), &m.kit.spec, trace); }
    }
    let cell = format!("{}|{}|size{}|L{}|{}{}", scheme, op.name(), m.pool[ops[0]].ct.size().min(9), m.pool[ops[0]].level, if m.pool[ops[0]].ct.is_ntt_form() { "ntt" } else { "coef" }, if aliased { "|aliased" } else { "" });
    let oks: Vec<&Ciphertext> = results.iter().filter_map(|r| r.as_ref().ok()).collect();
    if oks.len() != 3 {
        if oks.is_empty() { rep.count("variants", "all_three_refused"); return None; } // C02 decides whether a refusal is legitimate
        viol(o, rep, op.name(), scheme, "variants_disagree", format!("forms disagree on refusing: {:?}", results.iter().map(|r| r.as_ref().map(|_| "ok").map_err(|p| p.0.clone())).collect::<Vec<_>>()), &m.kit.spec, trace);
        return None;
    }
    rep.count("variant_cells", &cell);
    if !(same_ct(oks[0], oks[1]) && same_ct(oks[0], oks[2])) {
        let which = if !same_ct(oks[0], oks[1]) { "inplace_vs_destination" } else { "inplace_vs_new" };
        viol(o, rep, op.name(), &format!("{}|{}", scheme, which), "variants_differ", format!("results of the three forms are not bit-identical (sizes {} {} {}, levels equal {}, ntt {} {} {}, cf {} {} {})",
            oks[0].size(), oks[1].size(), oks[2].size(), oks[0].parms_id() == oks[1].parms_id() && oks[0].parms_id() == oks[2].parms_id(), oks[0].is_ntt_form(), oks[1].is_ntt_form(), oks[2].is_ntt_form(),
            oks[0].correction_factor(), oks[1].correction_factor(), oks[2].correction_factor()), &m.kit.spec, trace);
    }
    let r = oks[0].clone();
    rep.count("validity", "checked");
    if let Err(e) = valid_ct(m.kit, &r) { viol(o, rep, op.name(), scheme, "invalid_result", format!("result fails the independent validity predicate: {}", e), &m.kit.spec, trace); }
    if !r.is_valid_for(&m.kit.ctx) { viol(o, rep, op.name(), &format!("{}|is_valid_for", scheme), "invalid_result", "result is not is_valid_for the context".into(), &m.kit.spec, trace); }
    rep.eval(Some(&cell));
    Some(r)
}

fn programs(cfg: &Cfg, grp: &str, case: u64, rng: &mut Rng, rep: &mut Report, ns: &[usize]) {
    let Some(spec) = program_spec(rng, ns, None) else { return };
    let Ok(kit) = Kit::new(&spec) else { return };
    let o = Obs { cfg, grp, case };
    let mut m = Machine::new(&kit, false);
    let mut trace = vec![];
    for _ in 0..4 {
        let (_, c) = gen_plain(rng, m.n(), m.t());
        if m.fresh(&c, rng.bool()).is_err() { return; }
        let el = m.pool.last().unwrap();
        if let Err(e) = valid_ct(&kit, &el.ct) { viol(&o, rep, "encrypt", spec.scheme_name(), "invalid_result", format!("fresh ciphertext invalid: {}", e), &spec, &trace); }
    }
    for _ in 0..rng.range(4, cfg.pick(12, 24)) {
        // aliased operands on purpose now and then
        let op = if rng.chance(1, 6) {
            let a = rng.usize_below(m.pool.len());
            let cand = match rng.below(3) { 0 => Op::Add(a, a), 1 => Op::Sub(a, a), _ => Op::Multiply(a, a) };
            if m.applicable(&cand).is_none() { cand } else { continue }
        } else { match m.random_op(rng) { Some(op) => op, None => break } };
        trace.push(op_brief(&op));
        if let Some(ct) = step_all_forms(&o, rep, &m, &op, &trace) {
            let el = m.result_elem(&op, ct);
            // keep only elements whose analytic noise is still fine, so programs stay meaningful
            if m.within(el.e_an, el.level) || rng.chance(1, 4) { m.pool.push(el); }
        }
        if m.pool.len() > 20 { break; }
    }
    if case < 2 { rep.sample(json!({"group": grp, "case": case, "params": spec.describe(), "program": trace, "pool_sizes": m.pool.iter().map(|e| e.ct.size()).collect::<Vec<_>>()})); }
}

// ------------------------------------------------------------------------------ refusals
#[derive(Clone, Copy, Debug, PartialEq)]
pub enum Corr { ResidueEqQ, ResidueQPlus1, ResidueMax, ForeignIdRandom, ForeignIdOtherContext, KeyLevelId, Size1, Size17, BufferShort, BufferLong, BadScale, BadCfZero, BadCfLarge, Seeded }
pub const CORRS: [Corr; 14] = [Corr::ResidueEqQ, Corr::ResidueQPlus1, Corr::ResidueMax, Corr::ForeignIdRandom, Corr::ForeignIdOtherContext, Corr::KeyLevelId, Corr::Size1, Corr::Size17,
    Corr::BufferShort, Corr::BufferLong, Corr::BadScale, Corr::BadCfZero, Corr::BadCfLarge, Corr::Seeded];

fn rebuild(ct: &Ciphertext, size: usize, data: Vec<u64>, id: ParmsID, scale: f64, cf: u64) -> Ciphertext {
    Ciphertext::from_members(size, ct.coeff_modulus_size(), ct.poly_modulus_degree(), data, id, scale, cf, ct.is_ntt_form())
}

/// exactly one corruption of a valid ciphertext (None if not applicable to this context)
pub fn corrupt_ct(kit: &Kit, other_ctx_id: &ParmsID, ct: &Ciphertext, c: Corr, rng: &mut Rng) -> Option<Ciphertext> {
    let level = kit.level_of(ct.parms_id())?;
    let qs = kit.level_qs(level);
    let n = kit.n();
    let mut x = ct.clone();
    let pos = |rng: &mut Rng, x: &Ciphertext| -> (usize, usize, usize) { match rng.below(3) { 0 => (0, 0, 0), 1 => (x.size() - 1, qs.len() - 1, n - 1), _ => (rng.usize_below(x.size()), rng.usize_below(qs.len()), rng.usize_below(n)) } };
    match c {
        Corr::ResidueEqQ | Corr::ResidueQPlus1 | Corr::ResidueMax => {
            let (p, i, j) = pos(rng, &x);
            let v = match c { Corr::ResidueEqQ => qs[i], Corr::ResidueQPlus1 => qs[i] + 1, _ => u64::MAX };
            // u64::MAX in word 0 of polynomial 1 of a size-2 ciphertext is the seed flag: that is the `Seeded` corruption
            if v == u64::MAX && x.size() == 2 && p == 1 && i == 0 && j == 0 { return None; }
            x.poly_component_mut(p, i)[j] = v;
        }
        Corr::ForeignIdRandom => { x.set_parms_id([rng.u64() | 1, rng.u64(), rng.u64(), rng.u64()]); }
        Corr::ForeignIdOtherContext => { x.set_parms_id(*other_ctx_id); }
        Corr::KeyLevelId => { if kit.ctx.key_parms_id() == kit.ctx.first_parms_id() { return None; } x.set_parms_id(*kit.ctx.key_parms_id()); }
        Corr::Size1 => { let d = ct.data()[..qs.len() * n].to_vec(); x = rebuild(ct, 1, d, *ct.parms_id(), ct.scale(), ct.correction_factor()); }
        Corr::Size17 => { let mut d = ct.data().clone(); d.resize(17 * qs.len() * n, 0); x = rebuild(ct, 17, d, *ct.parms_id(), ct.scale(), ct.correction_factor()); }
        Corr::BufferShort => { let mut d = ct.data().clone(); d.pop(); x = rebuild(ct, ct.size(), d, *ct.parms_id(), ct.scale(), ct.correction_factor()); }
        Corr::BufferLong => { let mut d = ct.data().clone(); d.push(0); x = rebuild(ct, ct.size(), d, *ct.parms_id(), ct.scale(), ct.correction_factor()); }
        Corr::BadScale => { x.set_scale(if kit.spec.scheme == SchemeType::CKKS { 0.0 } else { 2.0 }); }
        Corr::BadCfZero => { if kit.spec.scheme != SchemeType::BGV { x.set_correction_factor(0) } else { x.set_correction_factor(0) } }
        Corr::BadCfLarge => { x.set_correction_factor(if kit.spec.scheme == SchemeType::BGV { kit.t() + 1 } else { 2 }); }
        Corr::Seeded => { if x.size() != 2 { return None; } x.poly_component_mut(1, 0)[0] = u64::MAX; }
    }
    Some(x)
}

/// every public operation that takes a ciphertext; `second` = the corrupted one is the second operand
pub fn ct_ops(kit: &Kit, rlk: Option<&RelinKeys>, gk: Option<&GaloisKeys>, good: &Ciphertext, bad: &Ciphertext, plain: &Plaintext) -> Vec<(&'static str, Result<(), Panicked>)> {
    let ev = &kit.eval;
    let mut v: Vec<(&'static str, Result<(), Panicked>)> = vec![];
    macro_rules! t { ($name:expr, $body:expr) => { v.push(($name, lib(|| { let _ = $body; }))); } }
    t!("negate_new", ev.negate_new(bad));
    t!("negate_inplace", { let mut x = bad.clone(); ev.negate_inplace(&mut x) });
    t!("add_new(bad,good)", ev.add_new(bad, good));
    t!("add_new(good,bad)", ev.add_new(good, bad));
    t!("add_inplace(good,bad)", { let mut x = good.clone(); ev.add_inplace(&mut x, bad) });
    t!("sub_new(bad,good)", ev.sub_new(bad, good));
    t!("sub(good,bad,dest)", { let mut d = Ciphertext::new(); ev.sub(good, bad, &mut d) });
    t!("add_many([good,bad])", ev.add_many_new(&[good.clone(), bad.clone()]));
    t!("multiply_new(bad,good)", ev.multiply_new(bad, good));
    t!("multiply_new(good,bad)", ev.multiply_new(good, bad));
    t!("square_new", ev.square_new(bad));
    t!("add_plain_new", ev.add_plain_new(bad, plain));
    t!("sub_plain_new", ev.sub_plain_new(bad, plain));
    t!("multiply_plain_new", ev.multiply_plain_new(bad, plain));
    // the in-place and destination forms of the same operations (each is its own public entry point)
    t!("negate(dest)", { let mut d = Ciphertext::new(); ev.negate(bad, &mut d) });
    t!("add(bad,good,dest)", { let mut d = Ciphertext::new(); ev.add(bad, good, &mut d) });
    t!("add(good,bad,dest)", { let mut d = Ciphertext::new(); ev.add(good, bad, &mut d) });
    t!("add_inplace(bad,good)", { let mut x = bad.clone(); ev.add_inplace(&mut x, good) });
    t!("sub_new(good,bad)", ev.sub_new(good, bad));
    t!("sub(bad,good,dest)", { let mut d = Ciphertext::new(); ev.sub(bad, good, &mut d) });
    t!("sub_inplace(bad,good)", { let mut x = bad.clone(); ev.sub_inplace(&mut x, good) });
    t!("sub_inplace(good,bad)", { let mut x = good.clone(); ev.sub_inplace(&mut x, bad) });
    t!("add_many([bad,good],dest)", { let mut d = Ciphertext::new(); ev.add_many(&[bad.clone(), good.clone()], &mut d) });
    t!("multiply(bad,good,dest)", { let mut d = Ciphertext::new(); ev.multiply(bad, good, &mut d) });
    t!("multiply(good,bad,dest)", { let mut d = Ciphertext::new(); ev.multiply(good, bad, &mut d) });
    t!("multiply_inplace(bad,good)", { let mut x = bad.clone(); ev.multiply_inplace(&mut x, good) });
    t!("multiply_inplace(good,bad)", { let mut x = good.clone(); ev.multiply_inplace(&mut x, bad) });
    t!("square(dest)", { let mut d = Ciphertext::new(); ev.square(bad, &mut d) });
    t!("square_inplace", { let mut x = bad.clone(); ev.square_inplace(&mut x) });
    t!("add_plain(dest)", { let mut d = Ciphertext::new(); ev.add_plain(bad, plain, &mut d) });
    t!("add_plain_inplace", { let mut x = bad.clone(); ev.add_plain_inplace(&mut x, plain) });
    t!("sub_plain(dest)", { let mut d = Ciphertext::new(); ev.sub_plain(bad, plain, &mut d) });
    t!("sub_plain_inplace", { let mut x = bad.clone(); ev.sub_plain_inplace(&mut x, plain) });
    t!("multiply_plain(dest)", { let mut d = Ciphertext::new(); ev.multiply_plain(bad, plain, &mut d) });
    t!("multiply_plain_inplace", { let mut x = bad.clone(); ev.multiply_plain_inplace(&mut x, plain) });
    if bad.is_ntt_form() {
        t!("transform_from_ntt(dest)", { let mut d = Ciphertext::new(); ev.transform_from_ntt(bad, &mut d) });
        t!("transform_from_ntt_inplace", { let mut x = bad.clone(); ev.transform_from_ntt_inplace(&mut x) });
    } else {
        t!("transform_to_ntt(dest)", { let mut d = Ciphertext::new(); ev.transform_to_ntt(bad, &mut d) });
        t!("transform_to_ntt_inplace", { let mut x = bad.clone(); ev.transform_to_ntt_inplace(&mut x) });
    }
    if bad.is_ntt_form() { t!("transform_from_ntt_new", ev.transform_from_ntt_new(bad)); } else { t!("transform_to_ntt_new", ev.transform_to_ntt_new(bad)); }
    if kit.levels.len() > 1 {
        t!("mod_switch_to_next_new", ev.mod_switch_to_next_new(bad));
        // switching to the level the operand is already on is a documented no-op: excluded
        if bad.parms_id() != kit.ctx.last_parms_id() { t!("mod_switch_to_new(last)", ev.mod_switch_to_new(bad, kit.ctx.last_parms_id())); }
        if kit.spec.scheme == SchemeType::CKKS { t!("rescale_to_next_new", ev.rescale_to_next_new(bad)); }
        t!("mod_switch_to_next(dest)", { let mut d = Ciphertext::new(); ev.mod_switch_to_next(bad, &mut d) });
        t!("mod_switch_to_next_inplace", { let mut x = bad.clone(); ev.mod_switch_to_next_inplace(&mut x) });
        if bad.parms_id() != kit.ctx.last_parms_id() {
            t!("mod_switch_to(last,dest)", { let mut d = Ciphertext::new(); ev.mod_switch_to(bad, kit.ctx.last_parms_id(), &mut d) });
            t!("mod_switch_to_inplace(last)", { let mut x = bad.clone(); ev.mod_switch_to_inplace(&mut x, kit.ctx.last_parms_id()) });
        }
        if kit.spec.scheme == SchemeType::CKKS {
            t!("rescale_to_next(dest)", { let mut d = Ciphertext::new(); ev.rescale_to_next(bad, &mut d) });
            t!("rescale_to_next_inplace", { let mut x = bad.clone(); ev.rescale_to_next_inplace(&mut x) });
            // rescaling to the level the operand is already on walks zero steps: excluded like mod_switch_to
            if bad.parms_id() != kit.ctx.last_parms_id() {
                t!("rescale_to_new(last)", ev.rescale_to_new(bad, kit.ctx.last_parms_id()));
                t!("rescale_to(last,dest)", { let mut d = Ciphertext::new(); ev.rescale_to(bad, kit.ctx.last_parms_id(), &mut d) });
                t!("rescale_to_inplace(last)", { let mut x = bad.clone(); ev.rescale_to_inplace(&mut x, kit.ctx.last_parms_id()) });
            }
        }
    }
    if let Some(rk) = rlk {
        // relinearizing a size-2 ciphertext is a documented no-op; use a size-3 operand only
        if bad.size() == 3 {
            t!("relinearize_new", ev.relinearize_new(bad, rk));
            t!("relinearize(dest)", { let mut d = Ciphertext::new(); ev.relinearize(bad, rk, &mut d) });
            t!("relinearize_inplace", { let mut x = bad.clone(); ev.relinearize_inplace(&mut x, rk) });
        }
    }
    if let Some(g) = gk {
        if bad.size() == 2 {
            t!("apply_galois_new(3)", ev.apply_galois_new(bad, 3, g));
            t!("apply_galois(3,dest)", { let mut d = Ciphertext::new(); ev.apply_galois(bad, 3, g, &mut d) });
            t!("apply_galois_inplace(3)", { let mut x = bad.clone(); ev.apply_galois_inplace(&mut x, 3, g) });
            if kit.spec.scheme == SchemeType::CKKS {
                if kit.n() >= 4 {
                    t!("rotate_vector_new(1)", ev.rotate_vector_new(bad, 1, g));
                    t!("rotate_vector(1,dest)", { let mut d = Ciphertext::new(); ev.rotate_vector(bad, 1, g, &mut d) });
                    t!("rotate_vector_inplace(1)", { let mut x = bad.clone(); ev.rotate_vector_inplace(&mut x, 1, g) });
                }
                t!("complex_conjugate_new", ev.complex_conjugate_new(bad, g));
                t!("complex_conjugate(dest)", { let mut d = Ciphertext::new(); ev.complex_conjugate(bad, g, &mut d) });
                t!("complex_conjugate_inplace", { let mut x = bad.clone(); ev.complex_conjugate_inplace(&mut x, g) });
            } else if kit.batch.is_some() {
                if kit.n() >= 4 {
                    t!("rotate_rows_new(1)", ev.rotate_rows_new(bad, 1, g));
                    t!("rotate_rows(1,dest)", { let mut d = Ciphertext::new(); ev.rotate_rows(bad, 1, g, &mut d) });
                    t!("rotate_rows_inplace(1)", { let mut x = bad.clone(); ev.rotate_rows_inplace(&mut x, 1, g) });
                }
                t!("rotate_columns_new", ev.rotate_columns_new(bad, g));
                t!("rotate_columns(dest)", { let mut d = Ciphertext::new(); ev.rotate_columns(bad, g, &mut d) });
                t!("rotate_columns_inplace", { let mut x = bad.clone(); ev.rotate_columns_inplace(&mut x, g) });
            }
        }
    }
    t!("decrypt_new", kit.dec.decrypt_new(bad));
    t!("decrypt(dest)", { let mut d = Plaintext::new(); kit.dec.decrypt(bad, &mut d) });
    if kit.spec.scheme != SchemeType::CKKS && !bad.is_ntt_form() { t!("invariant_noise_budget", kit.dec.invariant_noise_budget(bad)); }
    v
}

/// the refusal matrix on CKKS contexts (the scheme-specific entry points rescale_to_next / rescale_to / rotate_vector /
/// complex_conjugate are reachable only here): operand states fresh, size 3, lower level x every corruption x every operation form
fn refusals_ckks(cfg: &Cfg, grp: &str, case: u64, rng: &mut Rng, rep: &mut Report) {
    let Some(spec) = crate::props::c03::ckks_spec(rng, &[4, 8, 16]) else { return };
    let Ok(kit) = Kit::new(&spec) else { return };
    let other = Spec { n: spec.n * 2, qs: match coeff_primes(spec.n * 2, &[40, 41], rng) { Some(q) => q, None => return }, ..spec.clone() };
    let Ok(octx) = other.context() else { return };
    let other_id = *octx.first_parms_id();
    let o = Obs { cfg, grp, case };
    let rlk = if kit.has_keyswitching() { lib(|| kit.keygen.create_relin_keys(false)).ok() } else { None };
    let gk = if kit.has_keyswitching() { lib(|| kit.keygen.create_galois_keys(false)).ok() } else { None };
    let trace: Vec<String> = vec![];
    let n = kit.n(); let enc = kit.ckks.as_ref().unwrap();
    let bits0: usize = kit.level_qs(0).iter().map(|&q| refm_bits(q)).sum();
    let sb = rng.range(10, ((bits0 / 3).max(12)).min(40) as u64) as i32; let scale = 2f64.powi(sb);
    let vals = |rng: &mut Rng| -> Vec<C64> { (0..n / 2).map(|_| C64::new(rng.f64() * 4.0 - 2.0, rng.f64() * 2.0 - 1.0)).collect() };
    let (va, vb) = (vals(rng), vals(rng));
    let (Ok(a), Ok(b)) = (lib(|| kit.enc.encrypt_new(&enc.encode_c64_array_new(&va, None, scale))), lib(|| kit.enc.encrypt_new(&enc.encode_c64_array_new(&vb, None, scale)))) else { rep.out_of_precondition += 1; return };
    let mut states: Vec<(String, Ciphertext, Ciphertext)> = vec![("fresh".into(), a.clone(), b.clone())];
    if 2 * sb as usize + 2 < bits0 { if let Ok(p) = lib(|| kit.eval.multiply_new(&a, &b)) { states.push(("size3".into(), p, lib(|| kit.eval.multiply_new(&b, &a)).unwrap_or(a.clone()))); } }
    if kit.levels.len() > 1 { if let (Ok(x), Ok(y)) = (lib(|| kit.eval.mod_switch_to_next_new(&a)), lib(|| kit.eval.mod_switch_to_next_new(&b))) { states.push(("lower_level".into(), x, y)); } }
    if kit.levels.len() > 2 { if let (Ok(x), Ok(y)) = (lib(|| kit.eval.mod_switch_to_new(&a, kit.ctx.last_parms_id())), lib(|| kit.eval.mod_switch_to_new(&b, kit.ctx.last_parms_id()))) { states.push(("last_level".into(), x, y)); } }
    for (sname, victim, partner) in &states {
        let pv = vals(rng);
        let Ok(plain) = lib(|| enc.encode_c64_array_new(&pv, Some(*victim.parms_id()), victim.scale())) else { rep.out_of_precondition += 1; continue };
        if lib(|| kit.eval.negate_new(victim)).is_err() { rep.harness_errors.push(format!("valid CKKS state {} refused", sname)); continue; }
        rep.count("ckks_refusal_states", sname);
        for &c in CORRS.iter() {
            let Some(bad) = corrupt_ct(&kit, &other_id, victim, c, rng) else { continue };
            for (opname, r) in ct_ops(&kit, rlk.as_ref(), gk.as_ref(), partner, &bad, &plain) {
                rep.count("refusal_cells", &format!("{:?}|{}", c, opname));
                rep.count("refusal_cells_ckks", &format!("{:?}|{}", c, opname));
                rep.eval(Some(&format!("CKKS|{:?}|{}|{}", c, opname, sname)));
                if r.is_ok() {
                    viol(&o, rep, opname, &format!("CKKS|{:?}", c), "not_refused", format!("operand state {} with corruption {:?} was computed on instead of refused", sname, c), &spec, &trace);
                }
            }
        }
    }
}

fn refusals(cfg: &Cfg, grp: &str, case: u64, rng: &mut Rng, rep: &mut Report) {
    let Some(spec) = program_spec(rng, &[4, 8, 16], None) else { return };
    let Ok(kit) = Kit::new(&spec) else { return };
    // a second, different context to borrow a foreign parms id from
    let other = Spec { n: spec.n * 2, qs: match coeff_primes(spec.n * 2, &[40, 41], rng) { Some(q) => q, None => return }, ..spec.clone() };
    let Ok(octx) = other.context() else { return };
    let other_id = *octx.first_parms_id();
    let o = Obs { cfg, grp, case };
    let mut m = Machine::new(&kit, false);
    let rlk = m.rlk.clone();
    let gk = if kit.has_keyswitching() { lib(|| kit.keygen.create_galois_keys(false)).ok() } else { None };
    let trace: Vec<String> = vec![];
    // valid operand states: fresh, product (size 3), lower level
    let (_, c0) = gen_plain(rng, m.n(), m.t());
    let (_, c1) = gen_plain(rng, m.n(), m.t());
    let (Ok(a), Ok(b)) = (m.fresh(&c0, true), m.fresh(&c1, false)) else { return };
    let mut states: Vec<(String, Ciphertext, Ciphertext)> = vec![("fresh".into(), m.pool[a].ct.clone(), m.pool[b].ct.clone())];
    if let Ok(p) = m.execute(&Op::Multiply(a, b), Form::New) { states.push(("size3".into(), p, m.pool[a].ct.clone())); }
    if kit.levels.len() > 1 { if let (Ok(x), Ok(y)) = (m.execute(&Op::ModSwitchNext(a), Form::New), m.execute(&Op::ModSwitchNext(b), Form::New)) { states.push(("lower_level".into(), x, y)); } }
    if m.bfv { if let (Ok(x), Ok(y)) = (m.execute(&Op::ToNtt(a), Form::New), m.execute(&Op::ToNtt(b), Form::New)) { states.push(("bfv_ntt".into(), x, y)); } }
    let (_, pc) = gen_plain(rng, m.n(), m.t());
    let plain = kit.plain_from_coeffs(&pc);
    for (sname, victim, partner) in &states {
        // sanity: the uncorrupted state must be accepted by at least negate (else the state itself is unusable)
        if lib(|| kit.eval.negate_new(victim)).is_err() { rep.harness_errors.push(format!("valid state {} refused", sname)); continue; }
        for &c in CORRS.iter() {
            let Some(bad) = corrupt_ct(&kit, &other_id, victim, c, rng) else { continue };
            for (opname, r) in ct_ops(&kit, rlk.as_ref(), gk.as_ref(), partner, &bad, &plain) {
                rep.count("refusal_cells", &format!("{:?}|{}", c, opname));
                rep.eval(Some(&format!("{}|{:?}|{}|{}", spec.scheme_name(), c, opname, sname)));
                if r.is_ok() {
                    viol(&o, rep, opname, &format!("{}|{:?}", spec.scheme_name(), c), "not_refused", format!("operand state {} with corruption {:?} was computed on instead of refused", sname, c), &spec, &trace);
                }
            }
        }
        // level mismatch and representation mismatch between two otherwise valid operands
        if sname == "lower_level" {
            let hi = &m.pool[a].ct;
            for (opname, r) in [("add_new(levels differ)", lib(|| { kit.eval.add_new(hi, victim); })), ("sub_new(levels differ)", lib(|| { kit.eval.sub_new(victim, hi); })), ("multiply_new(levels differ)", lib(|| { kit.eval.multiply_new(hi, victim); }))] {
                rep.count("refusal_cells", &format!("LevelMismatch|{}", opname));
                if r.is_ok() { viol(&o, rep, opname, spec.scheme_name(), "not_refused", "operands of different levels were computed on".into(), &spec, &trace); }
            }
        }
        if sname == "bfv_ntt" {
            let coef = &m.pool[a].ct;
            for (opname, r) in [("add_new(forms differ)", lib(|| { kit.eval.add_new(coef, victim); })), ("multiply_new(ntt form)", lib(|| { kit.eval.multiply_new(victim, partner); })), ("square_new(ntt form)", lib(|| { kit.eval.square_new(victim); })),
                                ("add_plain_new(ntt ct, coef plain)", lib(|| { kit.eval.add_plain_new(victim, &plain); })), ("mod_switch_to_next_new(ntt form)", lib(|| { if kit.levels.len() > 1 { kit.eval.mod_switch_to_next_new(victim); } else { panic!("n/a") } })),
                                ("decrypt_new(ntt form)", lib(|| { kit.dec.decrypt_new(victim); })), ("transform_to_ntt_new(already ntt)", lib(|| { kit.eval.transform_to_ntt_new(victim); }))] {
                rep.count("refusal_cells", &format!("WrongRepresentation|{}", opname));
                if r.is_ok() { viol(&o, rep, opname, spec.scheme_name(), "not_refused", "operand in a representation the operation does not accept was computed on".into(), &spec, &trace); }
            }
        }
    }
    // plaintext corruptions
    let t = m.t(); let n = m.n();
    let good_ct = &m.pool[a].ct;
    let mut bad_plains: Vec<(&'static str, Plaintext)> = vec![];
    { let mut p = plain.clone(); let l = p.coeff_count(); p.data_mut()[l - 1] = t; bad_plains.push(("coeff_eq_t", p)); }
    { let mut p = plain.clone(); p.data_mut()[0] = u64::MAX; bad_plains.push(("coeff_max", p)); }
    { let mut p = Plaintext::new(); p.resize(n + 1); p.data_mut()[n] = 1; bad_plains.push(("too_long", p)); }
    { let mut p = plain.clone(); p.data_mut().push(0); bad_plains.push(("buffer_long", p)); }
    if let Ok(pn) = lib(|| kit.eval.transform_plain_to_ntt_new(&plain, good_ct.parms_id())) {
        let q0 = kit.level_qs(0)[0];
        { let mut p = pn.clone(); p.data_mut()[0] = q0; bad_plains.push(("ntt_residue_eq_q", p)); }
        { let mut p = pn.clone(); p.set_parms_id(other_id); bad_plains.push(("ntt_foreign_id", p)); }
    }
    for (pname, bp) in &bad_plains {
        let ntt = bp.is_ntt_form();
        let mut calls: Vec<(&'static str, Result<(), Panicked>)> = vec![];
        calls.push(("multiply_plain_new", lib(|| { kit.eval.multiply_plain_new(good_ct, bp); })));
        if !ntt {
            calls.push(("add_plain_new", lib(|| { kit.eval.add_plain_new(good_ct, bp); })));
            calls.push(("sub_plain_new", lib(|| { kit.eval.sub_plain_new(good_ct, bp); })));
            calls.push(("encrypt_new", lib(|| { kit.enc.encrypt_new(bp); })));
            calls.push(("encrypt_symmetric_new", lib(|| { kit.enc.encrypt_symmetric_new(bp); })));
            calls.push(("transform_plain_to_ntt_new", lib(|| { kit.eval.transform_plain_to_ntt_new(bp, kit.ctx.first_parms_id()); })));
            if let Some(be) = &kit.batch { calls.push(("BatchEncoder::decode_new", lib(|| { be.decode_new(bp); }))); }
        }
        for (opname, r) in calls {
            rep.count("refusal_cells", &format!("plain:{}|{}", pname, opname));
            rep.eval(Some(&format!("{}|plain:{}|{}", spec.scheme_name(), pname, opname)));
            if r.is_ok() { viol(&o, rep, opname, &format!("{}|plain:{}", spec.scheme_name(), pname), "not_refused", format!("invalid plaintext ({}) was computed on instead of refused", pname), &spec, &trace); }
        }
    }
    // unexpanded seeded public/relin/galois keys
    if kit.has_keyswitching() {
        if let (Ok(rs), Ok(p3)) = (lib(|| kit.keygen.create_relin_keys(true)), m.execute(&Op::Multiply(a, b), Form::New)) {
            if rs.contains_seed() {
                let r = lib(|| { kit.eval.relinearize_new(&p3, &rs); });
                rep.count("refusal_cells", "SeededRelinKeys|relinearize_new");
                if r.is_ok() { viol(&o, rep, "relinearize_new", &format!("{}|seeded_keys", spec.scheme_name()), "not_refused", "unexpanded seeded relinearization keys were used".into(), &spec, &trace); }
            }
        }
        if let Ok(gs) = lib(|| kit.keygen.create_galois_keys(true)) {
            if gs.contains_seed() {
                let r = lib(|| { kit.eval.apply_galois_new(good_ct, 3, &gs); });
                rep.count("refusal_cells", "SeededGaloisKeys|apply_galois_new");
                if r.is_ok() { viol(&o, rep, "apply_galois_new", &format!("{}|seeded_keys", spec.scheme_name()), "not_refused", "unexpanded seeded Galois keys were used".into(), &spec, &trace); }
            }
        }
    }
    if let Ok(pks) = lib(|| kit.keygen.create_public_key(true)) {
        if pks.contains_seed() {
            let r = lib(|| { Encryptor::new(kit.ctx.clone()).set_public_key(pks.clone()); });
            rep.count("refusal_cells", "SeededPublicKey|set_public_key");
            if r.is_ok() { viol(&o, rep, "set_public_key", &format!("{}|seeded_keys", spec.scheme_name()), "not_refused", "unexpanded seeded public key was accepted".into(), &spec, &trace); }
        }
    }
}

// ------------------------------------------------------------------ plaintext-valued evaluator operations
/// independent validity predicate for an NTT-form plaintext returned by an evaluator operation
fn valid_ntt_plain(kit: &Kit, p: &Plaintext) -> Result<(), String> {
    if !p.is_ntt_form() { return Err("not flagged as NTT form".into()); }
    let Some(level) = kit.level_of(p.parms_id()) else { return Err("parms id is not a data level of the context".into()) };
    let qs = kit.level_qs(level); let n = kit.n();
    if p.coeff_count() != n * qs.len() { return Err(format!("coefficient count {} but its level has {} primes of degree {} (expected {})", p.coeff_count(), qs.len(), n, n * qs.len())); }
    if p.data().len() < p.coeff_count() { return Err(format!("buffer length {} below coefficient count {}", p.data().len(), p.coeff_count())); }
    for (i, &q) in qs.iter().enumerate() { for j in 0..n { let x = p.data()[i * n + j]; if x >= q { return Err(format!("residue {} >= modulus {} at component {} index {}", x, q, i, j)); } } }
    if !(p.scale().is_finite() && p.scale() > 0.0) { return Err(format!("scale {}", p.scale())); }
    Ok(())
}
fn same_plain(a: &Plaintext, b: &Plaintext) -> bool {
    a.parms_id() == b.parms_id() && a.coeff_count() == b.coeff_count() && a.scale().to_bits() == b.scale().to_bits() && a.is_ntt_form() == b.is_ntt_form() && a.data()[..a.coeff_count()] == b.data()[..b.coeff_count()]
}

/// transform_plain_to_ntt, mod_switch_to_next_plain and mod_switch_plain_to (every source/target level pair), each in its three
/// forms: results valid for the context, the forms bit-identical, the operand unchanged, the result accepted by a later operation.
fn plain_ops(cfg: &Cfg, grp: &str, case: u64, rng: &mut Rng, rep: &mut Report, ns: &[usize]) {
    let scheme = *rng.pick(&[SchemeType::BFV, SchemeType::BGV, SchemeType::CKKS]);
    let spec = if scheme == SchemeType::CKKS { crate::props::c03::ckks_spec(rng, ns) } else { program_spec(rng, ns, Some(scheme)) };
    let Some(spec) = spec else { rep.count("generator", "no_spec"); return; };
    let Ok(kit) = Kit::new(&spec) else { rep.count("generator", "context_rejected"); return; };
    let o = Obs { cfg, grp, case };
    let sname = spec.scheme_name(); let n = kit.n(); let nl = kit.levels.len(); let ev = &kit.eval;
    let scale = 2f64.powi(rng.range(10, 24) as i32);
    let no_trace: Vec<String> = vec![];
    rep.count("plain_ops_params", &format!("{}|N={:05}|primes={}", sname, n, spec.qs.len()));
    // a ciphertext per level for the "accepted by a later operation" clause
    let base_ct = if scheme == SchemeType::CKKS {
        let vals: Vec<C64> = (0..n / 2).map(|j| C64::new((j % 7) as f64 - 3.0, 0.5)).collect();
        lib(|| kit.enc.encrypt_new(&kit.ckks.as_ref().unwrap().encode_c64_array_new(&vals, None, scale)))
    } else { let (_, c) = gen_plain(rng, n, kit.t()); lib(|| kit.enc.encrypt_new(&kit.plain_from_coeffs(&c))) };
    for src in 0..nl {
        let sid = *kit.levels[src].parms_id();
        // ---- the source plaintext in NTT form on level `src`
        let p = if scheme == SchemeType::CKKS {
            let vals: Vec<C64> = (0..n / 2).map(|_| C64::new(rng.f64() * 8.0 - 4.0, rng.f64() * 2.0 - 1.0)).collect();
            match lib(|| kit.ckks.as_ref().unwrap().encode_c64_array_new(&vals, Some(sid), scale)) { Ok(p) => p, Err(_) => { rep.out_of_precondition += 1; continue; } }
        } else {
            let (_, c) = gen_plain(rng, n, kit.t()); let pl = kit.plain_from_coeffs(&c);
            let snap = pl.clone();
            let forms: Vec<Result<Plaintext, Panicked>> = vec![
                lib(|| { let mut x = pl.clone(); ev.transform_plain_to_ntt_inplace(&mut x, &sid); x }),
                lib(|| { let mut d = Plaintext::new(); ev.transform_plain_to_ntt(&pl, &sid, &mut d); d }),
                lib(|| ev.transform_plain_to_ntt_new(&pl, &sid))];
            rep.count("plain_ops", &format!("{}|transform_plain_to_ntt|L{}", sname, src)); rep.eval(Some(&format!("{}|tpn|{}|{}", sname, n, src)));
            if pl.data() != snap.data() || pl.coeff_count() != snap.coeff_count() { viol(&o, rep, "transform_plain_to_ntt", sname, "operand_modified", "a read-only operand changed".into(), &spec, &no_trace); }
            if forms.iter().any(|f| f.is_err()) { viol(&o, rep, "transform_plain_to_ntt", sname, "panic", format!("a valid plaintext was refused at level {}: {:?}", src, forms.iter().map(|f| f.as_ref().err().map(|e| e.0.clone())).collect::<Vec<_>>()), &spec, &no_trace); continue; }
            let f: Vec<Plaintext> = forms.into_iter().map(|x| x.unwrap()).collect();
            if !same_plain(&f[0], &f[1]) || !same_plain(&f[0], &f[2]) { viol(&o, rep, "transform_plain_to_ntt", sname, "forms_differ", format!("the three forms disagree at level {}", src), &spec, &no_trace); }
            if let Err(e) = valid_ntt_plain(&kit, &f[2]) { viol(&o, rep, "transform_plain_to_ntt", sname, "invalid_result", e, &spec, &no_trace); continue; }
            f.into_iter().nth(2).unwrap()
        };
        if let Err(e) = valid_ntt_plain(&kit, &p) { rep.note(&format!("source plaintext not valid ({}); skipped", e)); continue; }
        for tgt in src..nl {
            let tid = *kit.levels[tgt].parms_id();
            let snap = p.clone();
            let mut runs: Vec<(&str, Vec<Result<Plaintext, Panicked>>)> = vec![("mod_switch_plain_to", vec![
                lib(|| { let mut x = p.clone(); ev.mod_switch_plain_to_inplace(&mut x, &tid); x }),
                lib(|| { let mut d = Plaintext::new(); ev.mod_switch_plain_to(&p, &tid, &mut d); d }),
                lib(|| ev.mod_switch_plain_to_new(&p, &tid))])];
            if tgt == src + 1 { runs.push(("mod_switch_to_next_plain", vec![
                lib(|| { let mut x = p.clone(); ev.mod_switch_to_next_plain_inplace(&mut x); x }),
                lib(|| { let mut d = Plaintext::new(); ev.mod_switch_to_next_plain(&p, &mut d); d }),
                lib(|| ev.mod_switch_to_next_plain_new(&p))])); }
            if !same_plain(&p, &snap) { viol(&o, rep, "mod_switch_plain_to", sname, "operand_modified", "a read-only operand changed".into(), &spec, &no_trace); }
            let mut reference: Option<Plaintext> = None;
            for (opn, forms) in runs {
                let cls = format!("{}|{}", sname, if tgt == src { "same_level" } else if tgt == src + 1 { "one_level" } else { "several_levels" });
                rep.count("plain_ops", &format!("{}|{}|{}->{}", sname, opn, src, tgt)); rep.eval(Some(&format!("{}|{}|{}|{}|{}", sname, opn, n, src, tgt)));
                let nerr = forms.iter().filter(|f| f.is_err()).count();
                if nerr == 3 { if tgt > src { viol(&o, rep, opn, &cls, "panic", format!("a valid NTT-form plaintext was refused ({}->{}): {}", src, tgt, forms[0].as_ref().err().unwrap().0), &spec, &no_trace); } continue; }
                if nerr != 0 { viol(&o, rep, opn, &cls, "forms_differ", format!("some forms refuse, others do not ({}->{})", src, tgt), &spec, &no_trace); continue; }
                let f: Vec<&Plaintext> = forms.iter().map(|x| x.as_ref().unwrap()).collect();
                if !same_plain(f[0], f[1]) || !same_plain(f[0], f[2]) { viol(&o, rep, opn, &cls, "forms_differ", format!("the three forms disagree ({}->{}): coefficient counts {} {} {}", src, tgt, f[0].coeff_count(), f[1].coeff_count(), f[2].coeff_count()), &spec, &no_trace); }
                if f[2].parms_id() != &tid { viol(&o, rep, opn, &cls, "invalid_result", format!("result is not on the requested level ({}->{})", src, tgt), &spec, &no_trace); continue; }
                if let Err(e) = valid_ntt_plain(&kit, f[2]) { viol(&o, rep, opn, &cls, "invalid_result", format!("{} ({}->{})", e, src, tgt), &spec, &no_trace); continue; }
                if !lib(|| f[2].is_valid_for(&kit.ctx)).unwrap_or(false) { viol(&o, rep, opn, &cls, "invalid_result", format!("the library's own is_valid_for rejects the result ({}->{})", src, tgt), &spec, &no_trace); continue; }
                match &reference { None => reference = Some(f[2].clone()), Some(r) => if !same_plain(r, f[2]) { viol(&o, rep, opn, &cls, "forms_differ", format!("mod_switch_to_next_plain and mod_switch_plain_to disagree ({}->{})", src, tgt), &spec, &no_trace); } }
            }
            // ---- accepted by a later operation on a ciphertext of the target level
            if let (Some(res), Ok(ct0)) = (reference.as_ref(), base_ct.as_ref()) {
                let ct_t = lib(|| { let c = if tgt == 0 { ct0.clone() } else { ev.mod_switch_to_new(ct0, &tid) }; if scheme == SchemeType::BFV { ev.transform_to_ntt_new(&c) } else { c } });
                if let Ok(ct_t) = ct_t {
                    rep.count("plain_ops", &format!("{}|multiply_plain(after switch)|L{}", sname, tgt));
                    if let Err(e) = lib(|| ev.multiply_plain_new(&ct_t, res)) {
                        // CKKS refuses products whose scale does not fit the level: not a validity matter
                        let fits = scheme != SchemeType::CKKS || ((ct_t.scale() * res.scale()).log2() as isize) < kit.level_qs(tgt).iter().map(|&q| refm_bits(q)).sum::<usize>() as isize;
                        if fits && !res.data()[..res.coeff_count()].iter().all(|&x| x == 0) { viol(&o, rep, "mod_switch_plain_to", &format!("{}|later_multiply_plain", sname), "not_accepted", format!("the switched plaintext ({}->{}) is refused by multiply_plain: {}", src, tgt, e.0), &spec, &no_trace); }
                    }
                    if scheme == SchemeType::CKKS && res.scale().to_bits() == ct_t.scale().to_bits() {
                        rep.count("plain_ops", &format!("{}|add_plain(after switch)|L{}", sname, tgt));
                        if let Err(e) = lib(|| ev.add_plain_new(&ct_t, res)) { viol(&o, rep, "mod_switch_plain_to", &format!("{}|later_add_plain", sname), "not_accepted", format!("the switched plaintext ({}->{}) is refused by add_plain: {}", src, tgt, e.0), &spec, &no_trace); }
                    }
                }
            }
        }
    }
}
fn refm_bits(q: u64) -> usize { crate::refm::bit_len(q) }

pub fn run(cfg: &Cfg, rep: &mut Report) -> PropMeta {
    run_cases(cfg, "programs", cfg.n(24000, 300000) as u64, rep, |i, rng, rep| programs(cfg, "programs", i, rng, rep, &[2, 4, 8, 16, 32]));
    run_cases(cfg, "programs_mid", cfg.n(100, 2000) as u64, rep, |i, rng, rep| programs(cfg, "programs_mid", i, rng, rep, &[64, 256, 1024]));
    run_cases(cfg, "refusals", cfg.n(3000, 40000) as u64, rep, |i, rng, rep| refusals(cfg, "refusals", i, rng, rep));
    run_cases(cfg, "refusals_ckks", cfg.n(800, 12000) as u64, rep, |i, rng, rep| refusals_ckks(cfg, "refusals_ckks", i, rng, rep));
    run_cases(cfg, "plain_ops", cfg.n(1500, 20000) as u64, rep, |i, rng, rep| plain_ops(cfg, "plain_ops", i, rng, rep, &[4, 8, 16, 64]));
    run_cases(cfg, "plain_ops_mid", cfg.n(8, 100) as u64, rep, |i, rng, rep| plain_ops(cfg, "plain_ops_mid", i, rng, rep, &[1024, 4096]));
    crate::props::c03::c06_hook(cfg, rep);
    PropMeta {
        id: "C06", level: "exploration",
        rule: "(A) every step of random BFV/BGV/CKKS operation programs is executed in all three API forms (in-place on a clone, destination argument over a dirty destination, value-returning): results must be bit-identical, operands unchanged (also when one object is passed twice), result valid by is_valid_for and by an independent predicate; (B) single-field corruptions (residue = q, q+1, 2^64-1; foreign / other-context / key-level parms id; size 1 / 17; buffer one word short / long; scale; correction factor; unexpanded seed; level and representation mismatch; invalid plaintexts; seeded keys) x every public operation taking that operand: must panic. distinct = distinct (scheme, op, state) variant cells and (scheme, corruption, op, state) refusal cells (C) plaintext-valued operations: transform_plain_to_ntt, mod_switch_to_next_plain and mod_switch_plain_to for every (source, target) level pair of chains with 2..6 primes (N = 4..64, a few cases at 1024 / 4096), each in its three forms: results valid by an independent predicate and by is_valid_for, forms bit-identical, one-step and multi-step switching agree, operand unchanged, result accepted by multiply_plain / add_plain on a ciphertext of the target level. (B') the refusal matrix calls the in-place and destination forms of every operation as well as the value-returning ones, and a second group runs the whole matrix on CKKS contexts (states fresh / size 3 / lower level / last level), where rescale_to_next, rescale_to, rotate_vector and complex_conjugate are reachable",
        assumptions: vec!["any panic counts as a refusal".into(), "calls that are documented no-ops (mod_switch_to the current level, relinearize at size 2, rotate by 0, add_many of one operand) are excluded".into()],
        exhaustive: false, floor: 2000,
    }
}
