//! C15 — serialization fails cleanly under I/O faults instead of corrupting or panicking.
//!
//! Fault model (all inside the std::io::Write / Read contracts):
//!   ShortWriter(limits)   accepts at most limits[i mod len] (1..8) bytes on the i-th `write` call
//!   FailingWriter(f)      accepts bytes normally and returns Err from the call that would cross offset f
//!                         (variant "partial": accepts the bytes up to f first, then fails the next call)
//!   TruncatedReader(n)    plain EOF (Ok(0)) after n bytes
//!   ShortReader(limits)   returns at most limits[i mod len] (1..8) bytes per `read` call
//! Enumeration: every object/format of the C14 zoo on small parameter sets; EVERY failure offset in
//! [0,len] and EVERY truncation offset in [0,len) when len <= 4 KiB, otherwise every offset within 64
//! bytes of a field boundary plus a stride and a random sample.
//! Oracle: writer - Err, or Ok with exactly the reference encoding on the sink (anything else is a silent
//! truncation); reader - every strict prefix yields Err; short reads of the whole encoding yield the
//! original object; no panic anywhere.

use super::c14::{build_zoo, byte_width, encode, gen_spec, Env, Item, Obj, ZooOpts};
use crate::he::*;
use crate::rt::*;
use serde_json::json;
use std::collections::BTreeMap;
use std::io::{Read, Write};

const P: &str = "C15";
const FULL_ENUM_MAX: usize = 4096;

// ------------------------------------------------------------------ faulty streams
struct ShortWriter { sink: Vec<u8>, limits: Vec<usize>, i: usize }
impl Write for ShortWriter {
    fn write(&mut self, b: &[u8]) -> std::io::Result<usize> {
        let k = b.len().min(self.limits[self.i % self.limits.len()]);
        self.i += 1;
        self.sink.extend_from_slice(&b[..k]);
        Ok(k)
    }
    fn flush(&mut self) -> std::io::Result<()> { Ok(()) }
}

struct FailingWriter { sink: Vec<u8>, fail_at: usize, partial: bool }
impl Write for FailingWriter {
    fn write(&mut self, b: &[u8]) -> std::io::Result<usize> {
        if self.sink.len() + b.len() > self.fail_at {
            if self.partial && self.sink.len() < self.fail_at {
                let k = self.fail_at - self.sink.len();
                self.sink.extend_from_slice(&b[..k]);
                return Ok(k);
            }
            return Err(std::io::Error::new(std::io::ErrorKind::Other, "injected write failure"));
        }
        self.sink.extend_from_slice(b);
        Ok(b.len())
    }
    fn flush(&mut self) -> std::io::Result<()> { Ok(()) }
}

/// records the (offset, length) of every write call of the reference encoding: the field boundaries
struct RecordingWriter { sink: Vec<u8>, calls: Vec<(usize, usize)> }
impl Write for RecordingWriter {
    fn write(&mut self, b: &[u8]) -> std::io::Result<usize> { self.calls.push((self.sink.len(), b.len())); self.sink.extend_from_slice(b); Ok(b.len()) }
    fn flush(&mut self) -> std::io::Result<()> { Ok(()) }
}

struct TruncatedReader<'a> { data: &'a [u8], pos: usize }
impl<'a> Read for TruncatedReader<'a> {
    fn read(&mut self, b: &mut [u8]) -> std::io::Result<usize> {
        let k = b.len().min(self.data.len() - self.pos);
        b[..k].copy_from_slice(&self.data[self.pos..self.pos + k]);
        self.pos += k;
        Ok(k)
    }
}

struct ShortReader<'a> { data: &'a [u8], pos: usize, limits: Vec<usize>, i: usize }
impl<'a> Read for ShortReader<'a> {
    fn read(&mut self, b: &mut [u8]) -> std::io::Result<usize> {
        let k = b.len().min(self.data.len() - self.pos).min(self.limits[self.i % self.limits.len()]);
        self.i += 1;
        b[..k].copy_from_slice(&self.data[self.pos..self.pos + k]);
        self.pos += k;
        Ok(k)
    }
}

fn schedules(rng: &mut Rng) -> Vec<(&'static str, Vec<usize>)> {
    vec![
        ("all_1", vec![1]),
        ("all_3", vec![3]),
        ("cycle_1_to_8", (1..=8).collect()),
        ("random", (0..rng.range(3, 17)).map(|_| rng.range(1, 8) as usize).collect()),
    ]
}

/// offsets to enumerate for an encoding: all of [0,len) when small, else neighbourhoods of field boundaries + samples
fn offsets(len: usize, calls: &[(usize, usize)], rng: &mut Rng) -> (Vec<usize>, bool) {
    if len <= FULL_ENUM_MAX { return ((0..len).collect(), true); }
    let mut mark = vec![false; len];
    let mut bounds: Vec<usize> = vec![0, len];
    let mut prev_len = usize::MAX;
    for &(off, l) in calls {
        // a field boundary: every multi-byte scalar, and every point where the call size changes (start/end of a byte run)
        if l != 1 || prev_len != 1 { bounds.push(off); bounds.push(off + l); }
        prev_len = l;
    }
    for b in bounds { let lo = b.saturating_sub(64); let hi = (b + 64).min(len); for x in lo..hi { mark[x] = true; } }
    let mut x = 0; while x < len { mark[x] = true; x += 61; }
    for _ in 0..64 { mark[rng.usize_below(len)] = true; }
    ((0..len).filter(|&i| mark[i]).collect(), false)
}

struct Obs<'a> { cfg: &'a Cfg, grp: &'a str, case: u64, spec: &'a Spec }

fn viol(o: &Obs, rep: &mut Report, ty: &str, fault: &str, kind: &str, detail: String, label: &str) {
    rep.violation(&format!("{}|{}|{}|{}", P, ty, fault, kind), format!("{} ; object `{}` ; params {}", detail, label, o.spec.describe()),
        replay_json(o.cfg, o.grp, o.case, json!({"params": o.spec.describe(), "object": label, "type": ty, "fault": fault})));
}

fn first_diff(a: &[u8], b: &[u8]) -> usize { a.iter().zip(b).position(|(x, y)| x != y).unwrap_or(a.len().min(b.len())) }

/// all faults on one object
fn fault_object(o: &Obs, rep: &mut Report, env: &Env, item: &Item, rng: &mut Rng, max_offsets: usize) {
    let obj = &item.obj;
    let ty = obj.type_name();
    let scheme = o.spec.scheme_name();
    // reference encoding (in-memory Vec writer) and its field boundaries
    let mut rec = RecordingWriter { sink: vec![], calls: vec![] };
    let reference = match lib(|| obj.write(env, &mut rec)) {
        Ok(Ok(_)) => rec.sink.clone(),
        // "neither direction panics" holds for every writer, the in-memory one included (the value of the encoding is C14's subject)
        Err(p) => { viol(o, rep, &ty, "in_memory_write", "panic", format!("serialize into an in-memory writer panicked: {}", p.0), &item.label); return; }
        Ok(Err(_)) => { rep.count("skipped", "reference_encoding_failed (C14 reports it)"); return; }
    };
    let expected = match lib(|| obj.expected(env)) { Ok(e) => e, Err(_) => { rep.count("skipped", "expand_failed"); return; } };
    let len = reference.len();
    rep.min("encoding_bytes", len as f64); rep.max("encoding_bytes", len as f64);
    let (mut offs, mut complete) = offsets(len, &rec.calls, rng);
    if offs.len() > max_offsets {
        // large encodings: both ends densely (headers, lengths, seed block), the body by uniform samples and block-size neighbourhoods
        complete = false;
        let mut keep: std::collections::BTreeSet<usize> = offs.iter().copied().filter(|&x| x < 400 || x + 400 >= len).collect();
        for b in [4096usize, 8192, 16384, 65536, 131072] { for d in 0..6 { for x in [b * (1 + d) - 1, b * (1 + d), b * (1 + d) + 1] { if x < len { keep.insert(x); } } } }
        while keep.len() < max_offsets { keep.insert(offs[rng.usize_below(offs.len())]); }
        offs = keep.into_iter().collect();
    }
    rep.count("offset_enumeration", if complete { "every_offset" } else { "boundaries_and_samples" });
    rep.count("objects_by_type", &ty);
    let mut runs = 0u64;

    // ---- short writes
    for (name, limits) in schedules(rng) {
        let mut w = ShortWriter { sink: vec![], limits: limits.clone(), i: 0 };
        let r = lib(|| obj.write(env, &mut w));
        runs += 1;
        rep.count("fault_runs", &format!("short_write|{}", name));
        match r {
            Err(p) => viol(o, rep, &ty, "short_write", "panic", format!("serialize panicked under the write schedule {} {:?}: {}", name, limits, p.0), &item.label),
            Ok(Err(_)) => rep.count("clean_outcomes", "short_write|Err"),
            Ok(Ok(ret)) => {
                if w.sink == reference { rep.count("clean_outcomes", "short_write|complete"); }
                else {
                    viol(o, rep, &ty, "short_write", "silent_truncation",
                        format!("serialize returned Ok({}) although the writer (accepting at most {:?} bytes per call, schedule {}) received {} of the {} bytes of the encoding; first difference at offset {}", ret, limits, name, w.sink.len(), len, first_diff(&w.sink, &reference)), &item.label);
                }
            }
        }
    }
    // ---- failing writer at every offset f in [0, len]
    for partial in [false, true] {
        let fault = if partial { "failing_write_partial" } else { "failing_write" };
        let mut fs = offs.clone(); fs.push(len);
        for &f in &fs {
            let mut w = FailingWriter { sink: Vec::with_capacity(f), fail_at: f, partial };
            let r = lib(|| obj.write(env, &mut w));
            runs += 1;
            match r {
                Err(p) => viol(o, rep, &ty, fault, "panic", format!("serialize panicked when the writer failed at offset {} of {}: {}", f, len, p.0), &item.label),
                Ok(Err(_)) => { if f == len { viol(o, rep, &ty, fault, "spurious_error", format!("serialize returned Err although the writer never failed (failure offset {} = length)", f), &item.label); } }
                Ok(Ok(ret)) => if w.sink != reference {
                    viol(o, rep, &ty, fault, "silent_truncation", format!("serialize returned Ok({}) although the writer failed at offset {} of {}; the sink holds {} bytes", ret, f, len, w.sink.len()), &item.label);
                },
            }
        }
        rep.count_n("fault_runs", fault, fs.len() as u64);
    }
    // ---- truncated reads: every strict prefix must be refused with Err
    let mut n_panic = 0u64; let mut n_ok = 0u64; let mut first: Option<(usize, String)> = None;
    for &n in &offs {
        let mut r = TruncatedReader { data: &reference[..n], pos: 0 };
        let got = lib(|| obj.read_like(env, &mut r));
        runs += 1;
        match got {
            Err(p) => { n_panic += 1; if first.is_none() { first = Some((n, p.0)); } }
            Ok(Ok(_)) => { n_ok += 1; viol(o, rep, &ty, "truncated_read", "accepted", format!("deserialize returned Ok(_) for the first {} of {} bytes of a valid encoding", n, len), &item.label); }
            Ok(Err(_)) => {}
        }
    }
    rep.count_n("fault_runs", "truncated_read", offs.len() as u64);
    if n_panic > 0 {
        let (n, msg) = first.unwrap();
        viol(o, rep, &ty, "truncated_read", "panic", format!("deserialize panicked for {} of the {} enumerated strict prefixes of a {}-byte encoding (first: prefix of {} bytes: {})", n_panic, offs.len(), len, n, msg), &item.label);
    }
    rep.count_n("clean_outcomes", "truncated_read|Err", offs.len() as u64 - n_panic - n_ok);
    // ---- short reads of the complete encoding must restore the object
    for (name, limits) in schedules(rng) {
        let mut r = ShortReader { data: &reference, pos: 0, limits: limits.clone(), i: 0 };
        let got = lib(|| obj.read_like(env, &mut r));
        let pos = r.pos;
        runs += 1;
        rep.count("fault_runs", &format!("short_read|{}", name));
        match got {
            Err(p) => viol(o, rep, &ty, "short_read", "panic", format!("deserialize panicked under the read schedule {} {:?}: {}", name, limits, p.0), &item.label),
            Ok(Err(e)) => viol(o, rep, &ty, "short_read", "error", format!("deserialize of the complete encoding failed under the read schedule {} {:?}: {}", name, limits, e), &item.label),
            Ok(Ok(g)) => {
                let d = lib(|| expected.diff(&g, env)).unwrap_or(Some(("compare_panicked".into(), String::new())));
                if d.is_some() || pos != len { viol(o, rep, &ty, "short_read", "value", format!("object restored through short reads ({} {:?}) differs: {:?}; consumed {} of {}", name, limits, d, pos, len), &item.label); }
                else { rep.count("clean_outcomes", "short_read|restored"); }
            }
        }
    }
    rep.evals(runs);
    rep.distinct_key(&format!("{}|{}|{}|len{}", ty, scheme, obj.attrs(env), len / 64));
    if rep.samples.len() < 6 && ty.starts_with("Ciphertext") {
        rep.sample(json!({"params": o.spec.describe(), "object": item.label, "type": ty, "encoding_bytes": len, "offsets_enumerated": offs.len(), "every_offset": complete,
            "write_calls_of_reference": rec.calls.len(), "truncated_read_panics": n_panic, "truncated_read_accepted": n_ok, "fault_runs": runs}));
    }
}

fn one_case(cfg: &Cfg, grp: &str, case: u64, rng: &mut Rng, rep: &mut Report, large: bool) {
    let spec = if large { (0..8).find_map(|_| gen_spec(rng, &[1024, 2048, 4096], 2, 33)) } else { gen_spec(rng, &[4, 8, 16], 3, 33) };
    let Some(spec) = spec else { rep.count("generator", "no_primes_for_sizes"); return; };
    let (max_bytes, max_offsets) = if large { (600_000usize, 1500usize) } else { (8192usize, usize::MAX) };
    let opts = if large { ZooOpts { max_size: 3, light: true, rnsp: false, terms_ntt_max_n: 64 } } else { ZooOpts { max_size: 4, light: false, rnsp: rng.chance(1, 2), terms_ntt_max_n: 64 } };
    let zoo = match build_zoo(&spec, rng, &opts) { Ok(z) => z, Err(_) => { rep.count("generator", "context_rejected"); return; } };
    rep.count("generator", "context_ok");
    rep.count("params", &format!("{}|n={}|k={}", spec.scheme_name(), spec.n, spec.qs.len()));
    for &q in &spec.qs { rep.count("coeff_prime_bytes", &byte_width(q).to_string()); }
    let o = Obs { cfg, grp, case, spec: &spec };
    // history: the context is a long-lived object shared by every (de)serialization. Which object goes through it FIRST is
    // varied: in odd cases the ciphertext with the fewest RNS components (lowest level), in even cases whatever the type order
    // brings (usually a first-level or key-level object) — anything the library initialises lazily per context sees both orders.
    if case % 2 == 1 {
        let lowest = zoo.items.iter().filter(|it| !it.out_of_domain).filter_map(|it| match &it.obj { Obj::Ct(c, _) => Some((c.coeff_modulus_size(), it)), _ => None }).min_by_key(|x| x.0);
        if let Some((k, it)) = lowest {
            match lib(|| encode(&it.obj, &zoo.env)) {
                Err(p) => viol(&o, rep, &it.obj.type_name(), "in_memory_write", "panic", format!("serialize into an in-memory writer panicked (first object through a fresh context, {} components): {}", k, p.0), &it.label),
                Ok(_) => rep.count("history_prelude", &format!("lowest-level ciphertext first ({} of {} components)", k, spec.qs.len())),
            }
        }
    }
    // per case: a bounded number of instances of every type/format, chosen at random; encodings of at most 8 KiB
    let cap = if large { 1 } else { cfg.pick(2usize, 4usize) };
    let mut by_type: BTreeMap<String, Vec<usize>> = BTreeMap::new();
    for (i, it) in zoo.items.iter().enumerate() { if !it.out_of_domain { by_type.entry(it.obj.type_name()).or_default().push(i); } }
    for (_, mut idx) in by_type {
        rng.shuffle(&mut idx);
        let mut taken = 0;
        for i in idx {
            if taken >= cap { break; }
            let item = &zoo.items[i];
            match encode(&item.obj, &zoo.env) { Ok(Ok((_, b))) if b.len() <= max_bytes => {}, Ok(Ok(_)) => { rep.count("skipped", if large { "encoding_above_600KB" } else { "encoding_above_8KiB" }); continue; }
                Err(p) => { viol(&o, rep, &item.obj.type_name(), "in_memory_write", "panic", format!("serialize into an in-memory writer panicked: {}", p.0), &item.label); continue; }
                Ok(Err(_)) => { rep.count("skipped", "reference_encoding_failed (C14 reports it)"); continue; } }
            fault_object(&o, rep, &zoo.env, item, rng, max_offsets);
            taken += 1;
        }
    }
}

pub fn run(cfg: &Cfg, rep: &mut Report) -> PropMeta {
    run_cases(cfg, "faults", cfg.n(400, 4000) as u64, rep, |i, rng, rep| one_case(cfg, "faults", i, rng, rep, false));
    // large encodings (N = 1024..4096: tens to hundreds of kilobytes): block-wise or buffered I/O paths only differ from the small ones up there
    run_cases(cfg, "faults_large_objects", cfg.n(1, 24) as u64, rep, |i, rng, rep| one_case(cfg, "faults_large_objects", i, rng, rep, true));
    PropMeta {
        id: "C15", level: "fault_enumeration",
        rule: "for every generated object (the C14 zoo: every serializable type and format, N in {4,8,16}, 1..3 primes on byte-width edges, all schemes; 2 (quick) / 4 (thorough) random instances per type per parameter set; encodings 8 B..8 KiB): short-write schedules all-1, all-3, 1..8 cycling, random; a failing writer at EVERY offset f in [0,len] (hard and after-partial-accept variants); a truncated reader at EVERY offset n in [0,len); short-read schedules. `exhaustive` refers to the offset dimension of the encodings of at most 4096 bytes (table offset_enumeration: every_offset); larger encodings use all offsets within 64 bytes of a field boundary (start/end of every multi-byte scalar and of every byte run) + stride 61 + 64 random offsets; the object dimension is sampled",
        assumptions: vec![
            "the reference encoding is the one produced through an in-memory writer (its correctness is C14)".into(),
            "a panic is observed through catch_unwind; one panic signature per type and direction, the count of panicking offsets is in the detail".into(),
            "fault streams stay inside the std::io contracts: Ok(k) with 1 <= k <= buf.len() for non-empty buffers, Err, or Ok(0) at end of input".into(),
        ],
        exhaustive: true, floor: 20000,
    }
}
