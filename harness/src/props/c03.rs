//! C03 — not built yet.
use crate::rt::*;

pub fn run(_cfg: &Cfg, _rep: &mut Report) -> PropMeta {
    PropMeta { id: "C03", level: "exploration", rule: "not built", assumptions: vec![], exhaustive: false, floor: 1 }
}

/// CKKS part of the C06 monitors (filled in with the CKKS program machine).
pub fn c06_hook(_cfg: &Cfg, _rep: &mut Report) {}
