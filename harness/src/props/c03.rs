//! C03 — CKKS evaluation is correct within worst-case error; scale bookkeeping is exact;
//! level / scale mismatches and out-of-range scales are refused.
//! Shadow: complex slot vector + tracked worst-case slot error E, magnitude M, coefficient
//! magnitude C and the exactly expected scale (same f64 operations the property implies).

use crate::he::*;
use crate::prog::{dirty, Form, FORMS};
use crate::props::c06::{same_ct, valid_ct};
use crate::rt::*;
use heathcliff::*;
use serde_json::json;

const P: &str = "C03";

#[derive(Clone)]
pub struct CElem {
    pub ct: Ciphertext,
    pub v: Vec<C64>,
    pub scale: f64,
    /// worst-case slot error |decoded - v|
    pub e: f64,
    /// max |v_i|
    pub m: f64,
    /// worst-case coefficient magnitude of the phase
    pub c: f64,
    pub level: usize,
    pub origin: String,
}

#[derive(Clone, Debug)]
pub enum COp {
    Negate(usize), Add(usize, usize), Sub(usize, usize), AddMany(Vec<usize>), Multiply(usize, usize), Square(usize),
    /// plaintext values + scale
    AddPlain(usize, Vec<C64>), SubPlain(usize, Vec<C64>), MultiplyPlain(usize, Vec<C64>, f64),
    Relinearize(usize), RescaleNext(usize), ModSwitchNext(usize),
    /// rescale_to(parms_id of the level `steps` (>= 1) below the operand's)
    RescaleTo(usize, usize),
}
impl COp {
    pub fn name(&self) -> &'static str { match self { COp::Negate(_) => "negate", COp::Add(..) => "add", COp::Sub(..) => "sub", COp::AddMany(_) => "add_many", COp::Multiply(..) => "multiply", COp::Square(_) => "square",
        COp::AddPlain(..) => "add_plain", COp::SubPlain(..) => "sub_plain", COp::MultiplyPlain(..) => "multiply_plain", COp::Relinearize(_) => "relinearize", COp::RescaleNext(_) => "rescale_to_next", COp::ModSwitchNext(_) => "mod_switch_to_next", COp::RescaleTo(..) => "rescale_to" } }
    pub fn operands(&self) -> Vec<usize> { match self { COp::Negate(a) | COp::Square(a) | COp::AddPlain(a, _) | COp::SubPlain(a, _) | COp::MultiplyPlain(a, _, _) | COp::Relinearize(a) | COp::RescaleNext(a) | COp::ModSwitchNext(a) | COp::RescaleTo(a, _) => vec![*a],
        COp::Add(a, b) | COp::Sub(a, b) | COp::Multiply(a, b) => vec![*a, *b], COp::AddMany(v) => v.clone() } }
    fn brief(&self) -> String { match self { COp::AddPlain(a, _) => format!("add_plain({})", a), COp::SubPlain(a, _) => format!("sub_plain({})", a), COp::MultiplyPlain(a, _, s) => format!("multiply_plain({}, scale 2^{:.1})", a, s.log2()), o => format!("{:?}", o) } }
}

pub struct CkksMachine<'a> { pub kit: &'a Kit, pub oracle: Option<Oracle>, pub rlk: Option<RelinKeys>, pub pool: Vec<CElem> }

fn geo(n: usize, terms: usize) -> f64 { (0..terms).map(|j| (n as f64).powi(j as i32)).sum() }
fn vmax(v: &[C64]) -> f64 { v.iter().map(|x| x.norm()).fold(0.0, f64::max) }
fn are_close(a: f64, b: f64) -> bool { let s = a.max(b).max(1.0); (a - b).abs() < f64::EPSILON * s }

impl<'a> CkksMachine<'a> {
    pub fn new(kit: &'a Kit, with_oracle: bool) -> Self {
        let oracle = if with_oracle { Oracle::new(&kit.ctx, &kit.sk).ok() } else { None };
        let rlk = if kit.has_keyswitching() { lib(|| kit.keygen.create_relin_keys(false)).ok() } else { None };
        CkksMachine { kit, oracle, rlk, pool: vec![] }
    }
    pub fn n(&self) -> usize { self.kit.n() }
    pub fn bits(&self, level: usize) -> usize { self.kit.levels[level].total_coeff_modulus_bit_count() }
    pub fn log2q(&self, level: usize) -> f64 { self.kit.level_qs(level).iter().map(|&q| (q as f64).log2()).sum() }
    /// the library's documented scale rule: a scale fits a level iff 0 < scale and floor(log2 scale) < bit count of the level's modulus
    pub fn scale_fits(&self, scale: f64, level: usize) -> bool { !(scale <= 0.0 || scale.log2() as isize >= self.bits(level) as isize) }

    /// can the encoder represent these values at this scale and level (its own documented refusals: scale bound, magnitude bound)?
    pub fn encodable(&self, v: &[C64], scale: f64, level: usize) -> bool {
        let bits = self.bits(level) as f64;
        scale > 0.0 && scale.log2() + 2.0 < bits && (vmax(v) * scale + 1.0).log2() + 2.0 < bits
    }

    fn enc_err(&self, mag: f64, scale: f64) -> f64 { let n = self.n() as f64; n * 0.5 / scale + n * n * 2f64.powi(-45) * (mag + 1.0) }

    pub fn fresh(&mut self, values: &[C64], scale: f64, level: usize, pk: bool) -> Result<usize, Panicked> {
        let enc = self.kit.ckks.as_ref().unwrap();
        let id = *self.kit.levels[level].parms_id();
        let ct = lib(|| { let p = enc.encode_c64_array_new(values, Some(id), scale); if pk { self.kit.enc.encrypt_new(&p) } else { let mut c = Ciphertext::new(); self.kit.enc.encrypt_symmetric(&p, &mut c); c } })?;
        let n = self.n();
        let mut v = values.to_vec(); v.resize(n / 2, C64::new(0.0, 0.0));
        let m = vmax(&v);
        let b = fresh_noise_bound(n, pk) + modswitch_bound(n) + 1.0;
        let el = CElem { ct, v, scale, e: (n as f64) * b / scale + self.enc_err(m, scale), m, c: scale * m + b + 1.0, level, origin: "fresh".into() };
        self.pool.push(el);
        Ok(self.pool.len() - 1)
    }

    fn ks_noise(&self, level: usize) -> f64 {
        let n = self.n() as f64; let key_qs = self.kit.key_qs(); let p = *key_qs.last().unwrap() as f64;
        let sumq: f64 = self.kit.level_qs(level).iter().map(|&q| q as f64).sum();
        ERR_MAX * n * sumq / p + (n + 1.0) + 2.0
    }

    /// typing: Ok(true) = the library must accept, Ok(false) = the library must refuse (the property's refusal clause), Err = not a call we make
    pub fn expect(&self, op: &COp) -> Result<bool, &'static str> {
        let el = |i: &usize| &self.pool[*i];
        // the property quantifies over scales from 2^10 upwards; below 1 the library's scale comparison (absolute epsilon
        // relative to max(a, b, 1)) cannot tell scales apart at all, so such operands are not part of the workload
        if op.operands().iter().any(|i| self.pool[*i].ct.scale() < 1024.0) { return Err("operand scale below 2^10 (outside the property's range)"); }
        match op {
            COp::Negate(_) => Ok(true),
            COp::Add(a, b) | COp::Sub(a, b) => Ok(el(a).level == el(b).level && are_close(el(a).ct.scale(), el(b).ct.scale())),
            COp::AddMany(v) => Ok(v.windows(2).all(|w| el(&w[0]).level == el(&w[1]).level) && v.iter().all(|i| are_close(el(&v[0]).ct.scale(), el(i).ct.scale()))),
            COp::Multiply(a, b) => { if el(a).ct.size() + el(b).ct.size() - 1 > 16 { return Err("size"); } if el(a).level != el(b).level { return Ok(false); } Ok(self.scale_fits(el(a).ct.scale() * el(b).ct.scale(), el(a).level)) }
            COp::Square(a) => { if 2 * el(a).ct.size() - 1 > 16 { return Err("size"); } Ok(self.scale_fits(el(a).ct.scale() * el(a).ct.scale(), el(a).level)) }
            COp::AddPlain(a, v) | COp::SubPlain(a, v) => if self.encodable(v, el(a).ct.scale(), el(a).level) { Ok(true) } else { Err("plaintext not encodable at this level") },
            COp::MultiplyPlain(a, v, s) => if self.encodable(v, *s, el(a).level) { Ok(self.scale_fits(el(a).ct.scale() * *s, el(a).level)) } else { Err("plaintext not encodable at this level") },
            COp::Relinearize(a) => if self.rlk.is_none() || el(a).ct.size() != 3 { Err("n/a") } else { Ok(true) },
            COp::RescaleNext(a) => Ok(el(a).level + 1 < self.kit.levels.len() && self.scale_fits(el(a).ct.scale() / *self.kit.level_qs(el(a).level).last().unwrap() as f64, el(a).level + 1)),
            COp::ModSwitchNext(a) => Ok(el(a).level + 1 < self.kit.levels.len() && self.scale_fits(el(a).ct.scale(), el(a).level + 1)),
            COp::RescaleTo(a, steps) => {
                if *steps == 0 { return Err("n/a"); }
                if el(a).level + *steps >= self.kit.levels.len() { return Err("n/a"); }
                // every one-level step of the walk must leave a scale that fits its level
                let mut sc = el(a).ct.scale();
                for l in el(a).level..el(a).level + *steps { sc /= *self.kit.level_qs(l).last().unwrap() as f64; if !self.scale_fits(sc, l + 1) { return Ok(false); } }
                Ok(true)
            }
        }
    }

    fn plain(&self, values: &[C64], scale: f64, ct: &Ciphertext) -> Plaintext { self.kit.ckks.as_ref().unwrap().encode_c64_array_new(values, Some(*ct.parms_id()), scale) }

    pub fn execute(&self, op: &COp, form: Form) -> Result<Ciphertext, Panicked> {
        let ev = &self.kit.eval; let kit = self.kit;
        let c = |i: &usize| &self.pool[*i].ct;
        lib(|| {
            macro_rules! un { ($a:expr, $inpl:ident, $dest:ident, $new:ident) => { match form {
                Form::Inplace => { let mut x = c($a).clone(); ev.$inpl(&mut x); x } Form::Dest => { let mut d = dirty(kit); ev.$dest(c($a), &mut d); d } Form::New => ev.$new(c($a)) } } }
            macro_rules! bin { ($a:expr, $b:expr, $inpl:ident, $dest:ident, $new:ident) => { match form {
                Form::Inplace => { let mut x = c($a).clone(); ev.$inpl(&mut x, c($b)); x } Form::Dest => { let mut d = dirty(kit); ev.$dest(c($a), c($b), &mut d); d } Form::New => ev.$new(c($a), c($b)) } } }
            macro_rules! pl { ($a:expr, $p:expr, $inpl:ident, $dest:ident, $new:ident) => { match form {
                Form::Inplace => { let mut x = c($a).clone(); ev.$inpl(&mut x, $p); x } Form::Dest => { let mut d = dirty(kit); ev.$dest(c($a), $p, &mut d); d } Form::New => ev.$new(c($a), $p) } } }
            match op {
                COp::Negate(a) => un!(a, negate_inplace, negate, negate_new),
                COp::Add(a, b) => bin!(a, b, add_inplace, add, add_new),
                COp::Sub(a, b) => bin!(a, b, sub_inplace, sub, sub_new),
                COp::AddMany(v) => { let ops: Vec<Ciphertext> = v.iter().map(|i| self.pool[*i].ct.clone()).collect(); match form { Form::New => ev.add_many_new(&ops), _ => { let mut d = dirty(kit); ev.add_many(&ops, &mut d); d } } }
                COp::Multiply(a, b) => bin!(a, b, multiply_inplace, multiply, multiply_new),
                COp::Square(a) => un!(a, square_inplace, square, square_new),
                COp::AddPlain(a, v) => { let p = self.plain(v, c(a).scale(), c(a)); pl!(a, &p, add_plain_inplace, add_plain, add_plain_new) }
                COp::SubPlain(a, v) => { let p = self.plain(v, c(a).scale(), c(a)); pl!(a, &p, sub_plain_inplace, sub_plain, sub_plain_new) }
                COp::MultiplyPlain(a, v, s) => { let p = self.plain(v, *s, c(a)); pl!(a, &p, multiply_plain_inplace, multiply_plain, multiply_plain_new) }
                COp::Relinearize(a) => { let rk = self.rlk.as_ref().unwrap(); pl!(a, rk, relinearize_inplace, relinearize, relinearize_new) }
                COp::RescaleNext(a) => un!(a, rescale_to_next_inplace, rescale_to_next, rescale_to_next_new),
                COp::ModSwitchNext(a) => un!(a, mod_switch_to_next_inplace, mod_switch_to_next, mod_switch_to_next_new),
                COp::RescaleTo(a, steps) => { let lv = (self.pool[*a].level + *steps).min(kit.levels.len() - 1); let pid = *kit.levels[lv].parms_id(); pl!(a, &pid, rescale_to_inplace, rescale_to, rescale_to_new) }
            }
        })
    }

    /// shadow element of the result
    pub fn result(&self, op: &COp, ct: Ciphertext) -> CElem {
        let n = self.n(); let nf = n as f64;
        let el = |i: &usize| &self.pool[*i];
        let ops = op.operands();
        let a = el(&ops[0]);
        let pad = |v: &Vec<C64>| { let mut x = v.clone(); x.resize(n / 2, C64::new(0.0, 0.0)); x };
        let (v, scale, e, m, c, level): (Vec<C64>, f64, f64, f64, f64, usize) = match op {
            COp::Negate(_) => (a.v.iter().map(|x| -x).collect(), a.scale, a.e, a.m, a.c, a.level),
            COp::Add(_, b) => { let b = el(b); (a.v.iter().zip(&b.v).map(|(x, y)| x + y).collect(), a.scale, a.e + b.e + a.m.max(b.m) * 2f64.powi(-50), a.m + b.m, a.c + b.c, a.level) }
            COp::Sub(_, b) => { let b = el(b); (a.v.iter().zip(&b.v).map(|(x, y)| x - y).collect(), a.scale, a.e + b.e + a.m.max(b.m) * 2f64.powi(-50), a.m + b.m, a.c + b.c, a.level) }
            COp::AddMany(idx) => { let mut v = a.v.clone(); let (mut e, mut m, mut c) = (a.e, a.m, a.c); for i in &idx[1..] { let b = el(i); for (x, y) in v.iter_mut().zip(&b.v) { *x += y; } e += b.e; m += b.m; c += b.c; } (v, a.scale, e * (1.0 + 2f64.powi(-40)), m, c, a.level) }
            COp::Multiply(_, b) => { let b = el(b); (a.v.iter().zip(&b.v).map(|(x, y)| x * y).collect(), a.scale * b.scale, a.e * b.m + b.e * a.m + a.e * b.e, a.m * b.m, nf * a.c * b.c, a.level) }
            COp::Square(_) => (a.v.iter().map(|x| x * x).collect(), a.scale * a.scale, 2.0 * a.e * a.m + a.e * a.e, a.m * a.m, nf * a.c * a.c, a.level),
            COp::AddPlain(_, p) | COp::SubPlain(_, p) => { let p = pad(p); let pm = vmax(&p); let sub = matches!(op, COp::SubPlain(..));
                (a.v.iter().zip(&p).map(|(x, y)| if sub { x - y } else { x + y }).collect(), a.scale, a.e + self.enc_err(pm, a.ct.scale()), a.m + pm, a.c + a.ct.scale() * pm + 1.0, a.level) }
            COp::MultiplyPlain(_, p, s) => { let p = pad(p); let pm = vmax(&p); let pe = self.enc_err(pm, *s);
                (a.v.iter().zip(&p).map(|(x, y)| x * y).collect(), a.scale * *s, a.e * pm + pe * a.m + a.e * pe, a.m * pm, nf * a.c * (*s * pm + 1.0), a.level) }
            COp::Relinearize(_) => (a.v.clone(), a.scale, a.e + nf * self.ks_noise(a.level) / a.ct.scale(), a.m, a.c + self.ks_noise(a.level), a.level),
            COp::RescaleNext(_) => { let ql = *self.kit.level_qs(a.level).last().unwrap() as f64; let s2 = a.scale / ql; (a.v.clone(), s2, a.e + nf * (geo(n, a.ct.size()) / 2.0 + 1.0) / s2, a.m, a.c / ql + geo(n, a.ct.size()), a.level + 1) }
            COp::ModSwitchNext(_) => (a.v.clone(), a.scale, a.e, a.m, a.c, a.level + 1),
            COp::RescaleTo(_, steps) => { let (mut s2, mut e, mut c) = (a.scale, a.e, a.c);
                for l in a.level..a.level + *steps { let ql = *self.kit.level_qs(l).last().unwrap() as f64; s2 /= ql; e += nf * (geo(n, a.ct.size()) / 2.0 + 1.0) / s2; c = c / ql + geo(n, a.ct.size()); }
                (a.v.clone(), s2, e, a.m, c, a.level + *steps) }
        };
        CElem { ct, v, scale, e: e * (1.0 + 2f64.powi(-30)) + m * 2f64.powi(-48), m, c, level, origin: op.name().into() }
    }

    /// is the element's worst-case coefficient magnitude inside its modulus (no wrap-around)?
    pub fn within(&self, el: &CElem) -> bool { el.c.is_finite() && el.c > 0.0 && el.c.log2() + 2.0 < self.log2q(el.level) }

    pub fn random_values(&self, rng: &mut Rng) -> Vec<C64> {
        let slots = self.n() / 2;
        let cnt = match rng.below(3) { 0 => slots, 1 => 1, _ => rng.range(1, slots as u64) as usize };
        let mag = 2f64.powi(rng.range(0, 14) as i32 - 10);
        let class = rng.below(5);
        (0..cnt).map(|_| { let r = mag * (0.25 + 0.75 * rng.f64()); match class { 0 => C64::new(r, 0.0), 1 => C64::new(-r, 0.0), 2 => C64::new(0.0, if rng.bool() { r } else { -r }), 3 => C64::new(r * (2.0 * rng.f64() - 1.0), r * (2.0 * rng.f64() - 1.0)), _ => C64::from_polar(r, rng.f64() * 6.283) } }).collect()
    }

    pub fn random_op(&self, rng: &mut Rng) -> Option<COp> {
        for _ in 0..30 {
            let a = rng.usize_below(self.pool.len());
            // partner: prefer a compatible one (same level, close scale) most of the time
            let compat: Vec<usize> = (0..self.pool.len()).filter(|&j| self.pool[j].level == self.pool[a].level && are_close(self.pool[j].ct.scale(), self.pool[a].ct.scale())).collect();
            let b = if rng.chance(9, 10) { *rng.pick(&compat) } else { rng.usize_below(self.pool.len()) };
            let same_level: Vec<usize> = (0..self.pool.len()).filter(|&j| self.pool[j].level == self.pool[a].level).collect();
            let bl = *rng.pick(&same_level);
            // relinearize whenever a size-3 element is around (otherwise it is rarely applicable)
            if self.rlk.is_some() && rng.chance(1, 4) { if let Some(j) = (0..self.pool.len()).find(|&j| self.pool[j].ct.size() == 3) { return Some(COp::Relinearize(j)); } }
            let op = match rng.below(15) {
                0 => COp::Negate(a), 1 | 2 => COp::Add(a, b), 3 => COp::Sub(a, b),
                4 => { let k = rng.range(2, 4) as usize; COp::AddMany((0..k).map(|_| *rng.pick(&compat)).collect()) }
                5 | 6 => COp::Multiply(a, bl), 7 => COp::Square(a),
                8 => COp::AddPlain(a, self.random_values(rng)), 9 => COp::SubPlain(a, self.random_values(rng)),
                10 => { let room = (self.bits(self.pool[a].level) as f64 - self.pool[a].ct.scale().log2() - 2.0).max(1.0); let s = 2f64.powf((rng.f64() * room.min(40.0)).floor().max(1.0)); COp::MultiplyPlain(a, self.random_values(rng), s) }
                11 => COp::Relinearize(a), 12 => COp::RescaleNext(a), 13 => if rng.chance(1, 2) { COp::RescaleNext(a) } else { COp::RescaleTo(a, 1 + rng.usize_below(3)) }, _ => COp::ModSwitchNext(a),
            };
            if self.expect(&op).is_ok() { return Some(op); }
        }
        None
    }
}

pub fn ckks_spec(rng: &mut Rng, ns: &[usize]) -> Option<Spec> {
    let n = *rng.pick(ns);
    let k = rng.range(2, 6) as usize;
    let mut bits: Vec<u32> = (0..k).map(|_| *rng.pick(&[30u32, 30, 35, 40, 40, 45, 50, 60])).collect();
    if rng.bool() { bits[0] = 60; bits[k - 1] = 60; }
    let qs = coeff_primes(n, &bits, rng)?;
    Some(Spec { scheme: SchemeType::CKKS, n, qs, t: 0, special_flag: rng.chance(1, 8), expand: true, family: format!("ckks-{}", bits.iter().map(|b| b.to_string()).collect::<Vec<_>>().join("-")) })
}

struct Obs<'a> { cfg: &'a Cfg, grp: &'a str, case: u64, prop: &'static str }
fn viol(o: &Obs, rep: &mut Report, op: &str, class: &str, kind: &str, detail: String, spec: &Spec, trace: &[String]) {
    rep.violation(&format!("{}|{}|{}|{}", o.prop, op, class, kind), format!("{} ; program: {:?} ; params {}", detail, trace, spec.describe()), replay_json(o.cfg, o.grp, o.case, json!({"params": spec.describe(), "program": trace})));
}

fn init(m: &mut CkksMachine, rng: &mut Rng, trace: &mut Vec<String>) -> bool {
    let lq0 = m.log2q(0);
    // base scale: 2^10 .. about a third of the first level's modulus, so that a few products fit
    let s = rng.range(10, ((lq0 / 3.0).max(12.0)) as u64) as i32;
    for i in 0..4 {
        let v = m.random_values(rng);
        // one operand with a slightly different (still power-of-two) scale and one at a lower level now and then
        let scale = if i == 3 && rng.chance(1, 3) { 2f64.powi(s + 1) } else { 2f64.powi(s) };
        let level = if i == 2 && m.kit.levels.len() > 1 && rng.chance(1, 4) { 1 } else { 0 };
        if !m.scale_fits(scale * 2.0, level) { continue; }
        trace.push(format!("fresh(scale 2^{}, level {}, |v|<={:.3e})", scale.log2(), level, vmax(&v)));
        if m.fresh(&v, scale, level, rng.bool()).is_err() { return false; }
    }
    m.pool.len() >= 2
}

fn programs(cfg: &Cfg, grp: &str, case: u64, rng: &mut Rng, rep: &mut Report, ns: &[usize]) {
    let Some(spec) = ckks_spec(rng, ns) else { return };
    let Ok(kit) = Kit::new(&spec) else { rep.count("generator", "rejected"); return; };
    rep.count("generator", "ok");
    rep.count("params", &format!("n={}|primes={}|special_flag={}", spec.n, spec.qs.len(), spec.special_flag));
    let o = Obs { cfg, grp, case, prop: P };
    let mut m = CkksMachine::new(&kit, spec.n <= 256);
    let mut trace = vec![];
    if !init(&mut m, rng, &mut trace) { return; }
    let enc = kit.ckks.as_ref().unwrap();
    for _ in 0..rng.range(3, cfg.pick(10, 20)) {
        let Some(op) = m.random_op(rng) else { break };
        let form = *rng.pick(&FORMS);
        let ops = op.operands();
        let a = &m.pool[ops[0]];
        trace.push(format!("{}/{:?} L{} size{} scale2^{:.2}", op.brief(), form, a.level, a.ct.size(), a.ct.scale().log2()));
        let expect_ok = m.expect(&op).unwrap();
        let cls = format!("size={}", if a.ct.size() == 2 { "2" } else { ">2" });
        match (m.execute(&op, form), expect_ok) {
            (Err(_), false) => { rep.count("refusals", &format!("{}|{:?}", op.name(), form)); rep.eval(Some(&format!("refuse|{}|{:?}", op.name(), form))); }
            (Ok(_), false) => { viol(&o, rep, op.name(), &format!("{:?}", form), "not_refused", "operation on mismatching levels / scales or with an out-of-range resulting scale returned".into(), &spec, &trace); }
            (Err(p), true) => { viol(&o, rep, op.name(), &cls, "panic", format!("well-typed operation refused: {}", p.0), &spec, &trace); }
            (Ok(ct), true) => {
                let el = m.result(&op, ct);
                // (a) exact scale bookkeeping, level, size
                let want_size = match &op { COp::Multiply(x, y) => m.pool[*x].ct.size() + m.pool[*y].ct.size() - 1, COp::Square(x) => 2 * m.pool[*x].ct.size() - 1, COp::Relinearize(_) => 2,
                    COp::Add(x, y) | COp::Sub(x, y) => m.pool[*x].ct.size().max(m.pool[*y].ct.size()), COp::AddMany(v) => v.iter().map(|i| m.pool[*i].ct.size()).max().unwrap(), _ => a.ct.size() };
                if el.ct.scale().to_bits() != el.scale.to_bits() { viol(&o, rep, op.name(), "scale", "value", format!("recorded scale {:e} != implied scale {:e}", el.ct.scale(), el.scale), &spec, &trace); continue; }
                if m.kit.level_of(el.ct.parms_id()) != Some(el.level) || el.ct.size() != want_size || !el.ct.is_ntt_form() { viol(&o, rep, op.name(), &cls, "metadata", format!("level {:?} (want {}), size {} (want {})", m.kit.level_of(el.ct.parms_id()), el.level, el.ct.size(), want_size), &spec, &trace); continue; }
                rep.count("scale_checked", op.name());
                // (b) values within the worst-case error, while the coefficient magnitude cannot wrap
                let cell = format!("{}|size{}|L{}", op.name(), el.ct.size().min(9), el.level);
                if el.ct.scale() < 1024.0 { rep.count("results_below_scale_range", op.name()); rep.out_of_precondition += 1; rep.eval(None); continue; }
                if m.within(&el) {
                    let fp = ckks_fp_tolerance(m.n(), m.kit.level_qs(el.level).len(), el.m + el.e, el.ct.scale());
                    let tol = el.e + fp;
                    match lib(|| enc.decode_new(&kit.dec.decrypt_new(&el.ct))) {
                        Err(p) => viol(&o, rep, op.name(), &format!("{}|decrypt", cls), "panic", p.0, &spec, &trace),
                        Ok(d) => { let worst = d.iter().zip(&el.v).map(|(x, y)| (x - y).norm()).fold(0.0, f64::max); rep.max("library_error_over_bound", worst / tol);
                            if !(worst <= tol) { viol(&o, rep, op.name(), &cls, "value", format!("decoded result off by {:e} > worst-case bound {:e} (|v|<={:e})", worst, tol, el.m), &spec, &trace); } }
                    }
                    if let Some(or) = &m.oracle {
                        let z = embed_decode(&or.ckks_coeffs(&kit.ctx, &el.ct));
                        let worst = z.iter().zip(&el.v).map(|(x, y)| (x - y).norm()).fold(0.0, f64::max);
                        rep.max("oracle_error_over_bound", worst / (el.e + el.m * 2f64.powi(-40)));
                        if !(worst <= el.e + (el.m + 1.0) * 2f64.powi(-38)) { viol(&o, rep, op.name(), &format!("{}|oracle", cls), "value", format!("exact decryption off by {:e} > worst-case bound {:e}", worst, el.e), &spec, &trace); }
                    }
                    rep.count("value_cells", &cell);
                    rep.eval(Some(&cell));
                    m.pool.push(el);
                } else { rep.out_of_precondition += 1; rep.eval(None); }
            }
        }
        if m.pool.len() > 20 { break; }
    }
    if case < 2 { rep.sample(json!({"group": grp, "case": case, "params": spec.describe(), "program": trace, "pool": m.pool.iter().map(|e| json!({"origin": e.origin, "level": e.level, "size": e.ct.size(), "scale_log2": e.ct.scale().log2(), "error_bound": e.e, "max_abs": e.m})).collect::<Vec<_>>()})); }
}

/// dedicated refusal scenarios (levels, scales, scale out of bounds), all three forms
fn refusals(cfg: &Cfg, grp: &str, case: u64, rng: &mut Rng, rep: &mut Report) {
    let Some(spec) = ckks_spec(rng, &[4, 8, 16]) else { return };
    let Ok(kit) = Kit::new(&spec) else { return };
    if kit.levels.len() < 2 { return; }
    let o = Obs { cfg, grp, case, prop: P };
    let mut m = CkksMachine::new(&kit, false);
    let trace = vec![];
    let v = m.random_values(rng);
    let s0 = 2f64.powi(20);
    let (Ok(a), Ok(b)) = (m.fresh(&v, s0, 0, true), m.fresh(&v, s0, 1, false)) else { return };
    // scale mismatches: relative 2^-30, factor 2, and a non-power-of-two scale produced by rescaling
    let Ok(c) = m.fresh(&v, s0 * (1.0 + 2f64.powi(-30)), 0, true) else { return };
    let Ok(d) = m.fresh(&v, s0 * 2.0, 0, true) else { return };
    // huge scale so that products / switches overflow the modulus
    let big = 2f64.powf(m.bits(0) as f64 - 3.0);
    let Ok(e) = m.fresh(&[C64::new(1.0, 0.0)], big, 0, true) else { return };
    let mut cases: Vec<(&'static str, COp)> = vec![
        ("levels_differ", COp::Add(a, b)), ("levels_differ", COp::Sub(b, a)), ("levels_differ", COp::Multiply(a, b)),
        ("scales_differ_2^-30", COp::Add(a, c)), ("scales_differ_2^-30", COp::Sub(c, a)), ("scales_differ_x2", COp::Add(a, d)), ("scales_differ_x2", COp::AddMany(vec![a, a, d])),
        ("product_scale_too_large", COp::Multiply(e, a)), ("product_scale_too_large", COp::Square(e)), ("product_scale_too_large", COp::MultiplyPlain(e, vec![C64::new(1.0, 0.0)], s0)),
    ];
    let small_next = m.bits(1);
    if (big.log2() as usize) >= small_next { cases.push(("scale_too_large_for_next_level", COp::ModSwitchNext(e))); }
    for (why, op) in cases {
        if m.expect(&op) != Ok(false) { rep.harness_errors.push(format!("refusal scenario {} is not a refusal case by the documented rule", why)); continue; }
        for form in FORMS {
            rep.count("refusals", &format!("{}|{}|{:?}", why, op.name(), form));
            rep.eval(Some(&format!("refuse|{}|{}|{:?}", why, op.name(), form)));
            if m.execute(&op, form).is_ok() { viol(&o, rep, op.name(), &format!("{}|{:?}", why, form), "not_refused", format!("{}: the operation returned instead of refusing", why), &spec, &trace); }
        }
    }
}

/// C06 monitors on CKKS programs: three API forms bit-identical, operands untouched, results valid
pub fn c06_hook(cfg: &Cfg, rep: &mut Report) {
    run_cases(cfg, "ckks_variants", cfg.n(4000, 60000) as u64, rep, |case, rng, rep| {
        let Some(spec) = ckks_spec(rng, &[4, 8, 16, 32]) else { return };
        let Ok(kit) = Kit::new(&spec) else { return };
        let o = Obs { cfg, grp: "ckks_variants", case, prop: "C06" };
        let mut m = CkksMachine::new(&kit, false);
        let mut trace = vec![];
        if !init(&mut m, rng, &mut trace) { return; }
        for _ in 0..rng.range(3, 10) {
            let Some(op) = m.random_op(rng) else { break };
            if m.expect(&op) != Ok(true) { continue; }
            trace.push(op.brief());
            let ops = op.operands();
            let snap: Vec<Ciphertext> = ops.iter().map(|i| m.pool[*i].ct.clone()).collect();
            let rs: Vec<Result<Ciphertext, Panicked>> = FORMS.iter().map(|f| m.execute(&op, *f)).collect();
            for (k, i) in ops.iter().enumerate() { if !same_ct(&snap[k], &m.pool[*i].ct) { viol(&o, rep, op.name(), "CKKS", "operand_modified", "a read-only operand changed".into(), &spec, &trace); } }
            let oks: Vec<&Ciphertext> = rs.iter().filter_map(|r| r.as_ref().ok()).collect();
            if oks.len() != 3 { if !oks.is_empty() { viol(&o, rep, op.name(), "CKKS", "variants_disagree", "forms disagree on refusing".into(), &spec, &trace); } continue; }
            let cell = format!("CKKS|{}|size{}|L{}", op.name(), m.pool[ops[0]].ct.size().min(9), m.pool[ops[0]].level);
            rep.count("variant_cells", &cell);
            if !(same_ct(oks[0], oks[1]) && same_ct(oks[0], oks[2])) { viol(&o, rep, op.name(), &format!("CKKS|{}", if !same_ct(oks[0], oks[1]) { "inplace_vs_destination" } else { "inplace_vs_new" }), "variants_differ", "results of the three forms are not bit-identical".into(), &spec, &trace); }
            if let Err(e) = valid_ct(&kit, oks[0]) { viol(&o, rep, op.name(), "CKKS", "invalid_result", format!("independent validity predicate: {}", e), &spec, &trace); }
            if !oks[0].is_valid_for(&kit.ctx) { viol(&o, rep, op.name(), "CKKS|is_valid_for", "invalid_result", "result is not is_valid_for the context".into(), &spec, &trace); }
            rep.eval(Some(&cell));
            let el = m.result(&op, oks[0].clone());
            if m.within(&el) && el.ct.scale() >= 1024.0 { m.pool.push(el); }
        }
    });
}

pub fn run(cfg: &Cfg, rep: &mut Report) -> PropMeta {
    run_cases(cfg, "programs", cfg.n(12000, 200000) as u64, rep, |i, rng, rep| programs(cfg, "programs", i, rng, rep, &[4, 8, 16, 32, 64]));
    run_cases(cfg, "programs_mid", cfg.n(100, 2000) as u64, rep, |i, rng, rep| programs(cfg, "programs_mid", i, rng, rep, &[128, 256, 1024]));
    run_cases(cfg, "programs_big", cfg.n(8, 100) as u64, rep, |i, rng, rep| programs(cfg, "programs_big", i, rng, rep, &[4096, 8192]));
    run_cases(cfg, "refusals", cfg.n(1500, 20000) as u64, rep, |i, rng, rep| refusals(cfg, "refusals", i, rng, rep));
    PropMeta {
        id: "C03", level: "exploration",
        rule: "typed random CKKS programs (negate, add, sub, add_many, multiply, square, add/sub/multiply_plain, relinearize, rescale_to_next, mod_switch_to_next; random API form) over fresh ciphertexts with negative / imaginary / mixed-magnitude slots, scales 2^10..~2^(log q/3) and non-power-of-two scales after rescaling, chains of 2..6 primes of mixed sizes, N=4..64 (mid 128..1024, big 4096/8192); refusal scenarios (levels differ, scales differ by 2^-30 or x2, product scale too large, scale too large for the next level) in all three API forms. distinct = distinct (op, size, level) value cells + refusal cells. rescale_to (1..3 levels in one call, three forms) is a program operation of its own: well-typed iff every one-level step of the walk leaves a fitting scale",
        assumptions: vec!["worst-case slot error tracked per element (fresh N*B/scale, products E1*M2+E2*M1+E1*E2, key switch N*KS/scale, rescale N*(sum N^j/2+1)/scale') plus the double-precision allowance of the library's decode path (he::ckks_fp_tolerance)".into(),
            "values asserted only while the worst-case coefficient magnitude stays below q_level/4".into(),
            "expected scale computed with the same f64 operations (product; quotient by the dropped prime)".into(),
            "refusal rule mirrored from the documentation: scale fits a level iff floor(log2 scale) < bit count of its modulus; scales agree iff |a-b| < eps*max(a,b,1)".into()],
        exhaustive: false, floor: 2000,
    }
}
