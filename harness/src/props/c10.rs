//! C10 — RNS base tools meet their integer specifications.
//!
//! Workload A: `RNSBase` decompose/compose (+ `_array` variants and their transposed layouts)
//! against the definition of CRT (native integers for the exhaustive small bases, `BigU`
//! otherwise). Workload B: `RNSTool`, built through its public constructor exactly as a
//! context builds it, every routine against its integer specification in exact arithmetic,
//! *with* its documented error term (see `spec:` comments at each check).
//!
//! `BaseConverter` is a private type; `fast_convert_array` is reached through
//! fastbconv_m_tilde / fast_floor / fastbconv_sk / decrypt_scale_and_round, and
//! `exact_convey_array` through decrypt_mod_t.

use crate::big::{centered, BigI, BigU};
use crate::refm::{self, Crt};
use crate::rt::*;
use heathcliff::util::{NTTTables, RNSBase, RNSTool};
use heathcliff::Modulus;
use serde_json::{json, Value};
use std::cmp::Ordering;

const P: &str = "C10";
/// destination buffers handed to the library are pre-filled: a routine has to write every word of its result, whatever the buffer held
const GARBAGE: u64 = 0x5a5a_5a5a_5a5a_5a5a;
const MT: u64 = 1u64 << 32; // m_tilde

// ------------------------------------------------------------------ small helpers
struct Cx<'a> { cfg: &'a Cfg, grp: &'a str, case: u64 }
impl<'a> Cx<'a> {
    fn viol(&self, rep: &mut Report, op: &str, class: &str, kind: &str, detail: String, info: Value) {
        rep.violation(&format!("{}|{}|{}|{}", P, op, class, kind), format!("{}: {}", op, detail), replay_json(self.cfg, self.grp, self.case, info));
    }
}
fn bu(x: u64) -> BigU { BigU::from_u64(x) }
fn to_i(x: &BigU) -> BigI { BigI::from_u(x.clone()) }
fn bi(x: i64) -> BigI { BigI::from_i64(x) }
fn dec(v: &[BigU]) -> Vec<String> { v.iter().map(|x| x.to_dec()).collect() }
fn deci(v: &[BigI]) -> Vec<String> { v.iter().map(|x| x.to_dec()).collect() }
fn kcls(k: usize) -> &'static str { if k == 1 { "k=1" } else { "k>=2" } }

/// uniform in [0, m) by rejection (no division)
fn rand_below_big(rng: &mut Rng, m: &BigU) -> BigU {
    if m.is_zero() { return BigU::zero(); }
    let bits = m.bits();
    let words = (bits + 63) / 64;
    loop {
        let mut v: Vec<u64> = (0..words).map(|_| rng.u64()).collect();
        let top = bits % 64;
        if top != 0 { v[words - 1] &= (1u64 << top) - 1; }
        let x = BigU::from_limbs(&v);
        if x.cmp_u(m) == Ordering::Less { return x; }
    }
}
/// component-major layout: out[i*n + j] = vals[j] mod moduli[i]
fn layout_u(vals: &[BigU], moduli: &[u64]) -> Vec<u64> {
    let n = vals.len();
    let mut out = vec![0u64; n * moduli.len()];
    for (i, &m) in moduli.iter().enumerate() { for j in 0..n { out[i * n + j] = vals[j].rem_u64(m); } }
    out
}
fn layout_i(vals: &[BigI], moduli: &[u64]) -> Vec<u64> {
    let n = vals.len();
    let mut out = vec![0u64; n * moduli.len()];
    for (i, &m) in moduli.iter().enumerate() { for j in 0..n { out[i * n + j] = vals[j].mod_u64(m); } }
    out
}
fn column(data: &[u64], n: usize, comps: usize, j: usize) -> Vec<u64> { (0..comps).map(|i| data[i * n + j]).collect() }

/// find a in [0,k) with obs[i] == (base[i] +/- a*step[i]) mod ms[i] for every i
fn find_offset(obs: &[u64], ms: &[u64], base: &[u64], step: &[u64], k: usize, neg: bool) -> Option<usize> {
    'a: for a in 0..k {
        for i in 0..ms.len() {
            let m = ms[i] as u128;
            let s = (a as u128 * (step[i] as u128 % m)) % m;
            let want = if neg { (base[i] as u128 % m + m - s) % m } else { (base[i] as u128 % m + s) % m };
            if obs[i] as u128 != want { continue 'a; }
        }
        return Some(a);
    }
    None
}
fn pairwise_coprime_with(v: u64, others: &[u64]) -> bool { others.iter().all(|&o| refm::gcd(v, o) == 1) }

fn make_base(cx: &Cx, rep: &mut Report, qs: &[u64], class: &str) -> Option<RNSBase> {
    let r = lib(|| { let ms: Vec<Modulus> = qs.iter().map(|&q| Modulus::new(q)).collect(); RNSBase::new(&ms) });
    match r {
        Ok(Ok(b)) => Some(b),
        Ok(Err(e)) => { cx.viol(rep, "RNSBase::new", class, "refused", format!("pairwise coprime base {:?} refused: {}", qs, e), json!({"moduli": qs})); None }
        Err(p) => { cx.viol(rep, "RNSBase::new", class, "panic", format!("base {:?}: {}", qs, p.0), json!({"moduli": qs})); None }
    }
}

/// spec: base_prod = Q, punctured_prod[i] = Q/q_i, inv_punctured_prod_mod_base[i] = (Q/q_i)^-1 mod q_i
fn check_initialize(cx: &Cx, rep: &mut Report, base: &RNSBase, qs: &[u64], big_q: &BigU, class: &str) {
    let k = qs.len();
    rep.count("routine", "RNSBase::initialize");
    let info = json!({"moduli": qs});
    if base.base_prod() != &big_q.to_limbs(k)[..] {
        cx.viol(rep, "RNSBase::initialize", class, "value", format!("base_prod {:?} != product {} of {:?}", base.base_prod(), big_q.to_dec(), qs), info.clone());
    }
    for i in 0..k {
        let p = big_q.div(&bu(qs[i]));
        let got = BigU::from_limbs(&base.punctured_prod()[i]);
        if got != p { cx.viol(rep, "RNSBase::initialize", class, "value", format!("punctured_prod[{}] = {} expected {} for {:?}", i, got.to_dec(), p.to_dec(), qs), info.clone()); }
        let inv = refm::invmod(p.rem_u64(qs[i]), qs[i]).expect("coprime");
        let op = &base.inv_punctured_prod_mod_base()[i];
        let want_quot = (((inv as u128) << 64) / qs[i] as u128) as u64;
        if op.operand != inv || op.quotient != want_quot {
            cx.viol(rep, "RNSBase::initialize", class, "value", format!("inv_punctured_prod[{}] = ({},{}) expected ({},{}) for {:?}", i, op.operand, op.quotient, inv, want_quot, qs), info.clone());
        }
    }
}

// ================================================================== Workload A
/// every pairwise-coprime subset of {2,3,4,5,7,9,11,13} with product <= 2^16, in ascending,
/// descending and one mixed order
fn exhaustive_family() -> Vec<(Vec<u64>, &'static str)> {
    let s = [2u64, 3, 4, 5, 7, 9, 11, 13];
    let mut fam: Vec<(Vec<u64>, &'static str)> = vec![];
    for mask in 1u32..256 {
        let sub: Vec<u64> = (0..8).filter(|b| mask >> b & 1 == 1).map(|b| s[b]).collect();
        let mut ok = true;
        for a in 0..sub.len() { for b in 0..a { if refm::gcd(sub[a], sub[b]) != 1 { ok = false; } } }
        let prod: u64 = sub.iter().product();
        if !ok || prod > 1 << 16 { continue; }
        fam.push((sub.clone(), "asc"));
        if sub.len() >= 2 { let mut d = sub.clone(); d.reverse(); fam.push((d, "desc")); }
        if sub.len() >= 3 {
            // mixed: middle-out interleave
            let mut m = vec![]; let (mut lo, mut hi) = (0usize, sub.len() - 1);
            let mut flip = true;
            while lo <= hi { if flip { m.push(sub[hi]); if hi == 0 { break; } hi -= 1; } else { m.push(sub[lo]); lo += 1; } flip = !flip; }
            m.rotate_left(1);
            fam.push((m, "mixed"));
        }
    }
    fam
}

fn a_exhaustive_case(cx: &Cx, rep: &mut Report, qs: &[u64], order: &str) {
    let k = qs.len();
    let q: u64 = qs.iter().product();
    let class = &format!("{},exhaustive", kcls(k));
    let Some(base) = make_base(cx, rep, qs, class) else { return };
    check_initialize(cx, rep, &base, qs, &bu(q), class);
    rep.count("A_base_size", &format!("{}", k));
    rep.count("A_order", order);
    for &m in qs { rep.count("A_modulus_bits", &format!("{:02}", refm::bit_len(m))); }
    let info = json!({"moduli": qs});
    let progress = std::cell::Cell::new(0u64);
    // ---- (1) every integer below the product: decompose == residues, compose(residues) == x
    let r = lib(|| {
        let mut bad: Vec<(String, String)> = vec![];
        for x in 0..q {
            progress.set(x);
            let mut v = vec![0u64; k]; v[0] = x;
            base.decompose(&mut v);
            let want: Vec<u64> = qs.iter().map(|&m| x % m).collect();
            if v != want && bad.len() < 3 { bad.push(("decompose".into(), format!("decompose({}) = {:?}, expected {:?}, base {:?}", x, v, want, qs))); }
            let mut w = want.clone();
            base.compose(&mut w);
            let mut wx = vec![0u64; k]; wx[0] = x;
            if w != wx && bad.len() < 3 { bad.push(("compose".into(), format!("compose({:?}) = {:?}, expected {}, base {:?}", want, w, x, qs))); }
        }
        bad
    });
    match r {
        Ok(bad) => for (op, d) in bad { cx.viol(rep, &format!("RNSBase::{}", op), class, "value", d, info.clone()); },
        Err(p) => cx.viol(rep, "RNSBase::decompose/compose", class, "panic", format!("x={} base {:?}: {}", progress.get(), qs, p.0), info.clone()),
    }
    // ---- (2) every residue vector (odometer): compose gives the unique y < Q with y mod q_i = r_i; decompose inverts it
    let r = lib(|| {
        let mut bad: Vec<String> = vec![];
        let mut r = vec![0u64; k];
        let mut seen = 0u64;
        loop {
            seen += 1;
            let mut y = r.clone();
            base.compose(&mut y);
            let hi_zero = y[1..].iter().all(|&w| w == 0);
            let okc = hi_zero && y[0] < q && (0..k).all(|i| y[0] % qs[i] == r[i]);
            if !okc && bad.len() < 3 { bad.push(format!("compose({:?}) = {:?} is not the CRT solution, base {:?}", r, y, qs)); }
            let mut back = y.clone();
            base.decompose(&mut back);
            if okc && back != r && bad.len() < 3 { bad.push(format!("decompose(compose({:?})) = {:?}, base {:?}", r, back, qs)); }
            // next vector
            let mut i = 0;
            loop { if i == k { return (bad, seen); } r[i] += 1; if r[i] < qs[i] { break; } r[i] = 0; i += 1; }
        }
    });
    match r {
        Ok((bad, seen)) => { if seen != q { rep.harness_errors.push(format!("odometer count {} != {}", seen, q)); } for d in bad { cx.viol(rep, "RNSBase::compose", class, "value", d, info.clone()); } }
        Err(p) => cx.viol(rep, "RNSBase::compose", class, "panic", format!("residue enumeration, base {:?}: {}", qs, p.0), info.clone()),
    }
    // ---- (3) array variants over all values at once (value-major in, component-major out) and back;
    //          plus a short reversed batch so that count != anything special
    for pass in 0..2 {
        let vals: Vec<u64> = if pass == 0 { (0..q).collect() } else { (0..q.min(7)).rev().collect() };
        let count = vals.len();
        let mut arr = vec![0u64; count * k];
        for (j, &x) in vals.iter().enumerate() { arr[j * k] = x; }
        let orig = arr.clone();
        let mut want = vec![0u64; count * k];
        for i in 0..k { for j in 0..count { want[i * count + j] = vals[j] % qs[i]; } }
        match lib(|| { let mut a = arr.clone(); base.decompose_array(&mut a); a }) {
            Ok(a) => if a != want {
                let pos = (0..a.len()).find(|&p| a[p] != want[p]).unwrap();
                cx.viol(rep, "RNSBase::decompose_array", class, "value", format!("count={} first mismatch at index {} (component {}, value index {}): got {} expected {}, base {:?}", count, pos, pos / count, pos % count, a[pos], want[pos], qs), info.clone());
            },
            Err(p) => cx.viol(rep, "RNSBase::decompose_array", class, "panic", format!("count={} base {:?}: {}", count, qs, p.0), info.clone()),
        }
        match lib(|| { let mut a = want.clone(); base.compose_array(&mut a); a }) {
            Ok(a) => if a != orig {
                let pos = (0..a.len()).find(|&p| a[p] != orig[p]).unwrap();
                cx.viol(rep, "RNSBase::compose_array", class, "value", format!("count={} first mismatch at word {} (value index {}): got {} expected {}, base {:?}", count, pos, pos / k, a[pos], orig[pos], qs), info.clone());
            },
            Err(p) => cx.viol(rep, "RNSBase::compose_array", class, "panic", format!("count={} base {:?}: {}", count, qs, p.0), info.clone()),
        }
        arr.clear();
    }
    for op in ["RNSBase::decompose", "RNSBase::compose", "RNSBase::decompose_array", "RNSBase::compose_array"] { rep.count_n("routine", op, q); }
    rep.count_n("A_values", "exhaustive", q);
    rep.evals(q);
    rep.distinct_key(&format!("A-exh-{:?}", qs));
    if cx.case == 40 {
        let x = q - 1;
        rep.sample(json!({"group": cx.grp, "moduli": qs, "product": q, "exhaustive": true, "example_x": x,
            "decompose(x)": qs.iter().map(|&m| x % m).collect::<Vec<_>>(), "compose(decompose(x))": x}));
    }
}

fn gen_modulus(rng: &mut Rng, bits: u32, have: &[u64]) -> Option<(u64, &'static str)> {
    let top = 1u64 << (bits - 1);
    for _ in 0..200 {
        let kind = rng.below(10);
        let (v, name) = match kind {
            0..=3 => { // prime
                let mut v = (rng.bits(bits) | top | 1).max(2);
                if bits == 2 { v = *rng.pick(&[2u64, 3]); }
                let mut guard = 0;
                while !refm::is_prime(v) && guard < 5000 { v += if v == 2 { 1 } else { 2 }; guard += 1; }
                if v >> bits != 0 || !refm::is_prime(v) { continue; }
                (v, "prime")
            }
            4 => (top.max(2), "pow2"),
            5 => (((1u64 << bits) - 1).max(2), "2^b-1"),
            _ => ((rng.bits(bits) | top).max(2), "random"),
        };
        if refm::bit_len(v) as u32 != bits { continue; }
        if pairwise_coprime_with(v, have) { return Some((v, if name == "random" && refm::is_prime(v) { "prime" } else if name == "random" { "composite" } else { name })); }
    }
    None
}

fn a_boundary_values(rng: &mut Rng, qs: &[u64], big_q: &BigU) -> Vec<(BigU, &'static str)> {
    let mut out: Vec<(BigU, &'static str)> = vec![];
    let one = BigU::one();
    let push = |v: BigU, c: &'static str, out: &mut Vec<(BigU, &'static str)>| { if v.cmp_u(big_q) == Ordering::Less { out.push((v, c)); } };
    push(BigU::zero(), "0", &mut out);
    push(one.clone(), "1", &mut out);
    push(big_q.sub(&one), "Q-1", &mut out);
    push(big_q.shr(1), "floor(Q/2)", &mut out);
    push(big_q.add(&one).shr(1), "ceil(Q/2)", &mut out);
    for &q in qs {
        let cof = big_q.div(&bu(q)); // Q / q_i
        let mut ms = vec![one.clone()];
        if cof.cmp_u(&one) == Ordering::Greater { ms.push(cof.sub(&one)); ms.push(rand_below_big(rng, &cof)); }
        for m in ms {
            if m.is_zero() { continue; }
            let v = m.mul_u64(q);
            push(v.add(&one), "m*qi+1", &mut out);
            push(v.sub(&one), "m*qi-1", &mut out);
            push(v, "m*qi", &mut out);
        }
    }
    for w in 1..qs.len() {
        let p = BigU::pow2(64 * w);
        push(p.sub(&one), "2^64j-1", &mut out);
        push(p.add(&one), "2^64j+1", &mut out);
        push(p, "2^64j", &mut out);
    }
    out
}

fn a_big_case(cx: &Cx, rng: &mut Rng, rep: &mut Report) {
    let k = rng.range(1, 8) as usize;
    // bit profile
    let profile = rng.below(5);
    let mut qs: Vec<u64> = vec![];
    let mut kinds: Vec<&'static str> = vec![];
    for _ in 0..k {
        let bits = match profile { 0 => rng.range(2, 61), 1 => rng.range(50, 61), 2 => 61, 3 => rng.range(2, 20), _ => *rng.pick(&[2u64, 3, 31, 32, 33, 59, 60, 61]) } as u32;
        let mut got = gen_modulus(rng, bits, &qs);
        let mut tries = 0;
        while got.is_none() && tries < 50 { let b2 = rng.range(2, 61) as u32; got = gen_modulus(rng, b2, &qs); tries += 1; }
        let Some((v, kind)) = got else { break };
        qs.push(v); kinds.push(kind);
    }
    if qs.is_empty() { rep.out_of_precondition += 1; return; }
    let k = qs.len();
    let order = match rng.below(3) {
        0 => { let mut idx: Vec<usize> = (0..k).collect(); idx.sort_by_key(|&i| qs[i]); qs = idx.iter().map(|&i| qs[i]).collect(); kinds = idx.iter().map(|&i| kinds[i]).collect(); "asc" }
        1 => { let mut idx: Vec<usize> = (0..k).collect(); idx.sort_by_key(|&i| std::cmp::Reverse(qs[i])); qs = idx.iter().map(|&i| qs[i]).collect(); kinds = idx.iter().map(|&i| kinds[i]).collect(); "desc" }
        _ => "mixed",
    };
    let class = &format!("{},sampled", kcls(k));
    let Some(base) = make_base(cx, rep, &qs, class) else { return };
    let crt = Crt::new(&qs).expect("pairwise coprime");
    let big_q = crt.big_q.clone();
    check_initialize(cx, rep, &base, &qs, &big_q, class);
    rep.count("A_base_size", &format!("{}", k));
    rep.count("A_order", order);
    for (i, &m) in qs.iter().enumerate() { rep.count("A_modulus_bits", &format!("{:02}", refm::bit_len(m))); rep.count("A_modulus_kind", kinds[i]); }
    let info = json!({"moduli": qs});
    let mut vals = a_boundary_values(rng, &qs, &big_q);
    let n_rand = cx.cfg.pick(48, 96);
    for _ in 0..n_rand { vals.push((rand_below_big(rng, &big_q), "random")); }
    // small products: everything
    if big_q.bits() <= 12 { let q = big_q.low_u64(); vals = (0..q).map(|x| (bu(x), "all")).collect(); }
    // ---- single-value API
    let mut residues: Vec<Vec<u64>> = vec![];
    for (x, vc) in &vals {
        let words = x.to_limbs(k);
        let want: Vec<u64> = qs.iter().map(|&m| x.rem_u64(m)).collect();
        match lib(|| { let mut v = words.clone(); base.decompose(&mut v); v }) {
            Ok(v) => if v != want { cx.viol(rep, "RNSBase::decompose", class, "value", format!("decompose({}) = {:?}, expected {:?}, base {:?}", x.to_dec(), v, want, qs), info.clone()); },
            Err(p) => cx.viol(rep, "RNSBase::decompose", class, "panic", format!("x={} base {:?}: {}", x.to_dec(), qs, p.0), info.clone()),
        }
        match lib(|| { let mut v = want.clone(); base.compose(&mut v); v }) {
            Ok(v) => if v != words { cx.viol(rep, "RNSBase::compose", class, "value", format!("compose({:?}) = {} expected {}, base {:?}", want, BigU::from_limbs(&v).to_dec(), x.to_dec(), qs), info.clone()); },
            Err(p) => cx.viol(rep, "RNSBase::compose", class, "panic", format!("residues {:?} base {:?}: {}", want, qs, p.0), info.clone()),
        }
        rep.count("A_values", vc);
        residues.push(want);
    }
    // ---- independent residue vectors: compose -> unique y < Q with the residues; decompose inverts
    for _ in 0..cx.cfg.pick(24, 48) {
        let r: Vec<u64> = qs.iter().map(|&m| match rng.below(6) { 0 => 0, 1 => m - 1, _ => rng.below(m) }).collect();
        let want = crt.compose(&r);
        match lib(|| { let mut v = r.clone(); base.compose(&mut v); let y = v.clone(); base.decompose(&mut v); (y, v) }) {
            Ok((y, back)) => {
                let by = BigU::from_limbs(&y);
                let def_ok = by.cmp_u(&big_q) == Ordering::Less && (0..k).all(|i| by.rem_u64(qs[i]) == r[i]);
                if !def_ok || by != want { cx.viol(rep, "RNSBase::compose", class, "value", format!("compose({:?}) = {} expected {}, base {:?}", r, by.to_dec(), want.to_dec(), qs), info.clone()); }
                else if back != r { cx.viol(rep, "RNSBase::decompose", class, "value", format!("decompose(compose({:?})) = {:?}, base {:?}", r, back, qs), info.clone()); }
            }
            Err(p) => cx.viol(rep, "RNSBase::compose", class, "panic", format!("residues {:?} base {:?}: {}", r, qs, p.0), info.clone()),
        }
        rep.count("A_values", "random_residue_vector");
    }
    // ---- array API: all values in one batch and a few odd batch sizes
    let total = vals.len();
    let mut batches: Vec<(usize, usize)> = vec![(0, total)];
    for &c in &[1usize, 2, 3, k, k + 1] { if c <= total { let s = rng.usize_below(total - c + 1); batches.push((s, c)); } }
    for (s, count) in batches {
        let mut arr = vec![0u64; count * k];
        let mut want = vec![0u64; count * k];
        for j in 0..count { arr[j * k..(j + 1) * k].copy_from_slice(&vals[s + j].0.to_limbs(k)); for i in 0..k { want[i * count + j] = residues[s + j][i]; } }
        match lib(|| { let mut a = arr.clone(); base.decompose_array(&mut a); a }) {
            Ok(a) => if a != want {
                let pos = (0..a.len()).find(|&p| a[p] != want[p]).unwrap();
                cx.viol(rep, "RNSBase::decompose_array", class, "value", format!("count={} mismatch at index {} (component {}, value {} = {}): got {} expected {}, base {:?}", count, pos, pos / count, pos % count, vals[s + pos % count].0.to_dec(), a[pos], want[pos], qs), info.clone());
            },
            Err(p) => cx.viol(rep, "RNSBase::decompose_array", class, "panic", format!("count={} base {:?}: {}", count, qs, p.0), info.clone()),
        }
        match lib(|| { let mut a = want.clone(); base.compose_array(&mut a); a }) {
            Ok(a) => if a != arr {
                let pos = (0..a.len()).find(|&p| a[p] != arr[p]).unwrap();
                cx.viol(rep, "RNSBase::compose_array", class, "value", format!("count={} mismatch at word {} (value {} = {}): got {} expected {}, base {:?}", count, pos, pos / k, vals[s + pos / k].0.to_dec(), a[pos], arr[pos], qs), info.clone());
            },
            Err(p) => cx.viol(rep, "RNSBase::compose_array", class, "panic", format!("count={} base {:?}: {}", count, qs, p.0), info.clone()),
        }
        rep.count_n("routine", "RNSBase::decompose_array", count as u64);
        rep.count_n("routine", "RNSBase::compose_array", count as u64);
    }
    rep.count_n("routine", "RNSBase::decompose", total as u64);
    rep.count_n("routine", "RNSBase::compose", total as u64);
    rep.evals(total as u64);
    let bits: Vec<usize> = qs.iter().map(|&m| refm::bit_len(m)).collect();
    rep.distinct_key(&format!("A-big-k{}-{}-{:?}", k, order, bits));
    if cx.case == 0 {
        let (x, _) = &vals[vals.len() - 1];
        rep.sample(json!({"group": cx.grp, "moduli": qs, "product": big_q.to_dec(), "x": x.to_dec(), "decompose(x)": residues[vals.len() - 1],
            "compose(decompose(x))": x.to_dec(), "values_checked": total}));
    }
}

// ================================================================== Workload B
struct Tool {
    n: usize, logn: usize, k: usize, kb: usize,
    qs: Vec<u64>, t: u64,
    bsk: Vec<u64>,            // B then m_sk
    msk: u64, gamma: u64,
    big_q: BigU, big_b: BigU, big_bsk: BigU,
    q_mod_bsk_mt: Vec<u64>,   // Q mod (Bsk, m_tilde)
    qinv_mt: u64,             // Q^-1 mod 2^32
    tool: RNSTool,
    tables: Option<Vec<NTTTables>>, psis: Vec<u64>,
    ntt_class: bool,
    desc: Value,
}
impl Tool {
    fn kc(&self) -> &'static str { kcls(self.k) }
    fn info(&self, extra: Value) -> Value { json!({"tool": self.desc, "input": extra}) }
}

/// the 61-bit primes = 1 mod 2N, from the top, as RNSTool::new documents them
fn aux_primes(n: usize, count: usize) -> Vec<u64> {
    let f = 2 * n as u64;
    let mut v = ((1u64 << 61) - 1) / f * f + 1;
    let mut out = vec![];
    while out.len() < count { if refm::is_prime(v) { out.push(v); } v -= f; }
    out
}

fn ntt_prime(rng: &mut Rng, n: usize, bits: u32, avoid: &[u64]) -> Option<u64> {
    let m = 2 * n as u64;
    let lo = 1u64 << (bits - 1); let hi = (1u64 << bits) - 1;
    let first = (lo + m - 2) / m * m + 1;
    if first > hi { return None; }
    let cnt = (hi - first) / m + 1;
    let start = rng.below(cnt);
    for off in 0..cnt.min(5000) {
        let c = first + ((start + off) % cnt) * m;
        if refm::is_prime(c) && !avoid.contains(&c) { return Some(c); }
    }
    None
}

fn gen_tool_params(rng: &mut Rng) -> Option<(usize, Vec<u64>, u64, bool, &'static str, &'static str)> {
    let logn = rng.range(1, 6) as usize;
    let n = 1usize << logn;
    let k = match rng.below(10) { 0 => 1, 1 => 2, 2 => 8, _ => rng.range(1, 8) } as usize;
    let ntt_class = !rng.chance(1, 4);
    let minb = if ntt_class { (logn + 2) as u64 } else { 2 };
    let profile = rng.below(6);
    let pname = ["small", "large", "max60", "mixed", "seal_like", "tiny"][profile as usize];
    let mut qs: Vec<u64> = vec![];
    for i in 0..k {
        let bits = match profile {
            0 => rng.range(minb, (minb + 8).min(60)),
            1 => rng.range(50, 60),
            2 => 60,
            3 => rng.range(minb, 60),
            4 => if i == 0 || i == k - 1 { 60 } else { rng.range(30, 50) },
            _ => rng.range(minb, (minb + 3).min(60)),
        } as u32;
        let mut got = None;
        for attempt in 0..60 {
            let b = if attempt < 3 { bits } else { rng.range(minb, 60) as u32 };
            if ntt_class { got = ntt_prime(rng, n, b, &qs); }
            else {
                // any odd modulus (m_tilde = 2^32 must be invertible), primes and composites
                let top = 1u64 << (b - 1);
                let v = (rng.bits(b) | top | 1).max(3);
                if refm::bit_len(v) as u32 == b && pairwise_coprime_with(v, &qs) { got = Some(v); }
            }
            if got.is_some() { break; }
        }
        qs.push(got?);
    }
    let order = match rng.below(3) { 0 => { qs.sort(); "asc" } 1 => { qs.sort(); qs.reverse(); "desc" } _ => { rng.shuffle(&mut qs); "mixed" } };
    let big_q = refm::product(&qs);
    // plain modulus: 0 (CKKS-style tool) or 2..60 bits, coprime to every q_i, below Q
    let qbits = big_q.bits();
    let mut t = 0u64;
    if qbits >= 3 && !rng.chance(1, 8) {
        let maxb = (qbits - 1).min(60) as u64;
        for _ in 0..200 {
            let b = match rng.below(4) { 0 => maxb, 1 => rng.range(2, maxb.min(20)), _ => rng.range(2, maxb) } as u32;
            let top = 1u64 << (b - 1);
            let cand = match rng.below(4) {
                0 => ntt_prime(rng, n, b, &qs).unwrap_or(top),
                1 => top,
                _ => (rng.bits(b) | top).max(2),
            };
            if cand >= 2 && refm::bit_len(cand) <= 60 && pairwise_coprime_with(cand, &qs) && bu(cand).cmp_u(&big_q) == Ordering::Less { t = cand; break; }
        }
    }
    Some((n, qs, t, ntt_class, pname, order))
}

fn build_tool(cx: &Cx, rep: &mut Report, n: usize, qs: &[u64], t: u64, ntt_class: bool, pname: &str, order: &str) -> Option<Tool> {
    let k = qs.len();
    let logn = n.trailing_zeros() as usize;
    let desc0 = json!({"N": n, "q": qs, "t": t});
    let class = kcls(k);
    let r = lib(|| {
        let ms: Vec<Modulus> = qs.iter().map(|&q| Modulus::new(q)).collect();
        let base = RNSBase::new(&ms)?;
        // exactly what ContextData::validate does
        let tool = RNSTool::new(n, &base, &Modulus::new(t))?;
        let tables = if ntt_class { Some(NTTTables::create_ntt_tables(logn, &ms)?) } else { None };
        Ok::<_, String>((tool, tables))
    });
    let (tool, tables) = match r {
        Ok(Ok(x)) => x,
        Ok(Err(e)) => { cx.viol(rep, "RNSTool::new", class, "refused", format!("valid parameters {} refused: {}", desc0, e), desc0.clone()); return None; }
        Err(p) => { cx.viol(rep, "RNSTool::new", class, "panic", format!("parameters {}: {}", desc0, p.0), desc0.clone()); return None; }
    };
    rep.count("routine", "RNSTool::new");
    // ---- auxiliary bases: read back and check against the documented construction
    let b: Vec<u64> = tool.base_B().base().iter().map(|m| m.value()).collect();
    let bsk: Vec<u64> = tool.base_Bsk().base().iter().map(|m| m.value()).collect();
    let bskmt: Vec<u64> = tool.base_Bsk_m_tilde().base().iter().map(|m| m.value()).collect();
    let kb = b.len();
    let aux = aux_primes(n, kb + 2);
    let (msk, gamma) = (aux[0], aux[1]);
    let mut want_bsk = aux[2..].to_vec(); want_bsk.push(msk);
    let mut want_bskmt = want_bsk.clone(); want_bskmt.push(MT);
    let tg: Option<Vec<u64>> = tool.base_t_gamma().as_ref().map(|x| x.base().iter().map(|m| m.value()).collect());
    let big_q = refm::product(qs);
    let big_b = refm::product(&b);
    let big_bsk = big_b.mul_u64(msk);
    let mut ok = true;
    if !(kb == k || kb == k + 1) || b != aux[2..] || bsk != want_bsk || bskmt != want_bskmt || (t != 0 && tg != Some(vec![t, gamma])) || (t == 0 && tg.is_some()) {
        cx.viol(rep, "RNSTool::new", class, "value", format!("auxiliary bases differ from the documented construction: B={:?} Bsk={:?} Bsk_m_tilde={:?} t_gamma={:?}; expected m_sk={} gamma={} B={:?}; parameters {}", b, bsk, bskmt, tg, msk, gamma, &aux[2..], desc0), desc0.clone());
        ok = false;
    }
    // sizing: 2^32 * t * Q^2 < Q * prod(B) * m_sk   (comment in RNSTool::new; t = 1 when absent)
    let lhs = big_q.mul_u64(t.max(1)).shl(32);
    if ok && lhs.cmp_u(&big_bsk) != Ordering::Less {
        cx.viol(rep, "RNSTool::new", class, "value", format!("auxiliary base too small: 2^32*t*Q = {} >= prod(B)*m_sk = {}; parameters {}", lhs.to_dec(), big_bsk.to_dec(), desc0), desc0.clone());
    }
    if !ok { return None; }
    rep.count("B_auxbase_minus_k", &format!("k={} |B|-k={}", k, kb - k));
    let mut mods = bsk.clone(); mods.push(MT);
    let q_mod_bsk_mt: Vec<u64> = mods.iter().map(|&m| big_q.rem_u64(m)).collect();
    let qinv_mt = refm::invmod(big_q.rem_u64(MT), MT).expect("Q odd");
    let mut psis = vec![];
    let mut tables = tables;
    if let Some(tb) = &tables {
        for i in 0..k { psis.push(tb[i].root()); }
        if !(0..k).all(|i| refm::is_primitive_2n_root(psis[i], n, qs[i])) { rep.note("an NTT table root was not a primitive 2N-th root; NTT-form routines skipped for that tool (C09 territory)"); tables = None; }
    }
    let bits: Vec<usize> = qs.iter().map(|&m| refm::bit_len(m)).collect();
    for &bq in &bits { rep.count("B_q_modulus_bits", &format!("{:02}", bq)); }
    rep.count("B_base_size", &format!("{}", k));
    rep.count("B_N", &format!("{:02}", n));
    rep.count("B_t_bits", &format!("{:02}", refm::bit_len(t)));
    rep.count("B_q_kind", if ntt_class { "ntt_primes" } else { "odd_coprime" });
    rep.count("B_q_order", order);
    rep.count("B_q_profile", pname);
    let desc = json!({"N": n, "q": qs, "q_bits": bits, "t": t, "B": b, "m_sk": msk, "gamma": gamma, "m_tilde": MT});
    Some(Tool { n, logn, k, kb, qs: qs.to_vec(), t, bsk, msk, gamma, big_q, big_b, big_bsk, q_mod_bsk_mt, qinv_mt, tool, tables, psis, ntt_class, desc })
}

/// values in [0,Q): all of them when Q <= 4096, otherwise boundary + random; padded to a multiple of N
fn xs_mod_q(rng: &mut Rng, tl: &Tool, want: usize) -> (Vec<BigU>, &'static str) {
    let n = tl.n;
    let one = BigU::one();
    let mut v: Vec<BigU>;
    let cls;
    if tl.big_q.bits() <= 12 {
        v = (0..tl.big_q.low_u64()).map(bu).collect(); cls = "all_below_Q";
    } else {
        v = a_boundary_values(rng, &tl.qs, &tl.big_q).into_iter().map(|x| x.0).collect();
        // around the centering boundary and the Montgomery representative switch
        let h = tl.big_q.shr(1); // (Q-1)/2
        for d in 0..3u64 { v.push(h.add_u64(1 + d)); if h.cmp_u(&bu(d)) == Ordering::Greater { v.push(h.sub(&bu(d))); } }
        let slack = tl.big_q.mul_u64(tl.k as u64).shr(32);
        v.push(h.add(&one).add(&slack).rem(&tl.big_q)); v.push(h.add(&one).add(&slack.shr(1)).rem(&tl.big_q));
        v.truncate(want.max(n));
        while v.len() < want { v.push(rand_below_big(rng, &tl.big_q)); }
        cls = "boundary+random";
    }
    while v.len() % n != 0 { v.push(rand_below_big(rng, &tl.big_q)); }
    let _ = one;
    (v, cls)
}
fn center(x: &BigU, q: &BigU) -> BigI { centered(x, q) }

// ------------------------------------------------------------------ (1) fastbconv_m_tilde
/// spec: input x mod q_i (x in [0,Q)); output in Bsk u {m_tilde}: there is ONE alpha in [0,k) with
/// out_j = ([m_tilde*x]_Q + alpha*Q) mod b_j for every component j.
/// Returns c'' = [m_tilde*x]_Q + alpha*Q per coefficient and the raw output.
fn chk_m_tilde(cx: &Cx, rep: &mut Report, tl: &Tool, xs: &[BigU], icls: &str) -> Option<(Vec<BigU>, Vec<u64>)> {
    let (n, k) = (tl.n, tl.k);
    let op = "fastbconv_m_tilde";
    let input = layout_u(xs, &tl.qs);
    let r = lib(|| { let mut out = vec![GARBAGE; (tl.kb + 2) * n]; tl.tool.fastbconv_m_tilde(&input, &mut out); out });
    let out = match r { Ok(o) => o, Err(p) => { cx.viol(rep, op, tl.kc(), "panic", format!("x={:?}: {}", dec(xs), p.0), tl.info(json!({"x": dec(xs)}))); return None; } };
    let mut ms = tl.bsk.clone(); ms.push(MT);
    let mut cs = vec![]; let mut all_ok = true;
    for j in 0..n {
        let u0 = xs[j].shl(32).rem(&tl.big_q);
        let base: Vec<u64> = ms.iter().map(|&m| u0.rem_u64(m)).collect();
        let obs = column(&out, n, ms.len(), j);
        match find_offset(&obs, &ms, &base, &tl.q_mod_bsk_mt, k, false) {
            Some(a) => { rep.count("B_alpha:fastbconv_m_tilde", &format!("k={} alpha={}", k, a)); cs.push(u0.add(&tl.big_q.mul_u64(a as u64))); }
            None => {
                all_ok = false;
                cx.viol(rep, op, tl.kc(), "value", format!("x={} : output {:?} over moduli {:?} is not ([2^32*x]_Q + alpha*Q) for any alpha in [0,{}) ([2^32*x]_Q = {}); tool {}", xs[j].to_dec(), obs, ms, k, u0.to_dec(), tl.desc), tl.info(json!({"x": xs[j].to_dec(), "coefficient": j})));
                cs.push(u0);
            }
        }
    }
    rep.count_n("B_routine_x_k", &format!("{} k={}", op, k), n as u64);
    rep.count_n("routine", op, n as u64);
    rep.count_n(&format!("B_inputs:{}", op), icls, n as u64);
    rep.evals(n as u64);
    if all_ok { Some((cs, out)) } else { None }
}

// ------------------------------------------------------------------ (2) sm_mrq
/// spec: input c'' in Bsk u {m_tilde}; r = centred residue of -c''*Q^-1 mod m_tilde (in [-2^31, 2^31);
/// at the tie r = 2^31 either sign is a valid Montgomery reduction); (c'' + Q*r) is divisible by
/// m_tilde and out_j = ((c'' + Q*r)/m_tilde) mod b_j.  Returns the integer (c''+Q r)/m_tilde.
fn sm_mrq_expected(tl: &Tool, c: &BigU) -> (BigI, bool) {
    let cm = c.rem_u64(MT);
    let r = (MT - refm::mulmod(cm, tl.qinv_mt, MT)) % MT;
    let rt: i64 = if r >= 1 << 31 { r as i64 - (1i64 << 32) } else { r as i64 };
    let num = to_i(c).add(&to_i(&tl.big_q).mul(&bi(rt)));
    let (val, rem) = num.divmod_floor(&bu(MT));
    assert!(rem.is_zero(), "oracle: Montgomery numerator not divisible by m_tilde");
    (val, r == 1 << 31)
}
fn chk_sm_mrq(cx: &Cx, rep: &mut Report, tl: &Tool, cs: &[BigU], raw_in: Option<&[u64]>, icls: &str) -> Option<(Vec<BigI>, Vec<u64>)> {
    let n = tl.n;
    let op = "sm_mrq";
    let mut ms = tl.bsk.clone(); ms.push(MT);
    let input = match raw_in { Some(r) => r.to_vec(), None => layout_u(cs, &ms) };
    let r = lib(|| { let mut out = vec![GARBAGE; (tl.kb + 1) * n]; tl.tool.sm_mrq(&input, &mut out); out });
    let out = match r { Ok(o) => o, Err(p) => { cx.viol(rep, op, tl.kc(), "panic", format!("c''={:?}: {}", dec(cs), p.0), tl.info(json!({"c": dec(cs)}))); return None; } };
    let mut vals = vec![]; let mut all_ok = true;
    for j in 0..n {
        let (val, tie) = sm_mrq_expected(tl, &cs[j]);
        let obs = column(&out, n, tl.bsk.len(), j);
        let want: Vec<u64> = tl.bsk.iter().map(|&m| val.mod_u64(m)).collect();
        let mut good = obs == want;
        let mut used = val.clone();
        if !good && tie {
            let alt = val.add(&to_i(&tl.big_q));
            let want2: Vec<u64> = tl.bsk.iter().map(|&m| alt.mod_u64(m)).collect();
            if obs == want2 { good = true; used = alt; }
        }
        if tie { rep.count("B_sm_mrq_tie_r=2^31", "seen"); }
        if !good {
            all_ok = false;
            cx.viol(rep, op, tl.kc(), "value", format!("c''={} : output {:?} over Bsk {:?}, expected (c''+Q*r)/m_tilde = {} i.e. {:?}; tool {}", cs[j].to_dec(), obs, tl.bsk, val.to_dec(), want, tl.desc), tl.info(json!({"c": cs[j].to_dec(), "coefficient": j})));
        }
        vals.push(used);
    }
    rep.count_n("B_routine_x_k", &format!("{} k={}", op, tl.k), n as u64);
    rep.count_n("routine", op, n as u64);
    rep.count_n(&format!("B_inputs:{}", op), icls, n as u64);
    rep.evals(n as u64);
    if all_ok { Some((vals, out)) } else { None }
}

// ------------------------------------------------------------------ (3) fast_floor
/// spec: input z in q u Bsk; there is ONE beta in [0,k) with out_j = (floor(z/Q) - beta) mod b_j for all j.
/// Returns floor(z/Q) - beta.
fn chk_fast_floor(cx: &Cx, rep: &mut Report, tl: &Tool, zs: &[BigI], raw_in: Option<&[u64]>, icls: &str) -> Option<(Vec<BigI>, Vec<u64>)> {
    let (n, k) = (tl.n, tl.k);
    let op = "fast_floor";
    let mut ms = tl.qs.clone(); ms.extend(&tl.bsk);
    let input = match raw_in { Some(r) => r.to_vec(), None => layout_i(zs, &ms) };
    let r = lib(|| { let mut out = vec![GARBAGE; (tl.kb + 1) * n]; tl.tool.fast_floor(&input, &mut out); out });
    let out = match r { Ok(o) => o, Err(p) => { cx.viol(rep, op, tl.kc(), "panic", format!("z={:?}: {}", deci(zs), p.0), tl.info(json!({"z": deci(zs)}))); return None; } };
    let ones = vec![1u64; tl.bsk.len()];
    let mut res = vec![]; let mut all_ok = true;
    for j in 0..n {
        let f = zs[j].divmod_floor(&tl.big_q).0;
        let base: Vec<u64> = tl.bsk.iter().map(|&m| f.mod_u64(m)).collect();
        let obs = column(&out, n, tl.bsk.len(), j);
        match find_offset(&obs, &tl.bsk, &base, &ones, k, true) {
            Some(b) => { rep.count("B_beta:fast_floor", &format!("k={} beta={}", k, b)); res.push(f.sub(&bi(b as i64))); }
            None => {
                all_ok = false;
                cx.viol(rep, op, tl.kc(), "value", format!("z={} : output {:?} over Bsk {:?} is not floor(z/Q) - beta for any beta in [0,{}) (floor(z/Q) = {}); tool {}", zs[j].to_dec(), obs, tl.bsk, k, f.to_dec(), tl.desc), tl.info(json!({"z": zs[j].to_dec(), "coefficient": j})));
                res.push(f);
            }
        }
    }
    rep.count_n("B_routine_x_k", &format!("{} k={}", op, k), n as u64);
    rep.count_n("routine", op, n as u64);
    rep.count_n(&format!("B_inputs:{}", op), icls, n as u64);
    rep.evals(n as u64);
    if all_ok { Some((res, out)) } else { None }
}

// ------------------------------------------------------------------ (4) fastbconv_sk
/// spec: input w in Bsk (B-part and m_sk-part of the same integer w); out_i = w mod q_i EXACTLY
/// whenever lambda = floor(w/prod(B)) satisfies |B|-1-(m_sk-1)/2 <= lambda <= (m_sk-1)/2
/// (then alpha_B - lambda has a centred representative mod m_sk for every possible alpha_B in [0,|B|)).
fn chk_sk(cx: &Cx, rep: &mut Report, tl: &Tool, ws: &[BigI], raw_in: Option<&[u64]>, icls: &str) -> Option<Vec<u64>> {
    let (n, k) = (tl.n, tl.k);
    let op = "fastbconv_sk";
    let input = match raw_in { Some(r) => r.to_vec(), None => layout_i(ws, &tl.bsk) };
    let r = lib(|| { let mut out = vec![GARBAGE; k * n]; tl.tool.fastbconv_sk(&input, &mut out); out });
    let h = (tl.msk - 1) / 2;
    let lo = bi(tl.kb as i64 - 1).sub(&to_i(&bu(h)));
    let hi = to_i(&bu(h));
    let in_pre: Vec<bool> = ws.iter().map(|w| { let l = w.divmod_floor(&tl.big_b).0; l.cmp_i(&lo) != Ordering::Less && l.cmp_i(&hi) != Ordering::Greater }).collect();
    let out = match r {
        Ok(o) => o,
        Err(p) => {
            if in_pre.iter().all(|&b| b) { cx.viol(rep, op, tl.kc(), "panic", format!("w={:?}: {}", deci(ws), p.0), tl.info(json!({"w": deci(ws)}))); } else { rep.out_of_precondition += n as u64; }
            return None;
        }
    };
    let mut all_ok = true;
    for j in 0..n {
        if !in_pre[j] { rep.out_of_precondition += 1; rep.count("B_fastbconv_sk_outside_range", if column(&out, n, k, j) == tl.qs.iter().map(|&m| ws[j].mod_u64(m)).collect::<Vec<_>>() { "still_exact" } else { "inexact" }); continue; }
        let obs = column(&out, n, k, j);
        let want: Vec<u64> = tl.qs.iter().map(|&m| ws[j].mod_u64(m)).collect();
        if obs != want {
            all_ok = false;
            cx.viol(rep, op, tl.kc(), "value", format!("w={} : output {:?} over q {:?}, expected w mod q_i = {:?}; tool {}", ws[j].to_dec(), obs, tl.qs, want, tl.desc), tl.info(json!({"w": ws[j].to_dec(), "coefficient": j})));
        }
        rep.evals(1);
    }
    rep.count_n("B_routine_x_k", &format!("{} k={}", op, k), n as u64);
    rep.count_n("routine", op, n as u64);
    rep.count_n(&format!("B_inputs:{}", op), icls, n as u64);
    if all_ok { Some(out) } else { None }
}

// ------------------------------------------------------------------ (5) the four composed as BFV multiply uses them
/// One coefficient product: x1, x2 (centred mod Q) -> [fastbconv_m_tilde, sm_mrq] each -> coefficient-wise
/// products in q and in Bsk, times t (harness glue, steps (4)-(6) of bfv_multiply without the NTT) ->
/// fast_floor -> fastbconv_sk.
/// spec: result_i = (floor(t*x1'*x2'/Q) - beta) mod q_i with ONE beta in [0,k) for all i, where x' is the
/// Montgomery representative of x: x' = x_centred, or x_centred + Q when x_centred < -Q/2 + k*Q/2^32.
/// With centred representatives this is round(t*x1*x2/Q) - delta, delta in [0,k].
fn chk_composed(cx: &Cx, rep: &mut Report, tl: &Tool, x1: &[BigI], x2: &[BigI], icls: &str) {
    let (n, k, t) = (tl.n, tl.k, tl.t);
    let op = "bfv_multiply_pipeline";
    let nb = tl.bsk.len();
    let a_q = layout_i(x1, &tl.qs); let b_q = layout_i(x2, &tl.qs);
    let r = lib(|| {
        let lift = |inp: &[u64]| { let mut tmp = vec![GARBAGE; (tl.kb + 2) * n]; tl.tool.fastbconv_m_tilde(inp, &mut tmp); let mut o = vec![GARBAGE; nb * n]; tl.tool.sm_mrq(&tmp, &mut o); o };
        let a_b = lift(&a_q); let b_b = lift(&b_q);
        let mut zin = vec![0u64; (k + nb) * n];
        for i in 0..k { let m = tl.qs[i]; for j in 0..n { zin[i * n + j] = refm::mulmod(refm::mulmod(a_q[i * n + j], b_q[i * n + j], m), t % m, m); } }
        for i in 0..nb { let m = tl.bsk[i]; for j in 0..n { zin[(k + i) * n + j] = refm::mulmod(refm::mulmod(a_b[i * n + j], b_b[i * n + j], m), t % m, m); } }
        let mut fl = vec![GARBAGE; nb * n]; tl.tool.fast_floor(&zin, &mut fl);
        let mut res = vec![GARBAGE; k * n]; tl.tool.fastbconv_sk(&fl, &mut res);
        res
    });
    let res = match r { Ok(o) => o, Err(p) => { cx.viol(rep, op, tl.kc(), "panic", format!("x1={:?} x2={:?}: {}", deci(x1), deci(x2), p.0), tl.info(json!({"x1": deci(x1), "x2": deci(x2)}))); return; } };
    let qi = to_i(&tl.big_q);
    let reps = |x: &BigI| -> Vec<(BigI, bool)> {
        let mut v = vec![(x.clone(), false)];
        // 2^32*(2x + Q) < 2kQ  <=>  x < -Q/2 + kQ/2^32
        let lhs = BigI { neg: x.neg, m: x.m.shl(1) }.add(&qi);
        let lhs = BigI { neg: lhs.neg, m: lhs.m.shl(32) };
        if lhs.cmp_i(&to_i(&tl.big_q.mul_u64(2 * k as u64))) == Ordering::Less { v.push((x.add(&qi), true)); }
        v
    };
    let ones = vec![1u64; k];
    for j in 0..n {
        let obs = column(&res, n, k, j);
        let mut found = None;
        'search: for (r1, s1) in reps(&x1[j]) { for (r2, s2) in reps(&x2[j]) {
            let v = r1.mul(&r2).mul_u64(t);
            let f = v.divmod_floor(&tl.big_q).0;
            let base: Vec<u64> = tl.qs.iter().map(|&m| f.mod_u64(m)).collect();
            if let Some(b) = find_offset(&obs, &tl.qs, &base, &ones, k, true) { found = Some((b, s1 || s2, f)); break 'search; }
        } }
        match found {
            Some((b, shifted, f)) => {
                rep.count("B_beta:composed", &format!("k={} beta={}", k, b));
                if shifted { rep.count("B_composed_montgomery_rep", "x+Q"); } else {
                    rep.count("B_composed_montgomery_rep", "centred");
                    let rr = x1[j].mul(&x2[j]).mul_u64(t).div_round_half_up(&tl.big_q);
                    let delta = rr.sub(&f).add(&bi(b as i64)).to_i128().unwrap_or(-99);
                    rep.count("B_composed_round_minus_result", &format!("k={} delta={}", k, delta));
                    if delta < 0 || delta > k as i128 { cx.viol(rep, op, tl.kc(), "value", format!("oracle inconsistency delta={}", delta), tl.info(json!({}))); }
                }
            }
            None => {
                let rr = x1[j].mul(&x2[j]).mul_u64(t).div_round_half_up(&tl.big_q);
                cx.viol(rep, op, tl.kc(), "value", format!("x1={} x2={} t={} : result {:?} over q {:?} is not floor(t*x1'*x2'/Q) - beta for beta in [0,{}) (round(t*x1*x2/Q) = {}, residues {:?}); tool {}", x1[j].to_dec(), x2[j].to_dec(), t, obs, tl.qs, k, rr.to_dec(), tl.qs.iter().map(|&m| rr.mod_u64(m)).collect::<Vec<_>>(), tl.desc), tl.info(json!({"x1": x1[j].to_dec(), "x2": x2[j].to_dec(), "coefficient": j})));
            }
        }
    }
    rep.count_n("B_routine_x_k", &format!("{} k={}", op, k), n as u64);
    rep.count_n("routine", op, n as u64);
    rep.count_n(&format!("B_inputs:{}", op), icls, n as u64);
    rep.evals(n as u64);
}

// ------------------------------------------------------------------ (6) divide_and_round_q_last (coefficient and NTT form)
fn ntt_poly(tl: &Tool, data: &[u64], comps: usize) -> Vec<u64> {
    let n = tl.n; let mut out = vec![0u64; comps * n];
    for i in 0..comps { out[i * n..(i + 1) * n].copy_from_slice(&refm::ntt_ref(&data[i * n..(i + 1) * n], tl.psis[i], tl.qs[i])); }
    out
}
fn intt_poly(tl: &Tool, data: &[u64], comps: usize) -> Vec<u64> {
    let n = tl.n; let mut out = vec![0u64; comps * n];
    for i in 0..comps { out[i * n..(i + 1) * n].copy_from_slice(&refm::intt_ref(&data[i * n..(i + 1) * n], tl.psis[i], tl.qs[i])); }
    out
}
/// spec: x in [0,Q), k >= 2: component i < k-1 becomes floor((x + floor(q_k/2))/q_k) mod q_i (= nearest integer
/// to x/q_k, q_k odd); the NTT-form routine gives the transform of exactly the same polynomial.
fn chk_div_round(cx: &Cx, rep: &mut Report, tl: &Tool, xs: &[BigU], icls: &str) {
    let (n, k) = (tl.n, tl.k);
    if k < 2 { return; }
    let qk = tl.qs[k - 1]; let half = qk >> 1;
    let want_int: Vec<BigU> = xs.iter().map(|x| x.add_u64(half).div(&bu(qk))).collect();
    let want = layout_u(&want_int, &tl.qs[..k - 1]);
    let input = layout_u(xs, &tl.qs);
    let first_bad = |got: &[u64], want: &[u64]| (0..want.len()).find(|&p| got[p] != want[p]);
    {
        let op = "divide_and_round_q_last_inplace";
        match lib(|| { let mut a = input.clone(); tl.tool.divide_and_round_q_last_inplace(&mut a); a }) {
            Ok(a) => if let Some(p) = first_bad(&a, &want) {
                let j = p % n;
                cx.viol(rep, op, tl.kc(), "value", format!("x={} : component {} = {}, expected round(x/q_k) = {} mod {} = {}; tool {}", xs[j].to_dec(), p / n, a[p], want_int[j].to_dec(), tl.qs[p / n], want[p], tl.desc), tl.info(json!({"x": xs[j].to_dec(), "coefficient": j})));
            },
            Err(p) => cx.viol(rep, op, tl.kc(), "panic", format!("x={:?}: {}", dec(xs), p.0), tl.info(json!({"x": dec(xs)}))),
        }
        rep.count_n("B_routine_x_k", &format!("{} k={}", op, k), n as u64); rep.count_n("routine", op, n as u64);
        rep.count_n(&format!("B_inputs:{}", op), icls, n as u64);
        rep.evals(n as u64);
    }
    if let Some(tables) = &tl.tables {
        let op = "divide_and_round_q_last_ntt_inplace";
        let input_ntt = ntt_poly(tl, &input, k);
        let want_ntt = ntt_poly(tl, &want, k - 1);
        match lib(|| { let mut a = input_ntt.clone(); tl.tool.divide_and_round_q_last_ntt_inplace(&mut a, tables); a }) {
            Ok(a) => if let Some(p) = first_bad(&a, &want_ntt) {
                let back = intt_poly(tl, &a[..(k - 1) * n], k - 1);
                let pc = first_bad(&back, &want).unwrap_or(p);
                let j = pc % n;
                cx.viol(rep, op, tl.kc(), "value", format!("NTT-form output differs from the transform of the coefficient-form result at slot {} (component {}): got {} expected {}; after inverse transform coefficient {} of component {} = {}, expected {} (x = {}); tool {}", p % n, p / n, a[p], want_ntt[p], j, pc / n, back[pc], want[pc], xs[j].to_dec(), tl.desc), tl.info(json!({"x": dec(xs)})));
            },
            Err(p) => cx.viol(rep, op, tl.kc(), "panic", format!("x={:?}: {}", dec(xs), p.0), tl.info(json!({"x": dec(xs)}))),
        }
        rep.count_n("B_routine_x_k", &format!("{} k={}", op, k), n as u64); rep.count_n("routine", op, n as u64);
        rep.count_n(&format!("B_inputs:{}", op), icls, n as u64);
        rep.evals(n as u64);
    }
}

// ------------------------------------------------------------------ (7) mod_t_and_divide_q_last (coefficient and NTT form)
/// spec (k >= 2, t != 0, 2*t*q_k < Q): with y the lift of the first k-1 output components modulo Q' = Q/q_k,
/// e = centred((y*q_k - x) mod Q) satisfies e = 0 (mod t) and |e| <= t*q_k, i.e. y*q_k = x (mod t)
/// ("value preserved modulo t up to the factor q_k") and |y - x/q_k| <= t. When additionally
/// |x_centred| + (t+1)*q_k < Q/2 the same holds literally on the centred lifts of x and y.
fn chk_mod_t_div(cx: &Cx, rep: &mut Report, tl: &Tool, crt1: &Crt, xs: &[BigU], icls: &str) {
    let (n, k, t) = (tl.n, tl.k, tl.t);
    if k < 2 || t == 0 { return; }
    let qk = tl.qs[k - 1];
    let tqk = bu(t).mul_u64(qk);
    let pre = tqk.shl(1).cmp_u(&tl.big_q) == Ordering::Less;
    let input = layout_u(xs, &tl.qs);
    let qinv_t = refm::invmod(qk % t, t);
    let eval = |rep: &mut Report, op: &str, out: &[u64]| {
        for j in 0..n {
            if !pre { rep.out_of_precondition += 1; continue; }
            let obs = column(out, n, k - 1, j);
            if (0..k - 1).any(|i| obs[i] >= tl.qs[i]) {
                cx.viol(rep, op, tl.kc(), "value", format!("x={} : unreduced output {:?} over {:?}; tool {}", xs[j].to_dec(), obs, &tl.qs[..k - 1], tl.desc), tl.info(json!({"x": xs[j].to_dec()})));
                continue;
            }
            let y = crt1.compose(&obs);
            let e = center(&y.mul_u64(qk).add(&tl.big_q).sub(&xs[j]).rem(&tl.big_q), &tl.big_q);
            let mut good = e.mod_u64(t) == 0 && e.m.cmp_u(&tqk) != Ordering::Greater;
            // literal statement on centred lifts when nothing can wrap
            let xc = center(&xs[j], &tl.big_q);
            let room = xc.m.add(&tqk).add_u64(qk).shl(1).cmp_u(&tl.big_q) == Ordering::Less;
            if good && room {
                let yc = center(&y, &crt1.big_q);
                let d = yc.mul_u64(qk).sub(&xc);
                if !(d.mod_u64(t) == 0 && d.m.cmp_u(&tqk) != Ordering::Greater) { good = false; }
                rep.count("B_mod_t_div_centred_lift_checked", op);
            }
            if !good {
                cx.viol(rep, op, tl.kc(), "value", format!("x={} (centred {}) : output {:?} over {:?} lifts to y={}, y*q_k - x = {} (mod Q) which is not a multiple of t={} within t*q_k={}; tool {}", xs[j].to_dec(), xc.to_dec(), obs, &tl.qs[..k - 1], y.to_dec(), e.to_dec(), t, tqk.to_dec(), tl.desc), tl.info(json!({"x": xs[j].to_dec(), "coefficient": j})));
            }
            // observation only: the deterministic formula y = floor(x/q_k) - [-(x mod q_k) q_k^-1]_t
            if let Some(qi) = qinv_t {
                let d = (t - refm::mulmod(xs[j].rem_u64(qk) % t, qi, t)) % t;
                let yexp = to_i(&xs[j].div(&bu(qk))).sub(&to_i(&bu(d))).modp(&crt1.big_q);
                rep.count("B_mod_t_div_equals_floor_minus_d", if yexp == y { "yes" } else { "no" });
            }
            rep.evals(1);
        }
        rep.count_n("B_routine_x_k", &format!("{} k={}", op, k), n as u64); rep.count_n("routine", op, n as u64);
        rep.count_n(&format!("B_inputs:{}", op), icls, n as u64);
    };
    let op = "mod_t_and_divide_q_last_inplace";
    match lib(|| { let mut a = input.clone(); tl.tool.mod_t_and_divide_q_last_inplace(&mut a); a }) {
        Ok(a) => eval(rep, op, &a[..(k - 1) * n]),
        Err(p) => if pre { cx.viol(rep, op, tl.kc(), "panic", format!("x={:?}: {}", dec(xs), p.0), tl.info(json!({"x": dec(xs)}))) } else { rep.out_of_precondition += n as u64 },
    }
    if let Some(tables) = &tl.tables {
        let op = "mod_t_and_divide_q_last_ntt_inplace";
        let input_ntt = ntt_poly(tl, &input, k);
        match lib(|| { let mut a = input_ntt.clone(); tl.tool.mod_t_and_divide_q_last_ntt_inplace(&mut a, tables); a }) {
            Ok(a) => { let back = intt_poly(tl, &a[..(k - 1) * n], k - 1); eval(rep, op, &back) }
            Err(p) => if pre { cx.viol(rep, op, tl.kc(), "panic", format!("x={:?}: {}", dec(xs), p.0), tl.info(json!({"x": dec(xs)}))) } else { rep.out_of_precondition += n as u64 },
        }
    }
}

// ------------------------------------------------------------------ (8) decrypt_scale_and_round
/// spec: x in [0,Q); R = round(t*x/Q), rem = t*x - R*Q in [-Q/2, Q/2). out = R mod t EXACTLY whenever
/// floor(gamma*rem/Q) - (k-1) >= -(gamma-1)/2  (then the gamma-correction term floor(gamma*rem/Q) - alpha,
/// alpha in [0,k), has a centred representative mod gamma; the upper side always holds). In terms of the
/// noise v (x = (Q/t) m + v): every |v| <= Q/(2t) * (1 - 2k/gamma) is inside.
fn chk_scale_round(cx: &Cx, rep: &mut Report, tl: &Tool, xs: &[BigU], icls: &str) {
    let (n, k, t) = (tl.n, tl.k, tl.t);
    if t == 0 { return; }
    let op = "decrypt_scale_and_round";
    let input = layout_u(xs, &tl.qs);
    let r = lib(|| { let mut out = vec![GARBAGE; n]; tl.tool.decrypt_scale_and_round(&input, &mut out); out });
    let two_q = tl.big_q.shl(1);
    let gh = bi(-(((tl.gamma - 1) / 2) as i64));
    let mut pre = vec![]; let mut want = vec![]; let mut rems = vec![];
    for x in xs {
        let tx = x.mul_u64(t);
        let rr = tx.shl(1).add(&tl.big_q).div(&two_q);
        let rem = to_i(&tx).sub(&to_i(&rr.mul(&tl.big_q)));
        let fl = rem.mul_u64(tl.gamma).divmod_floor(&tl.big_q).0;
        pre.push(fl.sub(&bi(k as i64 - 1)).cmp_i(&gh) != Ordering::Less);
        want.push(rr.rem_u64(t)); rems.push(rem);
    }
    let out = match r {
        Ok(o) => o,
        Err(p) => { if pre.iter().all(|&b| b) { cx.viol(rep, op, tl.kc(), "panic", format!("x={:?}: {}", dec(xs), p.0), tl.info(json!({"x": dec(xs)}))); } else { rep.out_of_precondition += n as u64; } return; }
    };
    for j in 0..n {
        // distance of |rem| from Q/2 in units of Q (log2), smallest at which exactness was asserted
        if !pre[j] { rep.out_of_precondition += 1; rep.count("B_scale_round_inside_gamma_margin", if out[j] == want[j] { "still_exact" } else { "off" }); continue; }
        if out[j] != want[j] {
            cx.viol(rep, op, tl.kc(), "value", format!("x={} : got {} expected round(t*x/Q) mod t = {} (t*x - R*Q = {}); tool {}", xs[j].to_dec(), out[j], want[j], rems[j].to_dec(), tl.desc), tl.info(json!({"x": xs[j].to_dec(), "coefficient": j})));
        }
        let dist = tl.big_q.sub(&rems[j].m.shl(1)); // Q - 2|rem| >= 1
        let lg = dist.bits() as f64 - tl.big_q.bits() as f64;
        rep.min(if rems[j].neg { "scale_and_round: log2(1 - 2|v|t/Q) closest to -Q/(2t) at which exact rounding was asserted (gamma margin side)" } else { "scale_and_round: log2(1 - 2|v|t/Q) closest to +Q/(2t) at which exact rounding was asserted" }, lg);
        rep.evals(1);
    }
    rep.count_n("B_routine_x_k", &format!("{} k={}", op, k), n as u64); rep.count_n("routine", op, n as u64);
    rep.count_n(&format!("B_inputs:{}", op), icls, n as u64);
}
/// inputs for (8): chosen (rem) targets solved for x, plus generic values
fn xs_scale_round(rng: &mut Rng, tl: &Tool, generic: &[BigU], want: usize) -> Vec<BigU> {
    let t = tl.t; let n = tl.n;
    let qinv_t = refm::invmod(tl.big_q.rem_u64(t), t).expect("gcd(Q,t)=1");
    let h = to_i(&tl.big_q.shr(1)); // (Q-1)/2
    let tq = to_i(&tl.big_q.mul_u64(t));
    let mut targets: Vec<BigI> = vec![bi(0), bi(1), bi(-1), h.clone(), h.neg(), h.sub(&bi(1)), h.neg().add(&bi(1))];
    // the exactness threshold: smallest rem with floor(gamma*rem/Q) >= k-1-(gamma-1)/2, and its neighbours
    let num = to_i(&tl.big_q).mul(&bi(2 * tl.k as i64 - 1).sub(&to_i(&bu(tl.gamma))));
    let thr = num.add(&to_i(&bu(2 * tl.gamma - 1))).divmod_floor(&bu(2 * tl.gamma)).0; // ceil
    for d in -2i64..=2 { targets.push(thr.add(&bi(d))); }
    for _ in 0..8 { let r = rand_below_big(rng, &tl.big_q.shr(1).add_u64(1)); targets.push(if rng.bool() { to_i(&r) } else { to_i(&r).neg() }); }
    let mut v = vec![];
    for rem in targets {
        if rem.m.cmp_u(&h.m) == Ordering::Greater { continue; }
        let rr = (t - refm::mulmod(rem.mod_u64(t), qinv_t, t)) % t;
        let mut num = to_i(&tl.big_q.mul_u64(rr)).add(&rem);
        if num.neg { num = num.add(&tq); }
        let (x, r0) = num.divmod_floor(&bu(t));
        assert!(r0.is_zero(), "oracle: scale_and_round target not solvable");
        if !x.neg && x.m.cmp_u(&tl.big_q) == Ordering::Less { v.push(x.m); }
    }
    for g in generic { if v.len() >= want { break; } v.push(g.clone()); }
    while v.len() % n != 0 { v.push(rand_below_big(rng, &tl.big_q)); }
    v
}

// ------------------------------------------------------------------ (9) decrypt_mod_t
/// spec: x in [0,Q): out = centred([x]_Q) mod t EXACTLY whenever |2x - Q| >= Q*2^-39, i.e. the centred value
/// is at least Q*2^-40 away from +-Q/2 (the quotient estimate is a double-precision sum of k <= 8 terms,
/// error < 2^-46).
fn chk_decrypt_mod_t(cx: &Cx, rep: &mut Report, tl: &Tool, xs: &[BigU], icls: &str) {
    let (n, k, t) = (tl.n, tl.k, tl.t);
    if t == 0 { return; }
    let op = "decrypt_mod_t";
    let input = layout_u(xs, &tl.qs);
    let r = lib(|| { let mut out = vec![GARBAGE; n]; tl.tool.decrypt_mod_t(&input, &mut out); out });
    let pre: Vec<bool> = xs.iter().map(|x| { let d = to_i(&x.shl(1)).sub(&to_i(&tl.big_q)); d.m.shl(39).cmp_u(&tl.big_q) != Ordering::Less }).collect();
    let out = match r {
        Ok(o) => o,
        Err(p) => { if pre.iter().all(|&b| b) { cx.viol(rep, op, tl.kc(), "panic", format!("x={:?}: {}", dec(xs), p.0), tl.info(json!({"x": dec(xs)}))); } else { rep.out_of_precondition += n as u64; } return; }
    };
    for j in 0..n {
        let xc = center(&xs[j], &tl.big_q);
        let want = xc.mod_u64(t);
        if !pre[j] { rep.out_of_precondition += 1; rep.count("B_decrypt_mod_t_inside_float_margin", if out[j] == want { "still_exact" } else { "other_representative" }); continue; }
        if out[j] != want {
            cx.viol(rep, op, tl.kc(), "value", format!("x={} (centred {}) : got {} expected {} (mod t={}); tool {}", xs[j].to_dec(), xc.to_dec(), out[j], want, t, tl.desc), tl.info(json!({"x": xs[j].to_dec(), "coefficient": j})));
        }
        rep.evals(1);
    }
    rep.count_n("B_routine_x_k", &format!("{} k={}", op, k), n as u64); rep.count_n("routine", op, n as u64);
    rep.count_n(&format!("B_inputs:{}", op), icls, n as u64);
}

// ------------------------------------------------------------------ the per-tool case
fn pad_i(rng: &mut Rng, v: &mut Vec<BigI>, n: usize, m: &BigU) { while v.len() % n != 0 { v.push(to_i(&rand_below_big(rng, m))); } }
fn pad_u(rng: &mut Rng, v: &mut Vec<BigU>, n: usize, m: &BigU) { while v.len() % n != 0 { v.push(rand_below_big(rng, m)); } }

fn b_sample(tl: &Tool, xs: &[BigU]) -> Value {
    let n = tl.n; let k = tl.k;
    let x = &xs[..n];
    let input = layout_u(x, &tl.qs);
    let r = lib(|| {
        let mut o = serde_json::Map::new();
        let mut mt = vec![0u64; (tl.kb + 2) * n]; tl.tool.fastbconv_m_tilde(&input, &mut mt);
        o.insert("fastbconv_m_tilde(x) [Bsk..,m_tilde]".into(), json!(column(&mt, n, tl.kb + 2, 0)));
        let mut sm = vec![0u64; (tl.kb + 1) * n]; tl.tool.sm_mrq(&mt, &mut sm);
        o.insert("sm_mrq(previous) [Bsk]".into(), json!(column(&sm, n, tl.kb + 1, 0)));
        if k >= 2 {
            let mut a = input.clone(); tl.tool.divide_and_round_q_last_inplace(&mut a);
            o.insert("divide_and_round_q_last_inplace(x) [q_1..q_{k-1}]".into(), json!(column(&a, n, k - 1, 0)));
            if tl.t != 0 { let mut a = input.clone(); tl.tool.mod_t_and_divide_q_last_inplace(&mut a); o.insert("mod_t_and_divide_q_last_inplace(x) [q_1..q_{k-1}]".into(), json!(column(&a, n, k - 1, 0))); }
        }
        if tl.t != 0 {
            let mut d = vec![0u64; n]; tl.tool.decrypt_scale_and_round(&input, &mut d); o.insert("decrypt_scale_and_round(x)".into(), json!(d[0]));
            let mut d = vec![0u64; n]; tl.tool.decrypt_mod_t(&input, &mut d); o.insert("decrypt_mod_t(x)".into(), json!(d[0]));
        }
        Value::Object(o)
    });
    let tx = x[0].mul_u64(tl.t.max(1));
    json!({"group": "B_tool", "tool": tl.desc, "x": x[0].to_dec(), "x mod q_i": column(&input, n, k, 0),
        "oracle": {"[2^32*x]_Q": x[0].shl(32).rem(&tl.big_q).to_dec(), "round(x/q_k)": if k >= 2 { x[0].add_u64(tl.qs[k - 1] >> 1).div(&bu(tl.qs[k - 1])).to_dec() } else { "-".into() },
                   "round(t*x/Q)": tx.shl(1).add(&tl.big_q).div(&tl.big_q.shl(1)).to_dec(), "centred(x)": center(&x[0], &tl.big_q).to_dec()},
        "observed": r.unwrap_or(json!("panicked"))})
}

fn b_case(cx: &Cx, rng: &mut Rng, rep: &mut Report) {
    let Some((n, qs, t, ntt_class, pname, order)) = gen_tool_params(rng) else { rep.out_of_precondition += 1; return };
    let Some(tl) = build_tool(cx, rep, n, &qs, t, ntt_class, pname, order) else { return };
    let k = tl.k;
    let nv = cx.cfg.pick(96, 192);
    let (xs, xcls) = xs_mod_q(rng, &tl, nv);
    let one = BigU::one();
    if cx.case < 4 { rep.sample(b_sample(&tl, &xs[xs.len() - n..])); }

    // (1) + (2) on the pipeline values
    let mut pipeline_vals: Vec<BigI> = vec![];
    for ch in xs.chunks(n) {
        if let Some((cs, raw)) = chk_m_tilde(cx, rep, &tl, ch, xcls) {
            if let Some((v, _)) = chk_sm_mrq(cx, rep, &tl, &cs, Some(&raw), "output_of_fastbconv_m_tilde") { if pipeline_vals.len() < 2 * n { pipeline_vals.extend(v); } }
        }
    }
    // (2) free-standing inputs: ties r = 2^31, multiples of m_tilde, [0,kQ), the whole range of Bsk x m_tilde
    {
        let full = tl.big_bsk.shl(32);
        let kq = tl.big_q.mul_u64(k as u64);
        let mut cs: Vec<BigU> = vec![BigU::zero(), one.clone(), bu(1 << 31), bu(MT), bu(MT - 1), full.sub(&one), tl.big_q.clone(), kq.sub(&one)];
        for _ in 0..4 { cs.push(rand_below_big(rng, &tl.big_q).shl(32).add_u64(1 << 31)); }
        for _ in 0..4 { cs.push(rand_below_big(rng, &tl.big_q).shl(32)); }
        for _ in 0..nv / 4 { cs.push(rand_below_big(rng, &kq)); }
        for _ in 0..nv / 4 { cs.push(rand_below_big(rng, &full)); }
        pad_u(rng, &mut cs, n, &full);
        for ch in cs.chunks(n) { chk_sm_mrq(cx, rep, &tl, ch, None, "free"); }
    }
    // (3) fast_floor
    {
        let full = tl.big_q.mul(&tl.big_bsk);
        let mut zs: Vec<BigI> = vec![bi(0), bi(1), bi(-1), to_i(&tl.big_q), to_i(&tl.big_q.sub(&one)), to_i(&tl.big_q.add(&one)), to_i(&tl.big_q).neg(), to_i(&tl.big_q.add(&one)).neg(), to_i(&full.sub(&one))];
        for _ in 0..6 { let m = rand_below_big(rng, &tl.big_bsk); let z = m.mul(&tl.big_q); zs.push(to_i(&z)); if !z.is_zero() { zs.push(to_i(&z.sub(&one))); } }
        // magnitudes of the multiplication pipeline: t * x1 * x2 with centred x
        for _ in 0..nv / 4 {
            let a = center(&rand_below_big(rng, &tl.big_q), &tl.big_q); let b = center(&rand_below_big(rng, &tl.big_q), &tl.big_q);
            zs.push(a.mul(&b).mul_u64(t.max(1)));
        }
        for _ in 0..nv / 4 { let z = rand_below_big(rng, &full); zs.push(if rng.bool() { to_i(&z) } else { center(&z, &full) }); }
        pad_i(rng, &mut zs, n, &full);
        for ch in zs.chunks(n) { chk_fast_floor(cx, rep, &tl, ch, None, "free"); }
    }
    // (4) fastbconv_sk
    {
        let h = (tl.msk - 1) / 2;
        let big_b = &tl.big_b;
        let mk = |lambda: &BigI, rho: &BigU| lambda.mul(&to_i(big_b)).add(&to_i(rho));
        let lo = bi(tl.kb as i64 - 1).sub(&to_i(&bu(h))); let hi = to_i(&bu(h));
        let mut ws: Vec<BigI> = vec![bi(0), bi(1), bi(-1), to_i(&big_b.sub(&one)), to_i(big_b), to_i(big_b).neg(), to_i(&big_b.shr(1)), to_i(&big_b.shr(1)).neg()];
        for lam in [hi.clone(), hi.sub(&bi(1)), lo.clone(), lo.add(&bi(1)), hi.add(&bi(1)), lo.sub(&bi(1)), lo.sub(&bi(tl.kb as i64)), bi(0), bi(-1)] {
            for rho in [BigU::zero(), big_b.sub(&one), rand_below_big(rng, big_b), rand_below_big(rng, big_b)] { ws.push(mk(&lam, &rho)); }
        }
        // results of the multiplication pipeline: about t*Q/4 in size
        for _ in 0..nv / 4 {
            let a = center(&rand_below_big(rng, &tl.big_q), &tl.big_q); let b = center(&rand_below_big(rng, &tl.big_q), &tl.big_q);
            ws.push(a.mul(&b).mul_u64(t.max(1)).divmod_floor(&tl.big_q).0);
        }
        for _ in 0..nv / 4 {
            let lam = to_i(&bu(rng.below(h + 1))); let lam = if rng.bool() { lam } else { lam.neg().add(&bi(tl.kb as i64)) };
            ws.push(mk(&lam, &rand_below_big(rng, big_b)));
        }
        while ws.len() % n != 0 { ws.push(to_i(&rand_below_big(rng, big_b))); }
        for ch in ws.chunks(n) { chk_sk(cx, rep, &tl, ch, None, "free"); }
    }
    // (5) composition
    if t != 0 {
        let mut a: Vec<BigI> = xs.iter().map(|x| center(x, &tl.big_q)).collect();
        let mut b = a.clone(); rng.shuffle(&mut b);
        // extremes against extremes
        let h = to_i(&tl.big_q.shr(1));
        for (u, v) in [(h.clone(), h.clone()), (h.neg(), h.clone()), (h.neg(), h.neg()), (h.clone(), h.neg()), (bi(0), h.clone()), (h.neg(), bi(1))] { a.push(u); b.push(v); }
        let cap = (nv * 2).max(n);
        if a.len() > cap { a.truncate(cap / n * n); b.truncate(cap / n * n); }
        while a.len() % n != 0 { a.push(center(&rand_below_big(rng, &tl.big_q), &tl.big_q)); b.push(center(&rand_below_big(rng, &tl.big_q), &tl.big_q)); }
        for (ca, cb) in a.chunks(n).zip(b.chunks(n)) { chk_composed(cx, rep, &tl, ca, cb, xcls); }
    }
    // (6), (7)
    if k >= 2 {
        let qk = tl.qs[k - 1];
        let mut ys = xs.clone();
        // rounding boundaries m*q_k + floor(q_k/2) + {-1,0,1}
        let cof = tl.big_q.div(&bu(qk));
        for _ in 0..4 { let m = rand_below_big(rng, &cof); for d in 0..3u64 { let v = m.mul_u64(qk).add_u64((qk >> 1) + d); if v.cmp_u(&bu(0)) != Ordering::Less && v.cmp_u(&tl.big_q) == Ordering::Less && !(v.is_zero()) { ys.push(v.sub(&one)); } } }
        pad_u(rng, &mut ys, n, &tl.big_q);
        let crt1 = Crt::new(&tl.qs[..k - 1]).expect("coprime");
        for ch in ys.chunks(n) { chk_div_round(cx, rep, &tl, ch, xcls); chk_mod_t_div(cx, rep, &tl, &crt1, ch, xcls); }
    }
    // (8), (9)
    if t != 0 {
        let v = xs_scale_round(rng, &tl, &xs, xs.len());
        for ch in v.chunks(n) { chk_scale_round(cx, rep, &tl, ch, "rounding_boundaries+generic"); }
        let mut v = xs.clone();
        let h = tl.big_q.shr(1);
        let margin = tl.big_q.shr(40).add_u64(1);
        for d in [margin.clone(), margin.add_u64(1), margin.shr(1), BigU::zero(), one.clone()] {
            if h.cmp_u(&d) == Ordering::Greater { v.push(h.sub(&d)); v.push(h.add_u64(1).add(&d)); }
        }
        pad_u(rng, &mut v, n, &tl.big_q);
        for ch in v.chunks(n) { chk_decrypt_mod_t(cx, rep, &tl, ch, "centring_boundaries+generic"); }
    }
    rep.distinct_key(&format!("B-N{}-k{}-{:?}-t{}-{}-{}", n, k, tl.qs.iter().map(|&m| refm::bit_len(m)).collect::<Vec<_>>(), refm::bit_len(t), order, ntt_class));
    let _ = (&pipeline_vals, tl.logn);
}

// ------------------------------------------------------------------ entry
pub fn run(cfg: &Cfg, rep: &mut Report) -> PropMeta {
    let fam = exhaustive_family();
    run_cases(cfg, "A_exhaustive", fam.len() as u64, rep, |i, _rng, rep| {
        let (qs, order) = &fam[i as usize];
        a_exhaustive_case(&Cx { cfg, grp: "A_exhaustive", case: i }, rep, qs, order);
    });
    let n_a = cfg.n(6_000, 100_000) as u64;
    run_cases(cfg, "A_sampled", n_a, rep, |i, rng, rep| a_big_case(&Cx { cfg, grp: "A_sampled", case: i }, rng, rep));
    let n_b = cfg.n(5_000, 60_000) as u64;
    run_cases(cfg, "B_tool", n_b, rep, |i, rng, rep| b_case(&Cx { cfg, grp: "B_tool", case: i }, rng, rep));
    rep.note("BaseConverter is a private type: fast_convert_array is exercised through fastbconv_m_tilde/fast_floor/fastbconv_sk/decrypt_scale_and_round and exact_convey_array through decrypt_mod_t, not called directly");
    rep.note("A_exhaustive enumerates completely: every pairwise-coprime subset of {2,3,4,5,7,9,11,13} with product <= 2^16 in ascending, descending and a mixed order x every integer below the product x every residue vector");
    PropMeta {
        id: "C10", level: "exploration",
        rule: "A_exhaustive: all pairwise-coprime subsets of {2,3,4,5,7,9,11,13} with product <= 2^16 (3 orders) x all integers below the product and all residue vectors (complete). A_sampled: random bases of 1..8 moduli of 2..61 bits (primes, composites, 2^b, 2^b-1; asc/desc/mixed) x {0,1,Q-1,floor/ceil(Q/2), m*q_i and +-1, 2^64j and +-1, random, random residue vectors}; all values when Q < 2^12. B_tool: RNSTool::new(N=2..64, q of 1..8 moduli of <=60 bits (NTT primes or odd coprime), t = 0 or 2..60 bits coprime to q and < Q) x every routine on integers chosen first (all x < Q when Q < 2^12, else boundary + random, routine-specific boundary values). evaluations = integer inputs whose output was asserted; distinct = distinct bases (moduli bit sizes, order, N, t size)",
        assumptions: vec![
            "harness BigU/BigI (cross-checked against Python integers by `hv selftest`) and rustc u128 arithmetic".into(),
            "refm::ntt_ref/intt_ref (the documented evaluation map) with the root stored in the library's NTTTables, verified to be a primitive 2N-th root".into(),
            "fastbconv_sk is asserted for floor(w/prod(B)) in [|B|-1-(m_sk-1)/2, (m_sk-1)/2]; decrypt_scale_and_round for floor(gamma*(t*x-R*Q)/Q) >= k-1-(gamma-1)/2 (noise below Q/(2t)*(1-2k/gamma)); decrypt_mod_t for centred |x| <= Q/2*(1-2^-39); mod_t_and_divide for 2*t*q_k < Q; inputs outside are executed and counted as out_of_precondition".into(),
            "sm_mrq: at the tie -c''/Q = 2^31 (mod 2^32) both signs of the Montgomery correction are accepted".into(),
            "RNSTool base q: odd pairwise-coprime moduli <= 60 bits (NTT-form routines only with primes = 1 mod 2N), as a context supplies them".into(),
        ],
        exhaustive: false, floor: 20_000,
    }
}
