//! C10 — RNS base tools meet their integer specifications.
//!
//! Workload A: `RNSBase` decompose/compose (+ `_array` variants and their transposed layouts)
//! against the definition of CRT (native integers for the exhaustive small bases, `BigU`
//! otherwise). Workload B: `RNSTool`, built through its public constructor exactly as a
//! context builds it, every routine against its integer specification in exact arithmetic,
//! *with* its documented error term (see `spec:` comments at each check).
//!
//! `BaseConverter` is a private type; `fast_convert_array` is reached through
//! fastbconv_m_tilde / fast_floor / fastbconv_sk / decrypt_scale_and_round, and
//! `exact_convey_array` through decrypt_mod_t.

use crate::big::{centered, BigI, BigU};
use crate::refm::{self, Crt};
use crate::rt::*;
use heathcliff::util::{NTTTables, RNSBase, RNSTool};
use heathcliff::Modulus;
use serde_json::{json, Value};
use std::cmp::Ordering;

const P: &str = "C10";
const MT: u64 = 1u64 << 32; // m_tilde

// ------------------------------------------------------------------ small helpers
struct Cx<'a> { cfg: &'a Cfg, grp: &'a str, case: u64 }
impl<'a> Cx<'a> {
    fn viol(&self, rep: &mut Report, op: &str, class: &str, kind: &str, detail: String, info: Value) {
        rep.violation(&format!("{}|{}|{}|{}", P, op, class, kind), format!("{}: {}", op, detail), replay_json(self.cfg, self.grp, self.case, info));
    }
}
fn bu(x: u64) -> BigU { BigU::from_u64(x) }
fn to_i(x: &BigU) -> BigI { BigI::from_u(x.clone()) }
fn bi(x: i64) -> BigI { BigI::from_i64(x) }
fn dec(v: &[BigU]) -> Vec<String> { v.iter().map(|x| x.to_dec()).collect() }
fn deci(v: &[BigI]) -> Vec<String> { v.iter().map(|x| x.to_dec()).collect() }
fn kcls(k: usize) -> &'static str { if k == 1 { "k=1" } else { "k>=2" } }

/// uniform in [0, m) by rejection (no division)
fn rand_below_big(rng: &mut Rng, m: &BigU) -> BigU {
    if m.is_zero() { return BigU::zero(); }
    let bits = m.bits();
    let words = (bits + 63) / 64;
    loop {
        let mut v: Vec<u64> = (0..words).map(|_| rng.u64()).collect();
        let top = bits % 64;
        if top != 0 { v[words - 1] &= (1u64 << top) - 1; }
        let x = BigU::from_limbs(&v);
        if x.cmp_u(m) == Ordering::Less { return x; }
    }
}
/// component-major layout: out[i*n + j] = vals[j] mod moduli[i]
fn layout_u(vals: &[BigU], moduli: &[u64]) -> Vec<u64> {
    let n = vals.len();
    let mut out = vec![0u64; n * moduli.len()];
    for (i, &m) in moduli.iter().enumerate() { for j in 0..n { out[i * n + j] = vals[j].rem_u64(m); } }
    out
}
fn layout_i(vals: &[BigI], moduli: &[u64]) -> Vec<u64> {
    let n = vals.len();
    let mut out = vec![0u64; n * moduli.len()];
    for (i, &m) in moduli.iter().enumerate() { for j in 0..n { out[i * n + j] = vals[j].mod_u64(m); } }
    out
}
fn column(data: &[u64], n: usize, comps: usize, j: usize) -> Vec<u64> { (0..comps).map(|i| data[i * n + j]).collect() }

/// find a in [0,k) with obs[i] == (base[i] +/- a*step[i]) mod ms[i] for every i
fn find_offset(obs: &[u64], ms: &[u64], base: &[u64], step: &[u64], k: usize, neg: bool) -> Option<usize> {
    'a: for a in 0..k {
        for i in 0..ms.len() {
            let m = ms[i] as u128;
            let s = (a as u128 * (step[i] as u128 % m)) % m;
            let want = if neg { (base[i] as u128 % m + m - s) % m } else { (base[i] as u128 % m + s) % m };
            if obs[i] as u128 != want { continue 'a; }
        }
        return Some(a);
    }
    None
}
fn pairwise_coprime_with(v: u64, others: &[u64]) -> bool { others.iter().all(|&o| refm::gcd(v, o) == 1) }

fn make_base(cx: &Cx, rep: &mut Report, qs: &[u64], class: &str) -> Option<RNSBase> {
    let r = lib(|| { let ms: Vec<Modulus> = qs.iter().map(|&q| Modulus::new(q)).collect(); RNSBase::new(&ms) });
    match r {
        Ok(Ok(b)) => Some(b),
        Ok(Err(e)) => { cx.viol(rep, "RNSBase::new", class, "refused", format!("pairwise coprime base {:?} refused: {}", qs, e), json!({"moduli": qs})); None }
        Err(p) => { cx.viol(rep, "RNSBase::new", class, "panic", format!("base {:?}: {}", qs, p.0), json!({"moduli": qs})); None }
    }
}

/// spec: base_prod = Q, punctured_prod[i] = Q/q_i, inv_punctured_prod_mod_base[i] = (Q/q_i)^-1 mod q_i
fn check_initialize(cx: &Cx, rep: &mut Report, base: &RNSBase, qs: &[u64], big_q: &BigU, class: &str) {
    let k = qs.len();
    rep.count("routine", "RNSBase::initialize");
    let info = json!({"moduli": qs});
    if base.base_prod() != &big_q.to_limbs(k)[..] {
        cx.viol(rep, "RNSBase::initialize", class, "value", format!("base_prod {:?} != product {} of {:?}", base.base_prod(), big_q.to_dec(), qs), info.clone());
    }
    for i in 0..k {
        let p = big_q.div(&bu(qs[i]));
        let got = BigU::from_limbs(&base.punctured_prod()[i]);
        if got != p { cx.viol(rep, "RNSBase::initialize", class, "value", format!("punctured_prod[{}] = {} expected {} for {:?}", i, got.to_dec(), p.to_dec(), qs), info.clone()); }
        let inv = refm::invmod(p.rem_u64(qs[i]), qs[i]).expect("coprime");
        let op = &base.inv_punctured_prod_mod_base()[i];
        let want_quot = (((inv as u128) << 64) / qs[i] as u128) as u64;
        if op.operand != inv || op.quotient != want_quot {
            cx.viol(rep, "RNSBase::initialize", class, "value", format!("inv_punctured_prod[{}] = ({},{}) expected ({},{}) for {:?}", i, op.operand, op.quotient, inv, want_quot, qs), info.clone());
        }
    }
}

// ================================================================== Workload A
/// every pairwise-coprime subset of {2,3,4,5,7,9,11,13} with product <= 2^16, in ascending,
/// descending and one mixed order
fn exhaustive_family() -> Vec<(Vec<u64>, &'static str)> {
    let s = [2u64, 3, 4, 5, 7, 9, 11, 13];
    let mut fam: Vec<(Vec<u64>, &'static str)> = vec![];
    for mask in 1u32..256 {
        let sub: Vec<u64> = (0..8).filter(|b| mask >> b & 1 == 1).map(|b| s[b]).collect();
        let mut ok = true;
        for a in 0..sub.len() { for b in 0..a { if refm::gcd(sub[a], sub[b]) != 1 { ok = false; } } }
        let prod: u64 = sub.iter().product();
        if !ok || prod > 1 << 16 { continue; }
        fam.push((sub.clone(), "asc"));
        if sub.len() >= 2 { let mut d = sub.clone(); d.reverse(); fam.push((d, "desc")); }
        if sub.len() >= 3 {
            // mixed: middle-out interleave
            let mut m = vec![]; let (mut lo, mut hi) = (0usize, sub.len() - 1);
            let mut flip = true;
            while lo <= hi { if flip { m.push(sub[hi]); if hi == 0 { break; } hi -= 1; } else { m.push(sub[lo]); lo += 1; } flip = !flip; }
            m.rotate_left(1);
            fam.push((m, "mixed"));
        }
    }
    fam
}

fn a_exhaustive_case(cx: &Cx, rep: &mut Report, qs: &[u64], order: &str) {
    let k = qs.len();
    let q: u64 = qs.iter().product();
    let class = &format!("{},exhaustive", kcls(k));
    let Some(base) = make_base(cx, rep, qs, class) else { return };
    check_initialize(cx, rep, &base, qs, &bu(q), class);
    rep.count("A_base_size", &format!("{}", k));
    rep.count("A_order", order);
    for &m in qs { rep.count("A_modulus_bits", &format!("{:02}", refm::bit_len(m))); }
    let info = json!({"moduli": qs});
    let progress = std::cell::Cell::new(0u64);
    // ---- (1) every integer below the product: decompose == residues, compose(residues) == x
    let r = lib(|| {
        let mut bad: Vec<(String, String)> = vec![];
        for x in 0..q {
            progress.set(x);
            let mut v = vec![0u64; k]; v[0] = x;
            base.decompose(&mut v);
            let want: Vec<u64> = qs.iter().map(|&m| x % m).collect();
            if v != want && bad.len() < 3 { bad.push(("decompose".into(), format!("decompose({}) = {:?}, expected {:?}, base {:?}", x, v, want, qs))); }
            let mut w = want.clone();
            base.compose(&mut w);
            let mut wx = vec![0u64; k]; wx[0] = x;
            if w != wx && bad.len() < 3 { bad.push(("compose".into(), format!("compose({:?}) = {:?}, expected {}, base {:?}", want, w, x, qs))); }
        }
        bad
    });
    match r {
        Ok(bad) => for (op, d) in bad { cx.viol(rep, &format!("RNSBase::{}", op), class, "value", d, info.clone()); },
        Err(p) => cx.viol(rep, "RNSBase::decompose/compose", class, "panic", format!("x={} base {:?}: {}", progress.get(), qs, p.0), info.clone()),
    }
    // ---- (2) every residue vector (odometer): compose gives the unique y < Q with y mod q_i = r_i; decompose inverts it
    let r = lib(|| {
        let mut bad: Vec<String> = vec![];
        let mut r = vec![0u64; k];
        let mut seen = 0u64;
        loop {
            seen += 1;
            let mut y = r.clone();
            base.compose(&mut y);
            let hi_zero = y[1..].iter().all(|&w| w == 0);
            let okc = hi_zero && y[0] < q && (0..k).all(|i| y[0] % qs[i] == r[i]);
            if !okc && bad.len() < 3 { bad.push(format!("compose({:?}) = {:?} is not the CRT solution, base {:?}", r, y, qs)); }
            let mut back = y.clone();
            base.decompose(&mut back);
            if okc && back != r && bad.len() < 3 { bad.push(format!("decompose(compose({:?})) = {:?}, base {:?}", r, back, qs)); }
            // next vector
            let mut i = 0;
            loop { if i == k { return (bad, seen); } r[i] += 1; if r[i] < qs[i] { break; } r[i] = 0; i += 1; }
        }
    });
    match r {
        Ok((bad, seen)) => { if seen != q { rep.harness_errors.push(format!("odometer count {} != {}", seen, q)); } for d in bad { cx.viol(rep, "RNSBase::compose", class, "value", d, info.clone()); } }
        Err(p) => cx.viol(rep, "RNSBase::compose", class, "panic", format!("residue enumeration, base {:?}: {}", qs, p.0), info.clone()),
    }
    // ---- (3) array variants over all values at once (value-major in, component-major out) and back;
    //          plus a short reversed batch so that count != anything special
    for pass in 0..2 {
        let vals: Vec<u64> = if pass == 0 { (0..q).collect() } else { (0..q.min(7)).rev().collect() };
        let count = vals.len();
        let mut arr = vec![0u64; count * k];
        for (j, &x) in vals.iter().enumerate() { arr[j * k] = x; }
        let orig = arr.clone();
        let mut want = vec![0u64; count * k];
        for i in 0..k { for j in 0..count { want[i * count + j] = vals[j] % qs[i]; } }
        match lib(|| { let mut a = arr.clone(); base.decompose_array(&mut a); a }) {
            Ok(a) => if a != want {
                let pos = (0..a.len()).find(|&p| a[p] != want[p]).unwrap();
                cx.viol(rep, "RNSBase::decompose_array", class, "value", format!("count={} first mismatch at index {} (component {}, value index {}): got {} expected {}, base {:?}", count, pos, pos / count, pos % count, a[pos], want[pos], qs), info.clone());
            },
            Err(p) => cx.viol(rep, "RNSBase::decompose_array", class, "panic", format!("count={} base {:?}: {}", count, qs, p.0), info.clone()),
        }
        match lib(|| { let mut a = want.clone(); base.compose_array(&mut a); a }) {
            Ok(a) => if a != orig {
                let pos = (0..a.len()).find(|&p| a[p] != orig[p]).unwrap();
                cx.viol(rep, "RNSBase::compose_array", class, "value", format!("count={} first mismatch at word {} (value index {}): got {} expected {}, base {:?}", count, pos, pos / k, a[pos], orig[pos], qs), info.clone());
            },
            Err(p) => cx.viol(rep, "RNSBase::compose_array", class, "panic", format!("count={} base {:?}: {}", count, qs, p.0), info.clone()),
        }
        arr.clear();
    }
    for op in ["RNSBase::decompose", "RNSBase::compose", "RNSBase::decompose_array", "RNSBase::compose_array"] { rep.count_n("routine", op, q); }
    rep.count_n("A_values", "exhaustive", q);
    rep.evals(q);
    rep.distinct_key(&format!("A-exh-{:?}", qs));
    if cx.case == 40 {
        let x = q - 1;
        rep.sample(json!({"group": cx.grp, "moduli": qs, "product": q, "exhaustive": true, "example_x": x,
            "decompose(x)": qs.iter().map(|&m| x % m).collect::<Vec<_>>(), "compose(decompose(x))": x}));
    }
}

fn gen_modulus(rng: &mut Rng, bits: u32, have: &[u64]) -> Option<(u64, &'static str)> {
    let top = 1u64 << (bits - 1);
    for _ in 0..200 {
        let kind = rng.below(10);
        let (v, name) = match kind {
            0..=3 => { // prime
                let mut v = (rng.bits(bits) | top | 1).max(2);
                if bits == 2 { v = *rng.pick(&[2u64, 3]); }
                let mut guard = 0;
                while !refm::is_prime(v) && guard < 5000 { v += if v == 2 { 1 } else { 2 }; guard += 1; }
                if v >> bits != 0 || !refm::is_prime(v) { continue; }
                (v, "prime")
            }
            4 => (top.max(2), "pow2"),
            5 => (((1u64 << bits) - 1).max(2), "2^b-1"),
            _ => ((rng.bits(bits) | top).max(2), "random"),
        };
        if refm::bit_len(v) as u32 != bits { continue; }
        if pairwise_coprime_with(v, have) { return Some((v, if name == "random" && refm::is_prime(v) { "prime" } else if name == "random" { "composite" } else { name })); }
    }
    None
}

fn a_boundary_values(rng: &mut Rng, qs: &[u64], big_q: &BigU) -> Vec<(BigU, &'static str)> {
    let mut out: Vec<(BigU, &'static str)> = vec![];
    let one = BigU::one();
    let mut push = |v: BigU, c: &'static str, out: &mut Vec<(BigU, &'static str)>| { if v.cmp_u(big_q) == Ordering::Less { out.push((v, c)); } };
    push(BigU::zero(), "0", &mut out);
    push(one.clone(), "1", &mut out);
    push(big_q.sub(&one), "Q-1", &mut out);
    push(big_q.shr(1), "floor(Q/2)", &mut out);
    push(big_q.add(&one).shr(1), "ceil(Q/2)", &mut out);
    for &q in qs {
        let cof = big_q.div(&bu(q)); // Q / q_i
        let mut ms = vec![one.clone()];
        if cof.cmp_u(&one) == Ordering::Greater { ms.push(cof.sub(&one)); ms.push(rand_below_big(rng, &cof)); }
        for m in ms {
            if m.is_zero() { continue; }
            let v = m.mul_u64(q);
            push(v.add(&one), "m*qi+1", &mut out);
            push(v.sub(&one), "m*qi-1", &mut out);
            push(v, "m*qi", &mut out);
        }
    }
    for w in 1..qs.len() {
        let p = BigU::pow2(64 * w);
        push(p.sub(&one), "2^64j-1", &mut out);
        push(p.add(&one), "2^64j+1", &mut out);
        push(p, "2^64j", &mut out);
    }
    out
}

fn a_big_case(cx: &Cx, rng: &mut Rng, rep: &mut Report) {
    let k = rng.range(1, 8) as usize;
    // bit profile
    let profile = rng.below(5);
    let mut qs: Vec<u64> = vec![];
    let mut kinds: Vec<&'static str> = vec![];
    for _ in 0..k {
        let bits = match profile { 0 => rng.range(2, 61), 1 => rng.range(50, 61), 2 => 61, 3 => rng.range(2, 20), _ => *rng.pick(&[2u64, 3, 31, 32, 33, 59, 60, 61]) } as u32;
        let mut got = gen_modulus(rng, bits, &qs);
        let mut tries = 0;
        while got.is_none() && tries < 50 { got = gen_modulus(rng, rng.range(2, 61) as u32, &qs); tries += 1; }
        let Some((v, kind)) = got else { break };
        qs.push(v); kinds.push(kind);
    }
    if qs.is_empty() { rep.out_of_precondition += 1; return; }
    let k = qs.len();
    let order = match rng.below(3) {
        0 => { let mut idx: Vec<usize> = (0..k).collect(); idx.sort_by_key(|&i| qs[i]); qs = idx.iter().map(|&i| qs[i]).collect(); kinds = idx.iter().map(|&i| kinds[i]).collect(); "asc" }
        1 => { let mut idx: Vec<usize> = (0..k).collect(); idx.sort_by_key(|&i| std::cmp::Reverse(qs[i])); qs = idx.iter().map(|&i| qs[i]).collect(); kinds = idx.iter().map(|&i| kinds[i]).collect(); "desc" }
        _ => "mixed",
    };
    let class = &format!("{},sampled", kcls(k));
    let Some(base) = make_base(cx, rep, &qs, class) else { return };
    let crt = Crt::new(&qs).expect("pairwise coprime");
    let big_q = crt.big_q.clone();
    check_initialize(cx, rep, &base, &qs, &big_q, class);
    rep.count("A_base_size", &format!("{}", k));
    rep.count("A_order", order);
    for (i, &m) in qs.iter().enumerate() { rep.count("A_modulus_bits", &format!("{:02}", refm::bit_len(m))); rep.count("A_modulus_kind", kinds[i]); }
    let info = json!({"moduli": qs});
    let mut vals = a_boundary_values(rng, &qs, &big_q);
    let n_rand = cx.cfg.pick(48, 96);
    for _ in 0..n_rand { vals.push((rand_below_big(rng, &big_q), "random")); }
    // small products: everything
    if big_q.bits() <= 12 { let q = big_q.low_u64(); vals = (0..q).map(|x| (bu(x), "all")).collect(); }
    // ---- single-value API
    let mut residues: Vec<Vec<u64>> = vec![];
    for (x, vc) in &vals {
        let words = x.to_limbs(k);
        let want: Vec<u64> = qs.iter().map(|&m| x.rem_u64(m)).collect();
        match lib(|| { let mut v = words.clone(); base.decompose(&mut v); v }) {
            Ok(v) => if v != want { cx.viol(rep, "RNSBase::decompose", class, "value", format!("decompose({}) = {:?}, expected {:?}, base {:?}", x.to_dec(), v, want, qs), info.clone()); },
            Err(p) => cx.viol(rep, "RNSBase::decompose", class, "panic", format!("x={} base {:?}: {}", x.to_dec(), qs, p.0), info.clone()),
        }
        match lib(|| { let mut v = want.clone(); base.compose(&mut v); v }) {
            Ok(v) => if v != words { cx.viol(rep, "RNSBase::compose", class, "value", format!("compose({:?}) = {} expected {}, base {:?}", want, BigU::from_limbs(&v).to_dec(), x.to_dec(), qs), info.clone()); },
            Err(p) => cx.viol(rep, "RNSBase::compose", class, "panic", format!("residues {:?} base {:?}: {}", want, qs, p.0), info.clone()),
        }
        rep.count("A_values", vc);
        residues.push(want);
    }
    // ---- independent residue vectors: compose -> unique y < Q with the residues; decompose inverts
    for _ in 0..cx.cfg.pick(24, 48) {
        let r: Vec<u64> = qs.iter().map(|&m| match rng.below(6) { 0 => 0, 1 => m - 1, _ => rng.below(m) }).collect();
        let want = crt.compose(&r);
        match lib(|| { let mut v = r.clone(); base.compose(&mut v); let y = v.clone(); base.decompose(&mut v); (y, v) }) {
            Ok((y, back)) => {
                let by = BigU::from_limbs(&y);
                let def_ok = by.cmp_u(&big_q) == Ordering::Less && (0..k).all(|i| by.rem_u64(qs[i]) == r[i]);
                if !def_ok || by != want { cx.viol(rep, "RNSBase::compose", class, "value", format!("compose({:?}) = {} expected {}, base {:?}", r, by.to_dec(), want.to_dec(), qs), info.clone()); }
                else if back != r { cx.viol(rep, "RNSBase::decompose", class, "value", format!("decompose(compose({:?})) = {:?}, base {:?}", r, back, qs), info.clone()); }
            }
            Err(p) => cx.viol(rep, "RNSBase::compose", class, "panic", format!("residues {:?} base {:?}: {}", r, qs, p.0), info.clone()),
        }
        rep.count("A_values", "random_residue_vector");
    }
    // ---- array API: all values in one batch and a few odd batch sizes
    let total = vals.len();
    let mut batches: Vec<(usize, usize)> = vec![(0, total)];
    for &c in &[1usize, 2, 3, k, k + 1] { if c <= total { let s = rng.usize_below(total - c + 1); batches.push((s, c)); } }
    for (s, count) in batches {
        let mut arr = vec![0u64; count * k];
        let mut want = vec![0u64; count * k];
        for j in 0..count { arr[j * k..(j + 1) * k].copy_from_slice(&vals[s + j].0.to_limbs(k)); for i in 0..k { want[i * count + j] = residues[s + j][i]; } }
        match lib(|| { let mut a = arr.clone(); base.decompose_array(&mut a); a }) {
            Ok(a) => if a != want {
                let pos = (0..a.len()).find(|&p| a[p] != want[p]).unwrap();
                cx.viol(rep, "RNSBase::decompose_array", class, "value", format!("count={} mismatch at index {} (component {}, value {} = {}): got {} expected {}, base {:?}", count, pos, pos / count, pos % count, vals[s + pos % count].0.to_dec(), a[pos], want[pos], qs), info.clone());
            },
            Err(p) => cx.viol(rep, "RNSBase::decompose_array", class, "panic", format!("count={} base {:?}: {}", count, qs, p.0), info.clone()),
        }
        match lib(|| { let mut a = want.clone(); base.compose_array(&mut a); a }) {
            Ok(a) => if a != arr {
                let pos = (0..a.len()).find(|&p| a[p] != arr[p]).unwrap();
                cx.viol(rep, "RNSBase::compose_array", class, "value", format!("count={} mismatch at word {} (value {} = {}): got {} expected {}, base {:?}", count, pos, pos / k, vals[s + pos / k].0.to_dec(), a[pos], arr[pos], qs), info.clone());
            },
            Err(p) => cx.viol(rep, "RNSBase::compose_array", class, "panic", format!("count={} base {:?}: {}", count, qs, p.0), info.clone()),
        }
        rep.count_n("routine", "RNSBase::decompose_array", count as u64);
        rep.count_n("routine", "RNSBase::compose_array", count as u64);
    }
    rep.count_n("routine", "RNSBase::decompose", total as u64);
    rep.count_n("routine", "RNSBase::compose", total as u64);
    rep.evals(total as u64);
    let bits: Vec<usize> = qs.iter().map(|&m| refm::bit_len(m)).collect();
    rep.distinct_key(&format!("A-big-k{}-{}-{:?}", k, order, bits));
    if cx.case == 0 {
        let (x, _) = &vals[vals.len() - 1];
        rep.sample(json!({"group": cx.grp, "moduli": qs, "product": big_q.to_dec(), "x": x.to_dec(), "decompose(x)": residues[vals.len() - 1],
            "compose(decompose(x))": x.to_dec(), "values_checked": total}));
    }
}

include!("c10_b.inc");
