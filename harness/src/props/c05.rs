//! C05 — moving down the modulus chain terminates, hits the target, keeps the message.
//! Every (source level, target level) pair of every chain of length 1..6, ciphertext sizes
//! 2..4, three schemes, every API form. Termination is decided by a watchdog (bounded
//! progress); message preservation by the library decryptor and the oracle decryptor.

use crate::he::*;
use crate::prog::*;
use crate::props::c01::gen_plain;
use crate::props::c06::same_ct;
use crate::refm;
use crate::rt::*;
use heathcliff::*;
use serde_json::json;
use std::sync::atomic::{AtomicBool, Ordering};
use std::sync::mpsc;
use std::sync::Arc;
use std::time::Duration;

const P: &str = "C05";
static HANG_SEEN: AtomicBool = AtomicBool::new(false);

#[derive(Debug)]
pub enum Outcome<T> { Done(T), Refused(String), Hang }

/// run `f` on a worker thread with a deadline; a call that does not return is reported as Hang
/// (the thread is abandoned; the process exits at the end of the run)
pub fn watchdog<T: Send + 'static>(deadline: Duration, f: impl FnOnce() -> T + Send + 'static) -> Outcome<T> {
    let (tx, rx) = mpsc::channel();
    std::thread::spawn(move || { let r = lib(f); let _ = tx.send(r); });
    match rx.recv_timeout(deadline) {
        Ok(Ok(v)) => Outcome::Done(v),
        Ok(Err(p)) => Outcome::Refused(p.0),
        Err(_) => Outcome::Hang,
    }
}

struct Obs<'a> { cfg: &'a Cfg, grp: &'a str, case: u64, spec: &'a Spec }
fn viol(o: &Obs, rep: &mut Report, op: &str, class: &str, kind: &str, detail: String) {
    rep.violation(&format!("{}|{}|{}|{}", P, op, class, kind), format!("{} ; params {}", detail, o.spec.describe()), replay_json(o.cfg, o.grp, o.case, json!({"params": o.spec.describe(), "op": op, "class": class})));
}

fn chain_spec(rng: &mut Rng, scheme: SchemeType, levels: usize, special_flag: bool, ns: &[usize]) -> Option<Spec> {
    let n = *rng.pick(ns);
    let k = if special_flag || levels == 1 && rng.bool() { levels } else { levels + 1 };
    let bits: Vec<u32> = (0..k).map(|_| if scheme == SchemeType::CKKS && rng.bool() { rng.range(40, 52) as u32 } else { rng.range(48, 60) as u32 }).collect();
    let qs = coeff_primes(n, &bits, rng)?;
    let t = if scheme == SchemeType::CKKS { 0 } else { *rng.pick(&[2u64, 3, 16, 17, 97, 257]) };
    if t != 0 && qs.iter().any(|&q| refm::gcd(q, t) != 1) { return None; }
    Some(Spec { scheme, n, qs, t, special_flag: special_flag && k > 1, expand: true, family: format!("chain{}", levels) })
}

const API_CT: [&str; 3] = ["inplace", "dest", "new"];

fn deadline(cfg: &Cfg) -> Duration { Duration::from_secs(cfg.pick(10, 20)) }

/// BFV / BGV
fn exact_case(cfg: &Cfg, grp: &str, case: u64, rng: &mut Rng, rep: &mut Report, scheme: SchemeType, levels: usize, ns: &[usize]) {
    let sf = rng.chance(1, 4);
    let Some(spec) = chain_spec(rng, scheme, levels, sf, ns) else { return };
    let Ok(kit) = Kit::new(&spec) else { rep.count("generator", "rejected"); return; };
    if kit.levels.len() != levels { rep.count("generator", "chain_length_differs"); }
    let kit = Arc::new(kit);
    let o = Obs { cfg, grp, case, spec: &spec };
    let nl = kit.levels.len();
    rep.count("chains", &format!("{}|levels={}|keylevel_separate={}", spec.scheme_name(), nl, kit.has_keyswitching())); rep.count("degree", &format!("{}|N={:05}", spec.scheme_name(), spec.n));
    if case == 0 { rep.sample(json!({"group": grp, "params": spec.describe(), "data_levels": nl, "calls": "every (source,target) pair x sizes 2..4 x {mod_switch_to, mod_switch_to_next, rescale refusals, mod_switch_plain_to} x {inplace,dest,new}, each under a watchdog", "level_moduli": (0..nl).map(|l| kit.level_qs(l)).collect::<Vec<_>>()})); }
    // BGV correction factor bookkeeping reference: f * prod q_dropped^-1 mod t
    let t = spec.t;
    for size in 2..=4usize {
        let mut m = Machine::new(&kit, spec.n <= 256);
        let (_, c0) = gen_plain(rng, m.n(), t);
        if m.fresh(&c0, rng.bool()).is_err() { return; }
        let mut cur = 0usize;
        let mut built = true;
        for _ in 2..size {
            let (_, c) = gen_plain(rng, m.n(), t);
            let Ok(f) = m.fresh(&c, rng.bool()) else { return };
            let op = Op::Multiply(cur, f);
            match m.execute(&op, Form::New) { Ok(ct) => { let el = m.result_elem(&op, ct); m.pool.push(el); cur = m.pool.len() - 1; } Err(_) => { built = false; break; } }
        }
        if !built { continue; }
        // source ciphertexts per level, stepping with to_next (each step is itself the (i,i+1) pair)
        let mut at_level: Vec<usize> = vec![cur];
        for i in 0..nl - 1 {
            let op = Op::ModSwitchNext(at_level[i]);
            match m.execute(&op, Form::New) {
                Ok(ct) => { let el = m.result_elem(&op, ct); m.pool.push(el); at_level.push(m.pool.len() - 1); }
                Err(p) => { viol(&o, rep, "mod_switch_to_next", &format!("{}|size={}", spec.scheme_name(), size), "panic", format!("step {}->{} refused: {}", i, i + 1, p.0)); return; }
            }
        }
        for src in 0..nl { for tgt in 0..nl {
            let src_el = m.pool[at_level[src]].clone();
            let tgt_id = *kit.levels[tgt].parms_id();
            for api in API_CT {
                if HANG_SEEN.load(Ordering::SeqCst) { return; }
                let (k2, ct, eval_api) = (kit.clone(), src_el.ct.clone(), api);
                let dd = dirty(&kit);
                let out = watchdog(deadline(cfg), move || match eval_api {
                    "inplace" => { let mut x = ct.clone(); k2.eval.mod_switch_to_inplace(&mut x, &tgt_id); x }
                    "dest" => { let mut d = dd; k2.eval.mod_switch_to(&ct, &tgt_id, &mut d); d }
                    _ => k2.eval.mod_switch_to_new(&ct, &tgt_id),
                });
                let cls = format!("{}|size={}|{}", spec.scheme_name(), size, if tgt > src { "down" } else if tgt == src { "same" } else { "up" });
                rep.count("pairs", &format!("{}|mod_switch_to_{}|{}->{}|size={}", spec.scheme_name(), api, src, tgt, size));
                rep.eval(Some(&format!("{}|mst|{}|{}|{}|{}", spec.scheme_name(), api, src, tgt, size)));
                match out {
                    Outcome::Hang => { HANG_SEEN.store(true, Ordering::SeqCst); viol(&o, rep, &format!("mod_switch_to_{}", api), &cls, "hang", format!("no return within {:?} ({}->{})", deadline(cfg), src, tgt)); return; }
                    Outcome::Refused(msg) => {
                        if tgt > src { viol(&o, rep, &format!("mod_switch_to_{}", api), &cls, "panic", format!("downward switch {}->{} refused: {}", src, tgt, msg)); }
                        // tgt == src: refusal or identity are both acceptable; tgt < src: refusal required
                    }
                    Outcome::Done(res) => {
                        if tgt < src { viol(&o, rep, &format!("mod_switch_to_{}", api), &cls, "not_refused", format!("upward switch {}->{} returned", src, tgt)); continue; }
                        if res.parms_id() != &tgt_id { viol(&o, rep, &format!("mod_switch_to_{}", api), &cls, "value", format!("result is not on the target level ({}->{})", src, tgt)); continue; }
                        let want = &m.pool[at_level[tgt]];
                        if tgt == src { if !same_ct(&res, &src_el.ct) { viol(&o, rep, &format!("mod_switch_to_{}", api), &cls, "value", "switching to the current level changed the ciphertext".into()); } continue; }
                        // deterministic: must equal the step-by-step result bit for bit
                        if !same_ct(&res, &want.ct) { viol(&o, rep, &format!("mod_switch_to_{}", api), &cls, "value", format!("result differs from stepwise switching ({}->{})", src, tgt)); }
                        // BGV factor bookkeeping, independently
                        if scheme == SchemeType::BGV {
                            let mut f = src_el.ct.correction_factor();
                            for l in src..tgt { let ql = *kit.level_qs(l).last().unwrap(); f = refm::mulmod(f, refm::invmod(ql % t, t).unwrap_or(0), t); }
                            if res.correction_factor() != f { viol(&o, rep, &format!("mod_switch_to_{}", api), &cls, "value", format!("correction factor {} != f*prod(q_dropped^-1) = {}", res.correction_factor(), f)); }
                        }
                        // message preserved (precondition: worst-case noise at the target within threshold)
                        let ok_noise = m.within(want.e_an, want.level) || want.e_step.map(|e| m.within(e, want.level)).unwrap_or(false);
                        if ok_noise {
                            rep.count("message_checked", &format!("{}|{}->{}", spec.scheme_name(), src, tgt));
                            let mres = Elem { ct: res.clone(), ..want.clone() };
                            match m.lib_decrypt(&mres.ct) { Ok(got) => if got != src_el.m { viol(&o, rep, &format!("mod_switch_to_{}", api), &cls, "value", format!("message changed by switching {}->{}", src, tgt)); }, Err(p) => viol(&o, rep, "decrypt", &cls, "panic", p.0) }
                            if let Some((om, b)) = m.oracle_decrypt(&mres.ct) { rep.min(&format!("budget_after_switch_{}", spec.scheme_name()), b as f64); if om != src_el.m { viol(&o, rep, &format!("mod_switch_to_{}", api), &format!("{}|oracle", cls), "value", format!("oracle: message changed by switching {}->{}", src, tgt)); } }
                        } else { rep.out_of_precondition += 1; }
                    }
                }
            }
            // to_next forms from this source (tgt loop index reused only once)
            if tgt == 0 {
                for api in API_CT {
                    if HANG_SEEN.load(Ordering::SeqCst) { return; }
                    let (k2, ct) = (kit.clone(), src_el.ct.clone());
                    let dd = dirty(&kit);
                    let out = watchdog(deadline(cfg), move || match api {
                        "inplace" => { let mut x = ct.clone(); k2.eval.mod_switch_to_next_inplace(&mut x); x }
                        "dest" => { let mut d = dd; k2.eval.mod_switch_to_next(&ct, &mut d); d }
                        _ => k2.eval.mod_switch_to_next_new(&ct),
                    });
                    let last = src + 1 == nl;
                    let cls = format!("{}|size={}|{}", spec.scheme_name(), size, if last { "past_last" } else { "down" });
                    rep.count("pairs", &format!("{}|mod_switch_to_next_{}|{}|size={}", spec.scheme_name(), api, src, size));
                    rep.eval(Some(&format!("{}|msn|{}|{}|{}", spec.scheme_name(), api, src, size)));
                    match out {
                        Outcome::Hang => { HANG_SEEN.store(true, Ordering::SeqCst); viol(&o, rep, &format!("mod_switch_to_next_{}", api), &cls, "hang", "no return".into()); return; }
                        Outcome::Refused(msg) => if !last { viol(&o, rep, &format!("mod_switch_to_next_{}", api), &cls, "panic", format!("refused at level {}: {}", src, msg)); },
                        Outcome::Done(res) => {
                            if last { viol(&o, rep, &format!("mod_switch_to_next_{}", api), &cls, "not_refused", "switch past the last level returned".into()); }
                            else if !same_ct(&res, &m.pool[at_level[src + 1]].ct) { viol(&o, rep, &format!("mod_switch_to_next_{}", api), &cls, "value", "API forms of mod_switch_to_next disagree".into()); }
                        }
                    }
                    // rescale outside CKKS must be refused
                    let (k2, ct) = (kit.clone(), src_el.ct.clone());
                    let dd = dirty(&kit);
                    let out = watchdog(deadline(cfg), move || match api {
                        "inplace" => { let mut x = ct.clone(); k2.eval.rescale_to_next_inplace(&mut x); x }
                        "dest" => { let mut d = dd; k2.eval.rescale_to(&ct, k2.ctx.last_parms_id(), &mut d); d }
                        _ => k2.eval.rescale_to_next_new(&ct),
                    });
                    rep.count("pairs", &format!("{}|rescale_outside_ckks_{}", spec.scheme_name(), api));
                    match out {
                        Outcome::Hang => { HANG_SEEN.store(true, Ordering::SeqCst); viol(&o, rep, "rescale", &format!("{}|outside_ckks", spec.scheme_name()), "hang", "no return".into()); return; }
                        Outcome::Done(_) => viol(&o, rep, "rescale", &format!("{}|outside_ckks", spec.scheme_name()), "not_refused", "rescale returned in a non-CKKS scheme".into()),
                        Outcome::Refused(_) => {}
                    }
                }
            }
        } }
    }
    // NTT-form plaintexts: switched == transformed directly at the target level
    let (_, pc) = gen_plain(rng, kit.n(), t);
    let plain = kit.plain_from_coeffs(&pc);
    for src in 0..nl { for tgt in 0..nl {
        let (sid, tid) = (*kit.levels[src].parms_id(), *kit.levels[tgt].parms_id());
        let Ok(ps) = lib(|| kit.eval.transform_plain_to_ntt_new(&plain, &sid)) else { viol(&o, rep, "transform_plain_to_ntt", spec.scheme_name(), "panic", "refused".into()); return; };
        let Ok(pt) = lib(|| kit.eval.transform_plain_to_ntt_new(&plain, &tid)) else { return };
        for api in API_CT {
            if HANG_SEEN.load(Ordering::SeqCst) { return; }
            let (k2, p2) = (kit.clone(), ps.clone());
            let out = watchdog(deadline(cfg), move || match api {
                "inplace" => { let mut x = p2.clone(); k2.eval.mod_switch_plain_to_inplace(&mut x, &tid); x }
                "dest" => { let mut d = Plaintext::new(); k2.eval.mod_switch_plain_to(&p2, &tid, &mut d); d }
                _ => k2.eval.mod_switch_plain_to_new(&p2, &tid),
            });
            let cls = format!("{}|plain|{}", spec.scheme_name(), if tgt > src { "down" } else if tgt == src { "same" } else { "up" });
            rep.count("pairs", &format!("{}|mod_switch_plain_to_{}|{}->{}", spec.scheme_name(), api, src, tgt));
            rep.eval(Some(&format!("{}|mspt|{}|{}|{}", spec.scheme_name(), api, src, tgt)));
            match out {
                Outcome::Hang => { HANG_SEEN.store(true, Ordering::SeqCst); viol(&o, rep, &format!("mod_switch_plain_to_{}", api), &cls, "hang", "no return".into()); return; }
                Outcome::Refused(msg) => if tgt > src { viol(&o, rep, &format!("mod_switch_plain_to_{}", api), &cls, "panic", format!("{}->{} refused: {}", src, tgt, msg)); },
                Outcome::Done(res) => {
                    if tgt < src { viol(&o, rep, &format!("mod_switch_plain_to_{}", api), &cls, "not_refused", "upward plaintext switch returned".into()); continue; }
                    if res.parms_id() != &tid || res.data() != pt.data() || res.coeff_count() != pt.coeff_count() || res.scale().to_bits() != pt.scale().to_bits() {
                        viol(&o, rep, &format!("mod_switch_plain_to_{}", api), &cls, "value", format!("switched plaintext differs from the one transformed directly at the target level ({}->{})", src, tgt));
                    }
                }
            }
        }
        if tgt == src + 1 {
            for api in API_CT {
                let r = lib(|| match api { "inplace" => { let mut x = ps.clone(); kit.eval.mod_switch_to_next_plain_inplace(&mut x); x } "dest" => { let mut d = Plaintext::new(); kit.eval.mod_switch_to_next_plain(&ps, &mut d); d } _ => kit.eval.mod_switch_to_next_plain_new(&ps) });
                rep.count("pairs", &format!("{}|mod_switch_to_next_plain_{}|{}", spec.scheme_name(), api, src));
                match r { Ok(res) => if res.parms_id() != &tid || res.data() != pt.data() { viol(&o, rep, &format!("mod_switch_to_next_plain_{}", api), spec.scheme_name(), "value", "plaintext switched to the next level differs from direct transform".into()); },
                          Err(p) => viol(&o, rep, &format!("mod_switch_to_next_plain_{}", api), spec.scheme_name(), "panic", p.0) }
            }
        }
    } }
    // past the last level (plaintext)
    let lid = *kit.levels[nl - 1].parms_id();
    if let Ok(pl) = lib(|| kit.eval.transform_plain_to_ntt_new(&plain, &lid)) {
        if lib(|| kit.eval.mod_switch_to_next_plain_new(&pl)).is_ok() { viol(&o, rep, "mod_switch_to_next_plain_new", &format!("{}|past_last", spec.scheme_name()), "not_refused", "plaintext switch past the last level returned".into()); }
    }
}

/// CKKS
fn ckks_case(cfg: &Cfg, grp: &str, case: u64, rng: &mut Rng, rep: &mut Report, levels: usize) {
    let sf = rng.chance(1, 4);
    let Some(spec) = chain_spec(rng, SchemeType::CKKS, levels, sf, &[4, 8, 16]) else { return };
    let Ok(kit) = Kit::new(&spec) else { rep.count("generator", "rejected"); return; };
    let kit = Arc::new(kit);
    let o = Obs { cfg, grp, case, spec: &spec };
    let nl = kit.levels.len(); let n = kit.n();
    rep.count("chains", &format!("CKKS|levels={}|keylevel_separate={}", nl, kit.has_keyswitching())); rep.count("degree", &format!("CKKS|N={:05}", n));
    if case == 0 { rep.sample(json!({"group": grp, "params": spec.describe(), "data_levels": nl, "calls": "every (source,target) pair x sizes 2..4 x {mod_switch_to, rescale_to} x {inplace,dest,new} + plaintext switching", "level_moduli": (0..nl).map(|l| kit.level_qs(l)).collect::<Vec<_>>()})); }
    let Ok(oracle) = Oracle::new(&kit.ctx, &kit.sk) else { return };
    let enc = kit.ckks.as_ref().unwrap();
    let bits_of = |l: usize| -> f64 { kit.level_qs(l).iter().map(|&q| (q as f64).log2()).sum() };
    for size in 2..=4usize {
        // product of (size-1) fresh ciphertexts with scale 2^s each; keep s*(size-1) + value bits below the last level
        let s = rng.range(8, 14) as i32;
        let scale = 2f64.powi(s);
        let mk = |rng: &mut Rng| -> Vec<C64> { (0..n / 2).map(|_| C64::new(rng.f64() * 2.0 - 1.0, rng.f64() * 2.0 - 1.0)).collect() };
        let v0 = mk(rng);
        let Ok(mut ct) = lib(|| kit.enc.encrypt_new(&enc.encode_c64_array_new(&v0, None, scale))) else { return };
        for _ in 2..size { let v = mk(rng); let Ok(c2) = lib(|| kit.enc.encrypt_symmetric_new(&enc.encode_c64_array_new(&v, None, scale)).expand_seed(&kit.ctx)) else { return }; match lib(|| kit.eval.multiply_new(&ct, &c2)) { Ok(c) => ct = c, Err(_) => return } }
        // every third source is first multiplied by an integer constant encoded at scale = (last prime of the level) exactly: every
        // coefficient of every polynomial is then an exact multiple of the prime that rescaling divides out (its last RNS
        // component is identically zero) — the case where the division is exact, which random data never produces
        if nl > 1 && case % 3 == 1 {
            let ql = *kit.level_qs(0).last().unwrap();
            if ql < (1u64 << 53) && (ct.scale() * ql as f64).log2() + 3.0 < bits_of(0) {
                let k = rng.range(1, 5) as f64;
                if let Ok(c) = lib(|| kit.eval.multiply_plain_new(&ct, &enc.encode_f64_single_new(k, None, ql as f64))) { ct = c; rep.count("source_structure", "CKKS|exact multiple of the last prime"); }
            }
        }
        // reference slots of a ciphertext by the oracle
        let slots_of = |c: &Ciphertext| -> Vec<C64> { embed_decode(&oracle.ckks_coeffs(&kit.ctx, c)) };
        let geo: f64 = (0..size).map(|j| (n as f64).powi(j as i32)).sum();
        for mode in ["mod_switch", "rescale"] {
            // stepwise sources
            let mut at_level: Vec<Option<Ciphertext>> = vec![Some(ct.clone())];
            for i in 0..nl - 1 {
                let prev = at_level[i].clone();
                let next = prev.and_then(|p| match lib(|| if mode == "rescale" { kit.eval.rescale_to_next_new(&p) } else { kit.eval.mod_switch_to_next_new(&p) }) {
                    Ok(c) => Some(c),
                    Err(e) => {
                        // a refusal is legitimate only when the resulting scale does not fit the next level; any other panic of a
                        // one-level step on a valid ciphertext is a violation (it used to be taken for a refusal, silently)
                        let new_scale = if mode == "rescale" { p.scale() / *kit.level_qs(i).last().unwrap() as f64 } else { p.scale() };
                        let fits = new_scale > 0.0 && (new_scale.log2().floor() as isize) < kit.levels[i + 1].total_coeff_modulus_bit_count() as isize;
                        if fits { viol(&o, rep, &format!("{}_to_next_new", mode), &format!("CKKS|size={}|down", size), "panic", format!("one-level {} {}->{} of a valid ciphertext whose resulting scale fits panicked: {}", mode, i, i + 1, e.0)); }
                        None
                    }
                });
                at_level.push(next);
            }
            for src in 0..nl { for tgt in 0..nl {
                let Some(src_ct) = at_level[src].clone() else { continue };
                let tgt_id = *kit.levels[tgt].parms_id();
                for api in API_CT {
                    if HANG_SEEN.load(Ordering::SeqCst) { return; }
                    let (k2, c2) = (kit.clone(), src_ct.clone());
                    let md = mode;
                    let dd = dirty(&kit);
                    let out = watchdog(deadline(cfg), move || match (md, api) {
                        ("rescale", "inplace") => { let mut x = c2.clone(); k2.eval.rescale_to_inplace(&mut x, &tgt_id); x }
                        ("rescale", "dest") => { let mut d = dd; k2.eval.rescale_to(&c2, &tgt_id, &mut d); d }
                        ("rescale", _) => k2.eval.rescale_to_new(&c2, &tgt_id),
                        (_, "inplace") => { let mut x = c2.clone(); k2.eval.mod_switch_to_inplace(&mut x, &tgt_id); x }
                        (_, "dest") => { let mut d = dd; k2.eval.mod_switch_to(&c2, &tgt_id, &mut d); d }
                        _ => k2.eval.mod_switch_to_new(&c2, &tgt_id),
                    });
                    let opn = format!("{}_to_{}", mode, api);
                    let cls = format!("CKKS|size={}|{}", size, if tgt > src { "down" } else if tgt == src { "same" } else { "up" });
                    rep.count("pairs", &format!("CKKS|{}|{}->{}|size={}", opn, src, tgt, size));
                    rep.eval(Some(&format!("CKKS|{}|{}|{}|{}", opn, src, tgt, size)));
                    // expected scale, computed with the same f64 operations the property implies
                    let mut want_scale = src_ct.scale();
                    if mode == "rescale" { for l in src..tgt.max(src) { want_scale /= *kit.level_qs(l).last().unwrap() as f64; } }
                    // library refuses a plain switch whose scale does not fit the next level: that is C03's clause; out of scope here
                    let scale_fits = mode == "rescale" || (src..tgt.max(src)).all(|l| (src_ct.scale().log2().floor() as isize) < (kit.levels[l + 1].total_coeff_modulus_bit_count() as isize));
                    match out {
                        Outcome::Hang => { HANG_SEEN.store(true, Ordering::SeqCst); viol(&o, rep, &opn, &cls, "hang", format!("no return within {:?} ({}->{})", deadline(cfg), src, tgt)); return; }
                        Outcome::Refused(msg) => { if tgt > src && scale_fits && at_level[tgt].is_some() { viol(&o, rep, &opn, &cls, "panic", format!("downward {} {}->{} refused: {}", mode, src, tgt, msg)); } }
                        Outcome::Done(res) => {
                            if tgt < src { viol(&o, rep, &opn, &cls, "not_refused", format!("upward {} {}->{} returned", mode, src, tgt)); continue; }
                            if res.parms_id() != &tgt_id || res.size() != src_ct.size() || !res.is_ntt_form() { viol(&o, rep, &opn, &cls, "value", format!("result not on the target level / wrong shape ({}->{})", src, tgt)); continue; }
                            if tgt == src { if !same_ct(&res, &src_ct) { viol(&o, rep, &opn, &cls, "value", "moving to the current level changed the ciphertext".into()); } continue; }
                            if res.scale().to_bits() != want_scale.to_bits() { viol(&o, rep, &opn, &format!("{}|scale", cls), "value", format!("scale {} != expected {} ({}->{})", res.scale(), want_scale, src, tgt)); continue; }
                            if let Some(w) = &at_level[tgt] { if !same_ct(&res, w) { viol(&o, rep, &opn, &cls, "value", format!("result differs from stepwise {} ({}->{})", mode, src, tgt)); } }
                            // message preserved: compare with the oracle-decoded source
                            let src_coeffs = oracle.phase(&kit.ctx, &src_ct).0;
                            let maxc = src_coeffs.iter().map(|x| x.to_f64().abs()).fold(0.0, f64::max);
                            let dropped: f64 = if mode == "rescale" { (src..tgt).map(|l| (*kit.level_qs(l).last().unwrap() as f64).log2()).sum() } else { 0.0 };
                            if maxc.max(1.0).log2() - dropped + 2.0 >= bits_of(tgt) { rep.out_of_precondition += 1; continue; }
                            let a = slots_of(&src_ct); let b = slots_of(&res);
                            let lib_dec = lib(|| enc.decode_new(&kit.dec.decrypt_new(&res)));
                            let steps = (tgt - src) as f64;
                            let tol = if mode == "rescale" { (n as f64) * steps * (geo / 2.0 + 1.0) / res.scale() } else { 0.0 } + ckks_fp_tolerance(n, kit.level_qs(src).len(), a.iter().map(|x| x.norm()).fold(0.0, f64::max), res.scale().min(src_ct.scale()));
                            let worst = a.iter().zip(&b).map(|(x, y)| (x - y).norm()).fold(0.0, f64::max);
                            rep.count("message_checked", &format!("CKKS|{}|{}->{}", mode, src, tgt));
                            rep.max("ckks_error_over_tolerance", worst / tol);
                            if !(worst <= tol) { viol(&o, rep, &opn, &format!("{}|oracle", cls), "value", format!("decoded values moved by {:e} > {:e} ({}->{})", worst, tol, src, tgt)); }
                            match lib_dec { Ok(d) => { let w2 = a.iter().zip(&d).map(|(x, y)| (x - y).norm()).fold(0.0, f64::max); if !(w2 <= tol) { viol(&o, rep, &opn, &cls, "value", format!("library-decoded values moved by {:e} > {:e} ({}->{})", w2, tol, src, tgt)); } }
                                            Err(p) => viol(&o, rep, "decrypt", &cls, "panic", p.0) }
                        }
                    }
                }
            } }
        }
        // to_next at the last level must refuse
        if let Ok(last_ct) = lib(|| kit.eval.mod_switch_to_new(&ct, kit.ctx.last_parms_id())) {
            for (name, r) in [("mod_switch_to_next_new", lib(|| { kit.eval.mod_switch_to_next_new(&last_ct); })), ("rescale_to_next_new", lib(|| { kit.eval.rescale_to_next_new(&last_ct); }))] {
                rep.count("pairs", &format!("CKKS|{}|past_last", name));
                if r.is_ok() { viol(&o, rep, name, "CKKS|past_last", "not_refused", "moving past the last level returned".into()); }
            }
        }
    }
    // NTT plaintext (CKKS): switched == encoded directly at the target level
    let vals: Vec<C64> = (0..n / 2).map(|_| C64::new(rng.f64() * 8.0 - 4.0, rng.f64())).collect();
    let scale = 2f64.powi(20);
    for src in 0..nl { for tgt in src..nl {
        let (sid, tid) = (*kit.levels[src].parms_id(), *kit.levels[tgt].parms_id());
        let (Ok(ps), Ok(pt)) = (lib(|| enc.encode_c64_array_new(&vals, Some(sid), scale)), lib(|| enc.encode_c64_array_new(&vals, Some(tid), scale))) else { continue };
        rep.count("pairs", &format!("CKKS|mod_switch_plain_to|{}->{}", src, tgt));
        rep.eval(Some(&format!("CKKS|mspt|{}|{}", src, tgt)));
        match lib(|| kit.eval.mod_switch_plain_to_new(&ps, &tid)) {
            Ok(res) => if res.parms_id() != &tid || res.data() != pt.data() || res.scale().to_bits() != pt.scale().to_bits() { viol(&o, rep, "mod_switch_plain_to_new", "CKKS|plain", "value", format!("switched plaintext differs from direct encoding ({}->{})", src, tgt)); },
            Err(p) => viol(&o, rep, "mod_switch_plain_to_new", "CKKS|plain", "panic", p.0),
        }
    } }
}

pub fn run(cfg: &Cfg, rep: &mut Report) -> PropMeta {
    let per = cfg.n(16, 160) as u64;
    for levels in 1..=6usize {
        for scheme in [SchemeType::BFV, SchemeType::BGV] {
            let g = format!("{}_{}", scheme_name(scheme), levels);
            run_cases(cfg, &g, per, rep, |i, rng, rep| exact_case(cfg, &g, i, rng, rep, scheme, levels, &[4, 8, 16]));
        }
        let g = format!("CKKS_{}", levels);
        run_cases(cfg, &g, per, rep, |i, rng, rep| ckks_case(cfg, &g, i, rng, rep, levels));
    }
    // large degrees (the observer is the library's own decryptor there; the oracle decryptor is quadratic in N): buffers sized by
    // a constant, blocking and index types only differ from the small-degree behaviour up there
    for scheme in [SchemeType::BFV, SchemeType::BGV] {
        let g = format!("{}_large_degree", scheme_name(scheme));
        run_cases(cfg, &g, cfg.n(2, 12) as u64, rep, |i, rng, rep| { let levels = 2 + (i as usize % 3); exact_case(cfg, &g, i, rng, rep, scheme, levels, &[1024, 8192, 16384]) });
    }
    if HANG_SEEN.load(Ordering::SeqCst) { rep.note("a call did not return within the deadline; remaining cases were skipped"); }
    PropMeta {
        id: "C05", level: "exploration",
        rule: "all (source level, target level) pairs of chains with 1..6 data levels (with and without a separate key level) x ciphertext sizes 2,3,4 x BFV/BGV/CKKS x every API form of mod_switch_to_next, mod_switch_to, mod_switch_to_next_plain, mod_switch_plain_to, rescale_to_next, rescale_to; each call under a watchdog. distinct = distinct (scheme, API form, source, target, size) tuples",
        assumptions: vec!["termination is decided as bounded progress: a call that does not return within 10 s (20 s thorough) at N<=16 is a hang".into(),
            "target == source may either be refused or return the operand unchanged".into(),
            "CKKS plain switching whose scale does not fit the target level is out of scope here (C03 covers refusals)".into(),
            "message preservation asserted when the worst-case noise / magnitude fits the target modulus".into()],
        exhaustive: true, floor: 500,
    }
}
