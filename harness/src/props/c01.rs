//! C01 — fresh encryptions decrypt to the plaintext, in every scheme, mode and level.
//! Oracles: the library decryptor AND the independent oracle decryptor (schoolbook phase with
//! the recovered ternary secret, big-integer rounding); for CKKS the exact noise polynomial
//! (phase - encoded plaintext) against the deterministic worst-case bound.

use crate::he::*;
use crate::refm;
use crate::rt::*;
use heathcliff::util::BlakeRNG;
use heathcliff::util::PRNGSeed;
use heathcliff::*;
use rand::SeedableRng;
use serde_json::json;

const P: &str = "C01";

pub fn gen_spec(rng: &mut Rng, big: bool) -> Option<Spec> {
    let scheme = *rng.pick(&[SchemeType::BFV, SchemeType::BGV, SchemeType::CKKS]);
    let n = if big { *rng.pick(&[1024usize, 2048, 4096, 8192]) } else { 1usize << rng.range(1, 6) };
    let logm = (2 * n).trailing_zeros();
    let k = rng.range(1, 6) as usize;
    // prime bit sizes: anything from the smallest size that admits an NTT prime up to 60
    let minb = (logm + 1).max(2);
    let fam = rng.below(6);
    let mut bits: Vec<u32> = match fam {
        0 => (0..k).map(|_| rng.range(50, 60) as u32).collect(),                    // large primes
        1 => (0..k).map(|_| rng.range(minb as u64, 60) as u32).collect(),            // any size
        2 => { let mut v: Vec<u32> = (0..k).map(|_| rng.range(30, 60) as u32).collect(); v.sort(); v } // ascending
        3 => { let mut v: Vec<u32> = (0..k).map(|_| rng.range(30, 60) as u32).collect(); v.sort(); v.reverse(); v } // descending
        4 => (0..k).map(|_| *rng.pick(&[8u32, 9, 16, 17, 24, 25, 32, 33, 40, 41, 48, 49, 56, 57]).max(&minb)).collect(), // byte-width boundaries
        _ => (0..k).map(|_| rng.range(20, 40) as u32).collect(),
    };
    for b in bits.iter_mut() { if *b < minb { *b = minb; } }
    let qs = coeff_primes(n, &bits, rng)?;
    let qmin = *qs.iter().min().unwrap();
    let (t, tfam) = if scheme == SchemeType::CKKS { (0u64, "none") } else {
        match rng.below(6) {
            0 => { // batching prime
                let tb = rng.range((logm + 1) as u64, 30) as u32;
                let c = ntt_primes(n, tb, 4, 0).into_iter().find(|c| !qs.contains(c))?;
                (c, "batching_prime")
            }
            1 => (1u64 << rng.range(1, 20), "power_of_two"),
            2 => (2, "two"),
            3 => { // larger than the smallest prime (no fast plain lift), still far below Q when k>1
                let mut c = qmin + 1 + rng.below(1000);
                // (a harness loop must terminate on its own: if no admissible t < 2^60 lies above the smallest prime, give the case up)
                loop { if c >> 60 != 0 { return None; } if qs.iter().all(|&q| refm::gcd(q, c) == 1) { break; } c += 1; }
                (c, "above_a_prime")
            }
            4 => { let mut c = rng.range(3, 1 << 16) | 1; while !qs.iter().all(|&q| refm::gcd(q, c) == 1) { c += 2; } (c, "odd_composite_or_prime") }
            _ => { let tb = rng.range(2, 40) as u32; let mut c = rng.bits(tb) | (1 << (tb - 1)); if c < 2 { c = 2; } while !qs.iter().all(|&q| refm::gcd(q, c) == 1) { c += 1; } (c, "random") }
        }
    };
    let special_flag = rng.chance(1, 5);
    let expand = rng.chance(4, 5);
    Some(Spec { scheme, n, qs, t, special_flag, expand, family: format!("bits{}-t:{}", fam, tfam) })
}

/// plaintext corner generator for BFV/BGV: (class, coefficients)
pub fn gen_plain(rng: &mut Rng, n: usize, t: u64) -> (&'static str, Vec<u64>) {
    match rng.below(9) {
        0 => ("zero", vec![0]),
        1 => ("all_t_minus_1", vec![t - 1; n]),
        2 => ("half_floor", vec![t / 2; n]),
        3 => ("half_ceil", vec![(t + 1) / 2 % t; n]),
        4 => { let mut v = vec![0; rng.range(1, n as u64) as usize]; let l = v.len(); v[l - 1] = rng.range(1, t - 1); ("monomial", v) }
        5 => ("length_1", vec![rng.below(t)]),
        6 => { let l = rng.range(1, n as u64) as usize; ("short_random", (0..l).map(|_| rng.below(t)).collect()) }
        7 => ("upper_half_mix", (0..n).map(|_| if rng.bool() { t - 1 - rng.below((t / 2).max(1)) } else { rng.below((t / 2).max(1)) }).collect()),
        _ => ("full_random", (0..n).map(|_| rng.below(t)).collect()),
    }
}

fn blake(rng: &mut Rng) -> BlakeRNG {
    let mut seed = [0u8; 64];
    for i in 0..8 { seed[i * 8..i * 8 + 8].copy_from_slice(&rng.u64().to_le_bytes()); }
    BlakeRNG::from_seed(PRNGSeed(seed))
}

#[derive(Clone, Copy, PartialEq, Debug)]
enum Mode { Pk, PkDest, PkPrng, Sk, SkPrng, SkSeed, SkSeedPrng }
const MODES: [Mode; 7] = [Mode::Pk, Mode::PkDest, Mode::PkPrng, Mode::Sk, Mode::SkPrng, Mode::SkSeed, Mode::SkSeedPrng];

fn encrypt(kit: &Kit, mode: Mode, p: &Plaintext, rng: &mut Rng) -> Result<(Ciphertext, bool), Panicked> {
    lib(|| {
        let mut seeded = false;
        let ct = match mode {
            Mode::Pk => kit.enc.encrypt_new(p),
            Mode::PkDest => { let mut c = dirty_ct(kit); kit.enc.encrypt(p, &mut c); c }
            Mode::PkPrng => { let mut g = blake(rng); kit.enc.encrypt_new_with_u_prng(p, &mut g) }
            Mode::Sk => { let mut c = dirty_ct(kit); kit.enc.encrypt_symmetric(p, &mut c); c }
            Mode::SkPrng => { let mut c = Ciphertext::new(); let mut g = blake(rng); kit.enc.encrypt_symmetric_with_u_prng(p, &mut g, &mut c); c }
            Mode::SkSeed => { let c = kit.enc.encrypt_symmetric_new(p); seeded = c.contains_seed(); if seeded { c.expand_seed(&kit.ctx) } else { c } }
            Mode::SkSeedPrng => { let mut g = blake(rng); let c = kit.enc.encrypt_symmetric_new_with_u_prng(p, &mut g); seeded = c.contains_seed(); if seeded { c.expand_seed(&kit.ctx) } else { c } }
        };
        (ct, seeded)
    })
}

/// a destination that already holds something else (different size/level), as the API allows
fn dirty_ct(kit: &Kit) -> Ciphertext { crate::prog::dirty(kit) }

fn encrypt_zero_at(kit: &Kit, mode: Mode, id: &ParmsID, rng: &mut Rng) -> Result<(Ciphertext, bool), Panicked> {
    lib(|| {
        let mut seeded = false;
        let ct = match mode {
            Mode::Pk => kit.enc.encrypt_zero_new_at(id),
            Mode::PkDest => { let mut c = dirty_ct(kit); kit.enc.encrypt_zero_at(id, &mut c); c }
            Mode::PkPrng => { let mut g = blake(rng); kit.enc.encrypt_zero_new_at_with_u_prng(id, &mut g) }
            Mode::Sk => { let mut c = dirty_ct(kit); kit.enc.encrypt_zero_symmetric_at(id, &mut c); c }
            Mode::SkPrng => { let mut c = Ciphertext::new(); let mut g = blake(rng); kit.enc.encrypt_zero_symmetric_at_with_u_prng(id, &mut g, &mut c); c }
            Mode::SkSeed => { let c = kit.enc.encrypt_zero_symmetric_new_at(id); seeded = c.contains_seed(); if seeded { c.expand_seed(&kit.ctx) } else { c } }
            Mode::SkSeedPrng => { let mut g = blake(rng); let c = kit.enc.encrypt_zero_symmetric_new_at_with_u_prng(id, &mut g); seeded = c.contains_seed(); if seeded { c.expand_seed(&kit.ctx) } else { c } }
        };
        (ct, seeded)
    })
}

struct Ctx<'a> { cfg: &'a Cfg, grp: &'a str, case: u64 }

fn viol(c: &Ctx, rep: &mut Report, op: &str, class: &str, kind: &str, detail: String, kit: &Kit) {
    rep.violation(&format!("{}|{}|{}|{}", P, op, class, kind), format!("{} ; params {}", detail, kit.spec.describe()),
        replay_json(c.cfg, c.grp, c.case, json!({"params": kit.spec.describe(), "op": op, "class": class})));
}

fn log2q(kit: &Kit, level: usize) -> f64 { kit.level_qs(level).iter().map(|&q| (q as f64).log2()).sum() }

/// does the analytic worst-case bound guarantee correct decryption of a fresh ciphertext at `level`?
fn precondition(kit: &Kit, level: usize, pk: bool) -> bool {
    let n = kit.n() as f64;
    let b = fresh_noise_bound(kit.n(), pk) + modswitch_bound(kit.n()) + n + 2.0;
    let t = kit.t() as f64;
    // BFV: t*(B + 1/2) < q/2 ; BGV: t*B + t/2 < q/2 ; with a factor 8 of margin (library's approximate rounding)
    (t.log2() + b.log2() + 4.0) < log2q(kit, level)
}

fn check_meta(c: &Ctx, rep: &mut Report, kit: &Kit, ct: &Ciphertext, op: &str, level: usize, scale: f64) -> bool {
    let want_ntt = kit.spec.scheme != SchemeType::BFV;
    let ok = ct.size() == 2 && ct.parms_id() == kit.levels[level].parms_id() && ct.is_ntt_form() == want_ntt
        && ct.scale().to_bits() == scale.to_bits() && ct.correction_factor() == 1 && ct.is_valid_for(&kit.ctx) && !ct.contains_seed();
    if !ok {
        viol(c, rep, op, &format!("{}-metadata", kit.spec.scheme_name()), "value",
            format!("fresh ciphertext metadata wrong: size={} level_ok={} ntt={} scale={} cf={} valid={} seed={}", ct.size(), ct.parms_id() == kit.levels[level].parms_id(),
                ct.is_ntt_form(), ct.scale(), ct.correction_factor(), ct.is_valid_for(&kit.ctx), ct.contains_seed()), kit);
    }
    ok
}

fn check_exact(c: &Ctx, rep: &mut Report, kit: &Kit, oracle: &Option<Oracle>, ct: &Ciphertext, want: &[u64], op: &str, class: &str, level: usize, pk: bool) {
    let n = kit.n();
    let scheme = kit.spec.scheme_name();
    let pre = precondition(kit, level, pk);
    let dec = lib(|| kit.dec.decrypt_new(ct));
    let lift = if kit.levels[0].qualifiers().using_fast_plain_lift { "fastlift" } else { "slowlift" };
    rep.count("scheme_mode_level", &format!("{}|{}|L{}|{}", scheme, op, level, lift));
    let dec = match dec { Ok(d) => d, Err(p) => { viol(c, rep, op, &format!("{}-decrypt", scheme), "panic", format!("decrypt panicked: {}", p.0), kit); return; } };
    if !pre { rep.out_of_precondition += 1; return; }
    let got = plain_coeffs(&dec, n);
    let mut w = want.to_vec(); w.resize(n, 0);
    if got != w {
        viol(c, rep, op, &format!("{}-{}", scheme, if pk { "pk" } else { "sk" }), "value", format!("library decryption differs from plaintext (class {}, level {}): got {:?} want {:?}", class, level, &got[..n.min(8)], &w[..n.min(8)]), kit);
    }
    if dec.is_ntt_form() || dec.coeff_count() > n || dec.coeff_count() == 0 {
        viol(c, rep, op, &format!("{}-plain-meta", scheme), "value", format!("decrypted plaintext metadata: ntt={} coeff_count={}", dec.is_ntt_form(), dec.coeff_count()), kit);
    }
    if let Some(o) = oracle {
        let (m, budget, _) = if kit.spec.scheme == SchemeType::BFV { o.bfv(&kit.ctx, ct, kit.t()) } else { o.bgv(&kit.ctx, ct, kit.t()) };
        rep.count("oracle", "oracle_decryptor");
        rep.min(&format!("oracle_budget_bits_{}", scheme), budget as f64);
        if m != w {
            viol(c, rep, op, &format!("{}-{}-oracle", scheme, if pk { "pk" } else { "sk" }), "value", format!("oracle decryption differs from plaintext (class {}, level {}): got {:?} want {:?}", class, level, &m[..n.min(8)], &w[..n.min(8)]), kit);
        }
    } else { rep.count("oracle", "library_only"); }
}

fn bfv_bgv_case(c: &Ctx, rep: &mut Report, rng: &mut Rng, kit: &Kit, oracle: &Option<Oracle>) {
    let (n, t) = (kit.n(), kit.t());
    let nplain = if n <= 64 { 4 } else { 1 };
    for _ in 0..nplain {
        let (class, mut coeffs) = gen_plain(rng, n, t);
        let mut class = class;
        // BFV scales the plaintext by round(q*m/t) = floor(q/t)*m + floor(((q mod t)*m + (t+1)/2)/t) with a two-word numerator:
        // coefficients m whose product (q mod t)*m lands just below a multiple of 2^64 make the low word carry. They exist only
        // for t above 32 bits and random data meets them with probability ~t/2^65, so they are planted.
        if kit.spec.scheme == SchemeType::BFV && t >> 32 != 0 && rng.bool() {
            let mut planted = 0;
            for qs in [kit.level_qs(0), kit.key_qs()] {
                let r = qs.iter().fold(1u128, |a, &q| a * (q % t) as u128 % t as u128);
                if r == 0 { continue; }
                let kmax = (r * t as u128) >> 64;
                for _ in 0..4 { if kmax >= 1 {
                    let k = 1 + rng.below(kmax.min(u64::MAX as u128) as u64) as u128;
                    let v = ((k << 64) - 1) / r - rng.below(2) as u128;
                    if v < t as u128 { if coeffs.len() < n { coeffs.resize(n, 0); } let pos = rng.usize_below(n); coeffs[pos] = v as u64; planted += 1; }
                } }
            }
            if planted > 0 { class = "planted_scaling_carry"; }
        }
        let p = kit.plain_from_coeffs(&coeffs);
        for &mode in MODES.iter() {
            let op = format!("encrypt:{:?}", mode);
            let pk = matches!(mode, Mode::Pk | Mode::PkDest | Mode::PkPrng);
            match encrypt(kit, mode, &p, rng) {
                Err(pn) => viol(c, rep, &op, kit.spec.scheme_name(), "panic", format!("encryption of a valid plaintext (class {}) panicked: {}", class, pn.0), kit),
                Ok((ct, seeded)) => {
                    if matches!(mode, Mode::SkSeed | Mode::SkSeedPrng) {
                        let expect_seed = n * kit.level_qs(0).len() >= 9;
                        rep.count("seeded", if seeded { "seed_stored_and_expanded" } else { "too_small_for_seed" });
                        if seeded != expect_seed { viol(c, rep, &op, "seed-flag", "value", format!("contains_seed={} but poly has {} words", seeded, n * kit.level_qs(0).len()), kit); }
                    }
                    if check_meta(c, rep, kit, &ct, &op, 0, 1.0) {
                        check_exact(c, rep, kit, oracle, &ct, &coeffs, &op, class, 0, pk);
                    }
                    rep.eval(Some(&format!("{}|{}|{:?}|{}|L0", kit.spec.scheme_name(), kit.spec.family, mode, class)));
                }
            }
        }
    }
    // zero encryptions at every level
    for level in 0..kit.levels.len() {
        let id = *kit.levels[level].parms_id();
        for &mode in MODES.iter() {
            let op = format!("encrypt_zero_at:{:?}", mode);
            let pk = matches!(mode, Mode::Pk | Mode::PkDest | Mode::PkPrng);
            match encrypt_zero_at(kit, mode, &id, rng) {
                Err(pn) => viol(c, rep, &op, kit.spec.scheme_name(), "panic", format!("zero encryption at level {} panicked: {}", level, pn.0), kit),
                Ok((ct, _)) => {
                    if check_meta(c, rep, kit, &ct, &op, level, 1.0) { check_exact(c, rep, kit, oracle, &ct, &[0], &op, "zero", level, pk); }
                    let cls = format!("{}|{}|{:?}|zero|L{}", kit.spec.scheme_name(), kit.spec.family, mode, level);
                    rep.eval(if level > 0 { Some(cls.as_str()) } else { None });
                }
            }
        }
    }
}

fn ckks_case(c: &Ctx, rep: &mut Report, rng: &mut Rng, kit: &Kit, oracle: &Option<Oracle>) {
    let n = kit.n();
    let enc = kit.ckks.as_ref().unwrap();
    let slots = n / 2;
    for level in 0..kit.levels.len() {
        let id = *kit.levels[level].parms_id();
        let lq = log2q(kit, level);
        // magnitude 2^mag, scale 2^s with mag + s + 3 <= log2 q and s + 2 <= log2 q
        let mag = rng.range(0, 20) as i32 - 10;
        let smax = (lq - mag.max(0) as f64 - 4.0).floor();
        if smax < 1.0 { rep.out_of_precondition += 1; continue; }
        let s = rng.range(1, smax as u64) as i32;
        let scale = 2f64.powi(s);
        let cnt = match rng.below(3) { 0 => 1, 1 => slots, _ => rng.range(1, slots as u64) as usize };
        let vclass = rng.below(4);
        let values: Vec<C64> = (0..cnt).map(|_| {
            let m = 2f64.powi(mag) * rng.f64();
            match vclass { 0 => C64::new(m, 0.0), 1 => C64::new(-m, 0.0), 2 => C64::new(0.0, if rng.bool() { m } else { -m }), _ => C64::new(m * (rng.f64() * 2.0 - 1.0), m * (rng.f64() * 2.0 - 1.0)) }
        }).collect();
        let vmax = values.iter().map(|v| v.norm()).fold(0.0, f64::max);
        let plain = match lib(|| enc.encode_c64_array_new(&values, Some(id), scale)) {
            Ok(p) => p,
            Err(pn) => { viol(c, rep, "ckks_encode", "in-domain", "panic", format!("encode panicked: {} (level {}, scale 2^{}, |v|<=2^{})", pn.0, level, s, mag), kit); continue; }
        };
        for &mode in MODES.iter() {
            let op = format!("encrypt:{:?}", mode);
            let pk = matches!(mode, Mode::Pk | Mode::PkDest | Mode::PkPrng);
            let (ct, _) = match encrypt(kit, mode, &plain, rng) {
                Ok(x) => x,
                Err(pn) => { viol(c, rep, &op, "CKKS", "panic", format!("encryption at level {} panicked: {}", level, pn.0), kit); continue; }
            };
            rep.count("scheme_mode_level", &format!("CKKS|{}|L{}", op, level));
            if !check_meta(c, rep, kit, &ct, &op, level, scale) { continue; }
            // worst-case coefficient noise: fresh + (public key below the key level) one rounding step
            let switched = pk && kit.levels[level].prev_context_data().is_some();
            let b = if switched { fresh_noise_bound(n, true) / 4.0 + modswitch_bound(n) + 1.0 } else { fresh_noise_bound(n, pk) };
            let fp = ckks_fp_tolerance(n, kit.level_qs(level).len(), vmax, scale);
            let tol = (n as f64) * (b + 1.0) / scale + fp;
            let dec = match lib(|| enc.decode_new(&kit.dec.decrypt_new(&ct))) {
                Ok(d) => d,
                Err(pn) => { viol(c, rep, &op, "CKKS-decrypt", "panic", format!("decrypt/decode panicked: {}", pn.0), kit); continue; }
            };
            let mut worst = 0.0f64;
            for i in 0..slots { let want = if i < cnt { values[i] } else { C64::new(0.0, 0.0) }; worst = worst.max((dec[i] - want).norm()); }
            rep.max("ckks_slot_error_over_tolerance", worst / tol);
            if !(worst <= tol) {
                viol(c, rep, &op, &format!("CKKS-{}", if pk { "pk" } else { "sk" }), "value", format!("decoded slots differ by {:e} > tolerance {:e} (level {}, scale 2^{}, |v|<=2^{})", worst, tol, level, s, mag), kit);
            }
            if let Some(o) = oracle {
                // exact noise polynomial: phase(ct) - phase((plain, 0)) must be within the deterministic bound
                let mut triv = Ciphertext::new();
                triv.resize(&kit.ctx, &id, 2);
                triv.set_is_ntt_form(true);
                triv.poly_mut(0).copy_from_slice(plain.data());
                triv.set_scale(scale);
                let (ph, _) = o.phase(&kit.ctx, &ct);
                let (pp, _) = o.phase(&kit.ctx, &triv);
                let noise = ph.iter().zip(&pp).map(|(a, b)| a.sub(b).to_f64().abs()).fold(0.0, f64::max);
                rep.count("oracle", "oracle_decryptor");
                rep.max(&format!("ckks_exact_noise_{}", if switched { "pk_switched" } else if pk { "pk" } else { "sk" }), noise);
                if noise > b {
                    viol(c, rep, &op, &format!("CKKS-{}-noise", if pk { "pk" } else { "sk" }), "value", format!("exact fresh noise {} exceeds the worst-case bound {} (level {})", noise, b, level), kit);
                }
                // and the oracle's own decoding agrees with the encoded values
                let coeffs = o.ckks_coeffs(&kit.ctx, &ct);
                let slots_o = embed_decode(&coeffs);
                let mut worst = 0.0f64;
                for i in 0..slots { let want = if i < cnt { values[i] } else { C64::new(0.0, 0.0) }; worst = worst.max((slots_o[i] - want).norm()); }
                if !(worst <= tol) {
                    viol(c, rep, &op, &format!("CKKS-{}-oracle", if pk { "pk" } else { "sk" }), "value", format!("oracle-decoded slots differ by {:e} > tolerance {:e} (level {})", worst, tol, level), kit);
                }
            } else { rep.count("oracle", "library_only"); }
            rep.eval(Some(&format!("CKKS|{}|{:?}|v{}|L{}", kit.spec.family, mode, vclass, level)));
        }
        // zero encryptions at this level
        for &mode in MODES.iter() {
            let op = format!("encrypt_zero_at:{:?}", mode);
            let pk = matches!(mode, Mode::Pk | Mode::PkDest | Mode::PkPrng);
            match encrypt_zero_at(kit, mode, &id, rng) {
                Err(pn) => viol(c, rep, &op, "CKKS", "panic", format!("zero encryption at level {} panicked: {}", level, pn.0), kit),
                Ok((ct, _)) => {
                    if !check_meta(c, rep, kit, &ct, &op, level, 1.0) { continue; }
                    if let Some(o) = oracle {
                        let (ph, _) = o.phase(&kit.ctx, &ct);
                        let noise = ph.iter().map(|a| a.to_f64().abs()).fold(0.0, f64::max);
                        let switched = pk && kit.levels[level].prev_context_data().is_some();
                        let b = if switched { fresh_noise_bound(n, true) / 4.0 + modswitch_bound(n) + 1.0 } else { fresh_noise_bound(n, pk) };
                        if noise > b { viol(c, rep, &op, "CKKS-zero-noise", "value", format!("zero encryption phase norm {} exceeds bound {} (level {})", noise, b, level), kit); }
                    }
                    rep.eval(None);
                }
            }
        }
    }
}

fn one_case(cfg: &Cfg, grp: &str, case: u64, rng: &mut Rng, rep: &mut Report, big: bool) {
    let Some(spec) = gen_spec(rng, big) else { rep.count("generator", "no_primes_for_sizes"); return; };
    let kit = match Kit::new(&spec) {
        Ok(k) => k,
        Err(e) => { rep.count("generator", "context_rejected"); rep.note(&format!("rejected example: {}", e.chars().take(80).collect::<String>())); return; }
    };
    rep.count("generator", "context_ok");
    rep.count("params", &format!("{}|n={}|k={}", spec.scheme_name(), spec.n, spec.qs.len()));
    rep.count("param_family", &format!("{}|special={}|expand={}", spec.family, spec.special_flag, spec.expand));
    let oracle = if spec.n <= cfg.pick(64, 256) {
        match Oracle::new(&kit.ctx, &kit.sk) {
            Ok(o) => Some(o),
            Err(e) => { rep.violation(&format!("{}|keygen|secret|value", P), format!("secret key malformed: {} ; {}", e, spec.describe()), replay_json(cfg, grp, case, spec.describe())); None }
        }
    } else { None };
    let c = Ctx { cfg, grp, case };
    let before = rep.evaluations;
    if spec.scheme == SchemeType::CKKS { ckks_case(&c, rep, rng, &kit, &oracle); } else { bfv_bgv_case(&c, rep, rng, &kit, &oracle); }
    if case < 3 { rep.sample(json!({"group": grp, "case": case, "params": spec.describe(), "levels": kit.levels.len(), "evaluations_in_case": rep.evaluations - before, "oracle": oracle.is_some()})); }
}

pub fn run(cfg: &Cfg, rep: &mut Report) -> PropMeta {
    run_cases(cfg, "small", cfg.n(12000, 300000) as u64, rep, |i, rng, rep| one_case(cfg, "small", i, rng, rep, false));
    run_cases(cfg, "big", cfg.n(64, 800) as u64, rep, |i, rng, rep| one_case(cfg, "big", i, rng, rep, true));
    PropMeta {
        id: "C01", level: "exploration",
        rule: "random parameter sets from corner families (3 schemes, N=2..64 small / 1024..8192 big, 1..6 primes of any admissible size and order, plain modulus families batching prime/2^k/2/above-a-prime/random, special-prime flag, chain expansion) x plaintext corner classes x 7 encryption entry points (public key, destination form, explicit mask generator, secret key, seeded+expanded) x every level (zero encryptions; CKKS plaintexts encoded at every level). distinct = distinct (scheme, parameter family, mode, plaintext class, level) tuples with non-zero plaintext or non-first level",
        assumptions: vec!["correctness asserted only when t*(21(2N+1)+(N+1)/2+N+2)*16 < q_level (analytic worst case with margin); other cases executed and monitored for panics/metadata only".into(),
            "oracle decryptor (N<=64 quick, <=256 thorough) trusts refm::intt_ref with the library's published root psi (C09 checks psi)".into(),
            "entropy override hook makes runs replayable; every draw is still distinct".into()],
        exhaustive: false, floor: 2000,
    }
}
