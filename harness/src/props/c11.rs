//! C11 — batch encoding is a ring isomorphism; the Galois action is the documented rotation.
//!
//! Oracle (independent of heathcliff::util): with psi = the plain-modulus NTT table's root,
//! slot j of the 2-by-N/2 matrix is the evaluation point r_j = psi^(e_j), e_j = 3^j mod 2N
//! for the top row and e_(N/2+j) = -3^j mod 2N for the bottom row.
//!   * encode(e_j) must be the column N^-1 * r_j^(-k)  (k = 0..N-1)      [all N unit vectors]
//!   * decode(X^k) must be the row r_j^k             (j = 0..N-1)      [all N monomials]
//!   * random / extreme / short vectors: decode(encode(v)) = v zero-padded, p(r_j) = v_j by Horner
//!   * reference sums and schoolbook negacyclic products of encoded polynomials decode to the
//!     slot-wise sums / products
//!   * apply_galois_plain{,_new,_inplace}(encode(v), get_elt_from_step(s)) decodes to both rows
//!     rotated left by s for EVERY 0<|s|<N/2, element of step 0 / 2N-1 exchanges the rows
//!   * encode_polynomial reduces every coefficient mod t, decode_polynomial returns it.

use crate::refm;
use crate::rt::*;
use heathcliff::util::GaloisTool;
use heathcliff::{
    BatchEncoder, CoeffModulus, EncryptionParameters, Evaluator, HeContext, Modulus, PlainModulus, Plaintext, SchemeType,
    SecurityLevel,
};
use serde_json::{json, Value};
use std::sync::Arc;

const P: &str = "C11";
/// unit vectors / rotation steps handled by one case (keeps a case below ~0.5 s at N = 8192)
const CHUNK: usize = 2048;

// ------------------------------------------------------------------ configurations (N, t bit size, which prime)
#[derive(Clone, Copy, Debug)]
struct Conf { n: usize, bits: usize, kind: u8, first_of_n: bool } // kind 0 = smallest prime, 1 = largest (PlainModulus::batching), >= 2 random

/// candidates t = k*2N + 1 with exactly `bits` bits: (2N, kmin, kmax)
fn cand_range(n: usize, bits: usize) -> Option<(u64, u64, u64)> {
    let m = 2 * n as u64;
    let lo = 1u64 << (bits - 1);
    let hi = (1u64 << bits) - 1;
    let kmin = ((lo - 1 + m - 1) / m).max(1);
    let kmax = (hi - 1) / m;
    if kmin > kmax { None } else { Some((m, kmin, kmax)) }
}
fn prime_up(m: u64, from: u64, to: u64) -> Option<u64> {
    let mut k = from; let mut it = 0;
    while k <= to && it < 200_000 { let c = k * m + 1; if refm::is_prime(c) { return Some(c); } k += 1; it += 1; }
    None
}
fn prime_down(m: u64, from: u64, to: u64) -> Option<u64> {
    let mut k = from; let mut it = 0;
    while k >= to && k >= 1 && it < 200_000 { let c = k * m + 1; if refm::is_prime(c) { return Some(c); } k -= 1; it += 1; }
    None
}
fn pick_t(conf: &Conf, rng: &mut Rng) -> Option<u64> {
    let (m, kmin, kmax) = cand_range(conf.n, conf.bits)?;
    match conf.kind {
        0 => prime_up(m, kmin, kmax),
        1 => prime_down(m, kmax, kmin),
        _ => { let ks = rng.range(kmin, kmax); prime_up(m, ks, kmax).or_else(|| prime_up(m, kmin, ks)) }
    }
}
/// `count` distinct primes = 1 mod 2N, walking down from k = `from`, skipping `exclude`
fn ntt_primes_down(n: usize, from: u64, count: usize, exclude: u64) -> Vec<u64> {
    let m = 2 * n as u64; let mut out = vec![]; let mut k = from; let mut it = 0;
    while out.len() < count && k >= 1 && it < 400_000 {
        let c = k * m + 1;
        if c != exclude && refm::is_prime(c) { out.push(c); }
        k -= 1; it += 1;
    }
    out
}

fn build_confs(cfg: &Cfg) -> Vec<Conf> {
    let max_log = cfg.pick(10, 13);
    // seed-dependent random primes per (N, bit size): quick 4; thorough 6 up to N = 1024 and 1 above (cost)
    let randoms_small = cfg.pick(4u8, 6u8);
    let mut v = vec![];
    for logn in 1..=max_log {
        let n = 1usize << logn; let mut first = true;
        for bits in 4..=60usize {
            let Some((m, kmin, kmax)) = cand_range(n, bits) else { continue };
            if prime_up(m, kmin, kmax).is_none() { continue; }
            let randoms = if n <= 1024 { randoms_small } else { 1 };
            for kind in 0..(2 + randoms) { v.push(Conf { n, bits, kind, first_of_n: first }); first = false; }
        }
    }
    v
}

// ------------------------------------------------------------------ bundle: context + encoder + evaluator + oracle tables
struct Bundle {
    ctx: Arc<HeContext>, enc: BatchEncoder, ev: Evaluator,
    n: usize, h: usize, t: u64, tbits: usize, psi: u64,
    /// e_j: slot j evaluates at psi^(e_j)
    exps: Vec<usize>,
    /// pw[e] = psi^e, e in 0..2N
    pw: Vec<u64>,
    qs: Vec<u64>, qkind: &'static str, scheme: &'static str, standalone_tool: bool,
}
impl Bundle {
    fn root(&self, slot: usize) -> u64 { self.pw[self.exps[slot]] }
    fn info(&self) -> Value { json!({"N": self.n, "t": self.t, "t_bits": self.tbits, "psi": self.psi, "coeff_modulus": self.qs, "coeff_kind": self.qkind, "scheme": self.scheme}) }
}

/// per-case plumbing for violations
struct X<'a> { cfg: &'a Cfg, grp: &'a str, case: u64, info: Value }
impl<'a> X<'a> {
    fn viol(&self, rep: &mut Report, op: &str, class: &str, kind: &str, detail: String, extra: Value) {
        rep.violation(&format!("{}|{}|{}|{}", P, op, class, kind),
            format!("{} ; params {}", detail, self.info),
            replay_json(self.cfg, self.grp, self.case, json!({"params": self.info, "input": extra})));
    }
}
macro_rules! call {
    ($x:expr, $rep:expr, $op:expr, $class:expr, $inp:expr, $body:expr) => {{
        match lib(|| $body) {
            Ok(v) => Some(v),
            Err(p) => { $x.viol($rep, $op, $class, "panic", format!("{} panicked: {} ; input {}", $op, p.0, $inp), json!({"input": $inp})); None }
        }
    }};
}

fn tr(v: &[u64]) -> String {
    if v.len() <= 16 { format!("{:?}", v) } else { format!("[{} .. {}] (len {})", v[..8].iter().map(|x| x.to_string()).collect::<Vec<_>>().join(", "), v[v.len() - 2..].iter().map(|x| x.to_string()).collect::<Vec<_>>().join(", "), v.len()) }
}
fn first_diff(a: &[u64], b: &[u64]) -> Option<usize> {
    if a.len() != b.len() { return Some(a.len().min(b.len())); }
    (0..a.len()).find(|&i| a[i] != b[i])
}
fn mk_plain(data: &[u64]) -> Plaintext { let mut p = Plaintext::new(); p.resize(data.len()); p.data_mut().copy_from_slice(data); p }
fn padded(v: &[u64], n: usize) -> Vec<u64> { let mut r = v.to_vec(); r.resize(n, 0); r }

fn coeff_modulus_for(n: usize, t: u64, tbits: usize, crng: &mut Rng) -> (Vec<u64>, &'static str) {
    let m = 2 * n as u64;
    let k60 = ((1u64 << 60) - 2) / m;
    let kind_b = |cnt: usize| ntt_primes_down(n, k60, cnt, t);
    let kt = (t - 1) / m;
    match crng.below(10) {
        0..=2 => { // A: one prime above t
            if tbits < 60 {
                let qb = crng.range(tbits as u64 + 1, 60) as usize;
                if let Some((_, kmin, kmax)) = cand_range(n, qb) {
                    let start = if crng.bool() { kmax } else { crng.range(kmin, kmax) };
                    if let Some(q) = prime_down(m, start, kmin) { return (vec![q], "A:one_prime>t"); }
                }
            } else if let Some(q) = prime_up(m, kt + 1, k60) { return (vec![q], "A:one_prime>t"); }
            (kind_b(2), "B:60bit_primes")
        }
        3..=5 => (kind_b(2 + crng.usize_below(2)), "B:60bit_primes"),
        6..=7 => { // C: primes below t whose product exceeds t
            if kt >= 2 {
                let start = crng.range(1, kt - 1);
                let ps = ntt_primes_down(n, start, 8, t);
                let mut prod: u128 = 1; let mut out = vec![];
                for p in ps { out.push(p); prod = prod.saturating_mul(p as u128); if prod > t as u128 { break; } }
                if prod > t as u128 && !out.is_empty() { return (out, "C:primes<t"); }
            }
            (kind_b(2), "B:60bit_primes")
        }
        _ => { // D: the library's own generator
            let cnt = 1 + crng.usize_below(3);
            let lo = (tbits + 1).min(60);
            let sizes: Vec<usize> = (0..cnt.max(if tbits >= 60 { 2 } else { 1 })).map(|i| if i == 0 { crng.range(lo as u64, 60) as usize } else { crng.range(lo.min(40) as u64, 60) as usize }).collect();
            if let Ok(ms) = lib(|| CoeffModulus::create(n, sizes.clone())) {
                let qs: Vec<u64> = ms.iter().map(|x| x.value()).collect();
                let mut prod: u128 = 1; for &q in &qs { prod = prod.saturating_mul(q as u128); }
                let mut distinct = qs.clone(); distinct.sort(); distinct.dedup();
                if !qs.contains(&t) && prod > t as u128 && distinct.len() == qs.len() && qs.iter().all(|&q| refm::is_prime(q) && q % m == 1) {
                    return (qs, "D:CoeffModulus::create");
                }
            }
            (kind_b(3), "B:60bit_primes")
        }
    }
}

fn build_context(n: usize, t: u64, qs: &[u64], bgv: bool) -> Result<Arc<HeContext>, Panicked> {
    lib(|| {
        let moduli: Vec<Modulus> = qs.iter().map(|&q| Modulus::new(q)).collect();
        let parms = EncryptionParameters::new(if bgv { SchemeType::BGV } else { SchemeType::BFV })
            .set_poly_modulus_degree(n).set_coeff_modulus(&moduli).set_plain_modulus(&Modulus::new(t));
        HeContext::new(parms, true, SecurityLevel::None)
    })
}

fn make_bundle(cfg: &Cfg, grp: &str, case: u64, rep: &mut Report, conf: &Conf, conf_idx: usize, tally: bool) -> Option<Bundle> {
    let mut crng = Rng::derive(cfg.seed, 0xC11C0F, conf_idx as u64);
    let n = conf.n;
    let mut t = pick_t(conf, &mut crng)?;
    let mut t_source = match conf.kind { 0 => "smallest", 1 => "largest", _ => "random" };
    if conf.kind == 1 {
        // the library's own generator for batching primes; used when it is batching-compatible
        if let Ok(m) = lib(|| PlainModulus::batching(n, conf.bits)) {
            let v = m.value();
            if refm::is_prime(v) && v % (2 * n as u64) == 1 && refm::bit_len(v) == conf.bits {
                if v != t { rep.note(&format!("PlainModulus::batching({}, {}) = {} is not the largest such prime {}", n, conf.bits, v, t)); }
                t = v; t_source = "PlainModulus::batching";
            } else { rep.note(&format!("PlainModulus::batching({}, {}) = {} is not a {}-bit prime = 1 mod 2N (own prime used)", n, conf.bits, v, conf.bits)); }
        } else { rep.note(&format!("PlainModulus::batching({}, {}) panicked although a prime exists (own prime used)", n, conf.bits)); }
    }
    let tbits = refm::bit_len(t);
    let bgv = crng.below(4) == 0;
    let scheme = if bgv { "BGV" } else { "BFV" };
    let (mut qs, mut qkind) = coeff_modulus_for(n, t, tbits, &mut crng);
    let standalone_tool = crng.bool();
    let x = X { cfg, grp, case, info: json!({"N": n, "t": t, "coeff_modulus": qs, "scheme": scheme}) };
    let mut ctx = match build_context(n, t, &qs, bgv) {
        Ok(c) => c,
        Err(p) => { x.viol(rep, "HeContext::new", &format!("coeff={}", qkind), "panic", format!("HeContext::new panicked: {}", p.0), json!({})); return None; }
    };
    if !ctx.parameters_set() && !qkind.starts_with("B") {
        // an exotic coefficient modulus the library does not accept is not C11's business: use the plain one
        if tally { rep.count("coeff_modulus_fallback", qkind); }
        let k60 = ((1u64 << 60) - 2) / (2 * n as u64);
        qs = ntt_primes_down(n, k60, 2, t); qkind = "B:60bit_primes";
        ctx = match build_context(n, t, &qs, bgv) {
            Ok(c) => c,
            Err(p) => { x.viol(rep, "HeContext::new", "coeff=B:60bit_primes", "panic", format!("HeContext::new panicked: {}", p.0), json!({"coeff_modulus": qs})); return None; }
        };
    }
    let x = X { cfg, grp, case, info: json!({"N": n, "t": t, "coeff_modulus": qs, "scheme": scheme}) };
    if !ctx.parameters_set() {
        let err = ctx.first_context_data().map(|c| format!("{:?}", c.qualifiers().parameter_error)).unwrap_or_default();
        x.viol(rep, "HeContext::new", "coeff=B:60bit_primes", "rejected", format!("batching-compatible (N, t) with two 60-bit NTT primes rejected: {}", err), json!({}));
        return None;
    }
    let fcd = ctx.first_context_data().unwrap();
    if !fcd.qualifiers().using_batching {
        x.viol(rep, "HeContext::new", "t=1mod2N_prime", "no_batching", "qualifiers().using_batching is false for a prime t = 1 mod 2N".into(), json!({}));
        return None;
    }
    let psi = fcd.plain_ntt_tables().root();
    if !(psi < t && refm::is_primitive_2n_root(psi, n, t)) {
        x.viol(rep, "plain_ntt_tables.root", "any", "not_primitive", format!("root {} is not a primitive 2N-th root of unity mod t", psi), json!({}));
        return None;
    }
    let enc = call!(x, rep, "BatchEncoder::new", "batching_context", "-", BatchEncoder::new(ctx.clone()))?;
    let ev = call!(x, rep, "Evaluator::new", "batching_context", "-", Evaluator::new(ctx.clone()))?;
    if enc.slot_count() != n {
        x.viol(rep, "BatchEncoder::slot_count", "any", "value", format!("slot_count {} != N", enc.slot_count()), json!({}));
        return None;
    }
    // oracle tables
    let m2 = 2 * n; let h = n / 2;
    let mut pw = vec![1u64; m2];
    for e in 1..m2 { pw[e] = refm::mulmod(pw[e - 1], psi, t); }
    let mut exps = vec![0usize; n];
    let mut g = 1usize;
    for j in 0..h { exps[j] = g; exps[h + j] = m2 - g; g = (g * 3) % m2; }
    if tally {
        rep.count("configs_by_degree", &format!("N={:05}", n));
        rep.count("configs_by_t_bits", &format!("{:02}", tbits));
        rep.count("configs_degree_x_t_bits", &format!("N={:05},t_bits={:02}", n, tbits));
        rep.count("t_source", t_source);
        rep.count("coeff_modulus_kind", qkind);
        rep.count("scheme", scheme);
        rep.min("t_bits", tbits as f64); rep.max("t_bits", tbits as f64);
        rep.min("N", n as f64); rep.max("N", n as f64);
        rep.min("t", t as f64); rep.max("t", t as f64);
    }
    Some(Bundle { ctx, enc, ev, n, h, t, tbits, psi, exps, pw, qs, qkind, scheme, standalone_tool })
}

// ------------------------------------------------------------------ reference helpers local to C11
/// a*b mod (X^n+1, t), schoolbook with u128 accumulators (t < 2^60: 128 products fit before reduction)
fn negacyclic_mul_acc(a: &[u64], b: &[u64], t: u64) -> Vec<u64> {
    let n = a.len(); let tt = t as u128;
    let mut r = vec![0u64; n];
    for k in 0..n {
        let (mut pos, mut neg) = (0u128, 0u128);
        let mut cnt = 0;
        for i in 0..=k { pos += a[i] as u128 * b[k - i] as u128; cnt += 1; if cnt == 128 { pos %= tt; cnt = 0; } }
        cnt = 0;
        for i in k + 1..n { neg += a[i] as u128 * b[n + k - i] as u128; cnt += 1; if cnt == 128 { neg %= tt; cnt = 0; } }
        r[k] = ((pos % tt + tt - neg % tt) % tt) as u64;
    }
    r
}
fn rot_expected(v: &[u64], s: isize) -> Vec<u64> {
    let n = v.len(); let h = n / 2;
    let sh = s.rem_euclid(h as isize) as usize;
    let mut r = vec![0u64; n];
    for row in 0..2 { for c in 0..h { r[row * h + c] = v[row * h + (c + sh) % h]; } }
    r
}
fn swap_expected(v: &[u64]) -> Vec<u64> { let h = v.len() / 2; let mut r = v[h..].to_vec(); r.extend_from_slice(&v[..h]); r }
fn len_class(len: usize, n: usize) -> &'static str { if len == 0 { "len=0" } else if len < n { "0<len<N" } else { "len=N" } }
fn slots_to_check(n: usize, rng: &mut Rng) -> Vec<usize> {
    if n <= 256 { (0..n).collect() } else { let mut s: Vec<usize> = (0..32).map(|_| rng.usize_below(n)).collect(); s.push(0); s.push(n / 2 - 1); s.push(n / 2); s.push(n - 1); s }
}

fn dirty_plain(b: &Bundle, rng: &mut Rng) -> Plaintext {
    // a destination that already holds something else (stale content must not leak)
    let len = match rng.below(3) { 0 => 0, 1 => rng.range(1, b.n as u64) as usize, _ => b.n };
    let d: Vec<u64> = (0..len).map(|_| rng.below(b.t)).collect();
    mk_plain(&d)
}
fn dirty_vec(b: &Bundle, rng: &mut Rng) -> Vec<u64> {
    let len = match rng.below(3) { 0 => 0, 1 => rng.usize_below(b.n) + 1, _ => b.n + 5 };
    (0..len).map(|_| rng.u64()).collect()
}

/// encode through both forms; they must agree. Returns the plaintext.
fn encode_both(x: &X, rep: &mut Report, b: &Bundle, rng: &mut Rng, v: &[u64], class: &str) -> Option<Plaintext> {
    let inp = tr(v);
    let p_new = call!(x, rep, "encode_new", class, inp, b.enc.encode_new(v))?;
    let dirty = dirty_plain(b, rng);
    let p_dst = call!(x, rep, "encode", class, inp, { let mut d = dirty.clone(); b.enc.encode(v, &mut d); d })?;
    rep.count("forms", "encode"); rep.count("forms", "encode_new");
    if p_new.data() != p_dst.data() || p_new.coeff_count() != p_dst.coeff_count() {
        x.viol(rep, "encode", class, "dest_vs_new", format!("encode into a used destination {} differs from encode_new {} for values {}", tr(p_dst.data()), tr(p_new.data()), inp), json!({"values": v}));
    }
    if p_new.coeff_count() != b.n || p_new.data().len() != b.n {
        x.viol(rep, "encode_new", class, "shape", format!("coeff_count {} / data len {} != N for values {}", p_new.coeff_count(), p_new.data().len(), inp), json!({"values": v}));
        return None;
    }
    if let Some(i) = p_new.data().iter().position(|&c| c >= b.t) {
        x.viol(rep, "encode_new", class, "unreduced", format!("coefficient {} = {} >= t for values {}", i, p_new.data()[i], inp), json!({"values": v}));
        return None;
    }
    Some(p_new)
}
/// decode through both forms; they must agree. Returns the slots.
fn decode_both(x: &X, rep: &mut Report, b: &Bundle, rng: &mut Rng, p: &Plaintext, class: &str) -> Option<Vec<u64>> {
    let inp = tr(p.data());
    let d_new = call!(x, rep, "decode_new", class, inp, b.enc.decode_new(p))?;
    let dirty = dirty_vec(b, rng);
    let d_dst = call!(x, rep, "decode", class, inp, { let mut d = dirty.clone(); b.enc.decode(p, &mut d); d })?;
    rep.count("forms", "decode"); rep.count("forms", "decode_new");
    if d_new != d_dst {
        x.viol(rep, "decode", class, "dest_vs_new", format!("decode into a used vector {} differs from decode_new {} for plaintext {}", tr(&d_dst), tr(&d_new), inp), json!({"plain": p.data()}));
    }
    if d_new.len() != b.n {
        x.viol(rep, "decode_new", class, "shape", format!("{} slots returned, N expected, plaintext {}", d_new.len(), inp), json!({"plain": p.data()}));
        return None;
    }
    Some(d_new)
}

// ------------------------------------------------------------------ group "unit": all N unit vectors / all N monomials
fn unit_case(cfg: &Cfg, grp: &str, case: u64, rep: &mut Report, rng: &mut Rng, conf: &Conf, conf_idx: usize, chunk: usize) {
    let Some(b) = make_bundle(cfg, grp, case, rep, conf, conf_idx, chunk == 0) else { return };
    let x = X { cfg, grp, case, info: b.info() };
    let (n, t, m2) = (b.n, b.t, 2 * b.n);
    let ninv = refm::invmod(n as u64 % t, t).expect("N invertible mod prime t > N");
    // spw[e] = N^-1 * psi^(-e)
    let spw: Vec<u64> = (0..m2).map(|e| refm::mulmod(ninv, b.pw[(m2 - e) % m2], t)).collect();
    let lo = chunk * CHUNK; let hi = (lo + CHUNK).min(n);
    let (mut enc_bad, mut dec_bad) = (0u64, 0u64);
    let dirty = dirty_plain(&b, rng);
    for j in lo..hi {
        // ---- encode(e_j) == column j of the inverse transform
        let short = j % 2 == 1;
        let mut v = vec![0u64; if short { j + 1 } else { n }]; v[j] = 1;
        let cls = "unit_vector";
        let p = if j % 4 < 2 { rep.count("forms", "encode_new"); call!(x, rep, "encode_new", cls, format!("e_{} (len {})", j, v.len()), b.enc.encode_new(&v)) }
            else { rep.count("forms", "encode"); call!(x, rep, "encode", cls, format!("e_{} (len {})", j, v.len()), { let mut d = dirty.clone(); b.enc.encode(&v, &mut d); d }) };
        if let Some(p) = p {
            let e = b.exps[j];
            let mut bad = None;
            if p.coeff_count() != n || p.data().len() != n { bad = Some(usize::MAX); } else {
                let d = p.data(); let mut idx = 0usize;
                for k in 0..n { if d[k] != spw[idx] { bad = Some(k); break; } idx += e; if idx >= m2 { idx -= m2; } }
            }
            if let Some(k) = bad {
                enc_bad += 1;
                if enc_bad == 1 {
                    let want: Vec<u64> = (0..n).map(|k| spw[(e * k) % m2]).collect();
                    x.viol(rep, "encode", cls, "value", format!("encode(e_{}) (input length {}) = {} but N^-1 * r_j^-k with r_j = psi^{} is {} (first difference at coefficient {})", j, v.len(), tr(p.data()), e, tr(&want), k as isize),
                        json!({"unit_index": j, "input_len": v.len()}));
                }
            }
            if n <= 8 && chunk == 0 && conf.first_of_n && j == 1 && n >= 4 {
                rep.sample(json!({"group": "unit", "params": b.info(), "slot_exponents_e_j": b.exps, "input": v, "encode_output": p.data(), "expected_column_Ninv_psi^(-e_j*k)": (0..n).map(|k| spw[(e * k) % m2]).collect::<Vec<_>>()}));
            }
        }
        // ---- decode(X^k) == row of evaluations r_s^k
        let k = j;
        let cls = "monomial";
        let mut data = vec![0u64; if k % 2 == 0 { k + 1 } else { n }]; data[k] = 1;
        let pl = mk_plain(&data);
        let d = if k % 4 < 2 { rep.count("forms", "decode"); let dv = vec![7u64; (k % 5) * 3]; call!(x, rep, "decode", cls, format!("X^{} (coeff_count {})", k, data.len()), { let mut d = dv.clone(); b.enc.decode(&pl, &mut d); d }) }
            else { rep.count("forms", "decode_new"); call!(x, rep, "decode_new", cls, format!("X^{} (coeff_count {})", k, data.len()), b.enc.decode_new(&pl)) };
        if let Some(d) = d {
            let mut bad = None;
            if d.len() != n { bad = Some(usize::MAX); } else {
                for s in 0..n { if d[s] != b.pw[(b.exps[s] * k) & (m2 - 1)] { bad = Some(s); break; } }
            }
            if let Some(s) = bad {
                dec_bad += 1;
                if dec_bad == 1 {
                    let want: Vec<u64> = (0..n).map(|s| b.pw[(b.exps[s] * k) & (m2 - 1)]).collect();
                    x.viol(rep, "decode", cls, "value", format!("decode(X^{}) (coeff_count {}) = {} but the evaluations psi^(e_s*{}) are {} (first difference at slot {})", k, data.len(), tr(&d), k, tr(&want), s as isize),
                        json!({"monomial_degree": k, "coeff_count": data.len()}));
                }
            }
        }
        rep.evals(2);
    }
    let cnt = (hi - lo) as u64;
    rep.count_n("vector_class", "unit_vector:encode_vs_column_formula", cnt);
    rep.count_n("vector_class", "monomial:decode_vs_root_powers", cnt);
    rep.count_n("unit_vectors_by_degree", &format!("N={:05}", n), cnt);
    rep.distinct_key(&format!("unit|N={}|b={}", n, b.tbits));
}

// ------------------------------------------------------------------ group "iso": round trips, naive evaluation, sums, products, polynomial encoding
fn iso_case(cfg: &Cfg, grp: &str, case: u64, rep: &mut Report, rng: &mut Rng, conf: &Conf, conf_idx: usize) {
    let Some(b) = make_bundle(cfg, grp, case, rep, conf, conf_idx, false) else { return };
    let x = X { cfg, grp, case, info: b.info() };
    let (n, t) = (b.n, b.t);
    let rnd_vec = |rng: &mut Rng, len: usize| -> Vec<u64> { (0..len).map(|_| match rng.below(16) { 0 => 0, 1 => t - 1, 2 => 1, _ => rng.below(t) }).collect() };

    // ---- (a) vectors: decode(encode(v)) == v zero-padded ; p(r_s) == v_s
    let mut vectors: Vec<(&'static str, Vec<u64>)> = vec![
        ("index", (0..n as u64).map(|i| (i + 1) % t).collect()),
        ("random", rnd_vec(rng, n)),
        ("all_t-1", vec![t - 1; n]),
        ("zeros", vec![0; n]),
        ("empty", vec![]),
        ("short:len=1", vec![rng.range(1, t - 1)]),
        ("short:len=N-1", rnd_vec(rng, n - 1)),
        ("sparse", { let mut v = vec![0u64; n]; for _ in 0..3 { let i = rng.usize_below(n); v[i] = rng.range(1, t - 1); } v }),
    ];
    if n > 2 { let l = rng.range(1, n as u64 - 1) as usize; vectors.push(("short:random_len", rnd_vec(rng, l))); }
    if n >= 4 { vectors.push(("short:top_row_only", rnd_vec(rng, n / 2))); }
    let mut sample_rt = None;
    for (name, v) in &vectors {
        let lc = len_class(v.len(), n);
        let vp = padded(v, n);
        rep.count("vector_class", name);
        rep.eval(Some(&format!("iso|{}|N={}|b={}", name, n, b.tbits)));
        let Some(p) = encode_both(&x, rep, &b, rng, v, lc) else { continue };
        // naive evaluation of the encoded polynomial
        let slots = slots_to_check(n, rng);
        rep.count_n("naive_evaluation_slots", if n <= 256 { "all_slots(N<=256)" } else { "36_sampled_slots(N>256)" }, slots.len() as u64);
        for &s in &slots {
            let got = refm::horner(p.data(), b.root(s), t);
            if got != vp[s] {
                x.viol(rep, "encode", lc, "slot_value", format!("values {} encode to p = {} with p(psi^{}) = {} but slot {} holds {}", tr(v), tr(p.data()), b.exps[s], got, s, vp[s]), json!({"values": v, "slot": s}));
                break;
            }
        }
        let Some(d) = decode_both(&x, rep, &b, rng, &p, lc) else { continue };
        if d != vp {
            x.viol(rep, "encode+decode", lc, "value", format!("decode(encode({})) = {} (first difference at slot {:?}) ; plaintext {}", tr(v), tr(&d), first_diff(&d, &vp), tr(p.data())), json!({"values": v}));
        }
        if *name == "index" && n <= 8 { sample_rt = Some(json!({"values": v, "encode_output": p.data(), "decode_output": d})); }
    }
    // values >= t are outside the documented domain of encode: executed, never judged
    {
        let mut v = rnd_vec(rng, n); v[0] = t;
        let _ = lib(|| b.enc.encode_new(&v));
        let _ = lib(|| b.enc.encode_new(&vec![1u64; n + 1]));
        rep.out_of_precondition += 2;
    }

    // ---- (c) the other direction: arbitrary polynomials
    let mut polys: Vec<(&'static str, Vec<u64>)> = vec![("poly_len=N", rnd_vec(rng, n)), ("poly_len=N", vec![t - 1; n])];
    let pl_len = rng.range(1, n as u64 - 1) as usize;
    polys.push(("poly_len<N", rnd_vec(rng, pl_len)));
    polys.push(("poly_len<N", vec![]));
    for (cls, c) in &polys {
        rep.count("vector_class", &format!("polynomial:{}", cls));
        rep.eval(Some(&format!("iso|{}|N={}|b={}", cls, n, b.tbits)));
        let pl = mk_plain(c);
        let Some(d) = decode_both(&x, rep, &b, rng, &pl, cls) else { continue };
        for &s in &slots_to_check(n, rng) {
            let want = refm::horner(c, b.root(s), t);
            if d[s] != want {
                x.viol(rep, "decode", cls, "slot_value", format!("decode({}) slot {} = {} but p(psi^{}) = {}", tr(c), s, d[s], b.exps[s], want), json!({"plain": c, "slot": s}));
                break;
            }
        }
        if let Some(p2) = encode_both(&x, rep, &b, rng, &d, "len=N") {
            if p2.data() != &padded(c, n) {
                x.viol(rep, "decode+encode", cls, "value", format!("encode(decode({})) = {}", tr(c), tr(p2.data())), json!({"plain": c}));
            }
        }
    }

    // ---- (d) ring structure: reference sum / negacyclic product of encoded polynomials
    let pairs: Vec<(&'static str, Vec<u64>, Vec<u64>)> = {
        let mut v = vec![("random*random", rnd_vec(rng, n), rnd_vec(rng, n))];
        if n <= 2048 { v.push(("all_t-1*random", vec![t - 1; n], rnd_vec(rng, n))); }
        if n <= 2048 { v.push(("index*short", (0..n as u64).map(|i| (i + 1) % t).collect(), rnd_vec(rng, (n / 2).max(1)))); }
        v
    };
    let mut sample_ring = None;
    for (name, u, v) in &pairs {
        rep.eval(Some(&format!("iso|ring:{}|N={}|b={}", name, n, b.tbits)));
        let (up, vp) = (padded(u, n), padded(v, n));
        let Some(pa) = encode_both(&x, rep, &b, rng, u, len_class(u.len(), n)) else { continue };
        let Some(pb) = encode_both(&x, rep, &b, rng, v, len_class(v.len(), n)) else { continue };
        let sum = refm::poly_add(pa.data(), pb.data(), t);
        let prod = negacyclic_mul_acc(pa.data(), pb.data(), t);
        if n <= 64 { assert_eq!(prod, refm::negacyclic_mul(pa.data(), pb.data(), t), "harness: accumulating and schoolbook reference products differ"); }
        let want_sum: Vec<u64> = (0..n).map(|i| refm::addmod(up[i], vp[i], t)).collect();
        let want_prod: Vec<u64> = (0..n).map(|i| refm::mulmod(up[i], vp[i], t)).collect();
        rep.count("ring_ops", &format!("sum:{}", name)); rep.count("ring_ops", &format!("product:{}", name));
        rep.count("products_by_degree", &format!("N={:05}", n));
        let ds = decode_both(&x, rep, &b, rng, &mk_plain(&sum), "sum_of_encodings");
        if let Some(ds) = &ds { if *ds != want_sum {
            x.viol(rep, "sum", name, "value", format!("decode(encode(u)+encode(v)) = {} but u+v = {} (first difference at slot {:?}); u = {}, v = {}", tr(ds), tr(&want_sum), first_diff(ds, &want_sum), tr(u), tr(v)), json!({"u": u, "v": v}));
        } }
        let dp = decode_both(&x, rep, &b, rng, &mk_plain(&prod), "product_of_encodings");
        if let Some(dp) = &dp { if *dp != want_prod {
            x.viol(rep, "product", name, "value", format!("decode(encode(u)*encode(v) mod (X^N+1, t)) = {} but u.v = {} (first difference at slot {:?}); u = {}, v = {}", tr(dp), tr(&want_prod), first_diff(dp, &want_prod), tr(u), tr(v)), json!({"u": u, "v": v}));
        } }
        if n <= 8 && *name == "random*random" { sample_ring = Some(json!({"u": u, "v": v, "encode(u)": pa.data(), "encode(v)": pb.data(), "reference_sum_poly": sum, "reference_product_poly": prod, "decode(sum)": ds, "decode(product)": dp, "u+v": want_sum, "u.v": want_prod})); }
    }

    // ---- (e) coefficient (polynomial) encoding
    let big = |rng: &mut Rng| -> u64 { match rng.below(8) { 0 => t, 1 => t + 1, 2 => u64::MAX, 3 => 2 * t - 1, 4 => (u64::MAX / t) * t, 5 => t - 1, _ => rng.u64() } };
    let (l1, l2) = (rng.range(1, n as u64) as usize, rng.range(1, n as u64) as usize);
    let mut pv: Vec<(&'static str, Vec<u64>)> = vec![
        ("coeff<t", rnd_vec(rng, n)),
        ("coeff<t", rnd_vec(rng, l1)),
        ("coeff<t", vec![]),
        ("coeff>=t", (0..n).map(|_| big(rng)).collect()),
        ("coeff>=t", (0..l2).map(|_| big(rng)).collect()),
        ("coeff>=t", vec![t]),
    ];
    pv.push(("coeff>=t", vec![u64::MAX; 3.min(n)]));
    let mut sample_poly = None;
    for (cls, v) in &pv {
        rep.count("vector_class", &format!("encode_polynomial:{}", cls));
        rep.eval(Some(&format!("iso|encpoly:{}|N={}|b={}", cls, n, b.tbits)));
        let want: Vec<u64> = v.iter().map(|&c| c % t).collect();
        let inp = tr(v);
        let p_new = call!(x, rep, "encode_polynomial_new", cls, inp, b.enc.encode_polynomial_new(v));
        let dirty = dirty_plain(&b, rng);
        let p_dst = call!(x, rep, "encode_polynomial", cls, inp, { let mut d = dirty.clone(); b.enc.encode_polynomial(v, &mut d); d });
        rep.count("forms", "encode_polynomial"); rep.count("forms", "encode_polynomial_new");
        for (op, p) in [("encode_polynomial_new", &p_new), ("encode_polynomial", &p_dst)] {
            let Some(p) = p else { continue };
            let d = p.data();
            let ok = d.len() >= want.len() && d[..want.len()] == want[..] && d[want.len()..].iter().all(|&c| c == 0) && p.coeff_count() == d.len();
            if !ok {
                x.viol(rep, op, cls, "value", format!("{}({}) = {} (coeff_count {}) but the coefficients mod t are {}", op, inp, tr(d), p.coeff_count(), tr(&want)), json!({"values": v}));
                continue;
            }
            // coefficient decoding inverts it (both forms)
            let o_new = call!(x, rep, "decode_polynomial_new", cls, tr(d), b.enc.decode_polynomial_new(p));
            let dv = dirty_vec(&b, rng);
            let o_dst = call!(x, rep, "decode_polynomial", cls, tr(d), { let mut o = dv.clone(); b.enc.decode_polynomial(p, &mut o); o });
            rep.count("forms", "decode_polynomial"); rep.count("forms", "decode_polynomial_new");
            for (dop, o) in [("decode_polynomial_new", &o_new), ("decode_polynomial", &o_dst)] {
                let Some(o) = o else { continue };
                let ok = o.len() >= want.len() && o[..want.len()] == want[..] && o[want.len()..].iter().all(|&c| c == 0);
                if !ok { x.viol(rep, dop, cls, "value", format!("{}({}({})) = {} but the coefficients mod t are {}", dop, op, inp, tr(o), tr(&want)), json!({"values": v})); }
            }
            // and the encoded polynomial is the plaintext polynomial: its slots are its evaluations
            if op == "encode_polynomial_new" && !v.is_empty() {
                if let Some(sl) = call!(x, rep, "decode_new", "encode_polynomial_output", tr(d), b.enc.decode_new(p)) {
                    for &s in &slots_to_check(n, rng) {
                        let w = refm::horner(&want, b.root(s), t);
                        if sl.len() != n || sl[s] != w { x.viol(rep, "decode", "encode_polynomial_output", "slot_value", format!("decode(encode_polynomial({})) slot {} = {:?} but p(psi^{}) = {}", inp, s, sl.get(s), b.exps[s], w), json!({"values": v, "slot": s})); break; }
                    }
                }
            }
            if n <= 8 && *cls == "coeff>=t" && v.len() > 1 && op == "encode_polynomial_new" && sample_poly.is_none() { sample_poly = Some(json!({"values": v, "encode_polynomial_output": d, "decode_polynomial_output": o_new})); }
        }
    }
    { let _ = lib(|| b.enc.encode_polynomial_new(&vec![1u64; n + 1])); rep.out_of_precondition += 1; } // longer than N: a refusal is expected, not judged

    if conf.first_of_n && (n == 2 || n == 8) {
        rep.sample(json!({"group": "iso", "params": b.info(), "slot_exponents_e_j": b.exps, "roots_r_j": (0..n).map(|s| b.root(s)).collect::<Vec<_>>(),
            "round_trip": sample_rt, "ring": sample_ring, "polynomial_encoding": sample_poly}));
    }
}

// ------------------------------------------------------------------ group "rot": every rotation step, column swap
fn step_of(k: usize, h: usize) -> isize { if k < h - 1 { (k + 1) as isize } else { -((k - (h - 1) + 1) as isize) } }

/// apply the Galois element through the three forms and compare the decoded matrix
fn check_galois(x: &X, rep: &mut Report, b: &Bundle, dirty: &Plaintext, p: &Plaintext, v: &[u64], elt: usize, want: &[u64], class: &str, what: &str, forms: &[&'static str], outs: &mut Vec<Value>) {
    for &form in forms {
        let inp = format!("{} galois_elt={} values={}", what, elt, tr(v));
        let out = match form {
            "apply_galois_plain" => call!(x, rep, form, class, inp, { let mut d = dirty.clone(); b.ev.apply_galois_plain(p, elt, &mut d); d }),
            "apply_galois_plain_new" => call!(x, rep, form, class, inp, b.ev.apply_galois_plain_new(p, elt)),
            _ => call!(x, rep, form, class, inp, { let mut d = p.clone(); b.ev.apply_galois_plain_inplace(&mut d, elt); d }),
        };
        rep.count("forms", form);
        rep.evals(1);
        let Some(out) = out else { continue };
        let dec = if form == "apply_galois_plain_new" { call!(x, rep, "decode", "galois_output", tr(out.data()), { let mut d = vec![]; b.enc.decode(&out, &mut d); d }) }
            else { call!(x, rep, "decode_new", "galois_output", tr(out.data()), b.enc.decode_new(&out)) };
        let Some(dec) = dec else { continue };
        if outs.len() < 64 && form == "apply_galois_plain" { outs.push(json!({"step_or_element": what, "galois_elt": elt, "decoded": dec})); }
        if dec != want {
            // diagnosis only: is the polynomial the mathematical automorphism X -> X^elt of the input?
            let padded_in = padded(p.data(), b.n);
            let sigma = refm::automorphism(&padded_in, elt, b.t);
            let poly_is_sigma = padded(out.data(), b.n) == sigma;
            x.viol(rep, form, class, "value",
                format!("{} with galois_elt {} on matrix {} decodes to {} but the documented result is {} (first difference at slot {:?}; output polynomial {} the automorphism X->X^{} of the input)",
                    what, elt, tr(v), tr(&dec), tr(want), first_diff(&dec, want), if poly_is_sigma { "IS" } else { "is NOT" }, elt),
                json!({"values": v, "galois_elt": elt, "what": what}));
        }
    }
}

fn rot_case(cfg: &Cfg, grp: &str, case: u64, rep: &mut Report, rng: &mut Rng, conf: &Conf, conf_idx: usize, chunk: usize) {
    let Some(b) = make_bundle(cfg, grp, case, rep, conf, conf_idx, false) else { return };
    let x = X { cfg, grp, case, info: b.info() };
    let (n, h, t) = (b.n, b.h, b.t);
    let kcd = b.ctx.key_context_data().unwrap();
    let own_tool = if b.standalone_tool { Some(GaloisTool::new(n.trailing_zeros() as usize)) } else { None };
    let tool: &GaloisTool = match &own_tool { Some(t) => t, None => kcd.verif_galois_tool() };
    rep.count("galois_tool", if b.standalone_tool { "GaloisTool::new(log2 N)" } else { "context_data.galois_tool()" });
    const ALL: [&str; 3] = ["apply_galois_plain", "apply_galois_plain_new", "apply_galois_plain_inplace"];
    // index-valued matrix: every slot distinct and non-zero (N < t always)
    let v: Vec<u64> = (1..=n as u64).collect();
    let Some(p) = call!(x, rep, "encode_new", "len=N", tr(&v), b.enc.encode_new(&v)) else { return };
    let mut outs: Vec<Value> = vec![];
    let dirty = dirty_plain(&b, rng); // a used destination (stale content must not leak)
    let nsteps = if h >= 1 { 2 * (h - 1) } else { 0 }; // = N - 2
    let lo = chunk * CHUNK; let hi = (lo + CHUNK).min(nsteps);
    for k in lo..hi {
        let s = step_of(k, h);
        let class = if s > 0 { "step>0" } else { "step<0" };
        let Some(elt) = call!(x, rep, "get_elt_from_step", class, format!("step={}", s), tool.get_elt_from_step(s)) else { continue };
        let want = rot_expected(&v, s);
        check_galois(&x, rep, &b, &dirty, &p, &v, elt, &want, class, &format!("step {}", s), &ALL, &mut outs);
    }
    if hi > lo {
        rep.count_n("rotation_steps_checked_by_degree(all_0<|s|<N/2,x3_forms)", &format!("N={:05}", n), (hi - lo) as u64);
        rep.count_n("rotation_steps_by_sign", "step>0", (lo..hi).filter(|&k| step_of(k, h) > 0).count() as u64);
        rep.count_n("rotation_steps_by_sign", "step<0", (lo..hi).filter(|&k| step_of(k, h) < 0).count() as u64);
        rep.max("largest_|step|", (lo..hi).map(|k| step_of(k, h).unsigned_abs()).max().unwrap_or(0) as f64);
    }
    rep.distinct_key(&format!("rot|N={}|b={}|chunk={}", n, b.tbits, chunk));
    if chunk != 0 { return; }
    rep.count("rotation_configs_by_degree", &format!("N={:05}", n));

    // ---- column swap: the element of step 0 (what rotate_columns uses) and the literal 2N-1
    let want = swap_expected(&v);
    if let Some(e0) = call!(x, rep, "get_elt_from_step", "step=0", "step=0", tool.get_elt_from_step(0)) {
        check_galois(&x, rep, &b, &dirty, &p, &v, e0, &want, "column_swap", "column swap (element of step 0)", &ALL, &mut outs);
        rep.count("column_swap", "get_elt_from_step(0)");
        if e0 != 2 * n - 1 {
            check_galois(&x, rep, &b, &dirty, &p, &v, 2 * n - 1, &want, "column_swap", "column swap (element 2N-1)", &ALL, &mut outs);
            rep.note("get_elt_from_step(0) != 2N-1 observed");
        }
        if e0 == 2 * n - 1 { rep.count("column_swap", "element_2N-1 (is the element of step 0)"); } else { rep.count("column_swap", "element_2N-1 (separately)"); }
    }
    // ---- random matrices under random steps and the swap
    for _ in 0..4 {
        let rv: Vec<u64> = (0..n).map(|_| match rng.below(8) { 0 => 0, 1 => t - 1, _ => rng.below(t) }).collect();
        let Some(rp) = call!(x, rep, "encode_new", "len=N", tr(&rv), b.enc.encode_new(&rv)) else { continue };
        let mut sink = vec![];
        if nsteps > 0 {
            let s = step_of(rng.usize_below(nsteps), h);
            let class = if s > 0 { "step>0" } else { "step<0" };
            if let Some(elt) = call!(x, rep, "get_elt_from_step", class, format!("step={}", s), tool.get_elt_from_step(s)) {
                check_galois(&x, rep, &b, &dirty, &rp, &rv, elt, &rot_expected(&rv, s), class, &format!("step {}", s), &ALL, &mut sink);
            }
        }
        check_galois(&x, rep, &b, &dirty, &rp, &rv, 2 * n - 1, &swap_expected(&rv), "column_swap", "column swap (element 2N-1)", &ALL[..1], &mut sink);
        rep.count("vector_class", "rotation:random_matrix");
    }
    // ---- a valid plaintext with fewer than N coefficients (what encode_polynomial returns) has a decoded
    //      matrix too; the automorphism must act on it in the same way
    if n >= 4 {
        let c: Vec<u64> = (1..=3u64.min(n as u64 - 1)).collect();
        if let Some(ps) = call!(x, rep, "encode_polynomial_new", "coeff<t", tr(&c), b.enc.encode_polynomial_new(&c)) {
            if ps.coeff_count() < n {
                // the matrix of the short polynomial, by naive evaluation
                let m: Vec<u64> = (0..n).map(|s| refm::horner(&c, b.root(s), t)).collect();
                let mut sink = vec![];
                rep.count("vector_class", "rotation:plaintext_with_coeff_count<N");
                if let Some(e1) = call!(x, rep, "get_elt_from_step", "step>0", "step=1", tool.get_elt_from_step(1)) {
                    check_galois(&x, rep, &b, &dirty, &ps, &m, e1, &rot_expected(&m, 1), "coeff_count<N", &format!("step 1 on the plaintext {:?} (coeff_count {} < N)", c, c.len()), &ALL[..1], &mut sink);
                }
                check_galois(&x, rep, &b, &dirty, &ps, &m, 2 * n - 1, &swap_expected(&m), "coeff_count<N", &format!("column swap (element 2N-1) on the plaintext {:?} (coeff_count {} < N)", c, c.len()), &ALL[..1], &mut sink);
            }
        }
    }
    // ---- the list forms of the step -> element map: get_elts_from_steps is the element-wise map; get_elts_all is the column
    //      swap plus the elements of the steps +-2^j (2^j < N/2), which is what default Galois keys are generated for
    if h >= 2 {
        let steps: Vec<isize> = (0..6).map(|_| step_of(rng.usize_below(nsteps.max(1)), h)).chain([0isize]).collect();
        if let Some(got) = call!(x, rep, "get_elts_from_steps", "list", format!("{:?}", steps), tool.get_elts_from_steps(&steps)) {
            rep.count("tool_entry_points", "get_elts_from_steps");
            let want: Vec<Option<usize>> = steps.iter().map(|&st| lib(|| tool.get_elt_from_step(st)).ok()).collect();
            if got.iter().map(|&g| Some(g)).collect::<Vec<_>>() != want { x.viol(rep, "get_elts_from_steps", "list", "value", format!("get_elts_from_steps({:?}) = {:?} but element-wise {:?}", steps, got, want), json!({"steps": steps})); }
        }
        if let Some(got) = call!(x, rep, "get_elts_all", "list", "-", tool.get_elts_all()) {
            rep.count("tool_entry_points", "get_elts_all");
            let m = 2 * n as u64;
            let mut want: Vec<usize> = vec![2 * n - 1];
            let mut j = 1usize; while j < h { let e = refm::powmod(3, j as u64, m) as usize; want.push(e); want.push(refm::invmod(e as u64, m).unwrap() as usize); j *= 2; }
            let (mut g2, mut w2) = (got.clone(), want.clone()); g2.sort(); g2.dedup(); w2.sort(); w2.dedup();
            if g2 != w2 { x.viol(rep, "get_elts_all", "list", "value", format!("get_elts_all() = {:?} but the column swap and the steps +-2^j give {:?}", got, want), json!({"n": n})); }
        }
    }
    // ---- the tool's own polynomial entry points (apply / apply_p / apply_ps) on RNS polynomial stacks:
    //      pcount polynomials x k moduli, pcount != k in most draws; every component must be the automorphism
    //      X -> X^elt of the matching input component modulo the matching modulus, destination pre-filled with garbage
    {
        let qs: Vec<heathcliff::Modulus> = kcd.parms().coeff_modulus().to_vec();
        for round in 0..3 {
            let k = 1 + rng.usize_below(qs.len());
            let pcount = 1 + (round + rng.usize_below(2)) % 3;
            let moduli = &qs[..k];
            let elt = if round == 0 || nsteps == 0 { 2 * n - 1 } else { match lib(|| tool.get_elt_from_step(step_of(rng.usize_below(nsteps), h))) { Ok(e) => e, Err(_) => 3 } };
            let mut polys = vec![0u64; pcount * k * n];
            for pi in 0..pcount { for j in 0..k { let q = moduli[j].value(); for i in 0..n {
                polys[(pi * k + j) * n + i] = match rng.below(8) { 0 => 0, 1 => q - 1, _ => rng.below(q) };
            } } }
            let want: Vec<u64> = (0..pcount * k).flat_map(|c| refm::automorphism(&polys[c * n..(c + 1) * n], elt, moduli[c % k].value())).collect();
            let class = format!("pcount={}|k={}", pcount, if k == pcount { "pcount" } else if k < pcount { "<pcount" } else { ">pcount" });
            let inp = format!("pcount={} k={} elt={}", pcount, k, elt);
            let mut out = vec![0x5a5a_5a5a_5a5a_5a5au64; pcount * k * n];
            if call!(x, rep, "GaloisTool::apply_ps", &class, &inp, tool.apply_ps(&polys, pcount, elt, moduli, &mut out)).is_some() {
                rep.count("tool_entry_points", "apply_ps");
                rep.count("apply_ps_shapes(pcount_vs_moduli)", &class);
                if out != want {
                    let c = (0..pcount * k).find(|&c| out[c * n..(c + 1) * n] != want[c * n..(c + 1) * n]).unwrap();
                    x.viol(rep, "GaloisTool::apply_ps", &class, "value", format!("apply_ps({}) component {} (polynomial {}, modulus #{}) is not the automorphism X->X^{} of the input component (first difference at coefficient {:?}: got {}, expected {})",
                        inp, c, c / k, c % k, elt, first_diff(&out[c * n..(c + 1) * n], &want[c * n..(c + 1) * n]), tr(&out[c * n..(c + 1) * n]), tr(&want[c * n..(c + 1) * n])), json!({"pcount": pcount, "k": k, "elt": elt}));
                }
            }
            let mut out1 = vec![0x5a5a_5a5a_5a5a_5a5au64; k * n];
            if call!(x, rep, "GaloisTool::apply_p", &class, &inp, tool.apply_p(&polys[..k * n], elt, moduli, &mut out1)).is_some() {
                rep.count("tool_entry_points", "apply_p");
                if out1[..] != want[..k * n] { x.viol(rep, "GaloisTool::apply_p", &class, "value", format!("apply_p({}) is not the per-modulus automorphism X->X^{} of the input: got {}, expected {}", inp, elt, tr(&out1), tr(&want[..k * n])), json!({"k": k, "elt": elt})); }
            }
            // the NTT-domain forms (a permutation of the evaluation points, tables cached on first use): transforming, permuting
            // and transforming the coefficient-domain expectation must meet (the transform itself is C09's subject)
            {
                let tables = kcd.small_ntt_tables();
                let fwd = |v: &[u64]| -> Vec<u64> { let mut o = v.to_vec(); for c in 0..v.len() / n { tables[c % k].ntt_negacyclic_harvey(&mut o[c * n..(c + 1) * n]); } o };
                if let (Ok(xin), Ok(wn)) = (lib(|| fwd(&polys)), lib(|| fwd(&want))) {
                    let mut on = vec![0x5a5a_5a5a_5a5a_5a5au64; pcount * k * n];
                    if call!(x, rep, "GaloisTool::apply_ntt_ps", &class, &inp, tool.apply_ntt_ps(&xin, pcount, k, elt, &mut on)).is_some() {
                        rep.count("tool_entry_points", "apply_ntt_ps");
                        if on != wn { x.viol(rep, "GaloisTool::apply_ntt_ps", &class, "value", format!("apply_ntt_ps({}) is not the transform of the automorphism X->X^{} of the inputs (first differing word {:?})", inp, elt, first_diff(&on, &wn)), json!({"pcount": pcount, "k": k, "elt": elt})); }
                    }
                    let mut o1 = vec![0x5a5a_5a5a_5a5a_5a5au64; k * n];
                    if call!(x, rep, "GaloisTool::apply_ntt_p", &class, &inp, tool.apply_ntt_p(&xin[..k * n], k, elt, &mut o1)).is_some() {
                        rep.count("tool_entry_points", "apply_ntt_p");
                        if o1[..] != wn[..k * n] { x.viol(rep, "GaloisTool::apply_ntt_p", &class, "value", format!("apply_ntt_p({}) is not the transform of the automorphism X->X^{} of the input (first differing word {:?})", inp, elt, first_diff(&o1, &wn[..k * n])), json!({"k": k, "elt": elt})); }
                    }
                    let mut o0 = vec![0x5a5a_5a5a_5a5a_5a5au64; n];
                    if call!(x, rep, "GaloisTool::apply_ntt", &class, &inp, tool.apply_ntt(&xin[..n], elt, &mut o0)).is_some() {
                        rep.count("tool_entry_points", "apply_ntt");
                        if o0[..] != wn[..n] { x.viol(rep, "GaloisTool::apply_ntt", &class, "value", format!("apply_ntt({}) is not the transform of the automorphism X->X^{} of the input (first differing word {:?})", inp, elt, first_diff(&o0, &wn[..n])), json!({"elt": elt})); }
                    }
                }
            }
            let mut out0 = vec![0x5a5a_5a5a_5a5a_5a5au64; n];
            if call!(x, rep, "GaloisTool::apply", &class, &inp, tool.apply(&polys[..n], elt, &moduli[0], &mut out0)).is_some() {
                rep.count("tool_entry_points", "apply");
                if out0[..] != want[..n] { x.viol(rep, "GaloisTool::apply", &class, "value", format!("apply({}) is not the automorphism X->X^{} of the input: got {}, expected {}", inp, elt, tr(&out0), tr(&want[..n])), json!({"elt": elt})); }
            }
        }
    }
    // ---- steps outside 0<|s|<N/2 are outside the documented domain: executed, not judged
    for s in [h as isize, -(h as isize)] { let _ = lib(|| tool.get_elt_from_step(s)); rep.out_of_precondition += 1; }

    if conf.first_of_n && (n == 4 || n == 8) {
        rep.sample(json!({"group": "rot", "params": b.info(), "matrix_rows": [v[..h].to_vec(), v[h..].to_vec()], "encode_output": p.data(), "apply_galois_plain_outputs_decoded": outs}));
    }
}

// ------------------------------------------------------------------ driver
pub fn run(cfg: &Cfg, rep: &mut Report) -> PropMeta {
    let confs = build_confs(cfg);
    // iso: one case per configuration
    run_cases(cfg, "iso", confs.len() as u64, rep, |i, rng, rep| { iso_case(cfg, "iso", i, rep, rng, &confs[i as usize], i as usize); });
    // unit / rot: (configuration, chunk) work items
    let mut unit_items: Vec<(usize, usize)> = vec![]; let mut rot_items: Vec<(usize, usize)> = vec![];
    for (ci, c) in confs.iter().enumerate() {
        for ch in 0..(c.n + CHUNK - 1) / CHUNK { unit_items.push((ci, ch)); }
        let nsteps = c.n.saturating_sub(2);
        for ch in 0..((nsteps + CHUNK - 1) / CHUNK).max(1) { rot_items.push((ci, ch)); }
    }
    run_cases(cfg, "unit", unit_items.len() as u64, rep, |i, rng, rep| { let (ci, ch) = unit_items[i as usize]; unit_case(cfg, "unit", i, rep, rng, &confs[ci], ci, ch); });
    run_cases(cfg, "rot", rot_items.len() as u64, rep, |i, rng, rep| { let (ci, ch) = rot_items[i as usize]; rot_case(cfg, "rot", i, rep, rng, &confs[ci], ci, ch); });
    rep.note(&format!("{} configurations (N, t bit size, prime choice); every configuration: all N unit vectors, all N monomials, all N-2 rotation steps in three forms, column swap", confs.len()));
    PropMeta {
        id: "C11", level: "exploration",
        rule: "configurations: N = 2..1024 (quick) / 2..8192 (thorough) x every t bit size 4..60 for which a prime t = 1 mod 2N exists x {smallest, largest (PlainModulus::batching), 4 (quick) / 6 (thorough, N <= 1024) / 1 (thorough, N > 1024) seed-dependent random} primes, BFV/BGV, four kinds of coefficient modulus, SecurityLevel::None. Per configuration, exhaustively: the N unit vectors (encode vs. column N^-1 psi^(-e_j k)), the N monomials (decode vs. psi^(e_s k)), every rotation step 0<|s|<N/2 on the index-valued matrix through apply_galois_plain / _new / _inplace, the column swap; sampled: random / extreme / short vectors (round trip, Horner evaluation at all slots for N <= 256, 36 slots above), random polynomials (decode vs. Horner, encode(decode)), reference sums and schoolbook negacyclic products, encode_polynomial / decode_polynomial with coefficients below and above t. evaluations = vectors, polynomials, ring pairs and (step, form) pairs judged; distinct = (check, N, t bit size) classes. Per configuration also the Galois tool's own entry points: apply / apply_p / apply_ps on pcount x k RNS polynomial stacks (pcount != k in most draws) against the reference automorphism, apply_ntt / apply_ntt_p / apply_ntt_ps against the transform of that expectation, get_elts_from_steps against the element-wise map and get_elts_all against {2N-1} + elements of the steps +-2^j",
        assumptions: vec![
            "u128 arithmetic of rustc; refm::is_prime (deterministic Miller-Rabin)".into(),
            "psi is taken from context_data.plain_ntt_tables().root() and only checked to be a primitive 2N-th root of unity mod t".into(),
            "slot values < t (documented domain of encode); values >= t and lengths > N are executed but not judged".into(),
            "rotation checks read the result through the library's decode, which the unit/iso groups check against naive evaluation in the same run".into(),
            "a plaintext with coeff_count < N (as produced by encode_polynomial and accepted by is_valid_for / decode) is treated as a polynomial with zero high coefficients, also by apply_galois_plain".into(),
        ],
        exhaustive: false, floor: cfg.pick(100_000, 1_000_000),
    }
}
