//! C16 — seeded expansion is reproducible, draws are fresh, samples are well-formed.
//!
//! (1) Generator model: the byte stream of `BlakeRNG::from_seed(s)` is the concatenation over
//!     c = 0,1,2,.. of the first 4096 bytes of BLAKE3-XOF(s || c as LE u64), recomputed here with the
//!     `blake3` crate.  Byte reads are checked exactly against a position-tracking model; word reads
//!     must equal the stream bytes (little-endian) at SOME offset between the cursor and the cursor
//!     rounded up to the word width (how word reads align is an implementation choice, the property
//!     only promises a deterministic, chunking-independent byte stream).  The model therefore keeps a
//!     set of candidate cursors.
//! (2) Freshness history: unique-identifier discipline over encryptions / key generations of one
//!     context; explicit-generator entry points reproduce the mask and still draw fresh noise.
//! (3) Samplers: RNS consistency, bounds and exact-law goodness of fit (p < 1e-12 is a violation).

use crate::he::*;
use crate::props::c01::gen_plain;
use crate::refm;
use crate::rt::*;
use heathcliff::util::rlwe::{encrypt_zero, sample};
use heathcliff::util::{BlakeRNG, BlakeRNGFactory, PRNGSeed};
use heathcliff::*;
use rand::{RngCore, SeedableRng};
use serde_json::{json, Value};
use std::collections::{HashMap, HashSet};

const P: &str = "C16";
const BLOCK: u64 = 4096;

// ====================================================================== stream model
fn model_block(seed: &[u8; 64], c: u64) -> Box<[u8; 4096]> {
    let mut h = blake3::Hasher::new();
    h.update(seed);
    h.update(&c.to_le_bytes());
    let mut out = Box::new([0u8; 4096]);
    h.finalize_xof().fill(&mut out[..]);
    out
}

struct Stream { seed: [u8; 64], cache: HashMap<u64, Box<[u8; 4096]>> }
impl Stream {
    fn new(seed: [u8; 64]) -> Stream { Stream { seed, cache: HashMap::new() } }
    fn block(&mut self, c: u64) -> &[u8; 4096] {
        if !self.cache.contains_key(&c) {
            if self.cache.len() > 48 { self.cache.clear(); }
            let b = model_block(&self.seed, c);
            self.cache.insert(c, b);
        }
        self.cache.get(&c).unwrap()
    }
    /// index of the first byte of `data` that differs from the stream at `pos` (None = equal)
    fn first_diff(&mut self, pos: u64, data: &[u8]) -> Option<usize> {
        let mut done = 0usize;
        while done < data.len() {
            let p = pos + done as u64;
            let (c, off) = (p / BLOCK, (p % BLOCK) as usize);
            let take = (4096 - off).min(data.len() - done);
            let blk = self.block(c);
            if blk[off..off + take] != data[done..done + take] {
                for i in 0..take { if blk[off + i] != data[done + i] { return Some(done + i); } }
            }
            done += take;
        }
        None
    }
    fn eq_at(&mut self, pos: u64, data: &[u8]) -> bool { self.first_diff(pos, data).is_none() }
    fn bytes(&mut self, pos: u64, n: usize) -> Vec<u8> {
        let mut out = Vec::with_capacity(n);
        let mut p = pos;
        while out.len() < n {
            let (c, off) = (p / BLOCK, (p % BLOCK) as usize);
            let take = (4096 - off).min(n - out.len());
            let blk = self.block(c);
            out.extend_from_slice(&blk[off..off + take]);
            p += take as u64;
        }
        out
    }
}

fn align_up(x: u64, w: u64) -> u64 { (x + w - 1) / w * w }

/// sequential model: set of cursors that are consistent with everything observed so far
struct Model { stream: Stream, cands: Vec<u64> }
impl Model {
    fn new(seed: [u8; 64]) -> Model { Model { stream: Stream::new(seed), cands: vec![0] } }
    fn cursor(&self) -> u64 { self.cands[0] }
    fn fill(&mut self, data: &[u8]) -> Result<(), String> {
        let mut next: Vec<u64> = vec![];
        for &c in &self.cands.clone() { if self.stream.eq_at(c, data) { next.push(c + data.len() as u64); } }
        next.sort(); next.dedup();
        if next.is_empty() {
            let c = self.cursor();
            let d = self.stream.first_diff(c, data).unwrap_or(0);
            let want = self.stream.bytes(c + d as u64, (data.len() - d).min(8));
            return Err(format!("byte read of {} bytes at stream offset {} (block {}, in-block {}): first wrong byte at +{} (stream offset {}, in-block {}), got {} expected {}",
                data.len(), c, c / BLOCK, c % BLOCK, d, c + d as u64, (c + d as u64) % BLOCK, hex(&data[d..(d + 8).min(data.len())]), hex(&want)));
        }
        self.cands = next;
        Ok(())
    }
    /// word read of `w` bytes; returns which admissible offset matched for the primary cursor
    fn word(&mut self, w: u64, bytes: &[u8]) -> Result<&'static str, String> {
        let mut next: Vec<u64> = vec![];
        let mut how = "";
        for (k, &c) in self.cands.clone().iter().enumerate() {
            let hi = align_up(c, w);
            // unaligned first, then aligned, then the offsets in between
            let mut order = vec![c];
            if hi != c { order.push(hi); for p in c + 1..hi { order.push(p); } }
            for p in order {
                if self.stream.eq_at(p, bytes) {
                    next.push(p + w);
                    if k == 0 && how.is_empty() { how = if hi == c { "cursor_already_aligned" } else if p == c { "at_unaligned_cursor" } else if p == hi { "at_aligned_up_cursor" } else { "between" }; }
                }
            }
        }
        next.sort(); next.dedup();
        if next.is_empty() {
            let c = self.cursor(); let hi = align_up(c, w);
            let want_a = self.stream.bytes(hi, w as usize); let want_u = self.stream.bytes(c, w as usize);
            return Err(format!("{}-byte word read at stream offset {} (block {}, in-block {}): got {} ; stream has {} at the aligned offset {} and {} at the cursor; no offset in [{},{}] matches",
                w, c, c / BLOCK, c % BLOCK, hex(bytes), hex(&want_a), hi, hex(&want_u), c, hi));
        }
        self.cands = next;
        Ok(how)
    }
}

fn hex(b: &[u8]) -> String { b.iter().map(|x| format!("{:02x}", x)).collect() }

fn rand_seed(rng: &mut Rng) -> [u8; 64] {
    let mut s = [0u8; 64];
    for i in 0..8 { s[i * 8..i * 8 + 8].copy_from_slice(&rng.u64().to_le_bytes()); }
    s
}
fn gen_seed(rng: &mut Rng) -> ([u8; 64], &'static str) {
    match rng.below(10) {
        0 => ([0u8; 64], "all_zero"),
        1 => ([0xffu8; 64], "all_ff"),
        2 => { let mut s = [0u8; 64]; let b = rng.usize_below(512); s[b / 8] |= 1 << (b % 8); (s, "single_bit") }
        _ => (rand_seed(rng), "random"),
    }
}
fn blake(seed: [u8; 64]) -> BlakeRNG { BlakeRNG::from_seed(PRNGSeed(seed)) }

// ====================================================================== (1a) operation sequences
#[derive(Clone, Copy, Debug)]
enum Op { Fill(usize), TryFill(usize), U32, U64 }

fn gen_op(rng: &mut Rng, cur: u64) -> Op {
    let d = (BLOCK - cur % BLOCK) as i64; // distance to the next refill, 1..=4096
    let near = |rng: &mut Rng| -> usize { (d + rng.below(19) as i64 - 9).max(0) as usize };
    match rng.below(100) {
        0..=17 => Op::Fill(rng.usize_below(10)),
        18..=37 => Op::Fill(near(rng)),
        38..=45 => Op::Fill(*rng.pick(&[4095usize, 4096, 4097, 8191, 8192, 8193, 12287, 12288, 12289])),
        46..=49 => Op::Fill(rng.usize_below(20000)),
        50..=54 => Op::TryFill(near(rng)),
        55..=57 => Op::TryFill(rng.usize_below(10)),
        58..=78 => Op::U32,
        _ => Op::U64,
    }
}

fn n_class(n: usize) -> &'static str { match n { 0 => "0", 1..=7 => "1-7", 8..=4095 => "8-4095", 4096 => "4096", _ => ">4096" } }

fn ops_case(cfg: &Cfg, grp: &str, case: u64, rng: &mut Rng, rep: &mut Report) {
    let (seed, sclass) = gen_seed(rng);
    rep.count("ops_seed_class", sclass);
    let mut g1 = blake(seed); let mut g2 = blake(seed);
    let mut model = Model::new(seed);
    let nops = cfg.pick(300usize, 600);
    let mut trace: Vec<Value> = vec![];
    for step in 0..nops {
        let cur = model.cursor();
        let op = gen_op(rng, cur);
        let inb = cur % BLOCK;
        let (name, out1, out2): (&str, Vec<u8>, Vec<u8>) = match op {
            Op::Fill(n) => { let mut a = vec![0xa5u8; n]; let mut b = vec![0x5au8; n]; let r = lib(|| { g1.fill_bytes(&mut a); g2.fill_bytes(&mut b); }); if let Err(p) = r { panic_v(cfg, grp, case, rep, "blake.fill_bytes", &format!("n={}", n_class(n)), &p, json!({"seed": hex(&seed), "cursor": cur, "n": n})); return; } ("fill_bytes", a, b) }
            Op::TryFill(n) => { let mut a = vec![0xa5u8; n]; let mut b = vec![0x5au8; n]; let r = lib(|| { g1.try_fill_bytes(&mut a).is_ok() && g2.try_fill_bytes(&mut b).is_ok() }); match r { Err(p) => { panic_v(cfg, grp, case, rep, "blake.try_fill_bytes", &format!("n={}", n_class(n)), &p, json!({"seed": hex(&seed), "cursor": cur, "n": n})); return; } Ok(false) => { rep.violation(&format!("{}|blake.try_fill_bytes|any|error", P), format!("try_fill_bytes({}) returned Err", n), replay_json(cfg, grp, case, json!({"seed": hex(&seed)}))); return; } Ok(true) => {} } ("try_fill_bytes", a, b) }
            Op::U32 => { match lib(|| (g1.next_u32(), g2.next_u32())) { Ok((a, b)) => ("next_u32", a.to_le_bytes().to_vec(), b.to_le_bytes().to_vec()), Err(p) => { panic_v(cfg, grp, case, rep, "blake.next_u32", &format!("cursor%4={}", cur % 4), &p, json!({"seed": hex(&seed), "cursor": cur})); return; } } }
            Op::U64 => { match lib(|| (g1.next_u64(), g2.next_u64())) { Ok((a, b)) => ("next_u64", a.to_le_bytes().to_vec(), b.to_le_bytes().to_vec()), Err(p) => { panic_v(cfg, grp, case, rep, "blake.next_u64", &format!("cursor%8={}", cur % 8), &p, json!({"seed": hex(&seed), "cursor": cur})); return; } } }
        };
        // (i) determinism: same seed, same operation sequence
        if out1 != out2 {
            rep.violation(&format!("{}|blake.determinism|{}|value", P, name), format!("two generators with the same seed and operation sequence disagree at step {} ({} at cursor {}): {} vs {}", step, name, cur, hex(&out1[..out1.len().min(16)]), hex(&out2[..out2.len().min(16)])),
                replay_json(cfg, grp, case, json!({"seed": hex(&seed), "step": step})));
            return;
        }
        let class;
        let res: Result<&'static str, String> = match op {
            Op::Fill(n) | Op::TryFill(n) => {
                let end = cur + n as u64;
                let crossed = if n == 0 { 0 } else { (end - 1) / BLOCK - cur / BLOCK };
                class = format!("{}|n={}|refills_inside={}|starts_at_refill={}|ends_at_refill={}", name, n_class(n), crossed.min(3), inb == 0, n > 0 && end % BLOCK == 0);
                rep.count("byte_reads", &class);
                model.fill(&out1).map(|_| "exact")
            }
            Op::U32 | Op::U64 => {
                let w = if matches!(op, Op::U32) { 4u64 } else { 8 };
                let place = if inb == 0 { "at_refill" } else if inb % w != 0 && inb > BLOCK - w { "alignment_skip_crosses_refill" } else if inb + w > BLOCK { "at_refill" } else { "inside_block" };
                class = format!("{}|cursor%{}={}|{}", name, w, cur % w, place);
                let r = model.word(w, &out1);
                if let Ok(how) = r { rep.count("word_reads", &format!("{}|matched={}", class, how)); }
                r
            }
        };
        rep.eval(Some(&class));
        if case == 0 && trace.len() < 14 { trace.push(json!({"op": format!("{:?}", op), "cursor_before": cur, "in_block": inb, "observed": hex(&out1[..out1.len().min(16)]), "len": out1.len(), "cursor_after": model.cursor()})); }
        if let Err(detail) = res {
            let (opn, cls) = match op {
                Op::Fill(n) | Op::TryFill(n) => { let end = cur + n as u64; let crossed = if n == 0 { 0 } else { (end - 1) / BLOCK - cur / BLOCK }; (format!("blake.{}", name), if crossed > 0 { "straddles_refill" } else { "inside_block" }.to_string()) }
                _ => (format!("blake.{}", name), if inb == 0 || inb + 8 > BLOCK { "near_refill" } else { "inside_block" }.to_string()),
            };
            rep.violation(&format!("{}|{}|{}|value", P, opn, cls), format!("step {}: {} ; seed {}", step, detail, hex(&seed)), replay_json(cfg, grp, case, json!({"seed": hex(&seed), "step": step, "op": format!("{:?}", op)})));
            return;
        }
        if model.cands.len() > 1 { rep.count("model", "ambiguous_cursor_steps"); }
    }
    rep.max("ops_max_stream_offset", model.cursor() as f64);
    if case == 0 { rep.sample(json!({"group": grp, "case": case, "seed": hex(&seed), "first_operations": trace})); }
}

fn panic_v(cfg: &Cfg, grp: &str, case: u64, rep: &mut Report, op: &str, class: &str, p: &Panicked, info: Value) {
    rep.violation(&format!("{}|{}|{}|panic", P, op, class), format!("{} panicked: {} ; {}", op, p.0, info), replay_json(cfg, grp, case, info));
}

// ====================================================================== (1b) chunkings
fn chunkings(rng: &mut Rng, total: usize) -> Vec<(&'static str, Vec<usize>, bool)> {
    let mut out: Vec<(&'static str, Vec<usize>, bool)> = vec![("single_call", vec![total], false)];
    out.push(("bytewise", vec![1; total], false));
    let split = |rng: &mut Rng, f: &mut dyn FnMut(&mut Rng, usize) -> usize| -> Vec<usize> {
        let mut v = vec![]; let mut done = 0;
        while done < total { let c = f(rng, done).min(total - done); v.push(c); done += c; }
        v
    };
    out.push(("random_1_17", split(rng, &mut |r, _| r.range(1, 17) as usize), false));
    out.push(("mixed_with_zero_lengths", split(rng, &mut |r, _| *r.pick(&[0usize, 1, 2, 3, 5, 7, 8, 9, 13, 64, 100, 4095, 4096, 4097, 6000])), false));
    out.push(("hug_refill", split(rng, &mut |r, done| { let d = 4096 - done % 4096; if d > 3 { d - r.range(1, 3) as usize } else { r.range(1, 6) as usize } }), false));
    out.push(("chunks_4095", split(rng, &mut |_, _| 4095), false));
    out.push(("chunks_4097", split(rng, &mut |_, _| 4097), false));
    out.push(("try_fill_random", split(rng, &mut |r, _| r.range(0, 5000) as usize), true));
    out.push(("two_parts", { let a = rng.usize_below(total + 1); vec![a, total - a] }, false));
    out
}

fn chunk_case(cfg: &Cfg, grp: &str, case: u64, rng: &mut Rng, rep: &mut Report) {
    let (seed, _) = gen_seed(rng);
    let m = rng.range(1, 5) as usize;
    let total = match rng.below(3) { 0 => m * 4096, 1 => (m * 4096 + rng.usize_below(35)).saturating_sub(17).max(1), _ => rng.range(1, 20000) as usize };
    let want = Stream::new(seed).bytes(0, total);
    let mut first: Option<Vec<u8>> = None;
    for (name, chunks, try_fill) in chunkings(rng, total) {
        let mut g = blake(seed);
        let mut buf = vec![0x33u8; total];
        let r = lib(|| { let mut at = 0; for &c in &chunks { if try_fill { g.try_fill_bytes(&mut buf[at..at + c]).unwrap(); } else { g.fill_bytes(&mut buf[at..at + c]); } at += c; } at });
        rep.count("chunkings", name);
        rep.eval(Some(&format!("chunk|{}|total%4096={}", name, if total % 4096 == 0 { "0" } else { "nz" })));
        match r {
            Err(p) => { panic_v(cfg, grp, case, rep, "blake.chunking", name, &p, json!({"seed": hex(&seed), "total": total})); continue; }
            Ok(at) => debug_assert_eq!(at, total),
        }
        if buf != want {
            let d = (0..total).find(|&i| buf[i] != want[i]).unwrap();
            rep.violation(&format!("{}|blake.chunking|{}|value", P, name), format!("chunking {} of {} bytes differs from the BLAKE3 stream definition at offset {} (in-block {}): got {} expected {} ; first chunks {:?} ; seed {}", name, total, d, d % 4096, hex(&buf[d..(d + 8).min(total)]), hex(&want[d..(d + 8).min(total)]), &chunks[..chunks.len().min(8)], hex(&seed)),
                replay_json(cfg, grp, case, json!({"seed": hex(&seed), "total": total, "chunking": name})));
        }
        match &first {
            None => first = Some(buf),
            Some(f) => if *f != buf {
                let d = (0..total).find(|&i| buf[i] != f[i]).unwrap();
                rep.violation(&format!("{}|blake.chunking_independence|{}|value", P, name), format!("chunking {} and a single call of {} bytes return different streams from offset {}", name, total, d), replay_json(cfg, grp, case, json!({"seed": hex(&seed), "total": total, "chunking": name})));
            }
        }
    }
    rep.max("chunking_max_total_bytes", total as f64);
    if case == 0 { rep.sample(json!({"group": grp, "case": case, "seed": hex(&seed), "total_bytes": total, "chunkings_compared": 9, "stream_head": hex(&want[..want.len().min(32)]), "bytes_around_first_refill": if total > 4100 { hex(&want[4092..4100]) } else { String::new() }})); }
}

// ====================================================================== (1c) no repetition, (1d) seed sensitivity
/// One long stream read in pieces without keeping it: 260 MiB pass the points where an 8- or 16-bit block counter would
/// wrap (1 MiB, 256 MiB). Selected blocks (the first 64, every power of two +-1, 128 past the 2^16-th, 200 random ones) are
/// compared with the definition BLAKE3-XOF(seed || le64(block index)); the digest of block k is compared with block 2^16 + k.
fn wrap_case(cfg: &Cfg, grp: &str, case: u64, rng: &mut Rng, rep: &mut Report) {
    let seed = rand_seed(rng);
    let total_blocks: u64 = (1 << 16) + 1024;
    let mut want: std::collections::BTreeSet<u64> = (0..64).chain((1 << 16)..(1 << 16) + 128).collect();
    for k in 6..=16u32 { for d in [-1i64, 0, 1] { let b = (1i64 << k) + d; if b >= 0 && (b as u64) < total_blocks { want.insert(b as u64); } } }
    for _ in 0..200 { want.insert(rng.below(total_blocks)); }
    let mut g = blake(seed);
    let chunk_blocks = 256usize; // 1 MiB per read, split at a random point so that reads are not block aligned
    let mut buf = vec![0u8; chunk_blocks * 4096];
    let mut first_digests: Vec<[u8; 16]> = Vec::with_capacity(1024);
    let mut b0 = 0u64; let mut bad = 0u64; let mut checked = 0u64;
    while b0 < total_blocks {
        let nb = chunk_blocks.min((total_blocks - b0) as usize); let len = nb * 4096;
        let cut = rng.range(1, len as u64 - 1) as usize;
        let r = lib(|| { g.fill_bytes(&mut buf[..cut]); g.fill_bytes(&mut buf[cut..len]); });
        if let Err(p) = r { panic_v(cfg, grp, case, rep, "blake.fill_bytes", "long_stream", &p, json!({"seed": hex(&seed), "block": b0})); return; }
        for j in 0..nb {
            let bi = b0 + j as u64; let blk = &buf[j * 4096..(j + 1) * 4096];
            if bi < 1024 { first_digests.push(blake3::hash(blk).as_bytes()[..16].try_into().unwrap()); }
            if bi >= (1 << 16) && bi < (1 << 16) + 1024 {
                let d: [u8; 16] = blake3::hash(blk).as_bytes()[..16].try_into().unwrap();
                if d == first_digests[(bi - (1 << 16)) as usize] && bad == 0 {
                    bad += 1;
                    rep.violation(&format!("{}|blake.norepeat|block4096_after_2^16_blocks|repeat", P), format!("block {} of the stream equals block {} (the stream repeats after 256 MiB) ; seed {}", bi, bi - (1 << 16), hex(&seed)), replay_json(cfg, grp, case, json!({"seed": hex(&seed)})));
                }
            }
            if want.contains(&bi) {
                checked += 1;
                if model_block(&seed, bi)[..] != *blk && bad < 3 {
                    bad += 1;
                    rep.violation(&format!("{}|blake.long_stream|block_vs_definition_beyond_2^{}|value", P, if bi >= (1 << 16) { 16 } else if bi >= 256 { 8 } else { 0 }), format!("block {} of a {}-block stream differs from BLAKE3-XOF(seed||{}) ; seed {}", bi, total_blocks, bi, hex(&seed)), replay_json(cfg, grp, case, json!({"seed": hex(&seed), "block": bi})));
                }
            }
        }
        b0 += nb as u64;
    }
    rep.evals(checked + 1024);
    rep.distinct_key(&format!("wrap|{}", case));
    rep.count_n("norepeat", "long_stream_bytes(260MiB_per_seed)", total_blocks * 4096);
    rep.count_n("norepeat", "long_stream_blocks_vs_definition", checked);
    rep.count_n("norepeat", "long_stream_blocks_vs_block_minus_2^16", 1024);
}

fn norepeat_case(cfg: &Cfg, grp: &str, case: u64, rng: &mut Rng, rep: &mut Report) {
    let (seed, sclass) = if case == 0 { ([0u8; 64], "all_zero") } else if case == 1 { ([0xffu8; 64], "all_ff") } else { (rand_seed(rng), "random") };
    let len: usize = ((cfg.pick(8usize, 272) << 20) as f64 * cfg.scale.min(1.0)) as usize / 4096 * 4096;
    let len = len.max(4096 * 4);
    let mut g = blake(seed);
    let mut buf = vec![0u8; len];
    let mut at = 0usize; let mut calls = 0u64;
    let r = lib(|| { while at < len { let c = (rng.range(1, 2 << 20) as usize).min(len - at); g.fill_bytes(&mut buf[at..at + c]); at += c; calls += 1; } });
    if let Err(p) = r { panic_v(cfg, grp, case, rep, "blake.fill_bytes", "long_stream", &p, json!({"seed": hex(&seed), "len": len})); return; }
    // every block equals the model, no block repeats
    let mut blocks: HashMap<u128, u64> = HashMap::new();
    let mut bad_model = 0u64;
    for (i, b) in buf.chunks_exact(4096).enumerate() {
        let m = model_block(&seed, i as u64);
        if m[..] != *b {
            bad_model += 1;
            if bad_model <= 1 { rep.violation(&format!("{}|blake.long_stream|block_vs_definition|value", P), format!("block {} of the stream (read in {} calls of random length) differs from BLAKE3-XOF(seed||{}): got {} expected {} ; seed {}", i, calls, i, hex(&b[..16]), hex(&m[..16]), hex(&seed)), replay_json(cfg, grp, case, json!({"seed": hex(&seed), "block": i}))); }
        }
        let h = u128::from_le_bytes(blake3::hash(b).as_bytes()[..16].try_into().unwrap());
        if let Some(prev) = blocks.insert(h, i as u64) {
            rep.violation(&format!("{}|blake.norepeat|block4096|repeat", P), format!("4096-byte block {} repeats block {} within {} bytes ; seed {}", i, prev, len, hex(&seed)), replay_json(cfg, grp, case, json!({"seed": hex(&seed), "blocks": [prev, i]})));
            break;
        }
        rep.evals(1);
    }
    // no 16-byte aligned window repeats
    let mut wins: Vec<u128> = buf.chunks_exact(16).map(|w| u128::from_le_bytes(w.try_into().unwrap())).collect();
    let nwin = wins.len();
    wins.sort_unstable();
    let dup = wins.windows(2).find(|p| p[0] == p[1]).map(|p| p[0]);
    drop(wins);
    if let Some(v) = dup {
        let pos: Vec<usize> = buf.chunks_exact(16).enumerate().filter(|(_, w)| u128::from_le_bytes((*w).try_into().unwrap()) == v).map(|(i, _)| i * 16).take(4).collect();
        rep.violation(&format!("{}|blake.norepeat|window16|repeat", P), format!("16-byte aligned window {:032x} occurs at stream offsets {:?} within {} bytes ; seed {}", v, pos, len, hex(&seed)), replay_json(cfg, grp, case, json!({"seed": hex(&seed), "offsets": pos})));
    }
    rep.distinct_key(&format!("norepeat|{}", case));
    rep.count("norepeat_seed_class", sclass);
    rep.count_n("norepeat", "bytes_explored", len as u64);
    rep.count_n("norepeat", "blocks_checked_distinct_and_vs_definition", (len / 4096) as u64);
    rep.count_n("norepeat", "windows16_checked_distinct", nwin as u64);
    rep.max("norepeat_bytes_per_seed", len as f64);
    if case == 0 { rep.sample(json!({"group": grp, "case": case, "seed": hex(&seed), "bytes": len, "fill_calls": calls, "blocks": len / 4096, "windows": nwin, "block_repeats": 0, "window_repeat": dup.is_some(), "last_block_head": hex(&buf[len - 4096..len - 4080])})); }
}

fn bitflip_case(cfg: &Cfg, grp: &str, case: u64, rng: &mut Rng, rep: &mut Report) {
    let (base, _) = gen_seed(rng);
    let first = |s: [u8; 64]| -> Result<Vec<u8>, Panicked> { lib(|| { let mut g = blake(s); let mut b = vec![0u8; 4096]; g.fill_bytes(&mut b); b }) };
    let Ok(b0) = first(base) else { return };
    let mut seen: HashMap<Vec<u8>, i32> = HashMap::new();
    seen.insert(b0.clone(), -1);
    for bit in 0..512usize {
        let mut s = base; s[bit / 8] ^= 1 << (bit % 8);
        let Ok(b) = first(s) else { continue };
        rep.eval(Some(&format!("bitflip|byte{}", bit / 8)));
        if b[..] != model_block(&s, 0)[..] {
            rep.violation(&format!("{}|blake.seed_bitflip|first_block_vs_definition|value", P), format!("first block for seed {} differs from the definition", hex(&s)), replay_json(cfg, grp, case, json!({"seed": hex(&s)})));
        }
        if let Some(prev) = seen.insert(b, bit as i32) {
            rep.violation(&format!("{}|blake.seed_bitflip|first_block|repeat", P), format!("seeds differing in one bit give the same first block: base {} flipped bit {} vs {}", hex(&base), bit, if prev < 0 { "the base seed".to_string() } else { format!("flipped bit {}", prev) }), replay_json(cfg, grp, case, json!({"seed": hex(&base), "bit": bit, "other": prev})));
        }
    }
    rep.count_n("seed_bitflip", "one_bit_neighbours_compared", 512);
}

// ====================================================================== (2) freshness
fn hash_words(w: &[u64]) -> u128 {
    let mut h = blake3::Hasher::new();
    for x in w { h.update(&x.to_le_bytes()); }
    u128::from_le_bytes(h.finalize().as_bytes()[..16].try_into().unwrap())
}

fn fresh_spec(rng: &mut Rng, ns: &[usize]) -> Option<Spec> {
    let scheme = *rng.pick(&[SchemeType::BFV, SchemeType::BGV, SchemeType::CKKS]);
    let n = *rng.pick(ns);
    let logm = (2 * n).trailing_zeros();
    let k = rng.range(1, 4) as usize;
    let bits: Vec<u32> = (0..k).map(|_| rng.range(25.max(logm as u64 + 2), 55) as u32).collect();
    let qs = coeff_primes(n, &bits, rng)?;
    let t = if scheme == SchemeType::CKKS { 0 } else {
        match rng.below(3) {
            0 => ntt_primes(n, rng.range(logm as u64 + 1, 20) as u32, 4, 0).into_iter().find(|c| !qs.contains(c))?,
            1 => 1u64 << rng.range(1, 16),
            _ => { let mut c = rng.range(3, 1000) | 1; while !qs.iter().all(|&q| refm::gcd(q, c) == 1) { c += 2; } c }
        }
    };
    Some(Spec { scheme, n, qs, t, special_flag: rng.chance(1, 4), expand: rng.chance(4, 5), family: "c16".into() })
}

/// (is a level switch part of a public-key encryption at this level?, dropped prime)
fn switch_info(kit: &Kit, id: &ParmsID) -> (bool, u64) {
    let cd = kit.ctx.get_context_data(id).unwrap();
    match cd.prev_context_data() { Some(p) => (true, p.parms().coeff_modulus().last().unwrap().value()), None => (false, 0) }
}
/// worst-case |difference| of two public-key encryptions that share u (noise fresh): 42 per
/// coefficient, times t in BGV, plus the rounding of a level switch
fn pk_diff_bound(kit: &Kit, switched: bool, q_drop: u64) -> u64 {
    let tfac = if kit.spec.scheme == SchemeType::BGV { kit.spec.t } else { 1 };
    if switched { (42 / q_drop + 1).saturating_mul(tfac) } else { 42u64.saturating_mul(tfac) }
}

fn comp_coeff_form(kit: &Kit, ct: &Ciphertext, poly: usize, comp: usize) -> Vec<u64> {
    let cd = kit.ctx.get_context_data(ct.parms_id()).unwrap();
    let q = cd.parms().coeff_modulus()[comp].value();
    let c = ct.poly_component(poly, comp);
    if ct.is_ntt_form() { refm::intt_ref(c, cd.small_ntt_tables()[comp].root(), q) } else { c.to_vec() }
}

struct PkRec { op: u32, c1: Vec<u64> }
struct Hist<'a> {
    cfg: &'a Cfg, grp: &'a str, case: u64, os_entropy: bool,
    seen: HashMap<(u8, u128), (u32, &'static str)>,
    near: HashMap<(usize, u8, u64), Vec<u32>>,
    pk: Vec<PkRec>,
    log: Vec<Value>,
}
const NS_MASK: u8 = 0; const NS_SEED: u8 = 1; const NS_SK: u8 = 2; const NS_PAIR: u8 = 3;
fn ns_name(ns: u8) -> &'static str { match ns { NS_MASK => "mask", NS_SEED => "seed", NS_SK => "secret_key", _ => "pk_pair" } }

impl<'a> Hist<'a> {
    fn observe(&mut self, rep: &mut Report, ns: u8, id: u128, label: &'static str, op: u32, entropy_bits: f64) {
        if entropy_bits < 100.0 { rep.count("freshness_ids", &format!("{}|{}|skipped_entropy_below_100_bits", ns_name(ns), label)); rep.out_of_precondition += 1; return; }
        rep.count("freshness_ids", &format!("{}|{}", ns_name(ns), label));
        rep.evals(1);
        if self.log.len() < 10 { self.log.push(json!({"op": op, "kind": label, "id_type": ns_name(ns), "id": format!("{:032x}", id)})); }
        if let Some((pop, plabel)) = self.seen.insert((ns, id), (op, label)) {
            let (a, b) = if plabel <= label { (plabel, label) } else { (label, plabel) };
            rep.violation(&format!("{}|freshness.{}|{}~{}|repeat", P, ns_name(ns), a, b),
                format!("{} identifier {:032x} of operation #{} ({}) was already produced by operation #{} ({}) on the same context{}", ns_name(ns), id, op, label, pop, plabel, if self.os_entropy { " (OS entropy, not replayable)" } else { "" }),
                replay_json(self.cfg, self.grp, self.case, json!({"ops": [pop, op], "id": format!("{:032x}", id), "os_entropy": self.os_entropy})));
        }
    }
    /// secret-key style object (ciphertext, public key, key-switch key component): mask = c1, optional seed
    fn sym_ids(&mut self, rep: &mut Report, kit: &Kit, ct: &Ciphertext, label: &'static str, op: u32) {
        let n = kit.n();
        let q0 = kit.key_qs()[0] as f64;
        let ent = n as f64 * q0.log2();
        if ct.contains_seed() {
            let seed_words: Vec<u64> = ct.poly(1)[1..9].to_vec();
            self.observe(rep, NS_SEED, hash_words(&seed_words), label, op, 512.0);
            match lib(|| ct.clone().expand_seed(&kit.ctx)) {
                Ok(ex) => {
                    // expansion is a function of the stored seed alone
                    if let Ok(ex2) = lib(|| ct.clone().expand_seed(&kit.ctx)) { if ex2.data() != ex.data() { rep.violation(&format!("{}|expand_seed|{}|value", P, label), "expanding the same seeded object twice gives different polynomials".into(), replay_json(self.cfg, self.grp, self.case, json!({"op": op}))); } }
                    self.observe(rep, NS_MASK, hash_words(ex.poly_component(1, 0)), label, op, ent);
                }
                Err(p) => panic_v(self.cfg, self.grp, self.case, rep, "expand_seed", label, &p, json!({"op": op})),
            }
        } else {
            self.observe(rep, NS_MASK, hash_words(ct.poly_component(1, 0)), label, op, ent);
        }
    }
    fn ksk_ids(&mut self, rep: &mut Report, kit: &Kit, k: &KSwitchKeys, label: &'static str, op: u32) {
        let mut comps = 0;
        for v in k.data() { for pk in v { self.sym_ids(rep, kit, pk.as_ciphertext(), label, op); comps += 1; } }
        rep.max(&format!("components_per_{}", label), comps as f64);
    }
    /// public-key encryption: exact pair identifier, plus detection of a reused u under fresh noise
    fn pk_ids(&mut self, rep: &mut Report, kit: &Kit, ct: &Ciphertext, label: &'static str, op: u32) {
        let n = kit.n();
        let lq: f64 = kit.ctx.get_context_data(ct.parms_id()).unwrap().parms().coeff_modulus().iter().map(|m| (m.value() as f64).log2()).sum();
        let ent = (n as f64 * 9.0).min(2.0 * n as f64 * lq);
        self.observe(rep, NS_PAIR, hash_words(ct.data()), label, op, ent);
        // u reuse: c1 - c1' would be a small polynomial. Needs 3^N >> (#pairs) * 10^12.
        if n < 64 { rep.count("pk_u_reuse_check", "skipped_N<64"); return; }
        let (switched, q_drop) = switch_info(kit, ct.parms_id());
        let bound = pk_diff_bound(kit, switched, q_drop);
        let q0 = kit.key_qs()[0];
        let w = (4 * bound as u128 + 4).next_power_of_two() as u64;
        if (w as u128) * 16 > q0 as u128 { rep.count("pk_u_reuse_check", "skipped_bound_not_small_vs_q0"); rep.out_of_precondition += 1; return; }
        let li = kit.level_of(ct.parms_id()).unwrap_or(99);
        let c1 = comp_coeff_form(kit, ct, 1, 0);
        let v = c1[0];
        let mut keys = vec![(li, 0u8, v / w), (li, 1u8, (v + w / 2) / w)];
        if v < w / 2 || v >= q0 - w / 2 { keys.push((li, 2u8, 0)); }
        let me = self.pk.len() as u32;
        let mut cands: Vec<u32> = vec![];
        for k in &keys { if let Some(l) = self.near.get(k) { cands.extend(l); } }
        cands.sort(); cands.dedup();
        for &o in &cands {
            let other = &self.pk[o as usize];
            let close = c1.iter().zip(&other.c1).all(|(&a, &b)| { let d = refm::submod(a, b, q0); d <= bound || q0 - d <= bound });
            if close {
                rep.violation(&format!("{}|freshness.pk_mask|{}|u_reused", P, label), format!("public-key encryptions #{} and #{} at level {} have c1 polynomials that differ by at most {} in every coefficient (mod q0={}): the same u was used with different noise", other.op, op, li, bound, q0),
                    replay_json(self.cfg, self.grp, self.case, json!({"ops": [other.op, op], "os_entropy": self.os_entropy})));
            }
        }
        rep.count_n("pk_u_reuse_check", "candidate_pairs_verified", cands.len() as u64);
        rep.count("pk_u_reuse_check", "encryptions_indexed");
        for k in keys { self.near.entry(k).or_default().push(me); }
        self.pk.push(PkRec { op, c1 });
    }
}

fn some_plain(kit: &Kit, rng: &mut Rng, id: &ParmsID) -> Option<Plaintext> {
    if kit.spec.scheme == SchemeType::CKKS {
        let enc = kit.ckks.as_ref()?;
        let v = rng.f64() * 8.0 - 4.0;
        lib(|| enc.encode_f64_single_new(v, Some(*id), 1024.0)).ok()
    } else {
        let (_, c) = gen_plain(rng, kit.n(), kit.t());
        Some(kit.plain_from_coeffs(&c))
    }
}

fn history_case(cfg: &Cfg, grp: &str, case: u64, rng: &mut Rng, rep: &mut Report, nops: usize, os_entropy: bool) {
    if os_entropy { heathcliff::verif::set_thread_entropy(None); }
    let Some(spec) = fresh_spec(rng, &[64, 64, 64, 128]) else { rep.count("generator", "no_primes"); return };
    let kit = match Kit::new(&spec) { Ok(k) => k, Err(_) => { rep.count("generator", "context_rejected"); return } };
    rep.count("history_params", &format!("{}|n={}|k={}|levels={}|keyswitching={}|entropy={}", spec.scheme_name(), spec.n, spec.qs.len(), kit.levels.len(), kit.has_keyswitching(), if os_entropy { "os" } else { "hook" }));
    let mut h = Hist { cfg, grp, case, os_entropy, seen: HashMap::new(), near: HashMap::new(), pk: vec![], log: vec![] };
    let n = kit.n();
    let sk_ent = n as f64 * 3f64.log2();
    // the kit's own keys are part of the history
    h.observe(rep, NS_SK, hash_words(kit.sk.data()), "secret_key", 0, sk_ent);
    h.sym_ids(rep, &kit, kit.pk.as_ciphertext(), "public_key", 0);
    let other = match lib(|| KeyGenerator::new(kit.ctx.clone())) { Ok(k) => k, Err(p) => { panic_v(cfg, grp, case, rep, "KeyGenerator::new", "valid_context", &p, spec.describe()); return } };
    h.observe(rep, NS_SK, hash_words(other.secret_key().data()), "secret_key", 0, sk_ent);
    let ks = kit.has_keyswitching();
    for op in 1..=nops as u32 {
        let level = rng.usize_below(kit.levels.len());
        let id = *kit.levels[level].parms_id();
        let first = *kit.ctx.first_parms_id();
        let save = rng.bool();
        let draws0 = heathcliff::verif::thread_entropy_draws();
        let kind = rng.below(100);
        let name: &'static str;
        macro_rules! run { ($name:expr, $body:expr) => {{ match lib(|| $body) { Ok(v) => Some(v), Err(p) => { panic_v(cfg, grp, case, rep, $name, spec.scheme_name(), &p, json!({"params": spec.describe(), "op": op})); None } } }}; }
        match kind {
            0..=24 => { // public-key encryption
                name = "pk_encrypt";
                let ct = match rng.below(4) {
                    0 => some_plain(&kit, rng, &first).and_then(|p| run!("encrypt_new", kit.enc.encrypt_new(&p))),
                    1 => some_plain(&kit, rng, &first).and_then(|p| run!("encrypt", { let mut c = Ciphertext::new(); kit.enc.encrypt(&p, &mut c); c })),
                    2 => run!("encrypt_zero_new_at", kit.enc.encrypt_zero_new_at(&id)),
                    _ => run!("encrypt_zero_new", kit.enc.encrypt_zero_new()),
                };
                if let Some(ct) = ct { h.pk_ids(rep, &kit, &ct, name, op); }
            }
            25..=44 => { // secret-key encryption, mask stored in full
                name = "sk_encrypt";
                let ct = match rng.below(3) {
                    0 => some_plain(&kit, rng, &first).and_then(|p| run!("encrypt_symmetric", { let mut c = Ciphertext::new(); kit.enc.encrypt_symmetric(&p, &mut c); c })),
                    1 => run!("encrypt_zero_symmetric_at", { let mut c = Ciphertext::new(); kit.enc.encrypt_zero_symmetric_at(&id, &mut c); c }),
                    _ => run!("encrypt_zero_symmetric", { let mut c = Ciphertext::new(); kit.enc.encrypt_zero_symmetric(&mut c); c }),
                };
                if let Some(ct) = ct { h.sym_ids(rep, &kit, &ct, name, op); }
            }
            45..=64 => { // secret-key encryption, seeded
                name = "sk_encrypt_seeded";
                let ct = match rng.below(3) {
                    0 => some_plain(&kit, rng, &first).and_then(|p| run!("encrypt_symmetric_new", kit.enc.encrypt_symmetric_new(&p))),
                    1 => run!("encrypt_zero_symmetric_new_at", kit.enc.encrypt_zero_symmetric_new_at(&id)),
                    _ => run!("encrypt_zero_symmetric_new", kit.enc.encrypt_zero_symmetric_new()),
                };
                if let Some(ct) = ct {
                    if !ct.contains_seed() { rep.violation(&format!("{}|seeded_encrypt|{}|seed_missing", P, spec.scheme_name()), format!("seeded symmetric encryption returned no seed although the polynomial has {} words", n * kit.level_qs(level).len()), replay_json(cfg, grp, case, json!({"params": spec.describe(), "op": op}))); }
                    h.sym_ids(rep, &kit, &ct, name, op);
                }
            }
            65..=69 => { // a new key generator: fresh secret key (and a public key under it)
                name = "keygen_new";
                if let Some(kg) = run!("KeyGenerator::new", KeyGenerator::new(kit.ctx.clone())) {
                    h.observe(rep, NS_SK, hash_words(kg.secret_key().data()), "secret_key", op, sk_ent);
                    if let Some(pk) = run!("create_public_key", kg.create_public_key(save)) { h.sym_ids(rep, &kit, pk.as_ciphertext(), "public_key", op); }
                }
            }
            70..=77 => {
                name = "public_key";
                if let Some(pk) = run!("create_public_key", kit.keygen.create_public_key(save)) { h.sym_ids(rep, &kit, pk.as_ciphertext(), name, op); }
            }
            78..=84 if ks => {
                name = "relin_keys";
                if let Some(k) = run!("create_relin_keys", kit.keygen.create_relin_keys(save)) { h.ksk_ids(rep, &kit, k.as_kswitch_keys(), name, op); }
            }
            85..=92 if ks => {
                name = "galois_keys";
                let k = if rng.chance(1, 10) { run!("create_galois_keys", kit.keygen.create_galois_keys(save)) } else {
                    let elts: Vec<usize> = (0..rng.range(1, 3)).map(|_| rng.usize_below(n) * 2 + 1).collect();
                    run!("create_galois_keys_from_elts", kit.keygen.create_galois_keys_from_elts(&elts, save))
                };
                if let Some(k) = k { h.ksk_ids(rep, &kit, k.as_kswitch_keys(), name, op); }
            }
            93..=99 if ks => {
                name = "keyswitching_key";
                if let Some(k) = run!("create_keyswitching_key", kit.keygen.create_keyswitching_key(other.secret_key(), save)) { h.ksk_ids(rep, &kit, &k, name, op); }
            }
            _ => { // no key switching on a single-prime context: more encryptions
                name = "sk_encrypt";
                if let Some(ct) = run!("encrypt_zero_symmetric_at", { let mut c = Ciphertext::new(); kit.enc.encrypt_zero_symmetric_at(&id, &mut c); c }) { h.sym_ids(rep, &kit, &ct, name, op); }
            }
        }
        rep.count(if os_entropy { "history_ops_os_entropy" } else { "history_ops" }, &format!("{}|{}", spec.scheme_name(), name));
        if !os_entropy {
            let d = heathcliff::verif::thread_entropy_draws() - draws0;
            rep.min(&format!("generators_drawn_per_{}", name), d as f64);
            rep.max(&format!("generators_drawn_per_{}", name), d as f64);
        }
        rep.distinct_key(&format!("hist|{}|{}|{}|{}", spec.scheme_name(), name, kit.has_keyswitching(), os_entropy));
    }
    rep.max(if os_entropy { "history_identifiers_os_entropy" } else { "history_identifiers" }, h.seen.len() as f64);
    rep.max("history_length_ops", nops as f64);
    if case == 0 { rep.sample(json!({"group": grp, "case": case, "params": spec.describe(), "operations": nops, "distinct_identifiers": h.seen.len(), "pk_encryptions_indexed_for_u_reuse": h.pk.len(), "first_identifiers": h.log})); }
}

// ====================================================================== (2b) explicit generators
/// two generators in the same (not necessarily fresh) state
fn twin_generators(rng: &mut Rng) -> ([u8; 64], Vec<String>, BlakeRNG, BlakeRNG) {
    let seed = rand_seed(rng);
    let (mut a, mut b) = (blake(seed), blake(seed));
    let mut pre = vec![];
    for _ in 0..rng.below(4) {
        match rng.below(3) {
            0 => { let n = rng.usize_below(5000); let mut x = vec![0u8; n]; a.fill_bytes(&mut x); b.fill_bytes(&mut x); pre.push(format!("fill_bytes({})", n)); }
            1 => { a.next_u32(); b.next_u32(); pre.push("next_u32".into()); }
            _ => { a.next_u64(); b.next_u64(); pre.push("next_u64".into()); }
        }
    }
    (seed, pre, a, b)
}

fn level_ids(kit: &Kit) -> Vec<ParmsID> {
    let mut v: Vec<ParmsID> = kit.levels.iter().map(|l| *l.parms_id()).collect();
    let key = *kit.ctx.key_parms_id();
    if !v.contains(&key) { v.insert(0, key); }
    v
}

fn explicit_case(cfg: &Cfg, grp: &str, case: u64, rng: &mut Rng, rep: &mut Report) {
    let Some(spec) = fresh_spec(rng, &[4, 8, 16, 32, 32, 64]) else { rep.count("generator", "no_primes"); return };
    let kit = match Kit::new(&spec) { Ok(k) => k, Err(_) => { rep.count("generator", "context_rejected"); return } };
    let n = kit.n();
    let scheme = spec.scheme_name();
    let all_ids = level_ids(&kit);
    let first = *kit.ctx.first_parms_id();
    let ntt_default = spec.scheme != SchemeType::BFV;
    let noise_decidable = n >= 32; // P(two fresh noise polynomials coincide) <= 0.087^N
    let mut sample_done = false;
    // ---------------- secret-key family: c1 identical word for word, c0 fresh
    for ep in 0..8u32 {
        let (seed, pre, mut g1, mut g2) = twin_generators(rng);
        let id = *rng.pick(&all_ids);
        let data_id = *kit.levels[rng.usize_below(kit.levels.len())].parms_id();
        let is_ntt = rng.bool(); let save = rng.bool();
        let plain = some_plain(&kit, rng, &first);
        let epn: &'static str = ["rlwe::symmetric_with_c1_prng", "encrypt_symmetric_with_u_prng", "encrypt_symmetric_new_with_u_prng", "encrypt_zero_symmetric_with_u_prng", "encrypt_zero_symmetric_new_with_u_prng", "encrypt_zero_symmetric_at_with_u_prng", "encrypt_zero_symmetric_new_at_with_u_prng", "create_public_key_with_u_prng"][ep as usize];
        if (ep == 1 || ep == 2) && plain.is_none() { continue; }
        let call = |g: &mut BlakeRNG| -> Result<Ciphertext, Panicked> {
            lib(|| match ep {
                0 => { let mut c = Ciphertext::new(); encrypt_zero::symmetric_with_c1_prng(&kit.sk, &kit.ctx, &id, is_ntt, g, save, &mut c); c }
                1 => { let mut c = Ciphertext::new(); kit.enc.encrypt_symmetric_with_u_prng(plain.as_ref().unwrap(), g, &mut c); c }
                2 => kit.enc.encrypt_symmetric_new_with_u_prng(plain.as_ref().unwrap(), g),
                3 => { let mut c = Ciphertext::new(); kit.enc.encrypt_zero_symmetric_with_u_prng(g, &mut c); c }
                4 => kit.enc.encrypt_zero_symmetric_new_with_u_prng(g),
                5 => { let mut c = Ciphertext::new(); kit.enc.encrypt_zero_symmetric_at_with_u_prng(&data_id, g, &mut c); c }
                6 => kit.enc.encrypt_zero_symmetric_new_at_with_u_prng(&data_id, g),
                _ => kit.keygen.create_public_key_with_u_prng(save, g).as_ciphertext().clone(),
            })
        };
        let (r1, r2) = (call(&mut g1), call(&mut g2));
        let info = json!({"params": spec.describe(), "entry_point": epn, "generator_seed": hex(&seed), "generator_prefix_ops": pre, "is_ntt": is_ntt, "save_seed": save});
        let (a, b) = match (r1, r2) { (Ok(a), Ok(b)) => (a, b), (Err(p), _) | (_, Err(p)) => { panic_v(cfg, grp, case, rep, epn, scheme, &p, info); continue; } };
        let seeded = a.contains_seed();
        rep.count("explicit_generator", &format!("{}|{}|seeded={}", epn, scheme, seeded));
        rep.eval(Some(&format!("explicit|{}|{}|{}|n>=32:{}", epn, scheme, seeded, noise_decidable)));
        let mask_equal = a.size() == 2 && b.size() == 2 && a.parms_id() == b.parms_id() && a.poly(1) == b.poly(1) && seeded == b.contains_seed();
        if !mask_equal {
            rep.violation(&format!("{}|explicit_generator.mask|{}|value", P, epn), format!("two generators in the same state gave different c1 (seeded={}): first words {:?} vs {:?} ; {}", seeded, &a.poly(1)[..a.poly(1).len().min(3)], &b.poly(1)[..b.poly(1).len().min(3)], info), replay_json(cfg, grp, case, info.clone()));
        } else if seeded {
            // the expanded masks agree as well, and the stored seed is the next 64 bytes of the generator (informational)
            if let (Ok(ea), Ok(eb)) = (lib(|| a.clone().expand_seed(&kit.ctx)), lib(|| b.clone().expand_seed(&kit.ctx))) {
                if ea.poly(1) != eb.poly(1) { rep.violation(&format!("{}|explicit_generator.expanded_mask|{}|value", P, epn), format!("identical stored seeds expand to different c1 ; {}", info), replay_json(cfg, grp, case, info.clone())); }
            }
        }
        // the two generators are still in the same state afterwards
        let (mut t1, mut t2) = ([0u8; 24], [0u8; 24]);
        g1.fill_bytes(&mut t1); g2.fill_bytes(&mut t2);
        if t1 != t2 { rep.violation(&format!("{}|explicit_generator.state_after|{}|value", P, epn), format!("generators diverge after the call ; {}", info), replay_json(cfg, grp, case, info.clone())); }
        // fresh noise
        if noise_decidable {
            if a.poly(0) == b.poly(0) { rep.violation(&format!("{}|explicit_generator.noise|{}|reused", P, epn), format!("c0 identical in two encryptions with the same mask generator: the noise was not drawn fresh ; {}", info), replay_json(cfg, grp, case, info.clone())); }
        } else { rep.out_of_precondition += 1; }
        if !sample_done && case == 0 { sample_done = true; rep.sample(json!({"group": grp, "case": case, "entry_point": epn, "params": spec.describe(), "generator_seed": hex(&seed), "prefix_ops": pre, "seeded": seeded, "c1_first_words": [&a.poly(1)[..a.poly(1).len().min(4)], &b.poly(1)[..b.poly(1).len().min(4)]], "c0_first_words": [&a.poly(0)[..2.min(a.poly(0).len())], &b.poly(0)[..2.min(b.poly(0).len())]]})); }
    }
    // ---------------- public-key family: results differ only by fresh noise
    for ep in 0..7u32 {
        let (seed, pre, mut g1, mut g2) = twin_generators(rng);
        let id = *rng.pick(&all_ids);
        let data_id = *kit.levels[rng.usize_below(kit.levels.len())].parms_id();
        let is_ntt = rng.bool();
        let plain = some_plain(&kit, rng, &first);
        let epn: &'static str = ["rlwe::asymmetric_with_u_prng", "encrypt_with_u_prng", "encrypt_new_with_u_prng", "encrypt_zero_with_u_prng", "encrypt_zero_new_with_u_prng", "encrypt_zero_at_with_u_prng", "encrypt_zero_new_at_with_u_prng"][ep as usize];
        if (ep == 1 || ep == 2) && plain.is_none() { continue; }
        let call = |g: &mut BlakeRNG| -> Result<Ciphertext, Panicked> {
            lib(|| match ep {
                0 => { let mut c = Ciphertext::new(); encrypt_zero::asymmetric_with_u_prng(&kit.pk, &kit.ctx, &id, is_ntt, g, &mut c); c }
                1 => { let mut c = Ciphertext::new(); kit.enc.encrypt_with_u_prng(plain.as_ref().unwrap(), g, &mut c); c }
                2 => kit.enc.encrypt_new_with_u_prng(plain.as_ref().unwrap(), g),
                3 => { let mut c = Ciphertext::new(); kit.enc.encrypt_zero_with_u_prng(g, &mut c); c }
                4 => kit.enc.encrypt_zero_new_with_u_prng(g),
                5 => { let mut c = Ciphertext::new(); kit.enc.encrypt_zero_at_with_u_prng(&data_id, g, &mut c); c }
                _ => kit.enc.encrypt_zero_new_at_with_u_prng(&data_id, g),
            })
        };
        let (r1, r2) = (call(&mut g1), call(&mut g2));
        let info = json!({"params": spec.describe(), "entry_point": epn, "generator_seed": hex(&seed), "generator_prefix_ops": pre, "is_ntt": is_ntt});
        let (a, b) = match (r1, r2) { (Ok(a), Ok(b)) => (a, b), (Err(p), _) | (_, Err(p)) => { panic_v(cfg, grp, case, rep, epn, scheme, &p, info); continue; } };
        let _ = ntt_default;
        if a.size() != 2 || b.size() != 2 || a.parms_id() != b.parms_id() || a.is_ntt_form() != b.is_ntt_form() {
            rep.violation(&format!("{}|explicit_generator.pk_shape|{}|value", P, epn), format!("results of different shape ; {}", info), replay_json(cfg, grp, case, info.clone())); continue;
        }
        let (switched, q_drop) = if ep == 0 { (false, 0) } else { switch_info(&kit, a.parms_id()) };
        let bound = pk_diff_bound(&kit, switched, q_drop);
        rep.count("explicit_generator", &format!("{}|{}|level_switch={}", epn, scheme, switched));
        rep.eval(Some(&format!("explicit|{}|{}|{}|n>=32:{}", epn, scheme, switched, noise_decidable)));
        let cd = kit.ctx.get_context_data(a.parms_id()).unwrap();
        let qs: Vec<u64> = cd.parms().coeff_modulus().iter().map(|m| m.value()).collect();
        let mut worst = 0u64; let mut bad: Option<String> = None; let mut decidable = 0;
        'outer: for j in 0..2 {
            let mut reference: Option<Vec<i128>> = None;
            for (i, &q) in qs.iter().enumerate() {
                if (bound as u128) * 2 >= q as u128 { rep.out_of_precondition += 1; continue; }
                decidable += 1;
                let (ca, cb) = (comp_coeff_form(&kit, &a, j, i), comp_coeff_form(&kit, &b, j, i));
                let d: Vec<i128> = ca.iter().zip(&cb).map(|(&x, &y)| { let d = refm::submod(x, y, q); if d > q / 2 { d as i128 - q as i128 } else { d as i128 } }).collect();
                for (x, &v) in d.iter().enumerate() {
                    worst = worst.max(v.unsigned_abs() as u64);
                    if v.unsigned_abs() > bound as u128 { bad = Some(format!("c{}[{}] mod q_{}={} differs by {} > {}", j, x, i, q, v, bound)); break 'outer; }
                    if spec.scheme == SchemeType::BGV && v % spec.t as i128 != 0 { bad = Some(format!("c{}[{}] mod q_{}={} differs by {} which is not a multiple of t={}", j, x, i, q, v, spec.t)); break 'outer; }
                }
                match &reference { None => reference = Some(d), Some(r) => if *r != d { bad = Some(format!("difference polynomial of c{} is not the same integer polynomial in components 0 and {}", j, i)); break 'outer; } }
            }
        }
        if decidable > 0 { rep.max(&format!("pk_same_u_max_difference_over_bound_{}", scheme), worst as f64 / bound as f64); }
        if let Some(why) = bad {
            rep.violation(&format!("{}|explicit_generator.pk_mask|{}|value", P, epn), format!("two public-key encryptions with mask generators in the same state do not differ by fresh noise only: {} (level switch {}) ; {}", why, switched, info), replay_json(cfg, grp, case, info.clone()));
        }
        let (mut t1, mut t2) = ([0u8; 24], [0u8; 24]);
        g1.fill_bytes(&mut t1); g2.fill_bytes(&mut t2);
        if t1 != t2 { rep.violation(&format!("{}|explicit_generator.state_after|{}|value", P, epn), format!("generators diverge after the call ; {}", info), replay_json(cfg, grp, case, info.clone())); }
        // after a level switch the fresh noise (|e| <= 21) is divided by the dropped prime and rounded away, so the two
        // results legitimately coincide in almost every coefficient: freshness of the noise is only decidable without a switch
        if switched { rep.count("explicit_generator_noise", "pk_after_level_switch_not_decidable"); rep.out_of_precondition += 1; }
        else if noise_decidable {
            rep.count("explicit_generator_noise", "pk_fresh_noise_asserted");
            if a.data() == b.data() { rep.violation(&format!("{}|explicit_generator.noise|{}|reused", P, epn), format!("identical ciphertexts from two public-key encryptions with the same mask generator: the noise was not drawn fresh ; {}", info), replay_json(cfg, grp, case, info.clone())); }
        } else { rep.out_of_precondition += 1; }
    }
    rep.count("explicit_params", &format!("{}|n={}|k={}|levels={}", scheme, n, spec.qs.len(), kit.levels.len()));
}

// ====================================================================== (2c) factory
fn factory_case(cfg: &Cfg, grp: &str, case: u64, rng: &mut Rng, rep: &mut Report, os_entropy: bool) {
    if os_entropy { heathcliff::verif::set_thread_entropy(None); }
    let count = cfg.n(10_000, 10_000);
    let factory = BlakeRNGFactory::new(); // what HeContext::new installs as its generator factory
    let mut seen: HashMap<[u8; 64], usize> = HashMap::new();
    let mut first_heads: Vec<String> = vec![];
    for i in 0..count {
        let head = match lib(|| { let mut g = factory.get_rng(); let mut b = [0u8; 64]; g.fill_bytes(&mut b); b }) { Ok(h) => h, Err(p) => { panic_v(cfg, grp, case, rep, "BlakeRNGFactory::get_rng", "entropy", &p, json!({"i": i})); return; } };
        if i < 3 { first_heads.push(hex(&head[..16])); }
        rep.evals(1);
        if let Some(prev) = seen.insert(head, i) {
            rep.violation(&format!("{}|factory|first64|repeat", P), format!("generators #{} and #{} obtained from one entropy-seeded factory start with the same 64 bytes {} ({})", prev, i, hex(&head[..16]), if os_entropy { "OS entropy" } else { "hooked entropy" }), replay_json(cfg, grp, case, json!({"i": [prev, i], "os_entropy": os_entropy})));
            break;
        }
    }
    rep.count_n("factory", if os_entropy { "generators_os_entropy" } else { "generators_hooked_entropy" }, seen.len() as u64);
    rep.distinct_key(&format!("factory|{}", os_entropy));
    // a seeded factory hands out generators in the state defined by its seed
    let s = rand_seed(rng);
    let f2 = BlakeRNGFactory::from_seed(PRNGSeed(s));
    let want = Stream::new(s).bytes(0, 100);
    for _ in 0..3 {
        if let Ok(got) = lib(|| { let mut g = f2.get_rng(); let mut b = vec![0u8; 100]; g.fill_bytes(&mut b); b }) {
            rep.count("factory", "seeded_factory_vs_definition");
            if got != want { rep.violation(&format!("{}|factory|from_seed|value", P), format!("generator of a seeded factory does not produce the stream of its seed {}", hex(&s)), replay_json(cfg, grp, case, json!({"seed": hex(&s)}))); }
        }
    }
    if case == 0 && !os_entropy { rep.note(&format!("factory sample: first 16 bytes of the first three hooked generators: {:?}", first_heads)); }
}

// ====================================================================== statistics
fn ln_gamma(x: f64) -> f64 {
    // Lanczos (g = 7, n = 9)
    const C: [f64; 9] = [0.99999999999980993, 676.5203681218851, -1259.1392167224028, 771.32342877765313, -176.61502916214059, 12.507343278686905, -0.13857109526572012, 9.9843695780195716e-6, 1.5056327351493116e-7];
    if x < 0.5 { return (std::f64::consts::PI / (std::f64::consts::PI * x).sin()).ln() - ln_gamma(1.0 - x); }
    let x = x - 1.0;
    let mut a = C[0];
    let t = x + 7.5;
    for (i, c) in C.iter().enumerate().skip(1) { a += c / (x + i as f64); }
    0.5 * (2.0 * std::f64::consts::PI).ln() + (x + 0.5) * t.ln() - t + a.ln()
}
/// regularized upper incomplete gamma Q(a, x)
fn gamma_q(a: f64, x: f64) -> f64 {
    if x <= 0.0 { return 1.0; }
    if x < a + 1.0 {
        let (mut sum, mut term, mut ap) = (1.0 / a, 1.0 / a, a);
        for _ in 0..10000 { ap += 1.0; term *= x / ap; sum += term; if term.abs() < sum.abs() * 1e-16 { break; } }
        (1.0 - sum * (-x + a * x.ln() - ln_gamma(a)).exp()).max(0.0)
    } else {
        let tiny = 1e-300;
        let mut b = x + 1.0 - a; let mut c = 1.0 / tiny; let mut d = 1.0 / b; let mut h = d;
        for i in 1..10000 {
            let an = -(i as f64) * (i as f64 - a);
            b += 2.0;
            d = an * d + b; if d.abs() < tiny { d = tiny; }
            c = b + an / c; if c.abs() < tiny { c = tiny; }
            d = 1.0 / d;
            let del = d * c; h *= del;
            if (del - 1.0).abs() < 1e-16 { break; }
        }
        (-x + a * x.ln() - ln_gamma(a)).exp() * h
    }
}
fn chi2_p(stat: f64, df: usize) -> f64 { gamma_q(df as f64 / 2.0, stat / 2.0) }
fn normal_two_sided_p(z: f64) -> f64 { gamma_q(0.5, z * z / 2.0) }

/// Pearson statistic with categories of expected count < 100 pooled; returns (statistic, degrees of freedom)
fn pearson(obs: &[u64], prob: &[f64], n: u64) -> Option<(f64, usize)> {
    let mut bins: Vec<(f64, f64)> = vec![]; // (observed, expected)
    let mut pool = (0.0, 0.0);
    for (o, p) in obs.iter().zip(prob) {
        let e = p * n as f64;
        if e >= 100.0 { bins.push((*o as f64, e)); } else { pool.0 += *o as f64; pool.1 += e; }
    }
    if pool.1 >= 100.0 { bins.push(pool); } else if pool.1 > 0.0 || pool.0 > 0.0 {
        let i = (0..bins.len()).min_by(|&a, &b| bins[a].1.partial_cmp(&bins[b].1).unwrap())?;
        bins[i].0 += pool.0; bins[i].1 += pool.1;
    }
    if bins.len() < 2 { return None; }
    Some((bins.iter().map(|(o, e)| (o - e) * (o - e) / e).sum(), bins.len() - 1))
}

// ====================================================================== (3) samplers
const ERR_BOUND: i64 = 21;
fn binom42(k: u64) -> u64 { let mut r = 1u128; for i in 0..k.min(42 - k) { r = r * (42 - i) as u128 / (i + 1) as u128; } r as u64 }
/// P(e = v) for e = Bin(21,1/2) - Bin(21,1/2), v in [-21,21]
fn cbd_pmf(v: i64) -> f64 { binom42((v + 21) as u64) as f64 / (1u64 << 42) as f64 }

/// smallest integer v in [-b, b] with v = r_j (mod q_j) for all j; None if there is none
fn decode_small(res: &[u64], qs: &[u64], pivot: usize, b: i64) -> Option<i64> {
    let q = qs[pivot] as i128; let r = res[pivot] as i128;
    // candidates r - m*q in [-b, b], ascending
    let mut v = r - ((r + b as i128) / q) * q;
    while v <= b as i128 {
        if v >= -(b as i128) && res.iter().zip(qs).all(|(&rj, &qj)| (v.rem_euclid(qj as i128)) as u64 == rj) { return Some(v as i64); }
        v += q;
    }
    None
}

fn next_prime(mut x: u64) -> u64 { if x < 2 { return 2; } if x % 2 == 0 && x != 2 { x += 1; } while !refm::is_prime(x) { x += 2; } x }

fn sampler_params(rng: &mut Rng) -> Option<(usize, Vec<u64>, &'static str)> {
    let k = rng.range(1, 6) as usize;
    let fam = rng.below(4);
    let add = |v: &mut Vec<u64>, q: u64| -> bool { if v.contains(&q) || q >> 61 != 0 || q < 2 { false } else { v.push(q); true } };
    match fam {
        0 => { // primes that a context accepts for this degree, any size from the smallest
            let n = 1usize << rng.range(1, 10);
            let logm = (2 * n).trailing_zeros();
            let bits: Vec<u32> = (0..k).map(|_| rng.range((logm + 1).max(3) as u64, 60) as u32).collect();
            Some((n, coeff_primes(n, &bits, rng)?, "context_primes_any_size"))
        }
        1 => { // tiny NTT primes (< 2*21+1 and a little above) of degrees 2,4,8 mixed with larger ones
            let n = *rng.pick(&[2usize, 2, 4, 8]);
            let tiny: Vec<u64> = (3..70u64).filter(|&p| refm::is_prime(p) && p % (2 * n as u64) == 1).collect();
            let mut v = vec![];
            let nt = rng.range(1, k.min(tiny.len()) as u64) as usize;
            let mut guard = 0;
            while v.len() < nt && guard < 100 { add(&mut v, *rng.pick(&tiny)); guard += 1; }
            while v.len() < k && guard < 200 { let b = rng.range(8, 60) as u32; if let Some(c) = ntt_primes(n, b, 3, rng.usize_below(2)).first() { add(&mut v, *c); } guard += 1; }
            rng.shuffle(&mut v);
            Some((n, v, "tiny_ntt_primes"))
        }
        2 => { // arbitrary tiny primes (parameter objects a context would reject), incl. 2 and 3
            let n = 1usize << rng.range(1, 10);
            let tiny = [2u64, 3, 5, 7, 11, 13, 17, 19, 23, 29, 31, 37, 41, 43, 47, 53, 59, 61, 67];
            let mut v = vec![]; let mut guard = 0;
            while v.len() < k && guard < 200 { if rng.chance(3, 4) { add(&mut v, *rng.pick(&tiny)); } else { let b = rng.range(7, 60) as u32; let c = next_prime(rng.bits(b) | (1 << (b - 1)) | 1); add(&mut v, c); } guard += 1; }
            Some((n, v, "parms_only_tiny_primes"))
        }
        _ => { // large arbitrary primes including 2^61 - 1
            let n = 1usize << rng.range(1, 10);
            let mut v = vec![]; let mut guard = 0;
            while v.len() < k && guard < 200 { if rng.chance(1, 6) { add(&mut v, (1u64 << 61) - 1); } else { let b = rng.range(40, 61) as u32; let c = next_prime((rng.bits(b) | (1 << (b - 1)) | 1).min((1 << 61) - 200)); add(&mut v, c); } guard += 1; }
            Some((n, v, "parms_only_large_primes"))
        }
    }
}

fn sampler_case(cfg: &Cfg, grp: &str, case: u64, rng: &mut Rng, rep: &mut Report) {
    let Some((n, qs, fam)) = sampler_params(rng) else { rep.count("generator", "no_primes"); return };
    if qs.is_empty() { return; }
    let k = qs.len();
    let mods: Vec<Modulus> = match lib(|| qs.iter().map(|&q| Modulus::new(q)).collect()) { Ok(m) => m, Err(_) => { rep.count("generator", "modulus_rejected"); return } };
    let parms = match lib(|| EncryptionParameters::new(SchemeType::BFV).set_poly_modulus_degree(n).set_coeff_modulus(&mods)) { Ok(p) => p, Err(_) => { rep.count("generator", "parms_rejected"); return } };
    let seed = rand_seed(rng);
    let draws: usize = 1 << 20;
    let calls = (draws + n - 1) / n;
    let total = (calls * n) as u64;
    let pivot = (0..k).max_by_key(|&j| qs[j]).unwrap();
    let qmin = *qs.iter().min().unwrap();
    let tiny = if qmin < 43 { "has_prime_below_43" } else { "all_primes_above_42" };
    rep.count("sampler_params", &format!("{}|k={}|{}", fam, k, tiny));
    rep.count("sampler_degree", &format!("n={}", n));
    let info = json!({"n": n, "qs": qs, "family": fam, "generator_seed": hex(&seed)});
    let kcls = format!("k={},{}", k, tiny);
    let mut dest = vec![0u64; n * k];
    let mut res = vec![0u64; k];
    // ---------------------------------------------------------------- ternary
    {
        let mut g = blake(seed);
        let mut counts = [0u64; 3]; let mut failed = false;
        'tern: for _ in 0..calls {
            dest.iter_mut().for_each(|x| *x = u64::MAX);
            if let Err(p) = lib(|| sample::ternary(&mut g, &parms, &mut dest)) { panic_v(cfg, grp, case, rep, "sampler.ternary", &kcls, &p, info.clone()); failed = true; break; }
            for i in 0..n {
                for j in 0..k { res[j] = dest[i + j * n]; }
                if let Some(j) = (0..k).find(|&j| res[j] >= qs[j]) {
                    rep.violation(&format!("{}|sampler.ternary|{}|out_of_range", P, kcls), format!("ternary sample component {} = {} is not below q_j = {} ; {}", j, res[j], qs[j], info), replay_json(cfg, grp, case, info.clone())); failed = true; break 'tern;
                }
                match decode_small(&res, &qs, pivot, 1) {
                    Some(v) => counts[(v + 1) as usize] += 1,
                    None => { rep.violation(&format!("{}|sampler.ternary|{}|rns_mismatch", P, kcls), format!("ternary coefficient {} has residues {:?} modulo {:?}: no common value in {{-1,0,1}} ; {}", i, res, qs, info), replay_json(cfg, grp, case, info.clone())); failed = true; break 'tern; }
                }
            }
        }
        if !failed {
            // classes: values that the residues cannot tell apart (only q = 2 merges -1 and 1) are one category
            let mut prob = [0.0f64; 3];
            for v in -1..=1i64 { let r: Vec<u64> = qs.iter().map(|&q| v.rem_euclid(q as i64) as u64).collect(); let c = decode_small(&r, &qs, pivot, 1).unwrap(); prob[(c + 1) as usize] += 1.0 / 3.0; }
            if let Some((stat, df)) = pearson(&counts, &prob, total) {
                let p = chi2_p(stat, df);
                rep.min("p_value_min_ternary", p); rep.evals(1);
                rep.distinct_key(&format!("tern|{}|{}", fam, kcls));
                if p < 1e-12 { rep.violation(&format!("{}|sampler.ternary|{}|distribution", P, kcls), format!("ternary counts (-1,0,1) = {:?} over {} draws: chi2 = {:.1} (df {}), p = {:e} ; {}", counts, total, stat, df, p, info), replay_json(cfg, grp, case, info.clone())); }
            }
            if case == 0 { rep.sample(json!({"group": grp, "case": case, "params": info, "draws": total, "ternary_counts_minus1_0_plus1": counts})); }
        }
    }
    // ---------------------------------------------------------------- error (centered binomial)
    {
        let mut g = blake(seed);
        let mut counts = vec![0u64; 43]; let mut failed = false; let mut maxabs = 0i64;
        'err: for _ in 0..calls {
            dest.iter_mut().for_each(|x| *x = u64::MAX);
            if let Err(p) = lib(|| sample::centered_binomial(&mut g, &parms, &mut dest)) { panic_v(cfg, grp, case, rep, "sampler.error", &kcls, &p, info.clone()); failed = true; break; }
            for i in 0..n {
                for j in 0..k { res[j] = dest[i + j * n]; }
                if let Some(j) = (0..k).find(|&j| res[j] >= qs[j]) {
                    rep.violation(&format!("{}|sampler.error|{}|out_of_range", P, kcls), format!("error sample component {} = {} is not below q_j = {} ; {}", j, res[j], qs[j], info), replay_json(cfg, grp, case, info.clone())); failed = true; break 'err;
                }
                // decidable statement: the residues are those of ONE integer of magnitude <= 21
                match decode_small(&res, &qs, pivot, ERR_BOUND) {
                    Some(v) => { counts[(v + 21) as usize] += 1; maxabs = maxabs.max(v.abs()); }
                    None => { rep.violation(&format!("{}|sampler.error|{}|rns_mismatch_or_bound", P, kcls), format!("error coefficient {} has residues {:?} modulo {:?}: no common integer of magnitude <= 21 ; {}", i, res, qs, info), replay_json(cfg, grp, case, info.clone())); failed = true; break 'err; }
                }
            }
        }
        if !failed {
            let mut prob = vec![0.0f64; 43]; let mut classes = HashSet::new();
            for v in -21..=21i64 { let r: Vec<u64> = qs.iter().map(|&q| v.rem_euclid(q as i64) as u64).collect(); let c = decode_small(&r, &qs, pivot, ERR_BOUND).unwrap(); prob[(c + 21) as usize] += cbd_pmf(v); classes.insert(c); }
            rep.count("error_value_decidability", if classes.len() == 43 { "value_unique" } else { "only_residue_class_decidable" });
            if classes.len() == 43 { rep.max("error_max_abs_observed", maxabs as f64); }
            if let Some((stat, df)) = pearson(&counts, &prob, total) {
                let p = chi2_p(stat, df);
                rep.min("p_value_min_error", p); rep.evals(1);
                rep.distinct_key(&format!("err|{}|{}|{}", fam, kcls, classes.len() == 43));
                if p < 1e-12 {
                    let mean: f64 = counts.iter().enumerate().map(|(i, &c)| (i as f64 - 21.0) * c as f64).sum::<f64>() / total as f64;
                    rep.violation(&format!("{}|sampler.error|{}|distribution", P, kcls), format!("error sample law differs from Bin(21,1/2)-Bin(21,1/2): chi2 = {:.1} (df {}), p = {:e}, mean {:.4}, {} draws, counts around 0: {:?} ; {}", stat, df, p, mean, total, &counts[18..25], info), replay_json(cfg, grp, case, info.clone()));
                }
            }
        }
    }
    // ---------------------------------------------------------------- uniform
    {
        let mut g = blake(seed);
        let mut buckets: Vec<Vec<u64>> = qs.iter().map(|&q| vec![0u64; q.min(64) as usize]).collect();
        let mut sums = vec![0u128; k]; let mut failed = false;
        'uni: for _ in 0..calls {
            dest.iter_mut().for_each(|x| *x = u64::MAX);
            if let Err(p) = lib(|| sample::uniform(&mut g, &parms, &mut dest)) { panic_v(cfg, grp, case, rep, "sampler.uniform", &kcls, &p, info.clone()); failed = true; break; }
            for j in 0..k {
                let q = qs[j]; let nb = q.min(64);
                for i in 0..n {
                    let v = dest[i + j * n];
                    if v >= q { rep.violation(&format!("{}|sampler.uniform|{}|out_of_range", P, kcls), format!("uniform sample {} in component {} is not below q_j = {} ; {}", v, j, q, info), replay_json(cfg, grp, case, info.clone())); failed = true; break 'uni; }
                    buckets[j][(v as u128 * nb as u128 / q as u128) as usize] += 1;
                    sums[j] += v as u128;
                }
            }
        }
        if !failed {
            for j in 0..k {
                let q = qs[j]; let nb = q.min(64) as u128;
                // bucket b holds the values v with floor(v*nb/q) = b, i.e. ceil(b*q/nb) <= v < ceil((b+1)*q/nb)
                let edge = |b: u128| -> u128 { (b * q as u128 + nb - 1) / nb };
                let prob: Vec<f64> = (0..nb).map(|b| (edge(b + 1) - edge(b)) as f64 / q as f64).collect();
                rep.evals(1);
                if let Some((stat, df)) = pearson(&buckets[j], &prob, total) {
                    let p = chi2_p(stat, df);
                    rep.min("p_value_min_uniform_buckets", p);
                    if p < 1e-12 { rep.violation(&format!("{}|sampler.uniform|{}|distribution", P, kcls), format!("uniform samples modulo q_{} = {}: {}-bucket chi2 = {:.1} (df {}), p = {:e}, {} draws ; {}", j, q, nb, stat, df, p, total, info), replay_json(cfg, grp, case, info.clone())); }
                }
                if q >= 3 {
                    // mean (q-1)/2, variance (q^2-1)/12
                    let dev = (2 * sums[j]) as f64 - total as f64 * (q - 1) as f64; // 2*(S - N(q-1)/2), fits f64 with relative error 2^-52
                    let sd = 2.0 * (total as f64 * ((q as f64) * (q as f64) - 1.0) / 12.0).sqrt();
                    let z = dev / sd;
                    let p = normal_two_sided_p(z);
                    rep.min("p_value_min_uniform_mean", p);
                    if p < 1e-12 { rep.violation(&format!("{}|sampler.uniform|{}|mean", P, kcls), format!("uniform samples modulo q_{} = {}: mean deviates by z = {:.2} (p = {:e}) over {} draws ; {}", j, q, z, p, total, info), replay_json(cfg, grp, case, info.clone())); }
                }
            }
            rep.distinct_key(&format!("uni|{}|{}", fam, kcls));
        }
    }
    rep.count_n("sampler_draws", "coefficients_per_sampler", total);
}

// ====================================================================== driver
pub fn run(cfg: &Cfg, rep: &mut Report) -> PropMeta {
    let mut t = std::time::Instant::now();
    let mut lap = |rep: &mut Report, g: &str| { rep.max(&format!("wall_s_{}", g), t.elapsed().as_secs_f64()); t = std::time::Instant::now(); };
    // (1) generator
    run_cases(cfg, "blake_ops", cfg.n(16000, 200000) as u64, rep, |i, rng, rep| ops_case(cfg, "blake_ops", i, rng, rep));
    lap(rep, "blake_ops");
    run_cases(cfg, "blake_chunkings", cfg.n(6000, 60000) as u64, rep, |i, rng, rep| chunk_case(cfg, "blake_chunkings", i, rng, rep));
    lap(rep, "blake_chunkings");
    run_cases(cfg, "blake_norepeat", cfg.n(16, 16) as u64, rep, |i, rng, rep| norepeat_case(cfg, "blake_norepeat", i, rng, rep));
    run_cases(cfg, "blake_counter_wrap", cfg.pick(2, 8), rep, |i, rng, rep| wrap_case(cfg, "blake_counter_wrap", i, rng, rep));
    lap(rep, "blake_norepeat");
    run_cases(cfg, "blake_bitflip", cfg.n(32, 256) as u64, rep, |i, rng, rep| bitflip_case(cfg, "blake_bitflip", i, rng, rep));
    lap(rep, "blake_bitflip");
    // (2) freshness
    let hist_ops = cfg.n(1000, 100_000);
    run_cases(cfg, "history", cfg.pick(64, 32), rep, |i, rng, rep| history_case(cfg, "history", i, rng, rep, hist_ops, false));
    lap(rep, "history");
    let hist_os = cfg.n(250, 5000);
    run_cases(cfg, "history_os_entropy", cfg.pick(32, 32), rep, |i, rng, rep| history_case(cfg, "history_os_entropy", i, rng, rep, hist_os, true));
    lap(rep, "history_os_entropy");
    run_cases(cfg, "explicit", cfg.n(4000, 40000) as u64, rep, |i, rng, rep| explicit_case(cfg, "explicit", i, rng, rep));
    lap(rep, "explicit");
    run_cases(cfg, "factory", 2, rep, |i, rng, rep| factory_case(cfg, "factory", i, rng, rep, false));
    run_cases(cfg, "factory_os_entropy", 2, rep, |i, rng, rep| factory_case(cfg, "factory_os_entropy", i, rng, rep, true));
    lap(rep, "factory");
    // (3) samplers
    run_cases(cfg, "samplers", cfg.n(160, 2000) as u64, rep, |i, rng, rep| sampler_case(cfg, "samplers", i, rng, rep));
    lap(rep, "samplers");
    PropMeta {
        id: "C16", level: "exploration",
        rule: "generator: random sequences of fill_bytes/try_fill_bytes/next_u32/next_u64 biased to end within +-9 bytes of a 4096-byte refill (lengths 0..20000, seeds random/all-zero/all-ff/single-bit) against the BLAKE3-XOF(seed||counter) block definition; 9 chunkings per (seed,total) incl. bytewise, 4095/4097, zero-length; per seed 8 MiB (quick) / 256 MiB (thorough) checked block-wise against the definition and for repeated 4096-byte blocks / 16-byte aligned windows; all 512 one-bit neighbours of a seed. freshness: per context (BFV/BGV/CKKS, N=64/128, 1..4 primes) histories of 10^3/10^5 operations (7 kinds) reduced to mask/seed/secret-key/ciphertext-pair identifiers + near-duplicate search for a reused u; same histories on OS entropy; 15 explicit-generator entry points x twin generators; 10^4 factory generators. samplers: 4 parameter families (context primes of any size, tiny NTT primes, arbitrary tiny primes incl. 2 and 3, large arbitrary primes incl. 2^61-1), 1..6 primes, 2^20 coefficients per sampler and case. distinct = distinct (operation, cursor alignment, refill position) / (chunking) / (scheme, history operation) / (entry point, scheme, seeded or switched) / (sampler, family, k) classes",
        assumptions: vec![
            "little-endian host: word reads are compared with the little-endian decoding of the stream bytes".into(),
            "word reads may sit at any offset between the cursor and the cursor rounded up to the word width (alignment policy is not part of the property); byte reads are exact".into(),
            "uniqueness is asserted only for identifiers with >= 100 bits of entropy (mask: N*log2 q0, secret key: N*log2 3, pk pair: min(9N, ciphertext bits)); u-reuse search only for N >= 64 and 64*(noise bound) <= q0".into(),
            "fresh-noise assertions (c0 differs) only for N >= 32".into(),
            "same-u public-key pairs: difference bound 42 (x t in BGV; floor(42/q_dropped)+1 (x t) after the level switch of Encryptor public-key encryption), asserted per RNS component only when 2*bound < q_j; relies on exact divide-and-round of the level switch (C05/C10)".into(),
            "chi-square p-values from the asymptotic law with categories of expected count < 100 pooled; threshold 1e-12; samplers driven by BlakeRNG::from_seed(case seed) so the statistics are functions of VERIF_SEED".into(),
            "OS-entropy groups (history_os_entropy, factory_os_entropy) are not replayable; their violations carry the identifiers".into(),
            "the context's own generator factory is private; it is observed through the histories, and BlakeRNGFactory::new() (what the context installs) directly".into(),
        ],
        exhaustive: false, floor: 20000,
    }
}
